/-
  The completeness invariant `InvC` of the engine model for programs without `Fixpoint` nodes
  (core Lean only), on top of `InvF` (Proofs/CycleFb.lean):

    * the memoised sets are closed under callees (a callee of a cached memo is final, cached or
      an active cycle head);
    * head sets are COMPLETE: the heads of a cached memo `y` contain every active query that `y`
      reaches through non-active nodes (`Via s.stack y k`);
    * every recorded head has a provisional value;
    * a memo (cached or final) of a `fallback` node that lies on a cycle is its fallback value.

  This file: the invariant and its preservation by the five state transitions of the engine
  (push, new provisional value, completion as cached / final / converged outermost head).
-/
import SalsaVerif.Proofs.CycleFbCompleteGraph

namespace SalsaVerif.Proofs.Cycle
open SalsaVerif.Model.Cycle

/-- the node recovers with `cycle_result`. -/
def IsFb (P : Prog) (x : Nat) : Prop := ∃ fv, (P.node x).strat = .fallback fv

/-- `c` has a memo a reader can use: final, cached, or an active cycle head. -/
def Memo (s : St) (c : Nat) : Prop :=
  (s.final.lookup c).isSome = true ∨ s.cache.lookup c ≠ none ∨
    (c ∈ s.stack ∧ isHead s.prov c = true)

theorem mem_substHeads_of_ne {c : Nat} {hc hs : List Nat} {k : Nat} (h : k ∈ hs) (hk : k ≠ c) :
    k ∈ substHeads c hc hs := by
  unfold substHeads
  rw [List.mem_flatMap]
  exact ⟨k, h, by rw [if_neg hk]; exact List.mem_singleton.mpr rfl⟩

theorem mem_substHeads_of_mem {c : Nat} {hc hs : List Nat} {k : Nat} (h : c ∈ hs) (hk : k ∈ hc) :
    k ∈ substHeads c hc hs := by
  unfold substHeads
  rw [List.mem_flatMap]
  exact ⟨c, h, by rw [if_pos rfl]; exact hk⟩

theorem lookup_ne_none_of_cval {s : St} {c w : Nat} (h : cval s c = some w) :
    s.cache.lookup c ≠ none := by
  intro hn
  simp [cval, hn] at h

theorem isHead_of_lookup {prov : List (Nat × Nat)} {c w : Nat} (h : prov.lookup c = some w) :
    isHead prov c = true := by
  simp [isHead, h]

section
variable (P : Prog) (env : Nat → Nat)

/-- the completeness invariant (see the file header). -/
structure InvC (s : St) : Prop where
  finalClosed : ∀ x w, s.final.lookup x = some w →
    ∀ c ∈ callees env ρ0 (P.node x).body, (s.final.lookup c).isSome = true
  cacheClosed : ∀ y e, s.cache.lookup y = some e →
    ∀ c ∈ callees env ρ0 (P.node y).body, Memo s c
  headsC : ∀ y e, s.cache.lookup y = some e → ∀ k ∈ s.stack, Via P env s.stack y k → k ∈ e.heads
  headsHead : ∀ y e, s.cache.lookup y = some e → ∀ k ∈ e.heads, isHead s.prov k = true
  cacheFb : ∀ y e, s.cache.lookup y = some e → Reach P env y y → IsFb P y →
    e.val = fallbackValue P y
  finalFb : ∀ x w, s.final.lookup x = some w → Reach P env x x → IsFb P x →
    w = fallbackValue P x

variable {P env}

theorem avail_memo {s : St} (hI : InvF P env s) {c w : Nat} (h : Avail s c w) : Memo s c := by
  rcases h with h | h | h
  · left; rw [h]; rfl
  · have hh : isHead s.prov c = true := isHead_of_lookup h
    rcases hI.provDom c hh with h1 | h1
    · exact Or.inr (Or.inr ⟨h1, hh⟩)
    · exact Or.inr (Or.inl h1)
  · exact Or.inr (Or.inl (lookup_ne_none_of_cval h))

/-- everything a final memo reaches is final. -/
theorem InvC.final_via {s : St} (hC : InvC P env s) {S : List Nat} {x k : Nat}
    (hv : Via P env S x k) (hx : (s.final.lookup x).isSome = true) :
    (s.final.lookup k).isSome = true := by
  induction hv with
  | @step a c hc =>
    cases hl : s.final.lookup a with
    | none => rw [hl] at hx; cases hx
    | some w => exact hC.finalClosed a w hl c hc
  | @cons a c k hc _ _ ih =>
    cases hl : s.final.lookup a with
    | none => rw [hl] at hx; cases hx
    | some w => exact ih (hC.finalClosed a w hl c hc)

/-- everything a cached memo reaches through non-active nodes has a memo. -/
theorem InvC.memo_via {s : St} (hC : InvC P env s) {y k : Nat}
    (hv : Via P env s.stack y k) (hy : s.cache.lookup y ≠ none) : Memo s k := by
  induction hv with
  | @step a c hc =>
    cases hl : s.cache.lookup a with
    | none => exact absurd hl hy
    | some e => exact hC.cacheClosed a e hl c hc
  | @cons a c k hc hn hv ih =>
    cases hl : s.cache.lookup a with
    | none => exact absurd hl hy
    | some e =>
      rcases hC.cacheClosed a e hl c hc with h | h | h
      · exact Or.inl (hC.final_via hv h)
      · exact ih h
      · exact absurd h.1 hn

/-- push of a query without a memo. -/
theorem inv_pushC {s : St} {j : Nat} (hC : InvC P env s) (hj : j ∉ s.stack)
    (hf : s.final.lookup j = none) (hc : s.cache.lookup j = none) :
    InvC P env { s with stack := j :: s.stack } := by
  refine ⟨hC.finalClosed, ?_, ?_, hC.headsHead, hC.cacheFb, hC.finalFb⟩
  · intro y e hy c hcc
    rcases hC.cacheClosed y e hy c hcc with h | h | h
    · exact Or.inl h
    · exact Or.inr (Or.inl h)
    · exact Or.inr (Or.inr ⟨List.mem_cons_of_mem _ h.1, h.2⟩)
  · intro y e hy k hk hv
    have hv' : Via P env s.stack y k := Via.mono (fun x hx => List.mem_cons_of_mem _ hx) hv
    have hy' : s.cache.lookup y = some e := hy
    cases hk with
    | head =>
      exfalso
      have hne : s.cache.lookup y ≠ none := by rw [hy']; exact fun h => nomatch h
      rcases hC.memo_via hv' hne with h | h | h
      · rw [hf] at h; cases h
      · exact h hc
      · exact hj h.1
    | tail _ hk => exact hC.headsC y e hy' k hk hv'

/-- a new provisional value. -/
theorem inv_provC {s : St} {c w : Nat} (hC : InvC P env s) :
    InvC P env { s with prov := (c, w) :: s.prov } := by
  have hmono : ∀ k, isHead s.prov k = true → isHead ((c, w) :: s.prov) k = true := by
    intro k hk
    by_cases hkc : k = c
    · subst hkc; simp [isHead]
    · unfold isHead at hk ⊢
      rw [lookup_cons_ne _ _ hkc]; exact hk
  refine ⟨hC.finalClosed, ?_, hC.headsC, ?_, hC.cacheFb, hC.finalFb⟩
  · intro y e hy c' hcc
    rcases hC.cacheClosed y e hy c' hcc with h | h | h
    · exact Or.inl h
    · exact Or.inr (Or.inl h)
    · exact Or.inr (Or.inr ⟨h.1, hmono c' h.2⟩)
  · intro y e hy k hk
    exact hmono k (hC.headsHead y e hy k hk)

/-- a query completes as a provisional memo: its head set is complete, the head sets of the
    older memos stay complete under the substitution. -/
theorem completeC_cached (s1 : St) (j : Nat) (rest : List Nat) (v' : Nat) (hs' : List Nat)
    (hI : InvF P env s1) (hC : InvC P env s1) (hst : s1.stack = j :: rest)
    (hmemo : ∀ c ∈ callees env ρ0 (P.node j).body, Memo s1 c)
    (hhh : ∀ k ∈ hs', isHead s1.prov k = true)
    (hcomp : ∀ k ∈ rest, Via P env (j :: rest) j k → k ∈ hs')
    (hval : Reach P env j j → IsFb P j → v' = fallbackValue P j) :
    InvC P env (stCached s1 j v' hs') := by
  have hjm : j ∈ s1.stack := by rw [hst]; exact List.mem_cons_self
  obtain ⟨hjc, hjf⟩ := hI.stackFresh j hjm
  have hnd := hI.nodup
  rw [hst] at hnd
  obtain ⟨hjr, _⟩ := List.nodup_cons.mp hnd
  have htail : s1.stack.tail = rest := by rw [hst]; rfl
  have hstk : (stCached s1 j v' hs').stack = rest := htail
  have hself : (stCached s1 j v' hs').cache.lookup j = some ⟨v', hs'⟩ := lookup_cons_self _ _ _
  have hother : ∀ y e, y ≠ j → (stCached s1 j v' hs').cache.lookup y = some e →
      ∃ e0, s1.cache.lookup y = some e0 ∧ e = ⟨e0.val, substHeads j hs' e0.heads⟩ := by
    intro y e hyj hy
    have hy' : ((j, (⟨v', hs'⟩ : Entry)) :: substCache j hs' s1.cache).lookup y = some e := hy
    rw [lookup_cons_ne _ _ hyj] at hy'
    exact lookup_substCache_some j hs' s1.cache y e hy'
  have hkeep : ∀ x, s1.cache.lookup x ≠ none → (stCached s1 j v' hs').cache.lookup x ≠ none := by
    intro x hx
    by_cases hxj : x = j
    · subst hxj; rw [hself]; exact fun h => nomatch h
    · show ((j, (⟨v', hs'⟩ : Entry)) :: substCache j hs' s1.cache).lookup x ≠ none
      rw [lookup_cons_ne _ _ hxj]
      exact fun hn => hx ((lookup_substCache_none j hs' s1.cache x).mp hn)
  have hmm : ∀ c, Memo s1 c → Memo (stCached s1 j v' hs') c := by
    intro c h
    rcases h with h | h | h
    · exact Or.inl h
    · exact Or.inr (Or.inl (hkeep c h))
    · by_cases hcj : c = j
      · subst hcj
        right; left; rw [hself]; exact fun h => nomatch h
      · right; right
        refine ⟨?_, h.2⟩
        rw [hstk]
        have := h.1
        rw [hst] at this
        cases this with
        | head => exact absurd rfl hcj
        | tail _ h' => exact h'
  refine ⟨hC.finalClosed, ?_, ?_, ?_, ?_, hC.finalFb⟩
  · intro y e hy c hc
    by_cases hyj : y = j
    · subst hyj; exact hmm c (hmemo c hc)
    · obtain ⟨e0, h0, _⟩ := hother y e hyj hy
      exact hmm c (hC.cacheClosed y e0 h0 c hc)
  · intro y e hy k hk hv
    rw [hstk] at hk hv
    have hkj : k ≠ j := by intro e'; subst e'; exact hjr hk
    by_cases hyj : y = j
    · subst hyj
      rw [hself] at hy
      injection hy with hy; subst hy
      exact hcomp k hk (hv.last hkj)
    · obtain ⟨e0, h0, he⟩ := hother y e hyj hy
      subst he
      have hks : k ∈ s1.stack := by rw [hst]; exact List.mem_cons_of_mem _ hk
      rcases hv.split j hkj with h1 | h1
      · have : k ∈ e0.heads := hC.headsC y e0 h0 k hks (by rw [hst]; exact h1)
        exact mem_substHeads_of_ne this hkj
      · have hj0 : j ∈ e0.heads := hC.headsC y e0 h0 j hjm (by rw [hst]; exact h1.1)
        exact mem_substHeads_of_mem hj0 (hcomp k hk h1.2)
  · intro y e hy k hk
    show isHead s1.prov k = true
    by_cases hyj : y = j
    · subst hyj
      rw [hself] at hy
      injection hy with hy; subst hy
      exact hhh k hk
    · obtain ⟨e0, h0, he⟩ := hother y e hyj hy
      subst he
      rcases mem_substHeads hk with ⟨h1, _⟩ | ⟨h1, _⟩
      · exact hhh k h1
      · exact hC.headsHead y e0 h0 k h1
  · intro y e hy hr hfb
    by_cases hyj : y = j
    · subst hyj
      rw [hself] at hy
      injection hy with hy; subst hy
      exact hval hr hfb
    · obtain ⟨e0, h0, he⟩ := hother y e hyj hy
      subst he
      exact hC.cacheFb y e0 h0 hr hfb

/-- a query completes with no head anywhere: everything it read is final. -/
theorem completeC_final (s1 : St) (j : Nat) (v : Nat)
    (hC : InvC P env s1) (hc0 : s1.cache = []) (hp0 : s1.prov = [])
    (hmemo : ∀ c ∈ callees env ρ0 (P.node j).body, Memo s1 c)
    (hval : Reach P env j j → IsFb P j → v = fallbackValue P j) :
    InvC P env (stFinal s1 j v) := by
  have hfin : ∀ c, (s1.final.lookup c).isSome = true →
      ((stFinal s1 j v).final.lookup c).isSome = true := by
    intro c h
    show (((j, v) :: s1.final).lookup c).isSome = true
    by_cases hcj : c = j
    · subst hcj; rw [lookup_cons_self]; rfl
    · rw [lookup_cons_ne _ _ hcj]; exact h
  have hm : ∀ c, Memo s1 c → (s1.final.lookup c).isSome = true := by
    intro c h
    rcases h with h | h | h
    · exact h
    · rw [hc0] at h; exact absurd rfl h
    · have := h.2; rw [hp0] at this; simp [isHead] at this
  refine ⟨?_, ?_, ?_, ?_, ?_, ?_⟩
  · intro x w hx c hc
    have hx' : ((j, v) :: s1.final).lookup x = some w := hx
    by_cases hxj : x = j
    · subst hxj; exact hfin c (hm c (hmemo c hc))
    · rw [lookup_cons_ne _ _ hxj] at hx'
      exact hfin c (hC.finalClosed x w hx' c hc)
  · intro y e hy
    have hy' : s1.cache.lookup y = some e := hy
    rw [hc0] at hy'; cases hy'
  · intro y e hy
    have hy' : s1.cache.lookup y = some e := hy
    rw [hc0] at hy'; cases hy'
  · intro y e hy
    have hy' : s1.cache.lookup y = some e := hy
    rw [hc0] at hy'; cases hy'
  · intro y e hy
    have hy' : s1.cache.lookup y = some e := hy
    rw [hc0] at hy'; cases hy'
  · intro x w hx hr hfb
    have hx' : ((j, v) :: s1.final).lookup x = some w := hx
    by_cases hxj : x = j
    · subst hxj
      rw [lookup_cons_self] at hx'
      injection hx' with hx'; subst hx'
      exact hval hr hfb
    · rw [lookup_cons_ne _ _ hxj] at hx'
      exact hC.finalFb x w hx' hr hfb

/-- the outermost head converges: every cached memo becomes final. -/
theorem completeC_converged (s1 : St) (j : Nat) (rest : List Nat)
    (hC : InvC P env s1) (hst : s1.stack = j :: rest)
    (hbelow : ¬ s1.stack.tail.any (isHead s1.prov) = true)
    (hmemo : ∀ c ∈ callees env ρ0 (P.node j).body, Memo s1 c) :
    InvC P env (stConv s1 j (fallbackValue P j)) := by
  have htail : s1.stack.tail = rest := by rw [hst]; rfl
  have hm : ∀ c, Memo s1 c →
      ((stConv s1 j (fallbackValue P j)).final.lookup c).isSome = true := by
    intro c h
    rw [stConv_final]
    by_cases hcj : c = j
    · subst hcj; rw [cv1_self]; rfl
    · rw [cv1_ne s1 j _ hcj]
      rcases h with h | h | h
      · cases hcv : cval s1 c with
        | some w => rfl
        | none => exact h
      · cases hl : s1.cache.lookup c with
        | none => exact absurd hl h
        | some e => simp [cval, hl]
      · exfalso
        apply hbelow
        rw [below_iff]
        have := h.1
        rw [hst] at this
        cases this with
        | head => exact absurd rfl hcj
        | tail _ h' => exact ⟨c, by rw [htail]; exact h', h.2⟩
  refine ⟨?_, ?_, ?_, ?_, ?_, ?_⟩
  · intro x w hx c hc
    rw [stConv_final] at hx
    by_cases hxj : x = j
    · subst hxj; exact hm c (hmemo c hc)
    · rw [cv1_ne s1 j _ hxj] at hx
      cases hl : s1.cache.lookup x with
      | some e => exact hm c (hC.cacheClosed x e hl c hc)
      | none =>
        have hcv : cval s1 x = none := by simp [cval, hl]
        rw [hcv] at hx
        have hx' : s1.final.lookup x = some w := hx
        exact hm c (Or.inl (hC.finalClosed x w hx' c hc))
  · intro y e hy; cases hy
  · intro y e hy; cases hy
  · intro y e hy; cases hy
  · intro y e hy; cases hy
  · intro x w hx hr hfb
    rw [stConv_final] at hx
    by_cases hxj : x = j
    · subst hxj
      rw [cv1_self] at hx
      injection hx with hx
      exact hx.symm
    · rw [cv1_ne s1 j _ hxj] at hx
      cases hl : s1.cache.lookup x with
      | some e =>
        have hcv : cval s1 x = some e.val := by simp [cval, hl]
        rw [hcv] at hx
        injection hx with hx
        rw [← hx]; exact hC.cacheFb x e hl hr hfb
      | none =>
        have hcv : cval s1 x = none := by simp [cval, hl]
        rw [hcv] at hx
        exact hC.finalFb x w hx hr hfb

end

end SalsaVerif.Proofs.Cycle
