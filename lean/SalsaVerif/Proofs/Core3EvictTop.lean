/-
  Core3 engine, stage S3b: `eng_ok`, `fetch_sound`, eviction and revision bumps, `step_inv`,
  `run_inv`, and the soundness theorem `c01_s3` for ALL well-formed programs (including `lru`
  kinds whose values are evicted).  Core Lean only.
-/
import SalsaVerif.Proofs.Core3EvictFetch

namespace SalsaVerif.Proofs.Core3E
open SalsaVerif.Model.Core3 SalsaVerif.Proofs.Core3
open SalsaVerif.Model.Lru (Lru forEachEvicted setCapacity)

theorem eng_ok {P} (hP : Wf P) : ∀ r, FetchSpecE P r (eng P r).1 ∧ McaSpecE P r (eng P r).2 := by
  intro r
  induction r with
  | zero => exact ⟨⟨by intro s q h; omega⟩, ⟨by intro s q rev h; omega⟩⟩
  | succ r ih =>
    obtain ⟨hfe, hmc⟩ := ih
    constructor
    · constructor
      intro s q hq hI
      simp only [eng]
      by_cases hlt : q < r
      · simp only [hlt, if_true]
        obtain ⟨a1, a2, a3, a4⟩ := hfe.ok s q hlt hI
        exact ⟨a1, a2.weaken (Nat.le_succ r), a3, a4⟩
      · have : q = r := by omega
        subst this
        simp only [Nat.lt_irrefl, if_false, if_true]
        exact fetchStep_ok hP hfe hmc s hI
    · constructor
      intro s q rev hq hI _
      simp only [eng]
      by_cases hlt : q < r
      · simp only [hlt, if_true]
        obtain ⟨a1, a2, a3⟩ := hmc.ok s q rev hlt hI ‹_›
        exact ⟨a1, a2.weaken (Nat.le_succ r), a3⟩
      · have : q = r := by omega
        subst this
        simp only [Nat.lt_irrefl, if_false, if_true]
        exact mcaStep_ok hP hfe hmc s rev hI

theorem fetch_sound {P} (hP : Wf P) (s : State) (q : Nat) (hI : InvE P s) :
    InvE P (fetch P s q).1 ∧ (fetch P s q).2.val = sem P s.inp s.cells q ∧
    (fetch P s q).1.cur = s.cur ∧ (fetch P s q).1.inp = s.inp ∧ (fetch P s q).1.cells = s.cells := by
  obtain ⟨a1, a2, a3, _⟩ := (eng_ok hP (q + 1)).1.ok s q (Nat.lt_succ_self q) hI
  exact ⟨a1, a3, a2.cur, a2.inp, a2.cells⟩

/-! ### eviction (`reset_for_new_revision`) -/

theorem foldl_evict_inv {P} : ∀ (l : List Nat) (s : State), InvE P s → InvE P (l.foldl evictValue s) := by
  intro l
  induction l with
  | nil => intro s h; exact h
  | cons q rest ih => intro s h; exact ih _ (inv_evictValue h q)

theorem inv_evictLru {P s} (hI : InvE P s) : InvE P (evictLru s) := by
  unfold evictLru
  exact foldl_evict_inv _ _ (inv_lru _ hI)

/-- eviction does not look at the revision, the cells or the write log -/
theorem evictValue_comm (t : State) (c : Nat) (ce : Nat → Nat) (w : List (Nat × Nat)) (q : Nat) :
    evictValue { t with cur := c, cells := ce, wlog := w } q =
      { evictValue t q with cur := c, cells := ce, wlog := w } := by
  unfold evictValue
  cases hm : t.memos q with
  | none => simp only [hm]
  | some m =>
    simp only [hm]
    split <;> rfl

theorem foldl_evict_comm (c : Nat) (ce : Nat → Nat) (w : List (Nat × Nat)) : ∀ (l : List Nat) (t : State),
    l.foldl evictValue { t with cur := c, cells := ce, wlog := w } =
      { l.foldl evictValue t with cur := c, cells := ce, wlog := w } := by
  intro l
  induction l with
  | nil => intro t; rfl
  | cons q rest ih =>
    intro t
    simp only [List.foldl_cons]
    rw [evictValue_comm, ih]

theorem evictLru_comm (s : State) (c : Nat) (ce : Nat → Nat) (w : List (Nat × Nat)) :
    evictLru { s with cur := c, cells := ce, wlog := w } =
      { evictLru s with cur := c, cells := ce, wlog := w } := by
  unfold evictLru
  exact foldl_evict_comm c ce w _ { s with lru := (forEachEvicted s.lru).1 }

theorem foldl_evict_frame : ∀ (l : List Nat) (t : State),
    (l.foldl evictValue t).cur = t.cur ∧ (l.foldl evictValue t).lch = t.lch ∧
    (l.foldl evictValue t).inp = t.inp ∧ (l.foldl evictValue t).cells = t.cells ∧
    (l.foldl evictValue t).wlog = t.wlog := by
  intro l
  induction l with
  | nil => intro t; exact ⟨rfl, rfl, rfl, rfl, rfl⟩
  | cons q rest ih =>
    intro t
    have h1 : (evictValue t q).cur = t.cur ∧ (evictValue t q).lch = t.lch ∧ (evictValue t q).inp = t.inp ∧
        (evictValue t q).cells = t.cells ∧ (evictValue t q).wlog = t.wlog := by
      unfold evictValue
      cases t.memos q with
      | none => exact ⟨rfl, rfl, rfl, rfl, rfl⟩
      | some m => simp only; split <;> exact ⟨rfl, rfl, rfl, rfl, rfl⟩
    obtain ⟨a1, a2, a3, a4, a5⟩ := h1
    obtain ⟨b1, b2, b3, b4, b5⟩ := ih (evictValue t q)
    exact ⟨b1.trans a1, b2.trans a2, b3.trans a3, b4.trans a4, b5.trans a5⟩

theorem evictLru_frame (s : State) :
    (evictLru s).cur = s.cur ∧ (evictLru s).lch = s.lch ∧ (evictLru s).inp = s.inp ∧
    (evictLru s).cells = s.cells ∧ (evictLru s).wlog = s.wlog := by
  unfold evictLru
  exact foldl_evict_frame _ _

/-- the revision bump proper, after the eviction -/
def bumpPure (e : State) (ce : Nat → Nat) : State :=
  { e with cur := e.cur + 1, cells := ce, wlog := (e.cur + 1, 0) :: e.wlog }

theorem bumpRev_eq (s : State) : bumpRev s = bumpPure (evictLru s) s.cells := by
  obtain ⟨a1, _, _, _, a5⟩ := evictLru_frame s
  unfold bumpRev bumpPure
  rw [a1, a5]
  exact evictLru_comm s (s.cur + 1) s.cells ((s.cur + 1, 0) :: s.wlog)

theorem bumpRev_setCell (s : State) (c v : Nat) :
    bumpRev (setCell s c v) = bumpPure (evictLru s) (setCell s c v).cells := by
  obtain ⟨a1, _, _, _, a5⟩ := evictLru_frame s
  unfold bumpRev bumpPure
  rw [a1, a5]
  exact evictLru_comm s (s.cur + 1) (setCell s c v).cells ((s.cur + 1, 0) :: s.wlog)

/-- Abstract "new revision with a change of level `b`" (after the eviction): covers accepted input
    writes (b = previous durability), synthetic writes (b = their durability) and rejected
    NEVER_CHANGE writes (b = 0).  Cells are not mentioned: they may change arbitrarily. -/
structure BumpE (s s' : State) (b : Nat) : Prop where
  b3 : b < 3
  cur : s'.cur = s.cur + 1
  lc : ∀ k, lc s' k = if k ≤ b then s.cur + 1 else lc s k
  memos : s'.memos = s.memos
  wl_old : ∀ e, e ∈ s.wlog → e ∈ s'.wlog
  wl_new : (s.cur + 1, b) ∈ s'.wlog
  wl_inv : ∀ w d, (w, d) ∈ s'.wlog → (w, d) ∈ s.wlog ∨ (w = s.cur + 1 ∧ d ≤ b)
  inp : ∀ j, s'.inp j = s.inp j ∨ ((s'.inp j).ca = s.cur + 1 ∧ (s.inp j).dur ≤ b)
  wl_zero : (s.cur + 1, 0) ∈ s'.wlog

theorem depInfo_bump_qry {s s' b} (h : BumpE s s' b) (q : Nat) : depInfo s' (.qry q) = depInfo s (.qry q) := by
  simp [depInfo, h.memos]

theorem wit_bump {s s' b k lo hi} (h : BumpE s s' b) (w : Wit s k lo hi) : Wit s' k lo hi := by
  obtain ⟨w0, d, a, bb, c, e⟩ := w
  exact ⟨w0, d, h.wl_old _ a, bb, c, e⟩

theorem bump_inv {P s s' b} (hb : BumpE s s' b) (hI : InvE P s) : InvE P s' := by
  have hlc_ge : ∀ k, lc s k ≤ lc s' k := by
    intro k; rw [hb.lc k]; split
    · exact Nat.le_trans (hI.lc_le k) (Nat.le_succ _)
    · exact Nat.le_refl _
  refine ⟨by rw [hb.cur]; exact Nat.le_succ_of_le hI.cur1, ?_, ?_, ?_, ?_, ?_, ?_, ?_, ?_, ?_⟩
  · intro d; rw [hb.lc d, hb.cur]; split
    · exact Nat.le_refl _
    · exact Nat.le_trans (hI.lc_le d) (Nat.le_succ _)
  · intro d; exact Nat.le_trans (hI.lc_ge1 d) (hlc_ge d)
  · intro d
    rw [hb.lc (d + 1), hb.lc d]
    by_cases h1 : d + 1 ≤ b
    · have h2 : d ≤ b := by omega
      simp [h1, h2]
    · by_cases h2 : d ≤ b
      · simp only [h1, h2, if_false, if_true]
        exact Nat.le_trans (hI.lc_le _) (Nat.le_succ _)
      · simp only [h1, h2, if_false]; exact hI.lc_anti d
  · intro d hd
    rw [hb.lc d]
    have : ¬ d ≤ b := by have := hb.b3; omega
    simp only [this, if_false]; exact hI.lc_never d hd
  · intro j
    rcases hb.inp j with h | h
    · rw [h, hb.cur]; exact Nat.le_trans (hI.inp_le j) (Nat.le_succ _)
    · rw [h.1, hb.cur]; exact Nat.le_refl _
  · intro j
    rcases hb.inp j with h | h
    · rw [h]; exact hI.inp_ge1 j
    · rw [h.1]; exact Nat.succ_le_succ (Nat.zero_le _)
  · intro w d hw k hk
    rcases hb.wl_inv w d hw with h | ⟨h1, h2⟩
    · exact Nat.le_trans (hI.wlog_lc w d h k hk) (hlc_ge k)
    · rw [hb.lc k, h1]
      have : k ≤ b := Nat.le_trans hk h2
      simp [this]
  · intro w h1 h2
    rw [hb.cur] at h2
    by_cases hw : w = s.cur + 1
    · rw [hw]; exact hb.wl_zero
    · exact hb.wl_old _ (hI.bumps w h1 (by omega))
  · intro q m hm
    rw [hb.memos] at hm
    have ok := hI.memo q m hm
    have hva_lt : m.va < s.cur + 1 := Nat.lt_succ_of_le ok.va_cur
    -- a memo that still passes the shallow test was not affected by the bump
    have hsok : SOK s' m → b < m.dur ∧ SOK s m := by
      intro h
      rcases h with h | h
      · rw [hb.cur] at h; omega
      · rw [hb.lc m.dur] at h
        by_cases hk : m.dur ≤ b
        · simp only [hk, if_true] at h; omega
        · simp only [hk, if_false] at h
          exact ⟨Nat.lt_of_not_le hk, Or.inr h⟩
    -- info of an observation in the new state vs the old one
    have hinfo_cases : ∀ o, o ∈ m.obs → ∀ x, depInfo s' o.dep = some x →
        depInfo s o.dep = some x ∨
        (x.ca = s.cur + 1 ∧ ∃ x0, depInfo s o.dep = some x0 ∧ x0.dur ≤ b ∧ x0.ca ≤ s.cur) := by
      intro o _ x hx
      cases hd : o.dep with
      | cell c => rw [hd] at hx; simp [depInfo] at hx
      | qry q' => rw [hd] at hx; rw [depInfo_bump_qry hb q'] at hx; exact Or.inl hx
      | inp j =>
        rw [hd] at hx
        simp only [depInfo, Option.some.injEq] at hx
        rcases hb.inp j with h | h
        · left; rw [h] at hx; simp only [depInfo]; rw [hx]
        · right
          refine ⟨by rw [← hx]; exact h.1, ⟨(s.inp j).val, (s.inp j).ca, (s.inp j).dur⟩, rfl, h.2, hI.inp_le j⟩
    -- stamps only grow
    have hinfo_mono : ∀ o, o ∈ m.obs → ∀ x, depInfo s o.dep = some x →
        ∃ x', depInfo s' o.dep = some x' ∧ x.ca ≤ x'.ca := by
      intro o _ x hx
      cases hd : o.dep with
      | cell c => rw [hd] at hx; simp [depInfo] at hx
      | qry q' => rw [hd] at hx; exact ⟨x, by rw [depInfo_bump_qry hb q']; exact hx, Nat.le_refl _⟩
      | inp j =>
        rw [hd] at hx
        simp only [depInfo, Option.some.injEq] at hx
        refine ⟨_, rfl, ?_⟩
        rw [← hx]
        rcases hb.inp j with h | h
        · rw [h]; exact Nat.le_refl _
        · show (s.inp j).ca ≤ (s'.inp j).ca
          rw [h.1]; exact Nat.le_succ_of_le (hI.inp_le j)
    refine ⟨ok.ca_va, by rw [hb.cur]; exact Nat.le_succ_of_le ok.va_cur, ok.va1, ok.deep_va, ok.deep1,
      ok.dur3, ok.valg, ok.evt, ok.rep, ok.g6, ?_, ok.hascell, ?_, ?_, ?_, ?_, ?_, ?_, ?_⟩
    · intro o c ho hd
      obtain ⟨a, b', _⟩ := ok.cellobs o c ho hd
      exact ⟨a, b', fun h => by rw [hb.cur] at h; omega⟩
    · -- iv
      intro o ho x hx
      rcases hinfo_cases o ho x hx with h | ⟨h1, x0, h0, hd0, hc0⟩
      · rcases ok.iv o ho x h with h2 | h2
        · exact Or.inl h2
        · exact Or.inr (wit_bump hb h2)
      · right
        rcases ok.iv o ho x0 h0 with ⟨_, hdur⟩ | h2
        · exact ⟨s.cur + 1, b, hb.wl_new, Nat.le_trans hdur hd0, hva_lt, by rw [h1]; exact Nat.le_refl _⟩
        · exact (wit_bump hb h2).mono (by rw [h1]; exact Nat.le_succ_of_le hc0)
    · -- ka
      intro hs o ho
      obtain ⟨hbm, hs0⟩ := hsok hs
      obtain ⟨a, bb, c⟩ := ok.ka hs0 o ho
      refine ⟨?_, ?_, ?_⟩
      · intro x hx
        rcases hinfo_cases o ho x hx with h | ⟨_, x0, h0, hd0, _⟩
        · exact a x h
        · have := (ok.i2 o ho x0 h0 (Nat.le_trans (a x0 h0) ok.deep_va)).2
          omega
      · cases hd : o.dep with
        | cell c => trivial
        | inp j => trivial
        | qry q' =>
          rw [hd] at bb
          obtain ⟨m2, hm2, hs2⟩ := bb
          refine ⟨m2, by rw [hb.memos]; exact hm2, ?_⟩
          have hinfo : depInfo s o.dep = some ⟨m2.gval, m2.ca, m2.dur⟩ := by rw [hd]; simp [depInfo, hm2]
          have hdur := (ok.i2 o ho _ hinfo (Nat.le_trans (a _ hinfo) ok.deep_va)).2
          have hk : ¬ m2.dur ≤ b := by simp only at hdur; omega
          right
          rw [hb.lc m2.dur]
          simp only [hk, if_false]
          rcases hs2 with h | h
          · rw [h]; exact hI.lc_le _
          · exact h
      · intro q' m2 hd hm2
        rw [hb.memos] at hm2
        exact c q' m2 hd hm2
    · -- i4
      rw [hb.lc m.dur]
      by_cases hk : m.dur ≤ b
      · simp only [hk, if_true]; right; exact hva_lt
      · simp only [hk, if_false]; exact ok.i4
    · -- i5
      intro o q' ho hd
      rw [hb.memos]; exact ok.i5 o q' ho hd
    · -- i6
      intro o ho hr x hx
      rcases hinfo_cases o ho x hx with h | ⟨_, x0, h0, hd0, _⟩
      · exact ok.i6 o ho hr x h
      · have := (ok.i6 o ho hr x0 h0).2
        have := hb.b3
        omega
    · -- g4
      intro w d hw hd h
      rcases hb.wl_inv w d hw with h' | ⟨h1, _⟩
      · exact ok.g4 w d h' hd h
      · omega
    · -- m4
      intro hu
      rcases ok.m4 hu with h | ⟨o, ho, x, hx, hc⟩
      · exact Or.inl h
      · obtain ⟨x', hx', hle⟩ := hinfo_mono o ho x hx
        exact Or.inr ⟨o, ho, x', hx', Nat.le_trans hc hle⟩

end SalsaVerif.Proofs.Core3E
