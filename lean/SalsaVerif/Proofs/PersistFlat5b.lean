/-
  C26 with flattening: re-verification over a region — everything reachable now is valid now.
  Core Lean only.
-/
import SalsaVerif.Proofs.PersistFlat5a

namespace SalsaVerif.Proofs.PersistFlat
open SalsaVerif.Model.Core SalsaVerif.Model.Persist SalsaVerif.Proofs.Core SalsaVerif.Proofs.Persist

/-- the hypotheses of a re-verification of the memo `m` of `r` (anchor `a = m.va`) in state `t` -/
structure Reval (pers : Nat → Bool) (P : Nat → Body) (H : Nat → Nat → Inp) (t : State) (r : Nat) (m : Memo)
    (Ω B : Nat → Prop) : Prop where
  reg : Region P H t m.va Ω B
  root : Ω r
  reachΩ : ∀ k, Ω k → Reach P (H m.va) r k
  reachB : ∀ p, B p → Reach P (H m.va) r p
  hotB : ∀ p, B p → ∃ mp, t.memos p = some mp ∧ mp.va = t.cur
  caΩ : ∀ k mk, Ω k → t.memos k = some mk → mk.ca ≤ m.va

theorem Reval.sameB {pers P H R0 t r m Ω B} (hJ : J pers P H R0 t) (hV : Reval pers P H t r m Ω B) :
    ∀ p, B p → sem P t.inp p = sem P (H m.va) p := by
  intro p hp
  obtain ⟨mp, hmp, hv⟩ := hV.hotB p hp
  obtain ⟨mp', e1, _, e3⟩ := hV.reg.bnd p hp
  rw [hmp] at e1; cases e1
  rw [e3]
  exact (hot_valid hJ hmp hv p mp (Reach.refl p) hmp).1

/-- the nodes of the region evaluate now as under the anchor -/
theorem Reval.same {pers P H R0 t r m Ω B} (hP : Wf P) (hJ : J pers P H R0 t)
    (hV : Reval pers P H t r m Ω B) : ∀ k, Ω k → Reach P t.inp r k →
    sem P t.inp k = sem P (H m.va) k ∧ sdeps P t.inp k = sdeps P (H m.va) k := by
  have hc : H t.cur = t.inp := hJ.hist.cur hJ.base
  have := region_same hP hJ.hist hV.reg hV.reg.a_cur (Nat.le_refl _) r (by
    intro p hp _; rw [hc]; exact hV.sameB hJ p hp)
  rw [hc] at this
  exact this

/-- a node reached now is in the region or below a boundary function -/
theorem Reval.split {pers P H R0 t r m Ω B} (hP : Wf P) (hJ : J pers P H R0 t)
    (hV : Reval pers P H t r m Ω B) : ∀ k1 k, Reach P t.inp k1 k → Ω k1 → Reach P t.inp r k1 →
    (Ω k ∧ Reach P t.inp r k) ∨ ∃ p, B p ∧ Reach P t.inp p k := by
  intro k1 k h
  induction h with
  | refl _ => intro a b; exact Or.inl ⟨a, b⟩
  | step hd hr ih =>
    intro a b
    have hd' := hd
    rw [(hV.same hP hJ _ a b).2] at hd'
    rcases hV.reg.closed _ _ a hd' with h | h
    · exact ih h (b.trans (Reach.step hd (Reach.refl _)))
    · exact Or.inr ⟨_, h, hr⟩

/-- **everything reachable now is valid now**, with durability at least the memo's -/
theorem Reval.valid {pers P H R0 t r m Ω B} (hP : Wf P) (hJ : J pers P H R0 t)
    (hm : t.memos r = some m) (hV : Reval pers P H t r m Ω B) :
    ∀ k mk, Reach P t.inp r k → t.memos k = some mk → sem P t.inp k = mk.value ∧ m.dur ≤ mk.dur := by
  intro k mk hr hmk
  have h0 := hJ.memo r m hm
  rcases hV.split hP hJ r k hr hV.root (Reach.refl r) with ⟨ho, hr2⟩ | ⟨p, hp, hrp⟩
  · obtain ⟨a, b⟩ := h0.pc k mk (hV.reachΩ k ho) hmk (hV.caΩ k mk ho hmk)
    exact ⟨by rw [(hV.same hP hJ k ho hr2).1, a], b⟩
  · obtain ⟨mp, hmp, hv⟩ := hV.hotB p hp
    obtain ⟨mp', e1, e2, _⟩ := hV.reg.bnd p hp
    rw [hmp] at e1; cases e1
    obtain ⟨a, b⟩ := hot_valid hJ hmp hv k mk hrp hmk
    exact ⟨a, Nat.le_trans (h0.pc p mp (hV.reachB p hp) hmp e2).2 b⟩

theorem Reval.memo16 {pers P H R0 t r m Ω B} (hP : Wf P) (hJ : J pers P H R0 t)
    (hm : t.memos r = some m) (hV : Reval pers P H t r m Ω B) :
    ∀ k, Reach P t.inp r k → pers k = true → ∃ mk, t.memos k = some mk := by
  intro k hr hp
  have h0 := hJ.memo r m hm
  rcases hV.split hP hJ r k hr hV.root (Reach.refl r) with ⟨ho, _⟩ | ⟨p, hpB, hrp⟩
  · exact h0.j16 k (hV.reachΩ k ho) hp
  · obtain ⟨mp, hmp, hv⟩ := hV.hotB p hpB
    have hc : H mp.va = t.inp := by rw [hv]; exact hJ.hist.cur hJ.base
    exact (hJ.memo p mp hmp).j16 k (by rw [hc]; exact hrp) hp

/-- leaves now: the durability bound -/
theorem Reval.dur {pers P H R0 t r m Ω B} (hP : Wf P) (hJ : J pers P H R0 t)
    (hm : t.memos r = some m) (hV : Reval pers P H t r m Ω B) :
    ∀ i, Leaf P t.inp r i → m.dur ≤ (t.inp i).dur := by
  intro i ⟨k, hr, hd⟩
  have h0 := hJ.memo r m hm
  rcases hV.split hP hJ r k hr hV.root (Reach.refl r) with ⟨ho, hr2⟩ | ⟨p, hp, hrp⟩
  · rw [(hV.same hP hJ k ho hr2).2] at hd
    have := h0.j3 i ⟨k, hV.reachΩ k ho, hd⟩
    rw [hJ.hist.since i m.va (hV.reg.inps k i ho hd) h0.va_cur] at this
    exact this
  · obtain ⟨mp, hmp, hv⟩ := hV.hotB p hp
    obtain ⟨mp', e1, e2, _⟩ := hV.reg.bnd p hp
    rw [hmp] at e1; cases e1
    have hc : H mp.va = t.inp := by rw [hv]; exact hJ.hist.cur hJ.base
    have := (hJ.memo p mp hmp).j3 i (by rw [hc]; exact ⟨k, hrp, hd⟩)
    rw [hc] at this
    exact Nat.le_trans (h0.pc p mp (hV.reachB p hp) hmp e2).2 this

end SalsaVerif.Proofs.PersistFlat
