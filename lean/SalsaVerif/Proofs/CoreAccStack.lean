/-
  CoreAcc: the explicit-stack loop of accumulated.rs (`accLoop`, with fuel) computes, given enough
  fuel, exactly what the rank-recursive search `accVisit` computes — same final state (hence same
  event trace), same output.  One visit of `accVisit` = a block of pops of the loop.
  Core Lean only.
-/
import SalsaVerif.Proofs.CoreAccHist

namespace SalsaVerif.Proofs.CoreAcc
open SalsaVerif.Model.CoreAcc

/-- `origin.inputs()` of an edge list -/
def inputsOf (obs : List Obs) : List Dep := (obs.filter (·.recd)).map (·.dep)

theorem inputs_eq (m : Memo) : m.inputs = inputsOf m.obs := rfl

/-- the visit of `d` is a block of `n` pops: whatever is below `d` on the stack and whatever has
    been output so far, the loop continues from the visit's result -/
def LoopSpec (P : Nat → Body) (visit : VisitFn) (s : State) (d : Dep) (vis : List Dep) : Prop :=
  ∃ n, ∀ m rest out, accLoop P (n + m) s (d :: rest) vis out =
    accLoop P m (visit s d vis).1 rest (visit s d vis).2.1 (out ++ (visit s d vis).2.2)

theorem loop_edges {P : Nat → Body} {r : Nat} {visit : VisitFn}
    (H : ∀ s d vis, Inv P s → (∀ k, d = .qry k → k < r) → Inv P (visit s d vis).1 ∧ LoopSpec P visit s d vis) :
    ∀ obs s vis, Inv P s → (∀ o k, o ∈ obs → o.dep = .qry k → k < r) →
      Inv P (accVisitEdges visit obs s vis).1 ∧
      ∃ n, ∀ m rest out, accLoop P (n + m) s (inputsOf obs ++ rest) vis out =
        accLoop P m (accVisitEdges visit obs s vis).1 rest (accVisitEdges visit obs s vis).2.1
          (out ++ (accVisitEdges visit obs s vis).2.2) := by
  intro obs
  induction obs with
  | nil =>
    intro s vis hI _
    refine ⟨hI, 0, ?_⟩
    intro m rest out
    simp [accVisitEdges, inputsOf]
  | cons o os ih =>
    intro s vis hI hlt
    have hlt' : ∀ o' k, o' ∈ os → o'.dep = .qry k → k < r := fun o' k h => hlt o' k (by simp [h])
    by_cases hrec : o.recd = true
    · obtain ⟨hI1, n1, h1⟩ := H s o.dep vis hI (fun k hd => hlt o k (by simp) hd)
      obtain ⟨hI2, n2, h2⟩ := ih (visit s o.dep vis).1 (visit s o.dep vis).2.1 hI1 hlt'
      have hin : inputsOf (o :: os) = o.dep :: inputsOf os := by simp [inputsOf, hrec]
      simp only [accVisitEdges, hrec, if_true]
      refine ⟨hI2, n1 + n2, ?_⟩
      intro m rest out
      rw [hin, List.cons_append, Nat.add_assoc, h1, h2, List.append_assoc]
    · have hrec' : o.recd = false := by cases h : o.recd <;> simp_all
      have hin : inputsOf (o :: os) = inputsOf os := by simp [inputsOf, hrec']
      simp only [accVisitEdges, hrec', Bool.false_eq_true, if_false]
      rw [hin]
      exact ih s vis hI hlt'

theorem loop_skip (P : Nat → Body) (s : State) (d : Dep) (vis : List Dep) (h : d ∈ vis) (m rest out) :
    accLoop P (1 + m) s (d :: rest) vis out = accLoop P m s rest vis (out ++ []) := by
  rw [Nat.add_comm, List.append_nil]
  simp only [accLoop, h, if_true]

theorem loop_inp (P : Nat → Body) (s : State) (i : Nat) (vis : List Dep) (h : Dep.inp i ∉ vis) (m rest out) :
    accLoop P (1 + m) s (.inp i :: rest) vis out = accLoop P m s rest (.inp i :: vis) (out ++ []) := by
  rw [Nat.add_comm, List.append_nil]
  simp only [accLoop, h, if_false]

theorem loopSpec_of_eq {P : Nat → Body} {visit : VisitFn} {s d vis} {t : State × List Dep × List Nat}
    (e : visit s d vis = t)
    (h : ∃ n, ∀ m rest out, accLoop P (n + m) s (d :: rest) vis out = accLoop P m t.1 rest t.2.1 (out ++ t.2.2)) :
    LoopSpec P visit s d vis := by
  unfold LoopSpec; rw [e]; exact h

/-- **the recursive search is the explicit-stack loop** -/
theorem loop_visit {P : Nat → Body} (hP : Wf P) : ∀ r s d vis, Inv P s → (∀ k, d = .qry k → k < r) →
    Inv P (accVisit P r s d vis).1 ∧ LoopSpec P (accVisit P r) s d vis := by
  intro r
  induction r with
  | zero =>
    intro s d vis hI hlt
    cases d with
    | qry k => exact absurd (hlt k rfl) (Nat.not_lt_zero k)
    | inp i =>
      by_cases hmem : Dep.inp i ∈ vis
      · have e : accVisit P 0 s (.inp i) vis = (s, vis, []) := by simp [accVisit, hmem]
        exact ⟨by rw [e]; exact hI, loopSpec_of_eq e ⟨1, fun m rest out => loop_skip P s _ vis hmem m rest out⟩⟩
      · have e : accVisit P 0 s (.inp i) vis = (s, .inp i :: vis, []) := by simp [accVisit, hmem]
        exact ⟨by rw [e]; exact hI, loopSpec_of_eq e ⟨1, fun m rest out => loop_inp P s i vis hmem m rest out⟩⟩
  | succ r ih =>
    intro s d vis hI hlt
    by_cases hmem : d ∈ vis
    · have e : accVisit P (r + 1) s d vis = (s, vis, []) := by simp [accVisit, hmem]
      exact ⟨by rw [e]; exact hI, loopSpec_of_eq e ⟨1, fun m rest out => loop_skip P s _ vis hmem m rest out⟩⟩
    · cases d with
      | inp i =>
        have e : accVisit P (r + 1) s (.inp i) vis = (s, .inp i :: vis, []) := by simp [accVisit, hmem]
        exact ⟨by rw [e]; exact hI, loopSpec_of_eq e ⟨1, fun m rest out => loop_inp P s i vis hmem m rest out⟩⟩
      | qry k =>
        by_cases hk : k < r
        · have e : accVisit P (r + 1) s (.qry k) vis = accVisit P r s (.qry k) vis := by
            simp [accVisit, hmem, hk]
          obtain ⟨a1, a2⟩ := ih s (.qry k) vis hI (fun k' hd => by cases hd; exact hk)
          exact ⟨by rw [e]; exact a1, loopSpec_of_eq e a2⟩
        · have hkr : k = r := by have := hlt k rfl; omega
          subst hkr
          have hIf : Inv P ((eng P (k + 1)).1 s k).1 :=
            ((eng_ok hP (k + 1)).1.ok s k (Nat.lt_succ_self k) hI).1
          have hfe : fetch P s k = (eng P (k + 1)).1 s k := rfl
          generalize hf : (eng P (k + 1)).1 s k = f at hIf hfe
          cases hm : f.1.memos k with
          | none =>
            have e : accVisit P (k + 1) s (.qry k) vis = (f.1, .qry k :: vis, []) := by
              simp [accVisit, hmem, hf, hm]
            refine ⟨by rw [e]; exact hIf, loopSpec_of_eq e ⟨1, ?_⟩⟩
            intro m rest out
            rw [Nat.add_comm, List.append_nil]
            simp only [accLoop, hmem, if_false, hfe, hm]
          | some mm =>
            cases hai : mm.accIn with
            | false =>
              have e : accVisit P (k + 1) s (.qry k) vis = (f.1, .qry k :: vis, mm.acc) := by
                simp [accVisit, hmem, hf, hm, hai]
              refine ⟨by rw [e]; exact hIf, loopSpec_of_eq e ⟨1, ?_⟩⟩
              intro m rest out
              rw [Nat.add_comm]
              simp only [accLoop, hmem, if_false, hfe, hm, hai, Bool.false_eq_true]
            | true =>
              have e : accVisit P (k + 1) s (.qry k) vis =
                  ((accVisitEdges (accVisit P k) mm.obs f.1 (.qry k :: vis)).1,
                   (accVisitEdges (accVisit P k) mm.obs f.1 (.qry k :: vis)).2.1,
                   mm.acc ++ (accVisitEdges (accVisit P k) mm.obs f.1 (.qry k :: vis)).2.2) := by
                simp [accVisit, hmem, hf, hm, hai]
              have hch : ∀ o c, o ∈ mm.obs → o.dep = .qry c → c < k :=
                fun o c ho hd => ((hIf.memo k mm hm).i5 o c ho hd).1
              obtain ⟨hI2, n, h2⟩ := loop_edges (P := P) (r := k) (visit := accVisit P k) ih mm.obs f.1
                (.qry k :: vis) hIf hch
              refine ⟨by rw [e]; exact hI2, loopSpec_of_eq e ⟨n + 1, ?_⟩⟩
              intro m rest out
              have e' : n + 1 + m = (n + m) + 1 := by omega
              rw [e']
              simp only [accLoop, hmem, if_false, hfe, hm, hai, if_true]
              rw [inputs_eq, h2, List.append_assoc]

/-- with enough fuel the explicit-stack `accumulated_by` is `accumulatedBy` (state, hence trace,
    and output) -/
theorem accumulatedByStack_eq {P : Nat → Body} (hP : Wf P) (s : State) (q : Nat) (hI : Inv P s) :
    ∃ n, ∀ fuel, n ≤ fuel → accumulatedByStack P fuel s q = some (accumulatedBy P s q) := by
  have hI1 := (fetch_sound hP s q hI).1
  obtain ⟨_, n, h⟩ := loop_visit hP (q + 1) (fetch P s q).1 (.qry q) [] hI1
    (fun k hd => by cases hd; exact Nat.lt_succ_self _)
  refine ⟨n + 1, ?_⟩
  intro fuel hfuel
  obtain ⟨m, rfl⟩ : ∃ m, fuel = n + (m + 1) := ⟨fuel - n - 1, by omega⟩
  simp only [accumulatedByStack, accumulatedBy]
  rw [h]
  simp [accLoop]

end SalsaVerif.Proofs.CoreAcc
