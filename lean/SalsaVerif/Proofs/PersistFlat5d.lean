/-
  C26 with flattening: re-verification preserves `J` (the other memos; the event log is ghost).
  Core Lean only.
-/
import SalsaVerif.Proofs.PersistFlat5c

namespace SalsaVerif.Proofs.PersistFlat
open SalsaVerif.Model.Core SalsaVerif.Model.Persist SalsaVerif.Proofs.Core SalsaVerif.Proofs.Persist

theorem depInfo_reval {t : State} {r : Nat} {m m' : Memo} (hm : t.memos r = some m)
    (hv : m'.value = m.value) (hca : m'.ca = m.ca) (hd : m'.dur = m.dur) (d : Dep) :
    depInfo (setMemo t r m') d = depInfo t d := by
  cases d with
  | inp i => rfl
  | qry k =>
    by_cases hk : k = r
    · subst hk; simp [depInfo, hm, hv, hca, hd]
    · simp [depInfo, setMemo_other _ _ _ hk]

/-- a memo other than the re-verified one -/
theorem memoJ_other_reval {pers P H R0 t r m m' q0 m0} (hJ : J pers P H R0 t)
    (hm : t.memos r = some m) (hv : m'.value = m.value) (hca : m'.ca = m.ca) (hd : m'.dur = m.dur)
    (hva : m'.va = t.cur) (hq : CutC P H (setMemo t r m') r)
    (hne : q0 ≠ r) (hm0 : t.memos q0 = some m0) :
    MemoJ pers P H R0 (setMemo t r m') q0 m0 := by
  have h0 := hJ.memo q0 m0 hm0
  have hinfo := depInfo_reval (t := t) (r := r) hm hv hca hd
  have hmono : ∀ p mp, t.memos p = some mp → ∃ mp', (setMemo t r m').memos p = some mp' ∧ mp.ca ≤ mp'.ca := by
    intro p mp hmp
    by_cases hpr : p = r
    · subst hpr
      rw [hm] at hmp; cases hmp
      exact ⟨m', setMemo_same _ _ _, by rw [hca]; exact Nat.le_refl _⟩
    · exact ⟨mp, by rw [setMemo_other _ _ _ hpr]; exact hmp, Nat.le_refl _⟩
  have hpre : (R0 ≤ m0.va ∨ PremL P H (setMemo t r m') q0 m0) → (R0 ≤ m0.va ∨ PremL P H t q0 m0) := by
    intro h
    rcases h with h | h
    · exact Or.inl h
    · right
      refine ⟨h.1, ?_⟩
      intro k mk hk hmk
      obtain ⟨mk', e1, e2⟩ := hmono k mk hmk
      exact Nat.le_trans e2 (h.2 k mk' hk e1)
  refine ⟨h0.ca_va, h0.va_cur, h0.deep1, h0.deep_va, h0.dur3, h0.j3, h0.j4, ?_, ?_, ?_, h0.j7s, ?_, ?_, ?_, h0.r0, ?_⟩
  · exact caBnd_state (s := t) (fun i => Nat.le_refl _) hmono h0.j5
  · intro h; exact h0.j6 (hpre h)
  · intro k hk
    obtain ⟨a, mk, hmk, hle⟩ := h0.j7 k hk
    refine ⟨a, ?_⟩
    by_cases hkr : k = r
    · subst hkr
      rw [hm] at hmk; cases hmk
      exact ⟨m', setMemo_same _ _ _, by rw [hva]; exact Nat.le_trans hle (hJ.memo k m hm).va_cur⟩
    · exact ⟨mk, by rw [setMemo_other _ _ _ hkr]; exact hmk, hle⟩
  · intro hr; exact cutC_setMemo hq q0 (h0.j6c hr)
  · intro hs k hk
    have hs' : SOK t m0 := hs
    obtain ⟨mk, hmk, hsk, hc, hdur⟩ := h0.j8 hs' k hk
    by_cases hkr : k = r
    · subst hkr
      rw [hm] at hmk; cases hmk
      exact ⟨m', setMemo_same _ _ _, Or.inl hva, by rw [hca]; exact hc, by rw [hd]; exact hdur⟩
    · exact ⟨mk, by rw [setMemo_other _ _ _ hkr]; exact hmk, hsk, hc, hdur⟩
  · intro k hr hp
    obtain ⟨mk, hmk⟩ := h0.j16 k hr hp
    obtain ⟨mk', h', _⟩ := hmono k mk hmk
    exact ⟨mk', h'⟩
  · intro k mk hr hmk hc
    by_cases hkr : k = r
    · subst hkr
      rw [setMemo_same] at hmk; cases hmk
      rw [hca] at hc
      rw [hv, hd]
      exact h0.pc k m hr hm hc
    · rw [setMemo_other _ _ _ hkr] at hmk
      exact h0.pc k mk hr hmk hc

/-- the event log is ghost -/
theorem J_emit {pers P H R0 s} (e : Ev) (hJ : J pers P H R0 s) : J pers P H R0 (emit s e) :=
  ⟨base_congr hJ.base rfl rfl rfl, hist_congr hJ.hist rfl rfl rfl, hJ.r0, fun q m hm => by
    have h := hJ.memo q m hm
    exact ⟨h.ca_va, h.va_cur, h.deep1, h.deep_va, h.dur3, h.j3, h.j4, h.j5, h.j6, h.j7, h.j7s,
      fun hr => cutC_congr (s := s) (s' := emit s e) (H := H) rfl (fun _ _ _ => rfl) q (h.j6c hr), h.j8, h.j16, h.r0, h.pc⟩⟩

/-- **re-verification preserves `J`** -/
theorem reval_J {pers P H R0 t r m Ω B} (hP : Wf P) (hJ : J pers P H R0 t)
    (hm : t.memos r = some m) (hV : Reval pers P H t r m Ω B) (dA : Nat)
    (hdA1 : 1 ≤ dA) (hdA2 : dA ≤ t.cur) (hdA3 : pers r = false → R0 ≤ dA)
    (h4 : ∀ i, Leaf P (H dA) r i → ∀ ρ, dA ≤ ρ → ρ ≤ t.cur → H ρ i = H dA i)
    (hPrem : PremL P H t r m)
    (hAb : ∀ k, Above P (H m.va) (odOf m) r k → Ω k)
    (h7 : ∀ k, Dep.qry k ∈ odOf m → ∃ mk, t.memos k = some mk ∧ dA ≤ mk.va ∧ SOK t mk) :
    J pers P H R0 (setMemo t r { m with va := t.cur, deepAt := dA }) := by
  refine ⟨base_congr hJ.base rfl rfl rfl, hist_congr hJ.hist rfl rfl rfl, hJ.r0, ?_⟩
  have hnew := reval_memoJ hP hJ hm hV dA hdA1 hdA2 hdA3 h4 hPrem hAb h7
  intro q0 m0 hm0
  by_cases hne : q0 = r
  · subst hne
    rw [setMemo_same] at hm0; cases hm0
    exact hnew
  · rw [setMemo_other _ _ _ hne] at hm0
    exact memoJ_other_reval hJ hm rfl rfl rfl rfl (hnew.j6c hJ.r0) hne hm0

end SalsaVerif.Proofs.PersistFlat
