/-
  Helper lemmas for Props/C23 `c23_builder_bounds`: the `SliceWithHeaderBuilder` discipline of
  Model/Origin.lean.  Core Lean only.
-/
import SalsaVerif.Model.Origin

namespace SalsaVerif.Proofs.BuilderLemmas
open SalsaVerif.Gen.Edge SalsaVerif.Model.Origin

theorem push_some {α} (b : Builder α) (x : α) (h : b.items.length < b.length) :
    b.push x = some { b with items := b.items ++ [x] } := by
  simp [Builder.push, h]

theorem push_cases {α} (b b' : Builder α) (x : α) (h : b.push x = some b') :
    b.items.length < b.length ∧ b'.length = b.length ∧ b'.items = b.items ++ [x] := by
  unfold Builder.push at h
  split at h
  · next hlt => simp only [Option.some.injEq] at h; subst h; exact ⟨hlt, rfl, rfl⟩
  · cases h

theorem extend_some {α} : ∀ (xs : List α) (b : Builder α), b.items.length + xs.length ≤ b.length →
    ∃ b', b.extend xs = some b' ∧ b'.items = b.items ++ xs ∧ b'.length = b.length
  | [], b, _ => ⟨b, rfl, by simp, rfl⟩
  | x :: xs, b, h => by
    have hlt : b.items.length < b.length := by simp only [List.length_cons] at h; omega
    simp only [Builder.extend, push_some b x hlt]
    obtain ⟨b', h1, h2, h3⟩ := extend_some xs { b with items := b.items ++ [x] }
      (by simp only [List.length_append, List.length_cons, List.length_nil] at h ⊢; omega)
    exact ⟨b', h1, by rw [h2]; simp, h3⟩

theorem finish_some {α} (b : Builder α) (h : b.items.length = b.length) : b.finish = some b.items := by
  simp [Builder.finish, h]

/-- the loop of `allocate_derived_with_header` never trips an assertion when it is started with
    capacity = number of edges -/
theorem allocLoop_some : ∀ (rest : List QueryEdge) (L : Nat) (packed : Builder PackedQueryEdge),
    packed.length = L → packed.items.length + rest.length = L →
    ∃ layout slice, allocLoop L rest packed = some (layout, slice) ∧
      (match slice with
       | .packed es => es.length = L
       | .wide es => es.length = L)
  | [], L, packed, hl, hsum => by
    have : packed.items.length = packed.length := by simp at hsum; omega
    refine ⟨QueryEdgeLayout_Packed, .packed packed.items, ?_, ?_⟩
    · simp [allocLoop, finish_some packed this]
    · simp at hsum; exact hsum
  | e :: rest, L, packed, hl, hsum => by
    simp only [List.length_cons] at hsum
    cases hnew : PackedQueryEdge.new e with
    | some p =>
      have hlt : packed.items.length < packed.length := by omega
      simp only [allocLoop, hnew, push_some packed p hlt]
      exact allocLoop_some rest L { packed with items := packed.items ++ [p] } hl
        (by simp only [List.length_append, List.length_cons, List.length_nil]; omega)
    | none =>
      simp only [allocLoop, hnew]
      obtain ⟨w1, h1, h1i, h1l⟩ := extend_some (packed.items.map PackedQueryEdge.edge)
        (Builder.allocate L : Builder QueryEdge) (by simp [Builder.allocate]; omega)
      have hw1 : w1.items.length = packed.items.length := by rw [h1i]; simp [Builder.allocate]
      have hw1l : w1.length = L := by rw [h1l]; rfl
      have hlt : w1.items.length < w1.length := by omega
      obtain ⟨w3, h3, h3i, h3l⟩ := extend_some rest { w1 with items := w1.items ++ [e] }
        (by simp only [List.length_append, List.length_cons, List.length_nil]; omega)
      have hfin : w3.items.length = w3.length := by
        rw [h3i, h3l]; simp only [List.length_append, List.length_cons, List.length_nil]; omega
      refine ⟨QueryEdgeLayout_Wide, .wide w3.items, ?_, ?_⟩
      · simp only [h1, push_some w1 e hlt, h3, finish_some w3 hfin, Option.map_some]
      · show w3.items.length = L
        rw [hfin, h3l]; exact hw1l

end SalsaVerif.Proofs.BuilderLemmas
