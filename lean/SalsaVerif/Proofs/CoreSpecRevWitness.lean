/-
  CoreSpec: Body-level programs on which the MODEL returns a value that is not the from-scratch
  value (used by the witness theorems of Props/C10).  Both are outside the well-formedness `Wf2`
  of the multi-revision soundness theorem.  Core Lean only.
-/
import SalsaVerif.Model.CoreSpec

namespace SalsaVerif.Proofs.CoreSpec
open SalsaVerif.Model.CoreSpec

/-- `PW1`: the creator makes its struct BEFORE it reads the flag input (so the struct, and the
    computed `spec` memo, are NEVER_CHANGE), then specifies 3 when the flag is odd; the reader gets
    the handle from the creator and asks `spec`.  The body of `spec` is the constant 2. -/
def PW1 : Prog where
  node q := match q with
    | 0 => .create 0 1 fun h => .read (.inp 0) fun x =>
             if x.n % 2 = 1 then .specify 0 3 (.ret h) else .ret h
    | 1 => .read (.qry 0) fun h =>
             match h.h with
             | some c => .read (.spec c) fun y => .ret ⟨y.n, none⟩
             | none => .ret ⟨9, none⟩
    | _ => .ret ⟨0, none⟩
  spec _ _ := .ret ⟨2, none⟩

/-- `PW2`: the reader names the struct of creator 0 without having received its handle (no edge to
    the creator; violates assumption A1 of the model). -/
def PW2 : Prog where
  node q := match q with
    | 0 => .read (.inp 0) fun x => .create 0 1 fun h =>
             if x.n % 2 = 1 then .specify 0 3 (.ret h) else .ret h
    | 1 => .read (.spec 0) fun y => .ret ⟨y.n, none⟩
    | _ => .ret ⟨0, none⟩
  spec _ _ := .read (.inp 1) fun z => .ret ⟨z.n, none⟩

def inpW : Nat → Inp := fun _ => ⟨0, 1, 0⟩

end SalsaVerif.Proofs.CoreSpec
