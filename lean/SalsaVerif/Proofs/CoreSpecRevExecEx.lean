/-
  CoreSpec, histories with writes: `execOk` with the hypothesis on the specifiable function
  discharged (`specFetchOk`, Proofs/CoreSpecRevFSpec.lean), and a non-vacuity example: the first
  execution of a creator that reads an input, creates its struct and specifies.  Core Lean only.
-/
import SalsaVerif.Proofs.CoreSpecRevExecOk
import SalsaVerif.Proofs.CoreSpecRevFSpec

namespace SalsaVerif.Proofs.CoreSpec
open SalsaVerif.Model.CoreSpec

/-- `execute` of node `r` given the engine for smaller ranks -/
theorem execOk_closed {P : Prog} {idOf : Nat → Nat} (hP : Wf2 P idOf) (r : Nat) (fe : FetchFn)
    (hfe : FetchSpec P idOf r fe) : ExecOk P idOf r fe :=
  execOk hP r fe hfe (specFetchOk hP)

namespace RevExecEx
open RevSemEx

def inp0 : Nat → Inp := fun _ => ⟨5, 0, 0⟩

/-- all hypotheses of `ExecOk` hold for node 0 of `RevSemEx.P` in the initial state, the execution
    does not panic, creates the struct, specifies, and returns the from-scratch value -/
example :
    Inv P (fun _ => 0) (execute (eng P 0).1 P (init inp0) 0 none).1 ∧
    (execute (eng P 0).1 P (init inp0) 0 none).2.val = sem P (init inp0).inp 0 ∧
    (execute (eng P 0).1 P (init inp0) 0 none).2.val = ⟨5, some 0⟩ ∧
    ((execute (eng P 0).1 P (init inp0) 0 none).1.slots 0).isSome = true ∧
    ((execute (eng P 0).1 P (init inp0) 0 none).1.smemos 0).isSome = true := by
  have hfe : FetchSpec P (fun _ => 0) 0 (eng P 0).1 := fun s q hq => absurd hq (Nat.not_lt_zero q)
  have hI := init_inv P (fun _ => 0) inp0
  have hpn : (execute (eng P 0).1 P (init inp0) 0 none).1.panic = none := by decide
  have h := execOk_closed wf2 0 (eng P 0).1 hfe (eng_rel primRel_sticky P 0).1 (init inp0) none hI.1
    (fun c hc => absurd hc (Nat.not_lt_zero c)) rfl (fun mo h => by cases h)
    (fun hb => absurd hb (hI.2 0)) hpn
  exact ⟨h.1, h.2.2.2.1, by decide, by decide, by decide⟩

end RevExecEx
end SalsaVerif.Proofs.CoreSpec
