/-
  Core3 engine, stage S3b: `deep_ok`, the freshly executed memo (`memoOk_new`), the observers of a
  re-executed key (`hobs_stale`, `hobs_sok`), `execute_ok`.  Core Lean only.

  `execute` is reached in three situations:
    N  there is no memo;
    T  the old memo fails the shallow test (after a failed deep verification, or evicted and not
       verified at all, or `DerivedUntracked`).  Either some recorded read has a different value
       now — then re-execution reads it again and `iv` of the OLD memo yields a relevant write
       below the new stamp (`hback_changed`) — or all recorded reads are current, then the
       execution repeats them (`replay_det`): same value, stamp not lower (`m4`), and a lower
       durability again yields a relevant write;
    S  the old memo passes the shallow test and its value was evicted: all recorded reads are
       current, the execution repeats them, value and durability are reproduced, the stamp stays
       below the old `deepAt` (KA), which the new memo keeps (`deepAtOf`).
-/
import SalsaVerif.Proofs.Core3EvictRun
import SalsaVerif.Proofs.Core3Fetch

namespace SalsaVerif.Proofs.Core3E
open SalsaVerif.Model.Core3 SalsaVerif.Proofs.Core3

theorem depInfo_ca_le {P s d x} (hI : InvE P s) (h : depInfo s d = some x) : x.ca ≤ s.cur := by
  cases d with
  | cell c => simp [depInfo] at h
  | inp i => simp only [depInfo, Option.some.injEq] at h; subst h; exact hI.inp_le i
  | qry q =>
    cases hm : s.memos q with
    | none => simp [depInfo, hm] at h
    | some m =>
      simp only [depInfo, hm, Option.map, Option.some.injEq] at h
      subst h
      have := hI.memo q m hm
      exact Nat.le_trans this.ca_va this.va_cur

theorem sok_of_never {P s m} (hI : InvE P s) (h3 : 3 ≤ m.dur) (hva : 1 ≤ m.va) : SOK s m := by
  right; rw [hI.lc_never m.dur h3]; exact hva

theorem frInv0 {P s} (hI : InvE P s) : FrInvE s frame0 := by
  refine ⟨hI.cur1, Nat.le_refl _, ?_, ?_, ?_, Or.inr (Or.inl (Nat.le_refl _)), Or.inr (Or.inl (Nat.le_refl _))⟩
  · intro h; simp [frame0] at h
  · intro o c h; simp [frame0] at h
  · intro h; simp [frame0] at h

theorem deep_ok {P r mc} (hmc : McaSpecE P r mc) : ∀ obs s rev, InvE P s →
    (∀ o q', o ∈ obs → o.dep = .qry q' → q' < r ∧ ∃ m, s.memos q' = some m) →
    (∀ o c, o ∈ obs → o.dep = .cell c → o.recd = false) →
    InvE P (deepEdges mc obs s rev).1 ∧ ExtE s (deepEdges mc obs s rev).1 r ∧
    ((deepEdges mc obs s rev).2 = true → ∀ o, o ∈ obs → o.recd = true →
        ∃ s1, InvE P s1 ∧ ExtE s s1 r ∧ ExtE s1 (deepEdges mc obs s rev).1 r ∧ hotva s1 o.dep ∧
          ∃ x, depInfo s1 o.dep = some x ∧ x.ca ≤ rev) := by
  intro obs
  induction obs with
  | nil =>
    intro s rev hI _ _
    simp only [deepEdges]
    exact ⟨hI, ExtE.refl s r, by simp⟩
  | cons o rest ih =>
    intro s rev hI hpre hcell
    have hcell_rest : ∀ o' c, o' ∈ rest → o'.dep = .cell c → o'.recd = false :=
      fun o' c hm hd => hcell o' c (by simp [hm]) hd
    have hpre_rest : ∀ o' q', o' ∈ rest → o'.dep = .qry q' → q' < r ∧ ∃ m, s.memos q' = some m :=
      fun o' q' hm hd => hpre o' q' (by simp [hm]) hd
    simp only [deepEdges]
    by_cases hrec : o.recd = true
    · simp only [hrec, if_true]
      have first : InvE P (depChanged mc s o.dep rev).1 ∧ ExtE s (depChanged mc s o.dep rev).1 r ∧
          ((depChanged mc s o.dep rev).2 = false → hotva (depChanged mc s o.dep rev).1 o.dep ∧
            ∃ x, depInfo (depChanged mc s o.dep rev).1 o.dep = some x ∧ x.ca ≤ rev) := by
        cases hd : o.dep with
        | cell c => have := hcell o c (by simp) hd; rw [hrec] at this; cases this
        | inp i =>
          simp only [depChanged]
          refine ⟨hI, ExtE.refl s r, fun h => ⟨trivial, _, rfl, ?_⟩⟩
          exact Nat.le_of_not_gt (of_decide_eq_false h)
        | qry q =>
          simp only [depChanged]
          obtain ⟨hq, hm⟩ := hpre o q (by simp) hd
          obtain ⟨a1, a2, a3⟩ := hmc.ok s q rev hq hI hm
          refine ⟨a1, a2, fun h => ?_⟩
          obtain ⟨m, b1, b2, b3⟩ := a3 h
          exact ⟨⟨m, b1, by rw [b2, a2.cur]⟩, ⟨m.gval, m.ca, m.dur⟩, by simp [depInfo, b1], b3⟩
      obtain ⟨f1, f2, f3⟩ := first
      by_cases hch : (depChanged mc s o.dep rev).2 = true
      · simp only [hch, if_true]
        exact ⟨f1, f2, by simp⟩
      · have hch' : (depChanged mc s o.dep rev).2 = false := by
          cases h : (depChanged mc s o.dep rev).2 <;> simp_all
        simp only [hch']
        have hpre' : ∀ o' q', o' ∈ rest → o'.dep = .qry q' →
            q' < r ∧ ∃ m, (depChanged mc s o.dep rev).1.memos q' = some m := by
          intro o' q' hm hd
          obtain ⟨hq, m, hmm⟩ := hpre_rest o' q' hm hd
          obtain ⟨m', hm', _⟩ := f2.mono q' m hmm
          exact ⟨hq, m', hm'⟩
        obtain ⟨i1, i2, i3⟩ := ih (depChanged mc s o.dep rev).1 rev f1 hpre' hcell_rest
        refine ⟨i1, ExtE.trans f2 i2, ?_⟩
        intro ht o' hm hr'
        simp only [List.mem_cons] at hm
        rcases hm with hm | hm
        · subst hm
          obtain ⟨g1, g2⟩ := f3 hch'
          exact ⟨_, f1, f2, i2, g1, g2⟩
        · obtain ⟨s1, b1, b2, b3, b4⟩ := i3 ht o' hm hr'
          exact ⟨s1, b1, ExtE.trans f2 b2, b3, b4⟩
    · have hrec' : o.recd = false := by cases h : o.recd <;> simp_all
      simp only [hrec', Bool.false_eq_true, if_false]
      obtain ⟨i1, i2, i3⟩ := ih s rev hI hpre_rest hcell_rest
      refine ⟨i1, i2, ?_⟩
      intro ht o' hm hr'
      simp only [List.mem_cons] at hm
      rcases hm with hm | hm
      · subst hm; rw [hrec'] at hr'; cases hr'
      · exact i3 ht o' hm hr'

/-- an edge found unchanged at some point of the walk still has its value at the end of it
    (its stamp may have risen: the dependency may have been evicted and re-executed since) -/
theorem vok_of_deep {P r m o x} {s1 t : State} (h1 : InvE P s1) (hm : s1.memos r = some m) (ho : o ∈ m.obs)
    (hh : hotva s1 o.dep) (hx : depInfo s1 o.dep = some x) (hc : x.ca ≤ m.va) (he : ExtE s1 t r) :
    hotva t o.dep ∧ ∃ x', depInfo t o.dep = some x' ∧ x'.val = o.val ∧ m.dur ≤ x'.dur := by
  obtain ⟨a, b⟩ := (h1.memo r m hm).i2 o ho x hx hc
  cases hd : o.dep with
  | cell c => rw [hd] at hx; simp [depInfo] at hx
  | inp i =>
    rw [hd] at hx
    refine ⟨trivial, x, ?_, a, b⟩
    simp only [depInfo] at *
    rw [he.inp]; exact hx
  | qry q' =>
    rw [hd] at hx hh
    obtain ⟨m1, hm1, hv1⟩ := hh
    simp only [depInfo, hm1, Option.map, Option.some.injEq] at hx
    subst hx
    obtain ⟨m2, c1, c2, c3, c4⟩ := he.stableE q' m1 hm1 hv1
    exact ⟨⟨m2, c1, by rw [c2, he.cur]⟩, ⟨m2.gval, m2.ca, m2.dur⟩, by simp [depInfo, c1],
      by simpa [c3] using a, Nat.le_trans b c4⟩

/-- `MemoOkE` of the freshly executed memo with stamp `ca ≤ cur` and ghost `deepAt = D` -/
theorem memoOk_new {P r} {t : State} {F : Frame} {v ca D : Nat} {new : List Obs}
    (hI : InvE P t) (fi : FrInvE t F) (hca : ca ≤ t.cur) (hdur : F.dur ≤ 3) (hobs : F.obs = new)
    (hrep : replay (P.body r) (obsPairs new) = some v)
    (hfacts : ∀ o, o ∈ new → hotv t o.dep ∧ ObsFact t F o ∧ (∀ q', o.dep = .qry q' → q' < r))
    (hD : D ≤ t.cur) (hD1 : 1 ≤ D)
    (hka : ∀ o, o ∈ new → (∀ x, depInfo t o.dep = some x → x.ca ≤ D) ∧
        (∀ q' m', o.dep = .qry q' → t.memos q' = some m' → m'.deepAt ≤ D))
    (hi4 : lc t F.dur ≤ D)
    (hg4 : ∀ w d, (w, d) ∈ t.wlog → F.dur ≤ d → ¬ (D < w ∧ w ≤ t.cur))
    (hm4 : F.untracked = false → ca ≤ 1 ∨ ∃ o, o ∈ new ∧ ∃ x, depInfo t o.dep = some x ∧ ca ≤ x.ca) :
    MemoOkE P (setMemo t r (newMemo v t.cur ca F D)) r (newMemo v t.cur ca F D) := by
  have hnr : ∀ o, o ∈ new → o.dep ≠ .qry r := by
    intro o hm hd
    have := (hfacts o hm).2.2 r hd
    omega
  have hinfo : ∀ o, o ∈ new → ∀ x, depInfo (setMemo t r (newMemo v t.cur ca F D)) o.dep = some x →
      depInfo t o.dep = some x ∧ x.val = o.val ∧ x.ca ≤ F.ca ∧ F.dur ≤ x.dur ∧ (o.recd = false → 3 ≤ x.dur) := by
    intro o hm x hx
    rw [depInfo_setMemo_other _ _ _ (hnr o hm)] at hx
    rcases (hfacts o hm).2.1 with ⟨c, hc⟩ | ⟨x0, h0, h1, h2, h3, h4⟩
    · rw [hc] at hx; simp [depInfo] at hx
    · rw [h0] at hx; cases hx; exact ⟨h0, h1, h2, h3, h4⟩
  simp only [newMemo]
  refine ⟨hca, Nat.le_refl _, hI.cur1, hD, hD1, hdur, fun v' h => (Option.some.inj h).symm,
    fun h => (by cases h), (by simp only; rw [hobs]; exact hrep),
    fun h => (fi.unt h).1, ?_, fi.hasc, ?_, ?_, Or.inl hi4, ?_, ?_, hg4, ?_⟩
  · intro o c ho hd
    obtain ⟨a, b, c'⟩ := fi.cellu o c ho hd
    exact ⟨a, b, fun _ => c'⟩
  · -- iv
    intro o hm x hx
    simp only at hm; rw [hobs] at hm
    obtain ⟨_, h1, _, h3, _⟩ := hinfo o hm x hx
    exact Or.inl ⟨h1, h3⟩
  · -- ka
    intro _ o hm
    simp only at hm; rw [hobs] at hm
    refine ⟨?_, ?_, ?_⟩
    · intro x hx
      obtain ⟨h0, _⟩ := hinfo o hm x hx
      exact (hka o hm).1 x h0
    · rw [sokDep_setMemo_other _ _ _ (hnr o hm)]
      exact sokDep_of_hotva (hotva_of_hotv (hfacts o hm).1)
    · intro q' m2 hd hm2
      have hne : q' ≠ r := fun e => hnr o hm (by rw [hd, e])
      rw [setMemo_other _ _ _ hne] at hm2
      exact (hka o hm).2 q' m2 hd hm2
  · -- i5
    intro o q' hm hd
    simp only at hm; rw [hobs] at hm
    obtain ⟨hh, _, hlt⟩ := hfacts o hm
    rw [hd] at hh
    obtain ⟨m2, hm2, hv2, _⟩ := hh
    have hne : q' ≠ r := by have := hlt q' hd; omega
    exact ⟨hlt q' hd, m2, by rw [setMemo_other _ _ _ hne]; exact hm2, fun _ => by simp only; rw [hv2]; exact hD⟩
  · -- i6
    intro o hm hrec x hx
    simp only at hm; rw [hobs] at hm
    obtain ⟨_, h1, _, _, h4⟩ := hinfo o hm x hx
    exact ⟨h1, h4 hrec⟩
  · -- m4
    intro hu
    rcases hm4 hu with h | ⟨o, ho, x, hx, hc⟩
    · exact Or.inl h
    · exact Or.inr ⟨o, by simp only; rw [hobs]; exact ho, x,
        by rw [depInfo_setMemo_other _ _ _ (hnr o ho)]; exact hx, hc⟩

/-- observers of a key whose old memo fails the shallow test and is re-executed -/
theorem hobs_stale {P r} {t : State} {o : Memo} {v : Nat} {F : Frame} (kd : Kind) (D : Nat)
    (hI : InvE P t) (hmr : t.memos r = some o) (hns : ¬ SOK t o)
    (hcase : Wit t o.dur o.va F.ca ∨ (v = o.gval ∧ o.ca ≤ F.ca ∧ o.dur ≤ F.dur)) :
    ∀ p mp ob, p ≠ r → t.memos p = some mp → ob ∈ mp.obs → ob.dep = .qry r →
      ((v = ob.val ∧ mp.dur ≤ F.dur) ∨ Wit t mp.dur mp.va (backdateCa kd (some o) v F)) ∧
      (SOK t mp → backdateCa kd (some o) v F ≤ mp.deepAt ∧ D ≤ mp.deepAt) ∧
      (ob.recd = false → v = ob.val ∧ 3 ≤ F.dur) := by
  intro p mp ob _ hmp ho hdq
  have ok := hI.memo p mp hmp
  have mook := hI.memo r o hmr
  have hinfo : depInfo t ob.dep = some ⟨o.gval, o.ca, o.dur⟩ := by rw [hdq]; simp [depInfo, hmr]
  have hnsmp : ¬ SOK t mp := by
    intro h
    have := (ok.ka h ob ho).2.1
    rw [hdq] at this
    obtain ⟨m2, hm2, hs2⟩ := this
    rw [hmr] at hm2; cases hm2
    exact hns hs2
  have hrec : ob.recd = true := by
    cases hr : ob.recd with
    | true => rfl
    | false =>
      have := (ok.i6 ob ho hr _ hinfo).2
      exact absurd (sok_of_never hI this mook.va1) hns
  have hdeep : mp.deepAt ≤ o.va := by
    obtain ⟨_, m2, hm2, h⟩ := ok.i5 ob r ho hdq
    rw [hmr] at hm2; cases hm2
    exact h hrec
  refine ⟨?_, fun h => absurd h hnsmp, fun h => by rw [hrec] at h; cases h⟩
  -- a relevant write for the re-executed key is one for the observer
  have key : ∀ hi, Wit t o.dur o.va hi → mp.dur ≤ o.dur → Wit t mp.dur mp.va hi := by
    rintro hi ⟨w, d, hw, hd, hlt, hle⟩ hdur
    refine ⟨w, d, hw, Nat.le_trans hdur hd, ?_, hle⟩
    apply Nat.lt_of_not_le
    intro hwle
    exact ok.g4 w d hw (Nat.le_trans hdur hd) ⟨Nat.lt_of_le_of_lt hdeep hlt, hwle⟩
  by_cases hbd : canBackdate kd o v F = true
  · obtain ⟨_, hval, hdur⟩ := (canBackdate_iff kd o v F).mp hbd
    have hvg : v = o.gval := mook.valg v hval
    have hca' : backdateCa kd (some o) v F = o.ca := by simp only [backdateCa, hbd, if_true]
    rw [hca']
    rcases ok.iv ob ho _ hinfo with ⟨a, b⟩ | h
    · exact Or.inl ⟨by rw [hvg]; exact a, Nat.le_trans b hdur⟩
    · exact Or.inr h
  · have hca' : backdateCa kd (some o) v F = F.ca := by simp only [backdateCa, hbd]; rfl
    rw [hca']
    have hcale : o.ca ≤ F.ca := by
      rcases hcase with h | h
      · exact Nat.le_trans mook.ca_va (Nat.le_of_lt h.lt)
      · exact h.2.1
    rcases ok.iv ob ho _ hinfo with ⟨a, b⟩ | h
    · rcases hcase with hw | ⟨e1, _, e3⟩
      · exact Or.inr (key _ hw b)
      · exact Or.inl ⟨by rw [e1]; exact a, Nat.le_trans b e3⟩
    · exact Or.inr (h.mono hcale)

/-- observers of a key whose old memo passes the shallow test, was evicted and is re-executed -/
theorem hobs_sok {P r} {t : State} {o : Memo} {v ca dur : Nat}
    (hI : InvE P t) (hmr : t.memos r = some o)
    (hv : v = o.gval) (hca : o.ca ≤ ca) (hdur : o.dur ≤ dur) (hdeep : ca ≤ o.deepAt) :
    ∀ p mp ob, p ≠ r → t.memos p = some mp → ob ∈ mp.obs → ob.dep = .qry r →
      ((v = ob.val ∧ mp.dur ≤ dur) ∨ Wit t mp.dur mp.va ca) ∧
      (SOK t mp → ca ≤ mp.deepAt ∧ o.deepAt ≤ mp.deepAt) ∧
      (ob.recd = false → v = ob.val ∧ 3 ≤ dur) := by
  intro p mp ob _ hmp ho hdq
  have ok := hI.memo p mp hmp
  have hinfo : depInfo t ob.dep = some ⟨o.gval, o.ca, o.dur⟩ := by rw [hdq]; simp [depInfo, hmr]
  refine ⟨?_, ?_, ?_⟩
  · rcases ok.iv ob ho _ hinfo with ⟨a, b⟩ | h
    · exact Or.inl ⟨by rw [hv]; exact a, Nat.le_trans b hdur⟩
    · exact Or.inr (h.mono hca)
  · intro hs
    have := (ok.ka hs ob ho).2.2 r o hdq hmr
    exact ⟨Nat.le_trans hdeep this, this⟩
  · intro hr
    obtain ⟨a, b⟩ := ok.i6 ob ho hr _ hinfo
    exact ⟨by rw [hv]; exact a, Nat.le_trans b hdur⟩

/-- all recorded reads of a memo that passes the shallow test are current -/
theorem obs_current_of_sok {P s q m} (hP : Wf P) (hI : InvE P s) (hm : s.memos q = some m) (hs : SOK s m) :
    ∀ o, o ∈ m.obs → semDep P s.inp s.cells o.dep = o.val := by
  intro o ho
  have ok := hI.memo q m hm
  obtain ⟨hca, hsok⟩ := ok.i3 hs o ho
  cases hd : o.dep with
  | cell c =>
    obtain ⟨hu, _, hc⟩ := ok.cellobs o c ho hd
    exact hc (sok_low hI ok (ok.g6 hu) hs)
  | inp i =>
    have hinfo : depInfo s o.dep = some ⟨(s.inp i).val, (s.inp i).ca, (s.inp i).dur⟩ := by rw [hd]; rfl
    exact (ok.i2 o ho _ hinfo (hca _ hinfo)).1
  | qry q' =>
    obtain ⟨_, m', hm', _⟩ := ok.i5 o q' ho hd
    have hinfo : depInfo s o.dep = some ⟨m'.gval, m'.ca, m'.dur⟩ := by rw [hd]; simp [depInfo, hm']
    have hval := (ok.i2 o ho _ hinfo (hca _ hinfo)).1
    rw [hd] at hsok
    obtain ⟨m2, hm2, hs2⟩ := hsok
    rw [hm'] at hm2; cases hm2
    simp only [semDep]
    rw [← fresh_of_sok hP hI q' m' hm' hs2]; exact hval

/-- Some recorded read of a stale memo is an untracked read or has another value now: then the
    re-execution reads it again, and there is a relevant write below the new stamp. -/
theorem hback_changed {P r fe} (hP : Wf P) (hfe : FetchSpecE P r fe) (t : State) (m : Memo)
    (hI : InvE P t) (hm : t.memos r = some m) (hv : m.va ≠ t.cur)
    (hex : ∃ o, o ∈ m.obs ∧ ((∃ c, o.dep = .cell c) ∨ semDep P t.inp t.cells o.dep ≠ o.val)) :
    Wit t m.dur m.va (runBody fe (P.body r) (emit t (.exec r)) frame0).2.1.ca := by
  have mok := hI.memo r m hm
  have hlt : m.va < t.cur := Nat.lt_of_le_of_ne mok.va_cur hv
  obtain ⟨pre, o, post, e, hp, hpre⟩ := first_split
    (fun o : Obs => (∃ c, o.dep = .cell c) ∨ semDep P t.inp t.cells o.dep ≠ o.val) m.obs hex
  have hoin : o ∈ m.obs := by rw [e]; simp
  have hrep : (replay (P.body r) (obsPairs (pre ++ o :: post))).isSome := by rw [← e, mok.rep]; rfl
  obtain ⟨t', F, a1, a2, _, _, a5, a6, a7, a8⟩ := run_prefix hfe pre (P.body r) (emit t (.exec r)) frame0 o post
    (hP r) (inv_emit _ hI) (frInv0 (inv_emit _ hI)) hrep
    (fun o' ho' => Classical.byContradiction fun hne => hpre o' ho' (Or.inr hne))
  rcases a8 with ⟨c, hc⟩ | ⟨x, hx⟩
  · -- an untracked read: the frame's stamp is the current revision
    have e1 : F.ca = t.cur := a6 ⟨c, hc⟩
    have hu := (mok.cellobs o c hoin hc).1
    have hd0 : m.dur = 0 := mok.g6 hu
    have hw : (m.va + 1, 0) ∈ t.wlog := hI.bumps (m.va + 1) (by have := mok.va1; omega) (by omega)
    exact ⟨m.va + 1, 0, hw, by omega, by omega, by omega⟩
  · obtain ⟨b1, b2⟩ := a7 x hx
    have hne : x.val ≠ o.val := by
      rcases hp with ⟨c', hc'⟩ | hne
      · rw [hc'] at hx; simp [depInfo] at hx
      · rw [b2]; exact hne
    have hm' : t'.memos r = some m := by rw [a2.above r (Nat.le_refl r)]; exact hm
    rcases (a1.memo r m hm').iv o hoin x hx with ⟨h, _⟩ | h
    · exact absurd h hne
    · have h2 : Wit t' m.dur m.va (runBody fe (P.body r) (emit t (.exec r)) frame0).2.1.ca :=
        h.mono (Nat.le_trans b1 a5)
      exact (a2.wit _ _ _).mp h2

/-- the frame of an execution that repeated the recorded reads of the old (tracked) memo -/
theorem repro_facts {P r} {t : State} {o : Memo} {F : Frame} {new : List Obs}
    (hI : InvE P t) (hmr : t.memos r = some o) (hu : o.untracked = false) (fi : FrInvE t F)
    (hobs : F.obs = new) (hfacts : ∀ o', o' ∈ new → ObsFact t F o')
    (hpairs : obsPairs new = obsPairs o.obs) :
    F.untracked = false ∧ o.ca ≤ F.ca ∧ (o.dur ≤ F.dur ∨ Wit t o.dur o.va F.ca) := by
  have mook := hI.memo r o hmr
  have hca_of : ∀ o', o' ∈ new → ∀ x, depInfo t o'.dep = some x → x.ca ≤ F.ca ∧ F.dur ≤ x.dur := by
    intro o' ho' x hx
    rcases hfacts o' ho' with ⟨c, hc⟩ | ⟨x0, h0, _, h2, h3, _⟩
    · rw [hc] at hx; simp [depInfo] at hx
    · rw [h0] at hx; cases hx; exact ⟨h2, h3⟩
  have hFu : F.untracked = false := by
    cases h : F.untracked with
    | false => rfl
    | true =>
      obtain ⟨o', c, ho', hd'⟩ := fi.hasc h
      rw [hobs] at ho'
      obtain ⟨oo, hoo, e1, _⟩ := obs_twin hpairs ho'
      have := (mook.cellobs oo c hoo (by rw [e1]; exact hd')).1
      rw [hu] at this; cases this
  refine ⟨hFu, ?_, ?_⟩
  · rcases mook.m4 hu with h | ⟨oo, hoo, x, hx, hc⟩
    · exact Nat.le_trans h fi.ca1
    · obtain ⟨o', ho', e1, _⟩ := obs_twin hpairs.symm hoo
      exact Nat.le_trans hc (hca_of o' ho' x (by rw [e1]; exact hx)).1
  · rcases fi.att_dur with h | h | ⟨o', ho', _, x, hx, hc⟩
    · rw [hFu] at h; cases h
    · exact Or.inl (Nat.le_trans mook.dur3 h)
    · rw [hobs] at ho'
      obtain ⟨oo, hoo, e1, _⟩ := obs_twin hpairs ho'
      rcases mook.iv oo hoo x (by rw [e1]; exact hx) with ⟨_, b⟩ | h
      · exact Or.inl (Nat.le_trans b hc)
      · exact Or.inr (h.mono (hca_of o' ho' x hx).1)

/-- the same when the old memo passes the shallow test: stamp below the old `deepAt`, durability
    not lower, and KA/KB for the new reads -/
theorem repro_sok {P r} {t : State} {o : Memo} {F : Frame} {new : List Obs}
    (hI : InvE P t) (hmr : t.memos r = some o) (hs : SOK t o) (fi : FrInvE t F) (hFu : F.untracked = false)
    (hobs : F.obs = new) (hpairs : obsPairs new = obsPairs o.obs) :
    F.ca ≤ o.deepAt ∧ o.dur ≤ F.dur ∧
    ∀ o', o' ∈ new → (∀ x, depInfo t o'.dep = some x → x.ca ≤ o.deepAt) ∧
      (∀ q' m', o'.dep = .qry q' → t.memos q' = some m' → m'.deepAt ≤ o.deepAt) := by
  have mook := hI.memo r o hmr
  have hka : ∀ o', o' ∈ new → (∀ x, depInfo t o'.dep = some x → x.ca ≤ o.deepAt ∧ o.dur ≤ x.dur) ∧
      (∀ q' m', o'.dep = .qry q' → t.memos q' = some m' → m'.deepAt ≤ o.deepAt) := by
    intro o' ho'
    obtain ⟨oo, hoo, e1, _⟩ := obs_twin hpairs ho'
    obtain ⟨a, _, c⟩ := mook.ka hs oo hoo
    rw [e1] at a c
    refine ⟨fun x hx => ⟨a x hx, ?_⟩, c⟩
    exact (mook.i2 oo hoo x (by rw [e1]; exact hx) (Nat.le_trans (a x hx) mook.deep_va)).2
  refine ⟨?_, ?_, fun o' ho' => ⟨fun x hx => ((hka o' ho').1 x hx).1, (hka o' ho').2⟩⟩
  · rcases fi.att_ca with h | h | ⟨o', ho', _, x, hx, hc⟩
    · rw [hFu] at h; cases h
    · exact Nat.le_trans h mook.deep1
    · rw [hobs] at ho'
      exact Nat.le_trans hc ((hka o' ho').1 x hx).1
  · rcases fi.att_dur with h | h | ⟨o', ho', _, x, hx, hc⟩
    · rw [hFu] at h; cases h
    · exact Nat.le_trans mook.dur3 h
    · rw [hobs] at ho'
      exact Nat.le_trans ((hka o' ho').1 x hx).2 hc

/-- M4 of the new memo from the frame's attained stamp -/
theorem m4_of_att {t : State} {F : Frame} {new : List Obs} {ca : Nat} (fi : FrInvE t F) (hobs : F.obs = new)
    (hca : ca ≤ F.ca) :
    F.untracked = false → ca ≤ 1 ∨ ∃ o, o ∈ new ∧ ∃ x, depInfo t o.dep = some x ∧ ca ≤ x.ca := by
  intro hu
  rcases fi.att_ca with h | h | ⟨o, ho, _, x, hx, hc⟩
  · rw [hu] at h; cases h
  · exact Or.inl (Nat.le_trans hca h)
  · exact Or.inr ⟨o, by rw [← hobs]; exact ho, x, hx, Nat.le_trans hca hc⟩

theorem backdate_bounds (kd : Kind) (o : Memo) (v : Nat) (F : Frame) (h : o.ca ≤ F.ca) :
    o.ca ≤ backdateCa kd (some o) v F ∧ backdateCa kd (some o) v F ≤ F.ca := by
  simp only [backdateCa]
  split
  · exact ⟨Nat.le_refl _, h⟩
  · exact ⟨h, Nat.le_refl _⟩

theorem ext_install {P s t r m'} (hI : InvE P s) (h : ExtE s t r) (hva : m'.va = s.cur)
    (hca : ∀ m, s.memos r = some m → m.ca ≤ m'.ca)
    (hhot : ∀ m, s.memos r = some m → m.va = s.cur → m.value = none ∧ m'.gval = m.gval ∧ m.dur ≤ m'.dur) :
    ExtE s (setMemo t r m') (r + 1) := by
  refine ⟨by simp [h.cur], by simp [h.lch], by simp [h.inp], by simp [h.cells], by simp [h.wlog], ?_, ?_, ?_, ?_⟩
  · intro q hq
    have hne : q ≠ r := by omega
    rw [setMemo_other _ _ _ hne]; exact h.above q (by omega)
  · intro q m0 hm0 hv0 hn0
    by_cases hqr : q = r
    · subst hqr; exact absurd (hhot m0 hm0 hv0).1 hn0
    · rw [setMemo_other _ _ _ hqr]; exact h.stable q m0 hm0 hv0 hn0
  · intro q m0 hm0 hv0
    by_cases hqr : q = r
    · subst hqr
      obtain ⟨_, a, b⟩ := hhot m0 hm0 hv0
      exact ⟨m', setMemo_same _ _ _, hva, a, b⟩
    · rw [setMemo_other _ _ _ hqr]; exact h.stableE q m0 hm0 hv0
  · intro q m0 hm0
    by_cases hqr : q = r
    · subst hqr
      exact ⟨m', setMemo_same _ _ _, by rw [hva]; exact (hI.memo q m0 hm0).va_cur, hca m0 hm0⟩
    · rw [setMemo_other _ _ _ hqr]; exact h.mono q m0 hm0

end SalsaVerif.Proofs.Core3E
