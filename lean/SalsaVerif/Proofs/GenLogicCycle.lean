/-
  Glue between the GENERATED decisions of `fetch_cold_cycle` (`Gen/LogicCycle.lean`) and
  `Model/Cycle.lean`.  The model keeps one revision and no cancellation, and represents "the memo
  stored for head `c` is a provisional value of this revision whose cycle heads contain `c`" by
  `c ∈ prov`, and "… is a poisoned memo of this revision" by `c ∈ poisoned`.  Core Lean only.
-/
import SalsaVerif.Gen.LogicCycle
import SalsaVerif.Model.Cycle

namespace SalsaVerif.Proofs.GenLogic.Cycle
open SalsaVerif.Gen.LogicCycle
open SalsaVerif.Model.Cycle

/-- a provisional memo of a cycle head, created in the current revision and iteration -/
def provisionalIn : CycleIn :=
  { hasValue := true, mayBeProvisional := true, verifiedAt := 1, currentRevision := 1,
    memoCancellationCount := 0, runtimeCancellationCount := 0, headsContainSelf := true }

/-- a memo poisoned by `PoisonProvisionalIfPanicking` in the current revision (value `None`) -/
def poisonedIn : CycleIn := { provisionalIn with hasValue := false }

/-- the memo `get_memo_from_table_for` finds for `c`, as the model state represents it -/
def memoOf (s : St) (c : Nat) : Option CycleIn :=
  if s.poisoned.contains c then some poisonedIn
  else (s.prov.lookup c).map (fun _ => provisionalIn)

/-- src/function/fetch.rs: fn fetch_cold_cycle, re-assembled from the generated conditions -/
def fetchColdCycleG (P : Prog) (c : Nat) (s : St) : Res Fetched :=
  match (P.node c).strat with
  | .panic => .error ⟨.cycle, s.stack⟩
  | _ =>
    let initial : Res Fetched :=
      .ok (cycleInitial P c, [c], { s with prov := (c, cycleInitial P c) :: s.prov })
    match memoOf s c with
    | none => initial
    | some x =>
      if rethrows_poisoned x then .error ⟨.propagated, s.stack⟩
      else if reuses_provisional x then
        match s.prov.lookup c with
        | some v => .ok (v, [c], s)
        | none => initial
      else initial

end SalsaVerif.Proofs.GenLogic.Cycle
