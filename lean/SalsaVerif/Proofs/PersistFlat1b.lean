/-
  C26 with flattening: comparing two evaluations dependency by dependency — the first
  difference.  Core Lean only.
-/
import SalsaVerif.Proofs.PersistFlat1

namespace SalsaVerif.Proofs.PersistFlat
open SalsaVerif.Model.Core SalsaVerif.Model.Persist SalsaVerif.Proofs.Core SalsaVerif.Proofs.Persist

/-- two runs of a body read the same dependencies up to and including the first one whose
    value differs -/
theorem first_diff_dep (f g : Dep → Nat) : ∀ b,
    (∃ d, d ∈ depsB f b ∧ d ∈ depsB g b ∧ f d ≠ g d) ∨ (∀ d, d ∈ depsB f b → f d = g d) := by
  intro b
  induction b with
  | ret v => right; intro d hd; simp [depsB] at hd
  | read d k ih =>
    by_cases h : f d = g d
    · rcases ih (f d) with ⟨d', a, b, c⟩ | hall
      · left
        refine ⟨d', by simp [depsB, a], ?_, c⟩
        simp only [depsB, List.mem_cons]
        right; rw [← h]; exact b
      · right
        intro d' hd'
        simp only [depsB, List.mem_cons] at hd'
        rcases hd' with e | e
        · rw [e]; exact h
        · exact hall d' e
    · left
      exact ⟨d, by simp [depsB], by simp [depsB], h⟩

theorem first_diff {P} (inp1 inp2 : Nat → Inp) (q : Nat) :
    (∃ d, d ∈ sdeps P inp1 q ∧ d ∈ sdeps P inp2 q ∧ semDep P inp1 d ≠ semDep P inp2 d) ∨
    (∀ d, d ∈ sdeps P inp1 q → semDep P inp1 d = semDep P inp2 d) :=
  first_diff_dep (semDep P inp1) (semDep P inp2) (P q)

/-- `k` is `q` or is reached from `q` through functions outside `S` only (head steps) -/
inductive NP (P : Nat → Body) (inp : Nat → Inp) (S : Nat → Bool) : Nat → Nat → Prop
  | refl (q) : NP P inp S q q
  | step {q k' k} : Dep.qry k' ∈ sdeps P inp q → S k' = false → NP P inp S k' k → NP P inp S q k

theorem NP.reach {P inp S q k} (h : NP P inp S q k) : Reach P inp q k := by
  induction h with
  | refl _ => exact Reach.refl _
  | step hd _ _ ih => exact Reach.step hd ih

/-- a terminal dependency: an input or a function of `S` -/
def Term (S : Nat → Bool) : Dep → Prop
  | .inp _ => True
  | .qry p => S p = true

/-- **first difference**: if `k` evaluates differently over the two inputs, then below `k`,
    through functions outside `S` (reached over both inputs), some node reads — over both inputs —
    a terminal dependency whose value differs -/
theorem first_diff_chain {P} (hP : Wf P) (S : Nat → Bool) (inp1 inp2 : Nat → Inp) : ∀ k,
    sem P inp1 k ≠ sem P inp2 k →
    ∃ k2 d, NP P inp2 S k k2 ∧ Reach P inp1 k k2 ∧ d ∈ sdeps P inp1 k2 ∧ d ∈ sdeps P inp2 k2 ∧
      Term S d ∧ semDep P inp1 d ≠ semDep P inp2 d := by
  intro k
  induction k using Nat.strongRecOn with
  | _ k ih =>
    intro hne
    rcases first_diff (P := P) inp1 inp2 k with ⟨d, a, b, c⟩ | hall
    · cases d with
      | inp i => exact ⟨k, .inp i, NP.refl k, Reach.refl k, a, b, trivial, c⟩
      | qry k' =>
        by_cases hs : S k' = true
        · exact ⟨k, .qry k', NP.refl k, Reach.refl k, a, b, hs, c⟩
        · have hs' : S k' = false := by cases h : S k' <;> simp_all
          obtain ⟨k2, d, e1, e2, e3, e4, e5, e6⟩ := ih k' (sdeps_lt hP a) c
          exact ⟨k2, d, NP.step b hs' e1, Reach.step a e2, e3, e4, e5, e6⟩
    · exact absurd ((eval_same hP hall).2).symm hne

end SalsaVerif.Proofs.PersistFlat
