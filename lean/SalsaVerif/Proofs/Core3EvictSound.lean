/-
  Core3 engine, stage S3b: every operation preserves `InvE`; soundness `c01_s3` of the engine for
  all well-formed programs; the environment (`inp`, `cells`, `cur`) after an operation depends on
  the environment before it only (used for LRU transparency).  Core Lean only.
-/
import SalsaVerif.Proofs.Core3EvictTop

namespace SalsaVerif.Proofs.Core3E
open SalsaVerif.Model.Core3 SalsaVerif.Proofs.Core3
open SalsaVerif.Model.Lru (Lru forEachEvicted setCapacity)

/-- an input write on top of the bumped state -/
theorem write_bump_aux (s e : State) (ce : Nat → Nat) (h : bumpRev s = bumpPure e ce) (i v : Nat)
    (nd : Option Nat) : ∃ b, BumpE e (write s i v nd) b := by
  unfold write
  rw [h]
  unfold bumpPure
  by_cases hd : (e.inp i).dur ≥ 3
  · refine ⟨0, by omega, ?_, ?_, ?_, ?_, ?_, ?_, ?_, ?_⟩
    · simp [hd]
    · intro k
      simp only [hd, if_true, lc]
      by_cases hk : k = 0
      · simp [hk]
      · have : ¬ k ≤ 0 := by omega
        simp [hk, this]
    · simp [hd]
    · intro x he; simp [hd, he]
    · simp [hd]
    · intro w d h'
      simp only [hd, if_true, List.mem_cons] at h'
      rcases h' with h' | h'
      · right; obtain ⟨a, b⟩ := Prod.mk.inj h'; subst a; subst b; exact ⟨rfl, Nat.le_refl _⟩
      · exact Or.inl h'
    · intro j; left; simp [hd]
    · simp [hd]
  · have hlt : (e.inp i).dur < 3 := by omega
    refine ⟨(e.inp i).dur, hlt, ?_, ?_, ?_, ?_, ?_, ?_, ?_, ?_⟩
    · simp [hd]
    · intro k
      simp only [hd, if_false, lc]
      by_cases hk : k = 0
      · subst hk; simp
      · simp [hk]
    · simp [hd]
    · intro x he; simp [hd, he]
    · simp [hd]
    · intro w d h'
      simp only [hd, if_false, List.mem_cons] at h'
      rcases h' with h' | h' | h'
      · right; obtain ⟨a, b⟩ := Prod.mk.inj h'; subst a; subst b; exact ⟨rfl, Nat.le_refl _⟩
      · right; obtain ⟨a, b⟩ := Prod.mk.inj h'; subst a; subst b; exact ⟨rfl, Nat.zero_le _⟩
      · exact Or.inl h'
    · intro j
      by_cases hj : j = i
      · subst hj; right; simp [hd]
      · left; simp [hd, hj]
    · simp [hd]

/-- a synthetic write on top of the bumped state -/
theorem synth_bump_aux (s e : State) (ce : Nat → Nat) (h : bumpRev s = bumpPure e ce) (d : Nat) :
    ∃ b, BumpE e (synth s d) b := by
  unfold synth
  rw [h]
  unfold bumpPure
  by_cases hd : d ≥ 3
  · refine ⟨0, by omega, ?_, ?_, ?_, ?_, ?_, ?_, ?_, ?_⟩
    · simp [hd]
    · intro k
      simp only [hd, if_true, lc]
      by_cases hk : k = 0
      · simp [hk]
      · have : ¬ k ≤ 0 := by omega
        simp [hk, this]
    · simp [hd]
    · intro x he; simp [hd, he]
    · simp [hd]
    · intro w d' h'
      simp only [hd, if_true, List.mem_cons] at h'
      rcases h' with h' | h'
      · right; obtain ⟨a, b⟩ := Prod.mk.inj h'; subst a; subst b; exact ⟨rfl, Nat.le_refl _⟩
      · exact Or.inl h'
    · intro j; left; simp [hd]
    · simp [hd]
  · have hlt : d < 3 := by omega
    refine ⟨d, hlt, ?_, ?_, ?_, ?_, ?_, ?_, ?_, ?_⟩
    · simp [hd]
    · intro k
      simp only [hd, if_false, lc]
      by_cases hk : k = 0
      · subst hk; simp
      · simp [hk]
    · simp [hd]
    · intro x he; simp [hd, he]
    · simp [hd]
    · intro w d' h'
      simp only [hd, if_false, List.mem_cons] at h'
      rcases h' with h' | h' | h'
      · right; obtain ⟨a, b⟩ := Prod.mk.inj h'; subst a; subst b; exact ⟨rfl, Nat.le_refl _⟩
      · right; obtain ⟨a, b⟩ := Prod.mk.inj h'; subst a; subst b; exact ⟨rfl, Nat.zero_le _⟩
      · exact Or.inl h'
    · intro j; left; simp [hd]
    · simp [hd]

theorem init_inv (P : Prog) (inp : Nat → Inp) (cells : Nat → Nat) (cap : Nat) : InvE P (init inp cells cap) := by
  refine ⟨Nat.le_refl _, ?_, ?_, ?_, ?_, fun _ => Nat.le_refl _, fun _ => Nat.le_refl _, ?_, ?_, ?_⟩
  · intro d; simp only [lc, init]; split <;> exact Nat.le_refl _
  · intro d; simp only [lc, init]; split <;> exact Nat.le_refl _
  · intro d; simp only [lc, init]; split <;> split <;> exact Nat.le_refl _
  · intro d hd; simp only [lc, init]; have : d ≠ 0 := by omega
    simp [this]
  · intro w d h; simp [init] at h
  · intro w h1 h2; simp only [init] at h2; omega
  · intro q m h; simp [init] at h

theorem step_inv {P} (hP : Wf P) (s : State) (op : Op) (hI : InvE P s) : InvE P (step P s op) := by
  have he := inv_evictLru hI
  cases op with
  | get q => exact (fetch_sound hP s q hI).1
  | set i v nd =>
    obtain ⟨b, hb⟩ := write_bump_aux s _ _ (bumpRev_eq s) i v nd
    exact bump_inv hb he
  | synth d =>
    obtain ⟨b, hb⟩ := synth_bump_aux s _ _ (bumpRev_eq s) d
    exact bump_inv hb he
  | cellSynth c v d =>
    obtain ⟨b, hb⟩ := synth_bump_aux (setCell s c v) _ _ (bumpRev_setCell s c v) d
    exact bump_inv hb he
  | cellSet c v i w nd =>
    obtain ⟨b, hb⟩ := write_bump_aux (setCell s c v) _ _ (bumpRev_setCell s c v) i w nd
    exact bump_inv hb he
  | lruCap n => exact inv_lru _ hI
  | evict => exact he

theorem foldl_inv {P} (hP : Wf P) : ∀ (ops : List Op) (s : State), InvE P s →
    InvE P (ops.foldl (step P) s) := by
  intro ops
  induction ops with
  | nil => intro s h; exact h
  | cons op rest ih => intro s h; exact ih _ (step_inv hP s op h)

theorem run_inv {P} (hP : Wf P) (inp cells cap) (ops : List Op) : InvE P (run P inp cells cap ops) :=
  foldl_inv hP ops _ (init_inv P inp cells cap)

/-- **Stage S3 soundness**: plain, `no_eq` and `lru` functions (values evicted at every revision
    bump and on `evict`, capacity changed by `lruCap`) over inputs and untracked cells — after any
    history every request returns the from-scratch value. -/
theorem c01_s3 {P} (hP : Wf P) (inp cells cap) (ops : List Op) (q : Nat) :
    (fetch P (run P inp cells cap ops) q).2.val =
      sem P (run P inp cells cap ops).inp (run P inp cells cap ops).cells q :=
  (fetch_sound hP _ q (run_inv hP inp cells cap ops)).2.1

/-! ### the environment after a write is a function of the environment before it -/

theorem write_env (s : State) (i v : Nat) (nd : Option Nat) :
    (write s i v nd).cur = s.cur + 1 ∧ (write s i v nd).cells = s.cells ∧
    (write s i v nd).inp =
      if (s.inp i).dur ≥ 3 then s.inp
      else fun j => if j = i then ⟨v, s.cur + 1, (match nd with | some d => d | none => (s.inp i).dur)⟩ else s.inp j := by
  obtain ⟨a1, _, a3, _, _⟩ := evictLru_frame s
  unfold write
  rw [bumpRev_eq]
  unfold bumpPure
  simp only [a1, a3]
  split <;> exact ⟨rfl, rfl, rfl⟩

theorem synth_env (s : State) (d : Nat) :
    (synth s d).cur = s.cur + 1 ∧ (synth s d).cells = s.cells ∧ (synth s d).inp = s.inp := by
  obtain ⟨a1, _, a3, _, _⟩ := evictLru_frame s
  unfold synth
  rw [bumpRev_eq]
  unfold bumpPure
  split <;> exact ⟨by simp only [a1], rfl, by simp only [a3]⟩

/-- two states with the same environment have the same environment after the same write -/
theorem step_env (P : Prog) (s t : State) (op : Op) (hq : ∀ q, op ≠ .get q)
    (hi : s.inp = t.inp) (hc : s.cells = t.cells) (hr : s.cur = t.cur)
    (hl : (∀ n, op ≠ .lruCap n) ∧ op ≠ .evict) :
    (step P s op).inp = (step P t op).inp ∧ (step P s op).cells = (step P t op).cells ∧
    (step P s op).cur = (step P t op).cur := by
  cases op with
  | get q => exact absurd rfl (hq q)
  | lruCap n => exact absurd rfl (hl.1 n)
  | evict => exact absurd rfl hl.2
  | set i v nd =>
    obtain ⟨a1, a2, a3⟩ := write_env s i v nd
    obtain ⟨b1, b2, b3⟩ := write_env t i v nd
    simp only [step]
    exact ⟨by rw [a3, b3, hi, hr], by rw [a2, b2, hc], by rw [a1, b1, hr]⟩
  | synth d =>
    obtain ⟨a1, a2, a3⟩ := synth_env s d
    obtain ⟨b1, b2, b3⟩ := synth_env t d
    simp only [step]
    exact ⟨by rw [a3, b3, hi], by rw [a2, b2, hc], by rw [a1, b1, hr]⟩
  | cellSynth c v d =>
    obtain ⟨a1, a2, a3⟩ := synth_env (setCell s c v) d
    obtain ⟨b1, b2, b3⟩ := synth_env (setCell t c v) d
    simp only [step]
    refine ⟨by rw [a3, b3]; exact hi, ?_, by rw [a1, b1]; show s.cur + 1 = t.cur + 1; rw [hr]⟩
    rw [a2, b2]; simp only [setCell, hc]
  | cellSet c v i w nd =>
    obtain ⟨a1, a2, a3⟩ := write_env (setCell s c v) i w nd
    obtain ⟨b1, b2, b3⟩ := write_env (setCell t c v) i w nd
    simp only [step]
    refine ⟨?_, ?_, by rw [a1, b1]; show s.cur + 1 = t.cur + 1; rw [hr]⟩
    · rw [a3, b3]
      show (if (s.inp i).dur ≥ 3 then s.inp else _) = (if (t.inp i).dur ≥ 3 then t.inp else _)
      simp only [setCell, hi, hr]
    · rw [a2, b2]; simp only [setCell, hc]

/-- the LRU operations do not touch the environment -/
theorem lru_env (P : Prog) (s : State) :
    (∀ n, (step P s (.lruCap n)).inp = s.inp ∧ (step P s (.lruCap n)).cells = s.cells ∧
      (step P s (.lruCap n)).cur = s.cur) ∧
    ((step P s .evict).inp = s.inp ∧ (step P s .evict).cells = s.cells ∧ (step P s .evict).cur = s.cur) := by
  obtain ⟨a1, _, a3, a4, _⟩ := evictLru_frame s
  exact ⟨fun n => ⟨rfl, rfl, rfl⟩, a3, a4, a1⟩

end SalsaVerif.Proofs.Core3E
