/-
  CoreSpec, histories with writes: deep verification of a node, part 3.
  The invariant `Walk` of the walk over the edges of the memo `m` of node `r` (which fails the
  shallow test in the start state `s`), and its maintenance across
    * a nested request of smaller rank (`Walk.nested`),
    * the classification of one more read as current (`Walk.snoc`), a skipped output edge
      (`Walk.snocSkip`).
  Also: the level of the creator's tie (`tieLvl`, `tie_level`) and the observer clauses of the reads
  before the `create` from their being current (`preAt_green`).  Core Lean only.
-/
import SalsaVerif.Proofs.CoreSpecRevDeep2

namespace SalsaVerif.Proofs.CoreSpec
open SalsaVerif.Model.CoreSpec

/-! ### the level of the tie -/

/-- the level at which the tie of creator `r` holds the observer clauses of the reads before the
    `create`: the durability of the `Assigned` memo if the creator specifies, else the larger of the
    struct's and the memo's durability -/
def tieLvl (t : State) (r : Nat) (m : Memo) : Option Nat → Nat
  | some _ => match t.smemos r with
    | some A => A.dur
    | none => 0
  | none => match t.slots r with
    | some sl => max sl.dur m.dur
    | none => 0

/-- a read before the `create` whose stamp is not above `verified_at` (or which is NEVER_CHANGE) has
    at least the durability of the tie's level -/
theorem tie_level {P idOf t r m R pre o x} (hI : Inv P idOf t) (hm : t.memos r = some m)
    (htie : TieOk t r m R pre) (ho : o ∈ pre) (hx : depInfo t o.dep = some x)
    (hc : x.ca ≤ m.va ∨ 3 ≤ x.dur) : tieLvl t r m R.sp ≤ x.dur := by
  unfold TieOk at htie
  cases hts : R.ts with
  | none =>
    rw [hts] at htie
    cases hsp : R.sp <;> simp [tieLvl, htie.1, htie.2]
  | some kv =>
    obtain ⟨k, v⟩ := kv
    rw [hts] at htie
    obtain ⟨sl, hsl, _, _, _, h5⟩ := htie
    cases hsp : R.sp with
    | some w =>
      rw [hsp] at h5
      obtain ⟨A, hA, _, _, _, _, _, hpre, _⟩ := h5
      simp only [tieLvl, hA]
      rcases (hpre o ho).1.iv x hx with h | h
      · exact h.2
      · rcases hc with hc | hc
        · exact absurd (Nat.lt_of_lt_of_le h.lt hc) (Nat.lt_irrefl _)
        · exact Nat.le_trans (dv_smemo_dur3 hI hA) hc
    | none =>
      rw [hsp] at h5
      obtain ⟨_, hpre⟩ := h5
      simp only [tieLvl, hsl]
      rcases (hpre o ho).1.iv x hx with h | h
      · exact h.2
      · rcases hc with hc | hc
        · exact absurd (Nat.lt_of_lt_of_le h.lt hc) (Nat.lt_irrefl _)
        · exact Nat.le_trans (Nat.max_le.mpr ⟨(hI.slot r sl hsl).2.2.2, (hI.node r m hm).obs.dur3⟩) hc

/-! ### struct clauses of current reads -/

/-- the struct clauses of the reads of a prefix `l1` of the recorded reads, all of them current at
    level `L`: the creator's memo is found along the handle chain -/
theorem structAt_green {P idOf t} (hP : Wf2 P idOf) (hI : Inv P idOf t) {l1 l2 : List Obs} {L : Nat}
    (hd : HdOk (fun _ => False) (l1 ++ l2)) (hg : ∀ p, p ∈ l1 → p.out = false → Green t L p) :
    ∀ o, o ∈ l1 → o.out = false → ∀ c mc, (o.dep = .field c ∨ o.dep = .spec c) → t.memos c = some mc →
      memoSok t c ∧ (∃ sl, t.slots c = some sl) ∧ L ≤ mc.dur ∧ mc.value.h = some c := by
  intro o ho hout c mc hdep hmc
  obtain ⟨a, b, e⟩ := List.append_of_mem ho
  have hd' : HdOk (fun _ => False) (a ++ o :: (b ++ l2)) := by
    rw [e] at hd; simpa [List.append_assoc] using hd
  rcases hd_split c a _ o _ hd' hout hdep with h | ⟨o', q', ho', hout', hd1, hv⟩
  · exact h.elim
  · have g := hg o' (by rw [e]; exact List.mem_append_left _ ho') hout'
    obtain ⟨x, hx, hval, hL, _⟩ := g.info
    have hs := g.sok
    rw [hd1] at hx hs
    obtain ⟨m2, hm2, hs2⟩ := hs
    simp only [depInfo, hm2, Option.map_some, Option.some.injEq] at hx
    have hh : m2.value.h = some c := by
      have : m2.value = o'.val := by rw [← hval, ← hx]
      rw [this]; exact hv
    obtain ⟨mc', hmc', hsc, hdur, hhc⟩ := dv_handle_chain hI q' m2 hm2 hs2 c hh
    rw [hmc] at hmc'; cases hmc'
    obtain ⟨_, _, hslot⟩ := handle_ok hP hI hm2 hs2 hh
    refine ⟨⟨mc, hmc, hsc⟩, hslot, ?_, hhc⟩
    have : L ≤ m2.dur := by rw [← hx] at hL; exact hL
    exact Nat.le_trans this hdur

/-- the observer clauses of a prefix of current reads, for any `verified_at` -/
theorem preAt_green {P idOf t} (hP : Wf2 P idOf) (hI : Inv P idOf t) {l1 l2 : List Obs} {L : Nat}
    (hd : HdOk (fun _ => False) (l1 ++ l2)) (hno : ∀ p, p ∈ l1 → p.out = false)
    (hg : ∀ p, p ∈ l1 → Green t L p) (va : Nat) : PreAt t va L l1 := by
  intro o ho
  refine ⟨(hg o ho).obsAt hI va, ?_, ?_⟩
  · intro c mc hdep hmc
    exact Or.inl (structAt_green hP hI hd (fun p hp _ => hg p hp) o ho (hno o ho) c mc hdep hmc).2.2.1
  · intro c mc hdep hmc
    exact Or.inl (structAt_green hP hI hd (fun p hp _ => hg p hp) o ho (hno o ho) c mc hdep hmc).2.2.2

/-! ### the invariant of the walk -/

/-- `done`: the edges already walked; `t`: the current state.  `s`, `m`, `R`: the start state, the
    memo of `r` being verified, its replay. -/
structure Walk (P : Prog) (idOf : Nat → Nat) (r : Nat) (s : State) (m : Memo) (R : SemRes)
    (done : List Obs) (t : State) : Prop where
  inv : Inv P idOf t
  nb : NB t r
  ext : Ext s t (r + 1)
  mem : t.memos r = some m
  /-- struct and `spec` memo of `r` are touched by the validation of the output edge only -/
  slS : ∀ sl, s.slots r = some sl → ∃ sl', t.slots r = some sl' ∧ SlotEq sl sl'
  slN : s.slots r = none → t.slots r = none
  smS : ∀ A, s.smemos r = some A → ∃ A', t.smemos r = some A' ∧ VerEq s.cur A A'
  smN : s.smemos r = none → t.smemos r = none
  /-- every read already walked is current -/
  green : ∀ o, o ∈ done → o.out = false → Green t m.dur o
  /-- the stamp of a read found unchanged is not above the memo's `verified_at` -/
  stamp : ∀ o, o ∈ done → o.out = false → ∃ x, depInfo t o.dep = some x ∧ (x.ca ≤ m.va ∨ 3 ≤ x.dur)
  /-- those before the `create` at the level of the tie -/
  pgreen : ∀ o, o ∈ done → o ∈ preOf idOf (P.node r) m.obs → Green t (tieLvl s r m R.sp) o
  /-- `r` is busy only after its output edge was validated (so the replay specifies, and the
      `Assigned` memo is verified now); the reads before the `create` were walked before -/
  busy : Busy t r → R.sp ≠ none ∧ (∀ p, p ∈ preOf idOf (P.node r) m.obs → p ∈ done) ∧
    ∀ A, t.smemos r = some A → A.va = t.cur
  passed : ∀ o, o ∈ done → o.out = true → o.recd = true →
    ∃ A sl, t.smemos r = some A ∧ A.va = t.cur ∧ t.slots r = some sl ∧ sl.upd = t.cur

section WalkLemmas
variable {P : Prog} {idOf : Nat → Nat} {r : Nat} {s : State} {m : Memo} {R : SemRes} {done : List Obs} {t : State}

theorem Walk.lvl (w : Walk P idOf r s m R done t) : tieLvl t r m R.sp = tieLvl s r m R.sp := by
  cases hsp : R.sp with
  | some v =>
    simp only [tieLvl]
    cases hs : s.smemos r with
    | none => rw [w.smN hs]
    | some A =>
      obtain ⟨A', hA', hv⟩ := w.smS A hs
      rw [hA']
      exact (verEq_fields' hv).2.2.1
  | none =>
    simp only [tieLvl]
    cases hs : s.slots r with
    | none => rw [w.slN hs]
    | some sl =>
      obtain ⟨sl', hsl', e⟩ := w.slS sl hs
      rw [hsl']
      simp only [e.2.2.2.2]

theorem Walk.notSok (w : Walk P idOf r s m R done t) (hns : ¬ SOK s m) : ¬ memoSok t r := by
  rintro ⟨m', hm', hs'⟩
  rw [w.mem] at hm'; cases hm'
  exact hns ((w.ext.sokIff _).mp hs')

/-- a nested request of rank `< r` -/
theorem Walk.nested {t' : State} (w : Walk P idOf r s m R done t) (hI' : Inv P idOf t') (hnb' : NB t' r)
    (he : Ext t t' r) : Walk P idOf r s m R done t' := by
  have es : t'.slots r = t.slots r := he.above_s r (Nat.le_refl r)
  have esm : t'.smemos r = t.smemos r := he.above_sm r (Nat.le_refl r)
  refine ⟨hI', hnb', w.ext.trans (he.weaken (Nat.le_succ r)), by rw [he.above_m r (Nat.le_refl r)]; exact w.mem,
    by rw [es]; exact w.slS, by rw [es]; exact w.slN, by rw [esm]; exact w.smS, by rw [esm]; exact w.smN,
    fun o ho hout => (w.green o ho hout).ext he, ?_, fun o ho hp => (w.pgreen o ho hp).ext he, ?_, ?_⟩
  · intro o ho hout
    obtain ⟨x, hx, hc⟩ := w.stamp o ho hout
    exact ⟨x, (dv_sokDep_info_ext he (w.green o ho hout).sok hx).2, hc⟩
  · intro hb
    rw [esm, he.cur]
    exact w.busy ((busy_ext_above he (Nat.le_refl r)).mp hb)
  · intro o ho hout hr
    rw [es, esm, he.cur]
    exact w.passed o ho hout hr

/-- one more read classified as current -/
theorem Walk.snoc {o : Obs} (w : Walk P idOf r s m R done t) (hout : o.out = false)
    (g : Green t m.dur o) (st : ∃ x, depInfo t o.dep = some x ∧ (x.ca ≤ m.va ∨ 3 ≤ x.dur))
    (pg : ¬ Busy t r → o ∈ preOf idOf (P.node r) m.obs → Green t (tieLvl s r m R.sp) o) :
    Walk P idOf r s m R (done ++ [o]) t := by
  refine ⟨w.inv, w.nb, w.ext, w.mem, w.slS, w.slN, w.smS, w.smN, ?_, ?_, ?_, ?_, ?_⟩
  · intro o' ho' hout'
    rcases List.mem_append.mp ho' with h | h
    · exact w.green o' h hout'
    · simp only [List.mem_singleton] at h; subst h; exact g
  · intro o' ho' hout'
    rcases List.mem_append.mp ho' with h | h
    · exact w.stamp o' h hout'
    · simp only [List.mem_singleton] at h; subst h; exact st
  · intro o' ho' hp
    rcases List.mem_append.mp ho' with h | h
    · exact w.pgreen o' h hp
    · simp only [List.mem_singleton] at h; subst h
      by_cases hb : Busy t r
      · exact w.pgreen o' ((w.busy hb).2.1 o' hp) hp
      · exact pg hb hp
  · intro hb
    obtain ⟨hsp, hall, hA⟩ := w.busy hb
    exact ⟨hsp, fun p hp => List.mem_append_left _ (hall p hp), hA⟩
  · intro o' ho' hout' hr
    rcases List.mem_append.mp ho' with h | h
    · exact w.passed o' h hout' hr
    · simp only [List.mem_singleton] at h; subst h; rw [hout] at hout'; cases hout'

/-- an unrecorded output edge is skipped -/
theorem Walk.snocSkip {o : Obs} {R0 : SemRes} (w : Walk P idOf r s m R done t) (hout : o.out = true)
    (hrec : o.recd = false) (hR : replayR r idOf (P.node r) m.obs none none = some R0) :
    Walk P idOf r s m R (done ++ [o]) t := by
  refine ⟨w.inv, w.nb, w.ext, w.mem, w.slS, w.slN, w.smS, w.smN, ?_, ?_, ?_, ?_, ?_⟩
  · intro o' ho' hout'
    rcases List.mem_append.mp ho' with h | h
    · exact w.green o' h hout'
    · simp only [List.mem_singleton] at h; subst h; rw [hout] at hout'; cases hout'
  · intro o' ho' hout'
    rcases List.mem_append.mp ho' with h | h
    · exact w.stamp o' h hout'
    · simp only [List.mem_singleton] at h; subst h; rw [hout] at hout'; cases hout'
  · intro o' ho' hp
    rcases List.mem_append.mp ho' with h | h
    · exact w.pgreen o' h hp
    · simp only [List.mem_singleton] at h; subst h
      have := preOf_nonout r idOf _ _ none none R0 hR o' hp
      rw [hout] at this; cases this
  · intro hb
    obtain ⟨hsp, hall, hA⟩ := w.busy hb
    exact ⟨hsp, fun p hp => List.mem_append_left _ (hall p hp), hA⟩
  · intro o' ho' hout' hr
    rcases List.mem_append.mp ho' with h | h
    · exact w.passed o' h hout' hr
    · simp only [List.mem_singleton] at h; subst h; rw [hrec] at hr; cases hr

end WalkLemmas

end SalsaVerif.Proofs.CoreSpec
