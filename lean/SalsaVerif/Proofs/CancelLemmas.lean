/-
  Helper lemmas for Props/C20: invariant of the writer/reader machine, the waitMeasure of the
  writer's wait, monotonicity of the epoch.  Core Lean only.
-/
import SalsaVerif.Model.Cancel

namespace SalsaVerif.Proofs.CancelLemmas
open SalsaVerif.Model.Cancel

/-! ### sums over the reader list -/

def sumBy (f : Reader → Nat) : List Reader → Nat
  | [] => 0
  | r :: rs => f r + sumBy f rs

theorem liveCount_eq : ∀ rs, liveCount rs = sumBy (fun r => if r.live then 1 else 0) rs
  | [] => rfl
  | r :: rs => by simp only [liveCount, sumBy, liveCount_eq rs]

theorem measureReaders_eq : ∀ rs, measureReaders rs = sumBy (fun r => if r.live then r.work + 1 else 0) rs
  | [] => rfl
  | r :: rs => by simp only [measureReaders, sumBy, measureReaders_eq rs]

theorem sumBy_set (f : Reader → Nat) : ∀ (rs : List Reader) (i : Nat) (r r' : Reader),
    rs[i]? = some r → sumBy f (rs.set i r') + f r = sumBy f rs + f r'
  | [], i, r, r', h => by simp at h
  | x :: rs, 0, r, r', h => by
    simp only [List.getElem?_cons_zero, Option.some.injEq] at h
    subst h
    simp only [List.set_cons_zero, sumBy]; omega
  | x :: rs, i + 1, r, r', h => by
    simp only [List.getElem?_cons_succ] at h
    have := sumBy_set f rs i r r' h
    simp only [List.set_cons_succ, sumBy]; omega

theorem sumBy_ge (f : Reader → Nat) : ∀ (rs : List Reader) (i : Nat) (r : Reader),
    rs[i]? = some r → f r ≤ sumBy f rs
  | [], i, r, h => by simp at h
  | x :: rs, 0, r, h => by
    simp only [List.getElem?_cons_zero, Option.some.injEq] at h
    subst h; simp only [sumBy]; omega
  | x :: rs, i + 1, r, h => by
    simp only [List.getElem?_cons_succ] at h
    have := sumBy_ge f rs i r h
    simp only [sumBy]; omega

theorem sumBy_append (f : Reader → Nat) : ∀ (rs : List Reader) (r : Reader),
    sumBy f (rs ++ [r]) = sumBy f rs + f r
  | [], r => by simp [sumBy]
  | x :: rs, r => by simp only [List.cons_append, sumBy, sumBy_append f rs r]; omega

/-- a positive sum has a positive summand -/
theorem sumBy_pos (f : Reader → Nat) : ∀ (rs : List Reader), 0 < sumBy f rs →
    ∃ (i : Nat) (r : Reader), rs[i]? = some r ∧ 0 < f r
  | [], h => by simp [sumBy] at h
  | x :: rs, h => by
    by_cases hx : 0 < f x
    · exact ⟨0, x, by simp, hx⟩
    · have : 0 < sumBy f rs := by simp only [sumBy] at h; omega
      obtain ⟨i, r, hi, hr⟩ := sumBy_pos f rs this
      exact ⟨i + 1, r, by simpa using hi, hr⟩

/-! ### case analysis of the reader steps -/

theorem fetchStep_cases (s : State) (i : Nat) (o : Outcome) (s' : State) (h : fetchStep s i = some (o, s')) :
    ∃ r, s.readers[i]? = some r ∧ r.live = true ∧ 0 < r.work ∧
      ((s.flag = true ∧ o = .unwindPendingWrite ∧ s' = setReader s i { r with work := 0, unwound := true }) ∨
       (s.flag = false ∧ o = .ok ∧ s' = setReader s i { r with work := r.work - 1 })) := by
  unfold fetchStep at h
  split at h
  · cases h
  · next r hr =>
    split at h
    · next hc =>
      simp only [Bool.and_eq_true, decide_eq_true_eq] at hc
      refine ⟨r, hr, hc.1, hc.2, ?_⟩
      unfold unwindIfRevisionCancelled loadCancellationFlag at h
      cases hf : s.flag
      · right
        simp only [hf, Bool.false_eq_true, if_false, Option.some.injEq, Prod.mk.injEq] at h
        exact ⟨rfl, h.1.symm, h.2.symm⟩
      · left
        simp only [hf, if_true, Option.some.injEq, Prod.mk.injEq] at h
        exact ⟨rfl, h.1.symm, h.2.symm⟩
    · cases h

theorem fetchStep_enabled (s : State) (i : Nat) (r : Reader) (hr : s.readers[i]? = some r)
    (hl : r.live = true) (hw : 0 < r.work) : (fetchStep s i).isSome = true := by
  unfold fetchStep
  simp only [hr, hl, hw, decide_true, Bool.and_self, if_true]
  cases unwindIfRevisionCancelled s <;> rfl

theorem finish_cases (s s' : State) (i : Nat) (h : finish s i = some s') :
    ∃ r, s.readers[i]? = some r ∧ r.live = true ∧
      s' = { (setReader s i { r with live := false }) with clones := s.clones - 1 } := by
  unfold finish at h
  split at h
  · cases h
  · next r hr =>
    split at h
    · next hl => simp only [Option.some.injEq] at h; exact ⟨r, hr, hl, h.symm⟩
    · cases h

theorem finish_enabled (s : State) (i : Nat) (r : Reader) (hr : s.readers[i]? = some r)
    (hl : r.live = true) : (finish s i).isSome = true := by
  unfold finish; simp [hr, hl]

/-! ### invariant -/

theorem inv_init : SInv State.init := by decide

theorem inv_step (s s' : State) (l : Label) (hinv : SInv s) (hs : step s l = some s') : SInv s' := by
  obtain ⟨hcl, hcc, hpa, hfl⟩ := hinv
  rw [liveCount_eq] at hcl hpa
  unfold SInv
  rw [liveCount_eq]
  cases l with
  | fetchStep i =>
    simp only [step, Option.map_eq_some_iff] at hs
    obtain ⟨⟨o, s1⟩, hfs, rfl⟩ := hs
    obtain ⟨r, hr, hl, hw, hcase⟩ := fetchStep_cases s i o s1 hfs
    have key : ∀ r' : Reader, r'.live = r.live →
        sumBy (fun r => if r.live then 1 else 0) (s.readers.set i r') =
        sumBy (fun r => if r.live then 1 else 0) s.readers := by
      intro r' hl'
      have := sumBy_set (fun r => if r.live then 1 else 0) s.readers i r r' hr
      simp only [hl'] at this; omega
    rcases hcase with ⟨_, _, rfl⟩ | ⟨_, _, rfl⟩
    · simp only [setReader]
      rw [key { r with work := 0, unwound := true } rfl]
      exact ⟨hcl, hcc, hpa, hfl⟩
    · simp only [setReader]
      rw [key { r with work := r.work - 1 } rfl]
      exact ⟨hcl, hcc, hpa, hfl⟩
  | finish i =>
    simp only [step] at hs
    obtain ⟨r, hr, hl, rfl⟩ := finish_cases s s' i hs
    have := sumBy_set (fun r => if r.live then 1 else 0) s.readers i r { r with live := false } hr
    simp only [hl, if_true, Bool.false_eq_true, if_false] at this
    simp only [setReader]
    refine ⟨by omega, hcc, ?_, hfl⟩
    intro hp
    have := hpa hp
    omega
  | cloneHandle p w =>
    simp only [step, cloneHandle] at hs
    split at hs
    case isFalse => cases hs
    case isTrue hc =>
    simp only [Option.some.injEq] at hs; subst hs
    simp only
    rw [sumBy_append]
    refine ⟨by simp only [if_true]; omega, hcc, ?_, hfl⟩
    intro hp
    exfalso
    have h0 := hpa hp
    cases p with
    | none =>
      simp only [canClone, beq_iff_eq] at hc
      rw [hc] at hp; cases hp
    | some i =>
      simp only [canClone] at hc
      split at hc
      · next r hr =>
        have := sumBy_ge (fun r => if r.live then 1 else 0) s.readers i r hr
        simp only [hc, if_true] at this
        omega
      · cases hc
  | setFlag =>
    simp only [step] at hs
    split at hs
    case isFalse => cases hs
    case isTrue hp =>
    simp only [Option.some.injEq] at hs; subst hs
    simp only [setCancellationFlag]
    exact ⟨hcl, hcc, (by intro h; cases h), by decide⟩
  | await =>
    simp only [step] at hs
    split at hs
    case isFalse => cases hs
    case isTrue hp =>
    simp only [Option.some.injEq] at hs; subst hs
    simp only
    refine ⟨hcl, hcc, fun _ => by omega, ?_⟩
    rw [hfl, hp.1]; decide
  | resetFlag =>
    simp only [step] at hs
    split at hs
    case isFalse => cases hs
    case isTrue hp =>
    simp only [Option.some.injEq] at hs; subst hs
    simp only [resetCancellationFlag]
    refine ⟨hcl, hcc, fun _ => hpa (by rw [hp]; rfl), by decide⟩
  | bumpCc =>
    simp only [step] at hs
    split at hs
    case isFalse => cases hs
    case isTrue hp =>
    simp only [Option.some.injEq] at hs; subst hs
    have hpa' := hpa (by rw [hp]; rfl)
    have hfl' : s.flag = false := by rw [hfl, hp]; decide
    simp only [bumpCc, bumpCancellationCount]
    split
    · simp only [Bool.false_eq_true, if_false]
      exact ⟨hcl, by assumption, fun _ => hpa', by rw [hfl']; decide⟩
    · simp only [if_true, newRevision]
      exact ⟨hcl, by decide, fun _ => hpa', by rw [hfl']; decide⟩
  | write k =>
    simp only [step] at hs
    split at hs
    case isFalse => cases hs
    case isTrue hp =>
    have hfl' : s.flag = false := by rw [hfl, hp]; decide
    cases k with
    | input =>
      simp only [Option.some.injEq] at hs; subst hs
      simp only [newRevision]
      exact ⟨hcl, by decide, (by intro h; cases h), by rw [hfl']; rfl⟩
    | lruCapacity =>
      simp only [Option.some.injEq] at hs; subst hs
      exact ⟨hcl, hcc, (by intro h; cases h), by rw [hfl']; rfl⟩

theorem inv_run : ∀ (ls : List Label) (s s' : State), SInv s → run s ls = some s' → SInv s'
  | [], s, s', hinv, h => by simp only [run, Option.some.injEq] at h; subst h; exact hinv
  | l :: ls, s, s', hinv, h => by
    simp only [run] at h
    split at h
    · next s1 h1 => exact inv_run ls s1 s' (inv_step s s1 l hinv h1) h
    · cases h

theorem inv_reachable (s : State) (h : Reachable s) : SInv s := by
  obtain ⟨ls, h⟩ := h
  exact inv_run ls _ s inv_init h

/-! ### waitMeasure -/

theorem measure_reader_step (s s' : State) (l : Label) (hl : l.isReader = true)
    (hs : step s l = some s') : waitMeasure s' < waitMeasure s := by
  unfold waitMeasure
  rw [measureReaders_eq, measureReaders_eq]
  cases l with
  | fetchStep i =>
    simp only [step, Option.map_eq_some_iff] at hs
    obtain ⟨⟨o, s1⟩, hfs, rfl⟩ := hs
    obtain ⟨r, hr, hlv, hw, hcase⟩ := fetchStep_cases s i o s1 hfs
    obtain ⟨w, lv, u⟩ := r
    simp only at hlv hw
    subst hlv
    rcases hcase with ⟨_, _, rfl⟩ | ⟨_, _, rfl⟩
    · have := sumBy_set (fun r => if r.live then r.work + 1 else 0) s.readers i _ { work := 0, live := true, unwound := true } hr
      simp only [if_true] at this
      simp only [setReader]; omega
    · have := sumBy_set (fun r => if r.live then r.work + 1 else 0) s.readers i _ { work := w - 1, live := true, unwound := u } hr
      simp only [if_true] at this
      simp only [setReader]; omega
  | finish i =>
    simp only [step] at hs
    obtain ⟨r, hr, hlv, rfl⟩ := finish_cases s s' i hs
    obtain ⟨w, lv, u⟩ := r
    simp only at hlv
    subst hlv
    have := sumBy_set (fun r => if r.live then r.work + 1 else 0) s.readers i _ { work := w, live := false, unwound := u } hr
    simp only [if_true, Bool.false_eq_true, if_false] at this
    simp only [setReader]; omega
  | cloneHandle _ _ => cases hl
  | setFlag => cases hl
  | await => cases hl
  | resetFlag => cases hl
  | bumpCc => cases hl
  | write _ => cases hl

/-- reader steps do not touch the writer's program counter -/
theorem phase_reader_step (s s' : State) (l : Label) (hl : l.isReader = true)
    (hs : step s l = some s') : s'.phase = s.phase := by
  cases l with
  | fetchStep i =>
    simp only [step, Option.map_eq_some_iff] at hs
    obtain ⟨⟨o, s1⟩, hfs, rfl⟩ := hs
    obtain ⟨r, _, _, _, hcase⟩ := fetchStep_cases s i o s1 hfs
    rcases hcase with ⟨_, _, rfl⟩ | ⟨_, _, rfl⟩ <;> rfl
  | finish i =>
    simp only [step] at hs
    obtain ⟨r, _, _, rfl⟩ := finish_cases s s' i hs
    rfl
  | cloneHandle _ _ => cases hl
  | setFlag => cases hl
  | await => cases hl
  | resetFlag => cases hl
  | bumpCc => cases hl
  | write _ => cases hl

theorem measure_zero_iff (s : State) : waitMeasure s = 0 ↔ liveCount s.readers = 0 := by
  unfold waitMeasure
  generalize s.readers = rs
  induction rs with
  | nil => simp [measureReaders, liveCount]
  | cons r rs ih =>
    simp only [measureReaders, liveCount]
    cases r.live <;> simp <;> omega

/-- while a reader is live, some reader step is enabled (a reader never waits for the writer) -/
theorem reader_step_enabled (s : State) (h : waitMeasure s ≠ 0) :
    ∃ i, (step s (.finish i)).isSome = true ∧
      ∀ r, s.readers[i]? = some r → 0 < r.work → (step s (.fetchStep i)).isSome = true := by
  have hpos : 0 < sumBy (fun r => if r.live then r.work + 1 else 0) s.readers := by
    rw [← measureReaders_eq]; unfold waitMeasure at h; omega
  obtain ⟨i, r, hr, hf⟩ := sumBy_pos _ _ hpos
  have hl : r.live = true := by
    cases hl : r.live
    · simp [hl] at hf
    · rfl
  refine ⟨i, finish_enabled s i r hr hl, ?_⟩
  intro r' hr' hw
  rw [hr] at hr'; cases hr'
  have := fetchStep_enabled s i r hr hl hw
  simp only [step, Option.isSome_map]
  exact this

/-- a fair schedule of reader steps: every label is a reader label, and while some reader is
    live the scheduled label is enabled -/
theorem progress_aux : ∀ (n : Nat) (s : State) (sched : Nat → Label),
    waitMeasure s ≤ n →
    (∀ k, (sched k).isReader = true) →
    (∀ k sk, runSched s sched k = some sk → waitMeasure sk ≠ 0 → (step sk (sched k)).isSome = true) →
    ∃ k sk, k ≤ waitMeasure s ∧ runSched s sched k = some sk ∧ waitMeasure sk = 0 ∧ sk.phase = s.phase := by
  intro n
  induction n with
  | zero =>
    intro s sched hm _ _
    exact ⟨0, s, by omega, rfl, by omega, rfl⟩
  | succ n ih =>
    intro s sched hm hrd hfair
    by_cases h0 : waitMeasure s = 0
    · exact ⟨0, s, by omega, rfl, h0, rfl⟩
    · have hen := hfair 0 s rfl h0
      cases h1 : step s (sched 0) with
      | none => rw [h1] at hen; cases hen
      | some s1 =>
        have hlt := measure_reader_step s s1 (sched 0) (hrd 0) h1
        have hph := phase_reader_step s s1 (sched 0) (hrd 0) h1
        -- shifted schedule
        have shift : ∀ k, runSched s sched (k + 1) = runSched s1 (fun j => sched (j + 1)) k := by
          intro k
          induction k with
          | zero => simp [runSched, h1]
          | succ k ihk =>
            rw [runSched, ihk]
            rfl
        obtain ⟨k, sk, hk, hrun, hz, hp⟩ := ih s1 (fun j => sched (j + 1)) (by omega)
          (fun k => hrd (k + 1))
          (fun k sk hk hm => hfair (k + 1) sk (by rw [shift]; exact hk) hm)
        exact ⟨k + 1, sk, by omega, by rw [shift]; exact hrun, hz, by rw [hp, hph]⟩

/-! ### epoch -/

theorem epochLe_refl (a : Nat × Nat) : epochLe a a := Or.inl rfl

theorem epochLe_trans {a b c : Nat × Nat} (h1 : epochLe a b) (h2 : epochLe b c) : epochLe a c := by
  obtain ⟨a1, a2⟩ := a; obtain ⟨b1, b2⟩ := b; obtain ⟨c1, c2⟩ := c
  simp only [epochLe, epochLt, Prod.mk.injEq] at *
  omega

theorem epochLt_of_lt_of_le {a b c : Nat × Nat} (h1 : epochLt a b) (h2 : epochLe b c) : epochLt a c := by
  obtain ⟨a1, a2⟩ := a; obtain ⟨b1, b2⟩ := b; obtain ⟨c1, c2⟩ := c
  simp only [epochLe, epochLt, Prod.mk.injEq] at *
  omega

theorem epochLt_of_le_of_lt {a b c : Nat × Nat} (h1 : epochLe a b) (h2 : epochLt b c) : epochLt a c := by
  obtain ⟨a1, a2⟩ := a; obtain ⟨b1, b2⟩ := b; obtain ⟨c1, c2⟩ := c
  simp only [epochLe, epochLt, Prod.mk.injEq] at *
  omega

theorem epochLt_irrefl (a : Nat × Nat) : ¬ epochLt a a := by
  simp only [epochLt]; omega

theorem epoch_bumpCc (s : State) : epochLt (epoch s) (epoch (bumpCc s)) := by
  simp only [bumpCc, bumpCancellationCount]
  split
  · simp only [Bool.false_eq_true, if_false, epoch, epochLt, true_and]
    omega
  · simp only [if_true, newRevision, epoch, epochLt]; omega

theorem epoch_step (s s' : State) (l : Label) (hs : step s l = some s') :
    epochLe (epoch s) (epoch s') ∧ (l = .bumpCc → epochLt (epoch s) (epoch s')) := by
  cases l with
  | fetchStep i =>
    simp only [step, Option.map_eq_some_iff] at hs
    obtain ⟨⟨o, s1⟩, hfs, rfl⟩ := hs
    obtain ⟨r, _, _, _, hcase⟩ := fetchStep_cases s i o s1 hfs
    rcases hcase with ⟨_, _, rfl⟩ | ⟨_, _, rfl⟩ <;> exact ⟨Or.inl rfl, fun h => by cases h⟩
  | finish i =>
    simp only [step] at hs
    obtain ⟨r, _, _, rfl⟩ := finish_cases s s' i hs
    exact ⟨Or.inl rfl, fun h => by cases h⟩
  | cloneHandle p w =>
    simp only [step, cloneHandle] at hs
    split at hs
    · simp only [Option.some.injEq] at hs; subst hs; exact ⟨Or.inl rfl, fun h => by cases h⟩
    · cases hs
  | setFlag =>
    simp only [step] at hs
    split at hs
    · simp only [Option.some.injEq] at hs; subst hs; exact ⟨Or.inl rfl, fun h => by cases h⟩
    · cases hs
  | await =>
    simp only [step] at hs
    split at hs
    · simp only [Option.some.injEq] at hs; subst hs; exact ⟨Or.inl rfl, fun h => by cases h⟩
    · cases hs
  | resetFlag =>
    simp only [step] at hs
    split at hs
    · simp only [Option.some.injEq] at hs; subst hs; exact ⟨Or.inl rfl, fun h => by cases h⟩
    · cases hs
  | bumpCc =>
    simp only [step] at hs
    split at hs
    · simp only [Option.some.injEq] at hs; subst hs
      have := epoch_bumpCc s
      exact ⟨Or.inr this, fun _ => this⟩
    · cases hs
  | write k =>
    simp only [step] at hs
    split at hs
    · cases k with
      | input =>
        simp only [Option.some.injEq] at hs; subst hs
        refine ⟨Or.inr ?_, fun h => by cases h⟩
        simp only [newRevision, epoch, epochLt]; omega
      | lruCapacity =>
        simp only [Option.some.injEq] at hs; subst hs
        exact ⟨Or.inl rfl, fun h => by cases h⟩
    · cases hs

theorem epoch_run : ∀ (ls : List Label) (s s' : State), run s ls = some s' →
    epochLe (epoch s) (epoch s') ∧ (Label.bumpCc ∈ ls → epochLt (epoch s) (epoch s'))
  | [], s, s', h => by
    simp only [run, Option.some.injEq] at h; subst h
    exact ⟨Or.inl rfl, fun h => by cases h⟩
  | l :: ls, s, s', h => by
    simp only [run] at h
    split at h
    case h_2 => cases h
    case h_1 s1 h1 =>
    obtain ⟨hle1, hlt1⟩ := epoch_step s s1 l h1
    obtain ⟨hle2, hlt2⟩ := epoch_run ls s1 s' h
    refine ⟨epochLe_trans hle1 hle2, ?_⟩
    intro hmem
    simp only [List.mem_cons] at hmem
    rcases hmem with hm | hm
    · exact epochLt_of_lt_of_le (hlt1 hm.symm) hle2
    · exact epochLt_of_le_of_lt hle1 (hlt2 hm)

theorem runSched_succ (s : State) (sched : Nat → Label) (k : Nat) :
    runSched s sched (k + 1) = (match runSched s sched k with
      | some s' => step s' (sched k)
      | none => none) := rfl

theorem runSched_none_add (s : State) (sched : Nat → Label) (k : Nat) (h : runSched s sched k = none) :
    ∀ j, runSched s sched (k + j) = none
  | 0 => h
  | j + 1 => by
    rw [← Nat.add_assoc, runSched_succ, runSched_none_add s sched k h j]

end SalsaVerif.Proofs.CancelLemmas
