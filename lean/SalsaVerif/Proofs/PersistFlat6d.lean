/-
  C26 with flattening: deep verification of an edge list.  Core Lean only.
-/
import SalsaVerif.Proofs.PersistFlat6c

namespace SalsaVerif.Proofs.PersistFlat
open SalsaVerif.Model.Core SalsaVerif.Model.Persist SalsaVerif.Proofs.Core SalsaVerif.Proofs.Persist

theorem deep_okJ {pers P r mc H R0} (hmc : McaSpecJ pers P r mc) : ∀ obs s rev,
    J pers P H R0 s → AllRec s →
    (∀ o q', o ∈ obs → o.dep = .qry q' → q' < r ∧ ∃ m, s.memos q' = some m) →
    J pers P H R0 (deepEdges mc obs s rev).1 ∧ AllRec (deepEdges mc obs s rev).1 ∧
    Fr s (deepEdges mc obs s rev).1 r ∧
    ((deepEdges mc obs s rev).2 = true → ∀ o, o ∈ obs → o.recd = true →
        hot (deepEdges mc obs s rev).1 o.dep ∧
        ∃ x, depInfo (deepEdges mc obs s rev).1 o.dep = some x ∧ x.ca ≤ rev) := by
  intro obs
  induction obs with
  | nil =>
    intro s rev hJ hA _
    simp only [deepEdges]
    exact ⟨hJ, hA, Fr.refl s r, by simp⟩
  | cons o rest ih =>
    intro s rev hJ hA hpre
    have hpre_rest : ∀ o' q', o' ∈ rest → o'.dep = .qry q' → q' < r ∧ ∃ m, s.memos q' = some m :=
      fun o' q' hm hd => hpre o' q' (by simp [hm]) hd
    simp only [deepEdges]
    by_cases hrec : o.recd = true
    · simp only [hrec, if_true]
      have first : J pers P H R0 (depChanged mc s o.dep rev).1 ∧ AllRec (depChanged mc s o.dep rev).1 ∧
          Fr s (depChanged mc s o.dep rev).1 r ∧ hot (depChanged mc s o.dep rev).1 o.dep ∧
          ∃ x, depInfo (depChanged mc s o.dep rev).1 o.dep = some x ∧
            (depChanged mc s o.dep rev).2 = decide (x.ca > rev) := by
        cases hd : o.dep with
        | inp i =>
          simp only [depChanged]
          exact ⟨hJ, hA, Fr.refl s r, trivial, _, rfl, rfl⟩
        | qry q =>
          simp only [depChanged]
          obtain ⟨hq, hm⟩ := hpre o q (by simp) hd
          obtain ⟨a1, aA, a2, m, a3, a4, a5⟩ := hmc.ok H R0 s q rev hq hJ hA hm
          exact ⟨a1, aA, a2, ⟨m, a3, by rw [a4, a2.cur]⟩, ⟨m.value, m.ca, m.dur⟩, by simp [depInfo, a3], a5⟩
      obtain ⟨f1, fA, f2, f3, x, f4, f5⟩ := first
      by_cases hch : (depChanged mc s o.dep rev).2 = true
      · simp only [hch, if_true]
        exact ⟨f1, fA, f2, by simp⟩
      · have hch' : (depChanged mc s o.dep rev).2 = false := by
          cases h : (depChanged mc s o.dep rev).2 <;> simp_all
        simp only [hch']
        have hpre' : ∀ o' q', o' ∈ rest → o'.dep = .qry q' →
            q' < r ∧ ∃ m, (depChanged mc s o.dep rev).1.memos q' = some m := by
          intro o' q' hm hd
          obtain ⟨hq, m, hmm⟩ := hpre_rest o' q' hm hd
          obtain ⟨m', hm'⟩ := f2.keep q' m hmm
          exact ⟨hq, m', hm'⟩
        obtain ⟨i1, iA, i2, i3⟩ := ih (depChanged mc s o.dep rev).1 rev f1 fA hpre'
        have hcle : x.ca ≤ rev := by
          rw [f5] at hch'
          exact Nat.le_of_not_gt (of_decide_eq_false hch')
        refine ⟨i1, iA, f2.trans i2, ?_⟩
        intro ht o' hm hr'
        simp only [List.mem_cons] at hm
        rcases hm with hm | hm
        · subst hm
          exact ⟨hot_fr i2 f3, x, depInfo_hot_fr i2 f3 f4, hcle⟩
        · exact i3 ht o' hm hr'
    · have hrec' : o.recd = false := by cases h : o.recd <;> simp_all
      simp only [hrec', Bool.false_eq_true, if_false]
      obtain ⟨i1, iA, i2, i3⟩ := ih s rev hJ hA hpre_rest
      refine ⟨i1, iA, i2, ?_⟩
      intro ht o' hm hr'
      simp only [List.mem_cons] at hm
      rcases hm with hm | hm
      · subst hm; rw [hrec'] at hr'; cases hr'
      · exact i3 ht o' hm hr'

end SalsaVerif.Proofs.PersistFlat
