/-
  Line protocol `svdriver persist` — the model `Model/Persist.lean`: the stage-S2 engine of a
  `persistence` build (every read records an edge), plus serializing the database and loading the
  result into a fresh one in the middle of a history.

  ops: exactly the ops of `svdriver core` (Drive/Core.lean: `prog`, `q <idx> plain <expr>`,
  `input`, `set`, `synth`, `get`, `dump`, with the same outputs), except that `get` runs the
  persistence-build engine `fetchP`, plus

    snapshot        serialize the database (`snapshot evenPers`: memos of EVEN-indexed queries
                    are kept, their edges flattened through the odd-indexed = non-persisted
                    ones; all inputs, the current revision and the last-changed revisions are
                    kept), load the result into a fresh database (empty event log) and continue
                    the history there.  Counts as an operation of the case (no `input` line
                    after it).                                                        -> `ok`

  `get <q>` -> `v=<value> ev=<events>` as in `core`: `X<q>` WillExecute, `V<q>`
  DidValidateMemoizedValue, in order, `-` if none.  After a `snapshot` these are the events of
  the restored database.
  anything else: `bad-op`.
-/
import SalsaVerif.Drive.Common
import SalsaVerif.Drive.Core
import SalsaVerif.Model.Persist

namespace SalsaVerif.Drive.Persist
open SalsaVerif.Model.Core SalsaVerif.Model.Persist
open SalsaVerif.Drive.Core (DState nat? fmtEvs)

def handle (d : DState) (line : String) : Option (DState × String) :=
  match SalsaVerif.Drive.words line with
  | ["get", q] => do
    if !d.active then none
    let q ← nat? q
    if q ≥ d.exprs.length then none
    let s0 := { d.st with trace := [] }
    let r := fetchP (progOf d.exprs) s0 q
    some ({ d with started := true, st := r.1 }, s!"v={r.2.val} ev={fmtEvs r.1.trace}")
  | ["snapshot"] =>
    if !d.active then none
    else some ({ d with started := true, st := restore (snapshot evenPers d.st) }, "ok")
  | _ => SalsaVerif.Drive.Core.handle d line

def step (d : DState) (line : String) : DState × String :=
  match handle d line with
  | some r => r
  | none => (d, "bad-op")

def main : IO Unit := SalsaVerif.Drive.runLoop DState.empty step

end SalsaVerif.Drive.Persist
