/-
  Line protocol `svdriver corespec` — the engine model `Model/CoreSpec.lean` (stage S2 of `Core`
  plus one tracked struct per creator, values with struct handles, and the specifiable function
  `spec` keyed by the struct).  A sub-language of what the Rust harness `vh seq` executes on real
  salsa (`seq gen --profile spec`).

  ops (tokens separated by one space; integers decimal):
    prog <nq> <ninputs> [<ncells>] start a new case (ncells is accepted and ignored; it must be 0
                                   for the harness): fresh state, revision 1, inputs 0/LOW  -> `ok`
    q <idx> plain <expr tokens…>   define query idx (increasing order, idx < nq), PREFIX notation:
                                     c<n> | i<k> | q<j> (j < idx) | + a b (mod 4) | & a b (min) |
                                     | a b (max) | ? c a b (c odd → a else b; only the taken branch)
                                   as in `svdriver core`; numbers combine as before, the result of a
                                   binary operator keeps the LEFT operand's handle if present, else
                                   the right one's; `?` returns the taken branch unchanged.  Plus
                                     mk c<k> v f s  evaluate v, f, s (left to right); create the
                                               tracked struct Ts(k mod 2, n of v) in the CURRENT query;
                                               if n of f is odd: spec::specify(ts, n of s); value =
                                               (n of v, handle of that struct).  The identity must be a
                                               constant and at most one `mk` may execute per evaluation
                                               (a body may hold one `mk` in each branch of a `?`).
                                     tv e      e carries a handle → tracked field v of the struct
                                               (tracked read), else n of e;   result has no handle
                                     tk e      … identity field (no dependency) …
                                     sp e      … spec(struct) …                                -> `ok`
    b spec <sexpr tokens…>         body of `spec` (default `sv`): c<n> | i<k> | sk | sv | + | & | | | ?
                                   (`sk`/`sv` = identity / tracked field of the key struct; the body
                                   always reads both fields first, as the harness does); only before
                                   the first get/set/synth                                      -> `ok`
    input <i> <v> <dur>            as in `core`                                                  -> `ok`
    set <i> <v> <d> | synth <d>    as in `core`       -> `ok` | `panic:never-change`
    get <q>                        fetch query q, then observe the handle of the result (read lock)
                                   -> `v=<n>[ ts=<k>:<v>] ev=<events>`; `ts=` when the result carries a
                                   handle: the struct's identity and tracked field.  Events, in order,
                                   joined by `,` (`-` if none):
                                     X<q> / V<q>            WillExecute / DidValidateMemoizedValue of node q
                                     Xspec#<n> / Vspec#<n>  the same for spec(struct)
                                     S<q>:Ts#<n>,DTs#<n>[,Dspec#<n'>]   creator q stopped creating its
                                                            struct: WillDiscardStaleOutput, DidDiscard of
                                                            the struct and of its spec memo (if any)
                                     S<q>:spec#<n>          WillDiscardStaleOutput of a specified key the
                                                            creator no longer specifies
                                   `#<n>` is the first-seen ordinal of the name (`Ts(id)` / `spec(id)`)
                                   among all such names printed so far in the case.
                                   A panic of the request prints `panic:specify` (foreign struct /
                                   twice), `panic:backdate-violation`, or `panic:model:<class>`; the
                                   model does not predict the case after a panic: later ops print `dead`.
    ref <q>                        (oracle) the from-scratch value `sem` of query q under the current
                                   inputs: `v=<n>[ ts=<k>:<v>]` — no state change, no events
    dump                           (debug) free format
  anything else: `bad-op`.
-/
import SalsaVerif.Drive.Common
import SalsaVerif.Model.CoreSpec

namespace SalsaVerif.Drive.CoreSpec
open SalsaVerif.Model.CoreSpec

def nat? (s : String) : Option Nat := if s.isEmpty then none else s.toNat?

def natOfChars (cs : List Char) : Option Nat := nat? (String.ofList cs)

def parseExpr : Nat → List String → Option (Expr × List String)
  | 0, _ => none
  | _ + 1, [] => none
  | fuel + 1, tok :: rest =>
    match tok.toList with
    | ['+'] => do
      let (a, r1) ← parseExpr fuel rest
      let (b, r2) ← parseExpr fuel r1
      some (.add a b, r2)
    | ['&'] => do
      let (a, r1) ← parseExpr fuel rest
      let (b, r2) ← parseExpr fuel r1
      some (.min a b, r2)
    | ['|'] => do
      let (a, r1) ← parseExpr fuel rest
      let (b, r2) ← parseExpr fuel r1
      some (.max a b, r2)
    | ['?'] => do
      let (c, r0) ← parseExpr fuel rest
      let (a, r1) ← parseExpr fuel r0
      let (b, r2) ← parseExpr fuel r1
      some (.ite c a b, r2)
    | ['m', 'k'] => do
      let (k, r0) ← parseExpr fuel rest
      let (v, r1) ← parseExpr fuel r0
      let (f, r2) ← parseExpr fuel r1
      let (s, r3) ← parseExpr fuel r2
      match k with
      | .const idk => some (.mk idk v f s, r3)
      | _ => none
    | ['t', 'v'] => do let (e, r) ← parseExpr fuel rest; some (.tv e, r)
    | ['t', 'k'] => do let (e, r) ← parseExpr fuel rest; some (.tk e, r)
    | ['s', 'p'] => do let (e, r) ← parseExpr fuel rest; some (.sp e, r)
    | 'c' :: ds => do let n ← natOfChars ds; some (.const n, rest)
    | 'i' :: ds => do let n ← natOfChars ds; some (.inp n, rest)
    | 'q' :: ds => do let n ← natOfChars ds; some (.qry n, rest)
    | _ => none

def parseSExpr : Nat → List String → Option (SExpr × List String)
  | 0, _ => none
  | _ + 1, [] => none
  | fuel + 1, tok :: rest =>
    match tok.toList with
    | ['+'] => do
      let (a, r1) ← parseSExpr fuel rest
      let (b, r2) ← parseSExpr fuel r1
      some (.add a b, r2)
    | ['&'] => do
      let (a, r1) ← parseSExpr fuel rest
      let (b, r2) ← parseSExpr fuel r1
      some (.min a b, r2)
    | ['|'] => do
      let (a, r1) ← parseSExpr fuel rest
      let (b, r2) ← parseSExpr fuel r1
      some (.max a b, r2)
    | ['?'] => do
      let (c, r0) ← parseSExpr fuel rest
      let (a, r1) ← parseSExpr fuel r0
      let (b, r2) ← parseSExpr fuel r1
      some (.ite c a b, r2)
    | ['s', 'k'] => some (.sk, rest)
    | ['s', 'v'] => some (.sv, rest)
    | 'c' :: ds => do let n ← natOfChars ds; some (.const n, rest)
    | 'i' :: ds => do let n ← natOfChars ds; some (.inp n, rest)
    | _ => none

def inputsBelow (n : Nat) : Expr → Bool
  | .const _ => true
  | .inp k => decide (k < n)
  | .qry _ => true
  | .add a b => inputsBelow n a && inputsBelow n b
  | .min a b => inputsBelow n a && inputsBelow n b
  | .max a b => inputsBelow n a && inputsBelow n b
  | .ite c a b => inputsBelow n c && inputsBelow n a && inputsBelow n b
  | .mk _ v f s => inputsBelow n v && inputsBelow n f && inputsBelow n s
  | .tv e => inputsBelow n e
  | .tk e => inputsBelow n e
  | .sp e => inputsBelow n e

def sInputsBelow (n : Nat) : SExpr → Bool
  | .const _ => true
  | .inp k => decide (k < n)
  | .sk => true
  | .sv => true
  | .add a b => sInputsBelow n a && sInputsBelow n b
  | .min a b => sInputsBelow n a && sInputsBelow n b
  | .max a b => sInputsBelow n a && sInputsBelow n b
  | .ite c a b => sInputsBelow n c && sInputsBelow n a && sInputsBelow n b

structure DState where
  active : Bool
  nq : Nat
  nin : Nat
  exprs : List Expr
  sbody : SExpr
  started : Bool
  dead : Bool
  /-- canonical names seen so far: (0 = Ts | 1 = spec, creator, gen) -/
  canon : List (Nat × Nat × Nat)
  st : State

def DState.empty : DState :=
  { active := false, nq := 0, nin := 0, exprs := [], sbody := .sv, started := false, dead := false,
    canon := [], st := init fun _ => ⟨0, 1, 0⟩ }

def indexOf? (l : List (Nat × Nat × Nat)) (x : Nat × Nat × Nat) : Option Nat :=
  let rec go : List (Nat × Nat × Nat) → Nat → Option Nat
    | [], _ => none
    | y :: ys, i => if y = x then some i else go ys (i + 1)
  go l 0

/-- the ordinal of a canonical name (appending it when new) -/
def ordinal (canon : List (Nat × Nat × Nat)) (x : Nat × Nat × Nat) : List (Nat × Nat × Nat) × Nat :=
  match indexOf? canon x with
  | some i => (canon, i)
  | none => (canon ++ [x], canon.length)

def fmtEv (canon : List (Nat × Nat × Nat)) : Ev → List (Nat × Nat × Nat) × String
  | .exec q => (canon, s!"X{q}")
  | .valid q => (canon, s!"V{q}")
  | .execS c g => let r := ordinal canon (1, c, g); (r.1, s!"Xspec#{r.2}")
  | .validS c g => let r := ordinal canon (1, c, g); (r.1, s!"Vspec#{r.2}")
  | .staleT q c g => let r := ordinal canon (0, c, g); (r.1, s!"S{q}:Ts#{r.2}")
  | .discT c g => let r := ordinal canon (0, c, g); (r.1, s!"DTs#{r.2}")
  | .discS c g => let r := ordinal canon (1, c, g); (r.1, s!"Dspec#{r.2}")
  | .staleS q c g => let r := ordinal canon (1, c, g); (r.1, s!"S{q}:spec#{r.2}")

def fmtEvs (canon : List (Nat × Nat × Nat)) (l : List Ev) : List (Nat × Nat × Nat) × String :=
  let r := l.foldl (fun (acc : List (Nat × Nat × Nat) × List String) e =>
    let x := fmtEv acc.1 e
    (x.1, acc.2 ++ [x.2])) (canon, [])
  (r.1, if r.2.isEmpty then "-" else ",".intercalate r.2)

def fmtDep : Dep → String
  | .inp i => s!"i{i}"
  | .qry q => s!"q{q}"
  | .field c => s!"f{c}"
  | .spec c => s!"s{c}"

def fmtVal (v : Val) : String := match v.h with | some c => s!"{v.n}^{c}" | none => s!"{v.n}"

def fmtMemo (tag : String) (q : Nat) (m : Memo) : String :=
  let edges := (m.obs.filter (·.recd)).map (fun o => (if o.out then "!" else "") ++ fmtDep o.dep)
  let org := match m.origin with | some c => s!"A{c}" | none => "D"
  s!"{tag}{q}:{fmtVal m.value}@va{m.va}/ca{m.ca}/d{m.dur}/{org}/ts{m.ts}/hg{m.hgen}[{",".intercalate edges}]"

def dump (d : DState) : String :=
  let s := d.st
  let ins := (List.range d.nin).map fun i => s!"{i}:{(s.inp i).val}@ca{(s.inp i).ca}/d{(s.inp i).dur}"
  let ms := (List.range d.nq).filterMap fun q => (s.memos q).map (fmtMemo "q" q)
  let ss := (List.range d.nq).filterMap fun q => (s.smemos q).map (fmtMemo "spec" q)
  let sl := (List.range d.nq).filterMap fun q => (s.slots q).map fun x =>
    s!"ts{q}:g{x.gen}/k{x.k}/v{x.v}/fca{x.fca}/d{x.dur}/upd{x.upd}"
  s!"cur={s.cur} lc={lc s 1},{lc s 2},{lc s 3} inputs={" ".intercalate ins} memos={" ".intercalate ms} smemos={" ".intercalate ss} slots={" ".intercalate sl}"

def parseDur (t : String) : Option Nat := do
  let d ← nat? t
  if d ≤ 3 then some d else none

def fmtPanic : Panic → String
  | .specifyForeign => "panic:specify"
  | .specifyTwice => "panic:specify"
  | .backdateViolation => "panic:backdate-violation"
  | .validateNotAssigned => "panic:model:validate-not-assigned"
  | .deleteLocked => "panic:model:delete-locked"
  | .staleHandle => "panic:model:stale-handle"
  | .secondStruct => "panic:model:second-struct"

def handle (d : DState) (line : String) : Option (DState × String) :=
  match SalsaVerif.Drive.words line with
  | ["prog", nq, nin] => do
    let nq ← nat? nq
    let nin ← nat? nin
    some ({ DState.empty with active := true, nq := nq, nin := nin }, "ok")
  | ["prog", nq, nin, ncells] => do
    let nq ← nat? nq
    let nin ← nat? nin
    let _ ← nat? ncells
    some ({ DState.empty with active := true, nq := nq, nin := nin }, "ok")
  | "q" :: idx :: kind :: toks => do
    if !d.active ∨ d.started then none
    let idx ← nat? idx
    if idx ≠ d.exprs.length ∨ idx ≥ d.nq then none
    if kind ≠ "plain" then none
    let (e, rest) ← parseExpr (toks.length + 1) toks
    if !rest.isEmpty then none
    if !(e.callsBelow idx) ∨ !(inputsBelow d.nin e) ∨ e.maxMk > 1 then none
    some ({ d with exprs := d.exprs ++ [e] }, "ok")
  | "b" :: "spec" :: toks => do
    if !d.active ∨ d.started then none
    let (e, rest) ← parseSExpr (toks.length + 1) toks
    if !rest.isEmpty then none
    if !(sInputsBelow d.nin e) then none
    some ({ d with sbody := e }, "ok")
  | ["input", i, v, dur] => do
    if !d.active ∨ d.started then none
    let i ← nat? i
    let v ← nat? v
    let dur ← parseDur dur
    if i ≥ d.nin then none
    let s := d.st
    some ({ d with st := { s with inp := fun j => if j = i then ⟨v, 1, dur⟩ else s.inp j } }, "ok")
  | ["set", i, v, nd] => do
    if !d.active then none
    let i ← nat? i
    let v ← nat? v
    let nd ← if nd = "k" then some none else (parseDur nd).map some
    if i ≥ d.nin then none
    if d.dead then some (d, "dead") else
    let out := if writePanics d.st i then "panic:never-change" else "ok"
    some ({ d with started := true, st := write d.st i v nd }, out)
  | ["synth", dur] => do
    if !d.active then none
    let dur ← parseDur dur
    if d.dead then some (d, "dead") else
    let out := if synthPanics dur then "panic:never-change" else "ok"
    some ({ d with started := true, st := synth d.st dur }, out)
  | ["get", q] => do
    if !d.active then none
    let q ← nat? q
    if q ≥ d.exprs.length then none
    if d.dead then some (d, "dead") else
    let s0 := { d.st with trace := [] }
    match stepGet (progOf d.exprs d.sbody) s0 q with
    | .error p => some ({ d with started := true, dead := true }, fmtPanic p)
    | .ok (s1, v) =>
      let evs := fmtEvs d.canon s1.trace
      let ts := match v.h with
        | some c => (match s1.slots c with | some sl => s!" ts={sl.k}:{sl.v}" | none => " ts=?")
        | none => ""
      some ({ d with started := true, st := s1, canon := evs.1 }, s!"v={v.n}{ts} ev={evs.2}")
  | ["ref", q] => do
    if !d.active then none
    let q ← nat? q
    if q ≥ d.exprs.length then none
    let P := progOf d.exprs d.sbody
    let v := sem P d.st.inp q
    let ts := match v.h with
      | some c => (match (semRes P d.st.inp c).ts with | some (k, x) => s!" ts={k}:{x}" | none => " ts=?")
      | none => ""
    some (d, s!"v={v.n}{ts}")
  | ["dump"] => if d.active then some (d, dump d) else none
  | _ => none

def step (d : DState) (line : String) : DState × String :=
  match handle d line with
  | some r => r
  | none => (d, "bad-op")

def main : IO Unit := SalsaVerif.Drive.runLoop DState.empty step

end SalsaVerif.Drive.CoreSpec
