/-
  Line protocol `svdriver dg` — replays a trace of wait-for-graph / sync-table operations through
  `SalsaVerif.Model.SyncDG` (counterpart of the `salsa_verif` hooks in
  src/runtime/dependency_graph.rs, src/runtime.rs and src/function/sync.rs; the trace format is the
  one of /verif/harness/TRACE_FORMAT.md).

  TOKENS (separated by ONE space): thread `t<N>` (N decimal), key `<ingredient>:<index>` (decimal),
  result `Completed|Panicked|Cancelled`.  Keys are interned in first-seen order; the model works on
  the ordinals, all printing goes back through the table.

  INPUT LINES
  (1) `dg <depth> <op> <me> <args…> [<E> <Q> <W> <T> <D>]`
      one line per `DependencyGraph` call, logged at function exit inside the graph mutex; the
      optional last five tokens are the implementation's digest AFTER the op.  depth 0 = top level
      (own lock hold); depth ≥ 1 = nested call, printed before its parent: answered `skip` (the
      parent line replays the whole call).  <op> <args…>:
        add_edge <from> <key> <to>
        wake <t> <result>                                     wait_results.remove in block_on
        unblock_runtimes_blocked_on <key> <result>
        unblock_transferred_queries_owned_by <key> <result>   (complete, incl. nested unblock calls)
        undo_transfer_lock <key>
        transfer_lock <query> <cur_thread> <new_owner_key> <T:t<N>|X> <new_owner_thread>
                      before=<…> after=<…> <noop|same|changed> <block 0|1>
              everything before the final block_on (which is the next `add_edge` line of that
              thread).  Checked: kind, new_owner_thread, block flag.  before=/after= are ignored.
        block <key> <other> <running|cycle>                   Runtime::block (state unchanged; answer checked)
        block_owner <key> <other> <running|cycle>             BlockOnTransferredOwner::block (same)
        block_transferred <key> <released|im_the_owner|owned_by:t<N>>   (state unchanged; answer checked)
        unblock_runtime <t> <result>                          only ever nested
  (2) `sync <op> <me> <key> <args…>`   sync-table mutations, logged under the shard lock.  The
      graph-dependent part of each decision was already checked at the dg lines, so the logged answer is
      an INPUT that is only checked for legality against the model's sync table:
        try_claim <allow|deny> <answer>      answer: claimed (entry vacant → insert Thread(me)) |
              running:t<N> | cycle (entry present; anyone_waiting:=true; for a Thread(id) owner
              running requires id = t<N>) | cycle_inner (owner Transferred, deny; no change) |
              reclaimed (owner Transferred ∧ ¬claimed_twice ∧ allow → Thread(me), claimed_twice) |
              released_claimed (owner Transferred → fresh entry)
        peek_claim <allow|deny> <answer>     same legality checks; only anyone_waiting is written
        release <result> aw=<b> tt=<b> c2=<b>   the entry is removed here (before the dg lines the
              release triggers); the three flags are compared with the model's entry
        release_self <to_transferred|release>   to_transferred: owner:=Transferred, claimed_twice:=false;
              when anyone_waiting is set and the key's transfer chain does NOT resolve to <me>
              (`!is_owner_of_transferred_query`, evaluated on the model graph): anyone_waiting:=false and
              the dg unblock line of the waiters follows (since salsa 451fce7, the condition since e06010e);
              otherwise anyone_waiting is left as it is and no dg line follows (if <me>'s next line is that
              unblock line all the same, it is applied and answered `answer-mismatch
              model=no-wake-own-transfer-target`);
              release: marker (the following `release` line removes the entry)
        release_panicking <Panicked|Cancelled> [tok=<0..3|?>]   marker; with `tok=` (raw CancellationToken
              bits of the releasing handle: 1 = cancel requested, 2 = local cancellation disabled) the
              result is checked: `Cancelled` ⇔ tok = 1 (`tok=?`: value raced, not checked)
        mark_as_transfer_target <T:t<N>|X|none> anyone_waiting:=true, is_transfer_target:=true on <key>;
              the returned owner is compared (`none` ⇔ no entry)
        transfer <new_owner_key>             on <key>: owner:=Transferred, claimed_twice:=false
        block_self                           marker (same-thread cycle, no graph lock)
        transfer_no_target <new_owner_key>   marker (mark_as_transfer_target returned None; a `release … Panicked`
                                             line follows)
  (3) `op <step> …`   one atomic protocol step of the model (`Op` in Model/SyncDG.lean); for hand-made
      traces and model-side exploration, never emitted by the hook:
        op claim <t> <key> <allow|deny> <block|noblock>    ans=claimed | running:t<N>:<blocked b> | cycle | cycle_inner
        op peek  <t> <key> <allow|deny> <block|noblock>
        op release <t> <key> <result>
        op release_self <t> <key>
        op transfer <t> <key> <new_owner_key>              ans=no-target | <noop|same|changed>:<blocked b>
        op wake <t>                                        ans=<result>
  (4) `reset` (fresh database), `dump` (no-op that also prints the sync table).
  Any other first token: `skip`.

  OUTPUT: exactly one line per input line
    skip
    ok <E> <Q> <W> <T> <D>[ ans=<a>][ <S>] inv=<ok|FAIL:Wn,…>   dg depth-0 / op / reset / dump line applied
    digest-mismatch <E> <Q> <W> <T> <D> inv=<…>                 applied, but the logged digest differs from
                                                                the model digest (which is the one printed)
    ok                                                          sync line accepted
    answer-mismatch model=<a>                                   logged answer / kind / flags differ (state is
                                                                still advanced as the model says)
    client-precondition-violated <E> <Q> <W> <T> <D> inv=<…>    a transfer (dg transfer_lock / op transfer) whose new
                                                                owner is the key itself or — in the Entry::Vacant arm —
                                                                is already transitively transferred to the key
                                                                (`transferClientOk`, the hypothesis of theorem
                                                                `w4_forest`; NOT asserted by the Rust code); applied
    not-enabled <why>                                           a Rust assert/unwrap/expect fires in the model
                                                                or a client precondition fails; state unchanged
    bad-op                                                      malformed line; state unchanged
  So the implementation side is `skip` / `ok <its digest> inv=ok` / `ok`.

  DIGEST  `E{…} Q{…} W{…} T{…} D{…}` (five tokens, no spaces inside):
    E{t1>t0;t2>t0}          edges, sorted by blocked thread number
    Q{5:0=[t1,t2];6:1=[t3]} query_dependents, sorted by key (ingredient, index); list in STORED order
    W{t1=Completed}         wait_results, sorted by thread number
    T{5:0>t1,6:0}           transferred (key > thread,owner key), sorted by key
    D{6:0=[5:0,7:0];8:0=[]} transferred_dependents, sorted by key, list in STORED order (push appends,
                            SmallSet::remove is a swap_remove); present-but-empty entries ARE printed
    empty map = `E{}` etc.
  SYNC (dump only)  `S{5:0=T1:101;6:0=X:110}`: owner `T<n>`|`X`, then anyone_waiting, is_transfer_target,
    claimed_twice as bits; sorted by key.
  INV: decidable W1 (blocked iff in exactly one dependents list), W2 (edges acyclic), W3 (every dependent
    of a key points at the key's owner: `Thread(u)` ⇒ u — while a transferred key is re-claimed
    (`claimed_twice`) also the resolved owner of its `transferred` chain; `Transferred` ⇒ the thread
    `thread_id_of_transferred_query` resolves to, and the key still has its `transferred` entry; no sync
    entry ⇒ no dependents), W4 (transferred is a forest and transferred_dependents its inverse), W5
    (pending result ⇒ not blocked), evaluated on the state after every applied dg/op line.
    W3 is the invariant the pre-451fce7 `release_self` violated (stale edge to the re-claiming thread;
    corpus/DG/kf-stale-edge-prefix.ops, recorded deadlock of corpus/C18).  Because a release / transfer /
    hand-back is a sync line followed by the graph line(s) of the same thread, W3 exempts a key from its
    `sync release` (with waiters) / `sync transfer` / `sync release_self … to_transferred` (with waiters
    that are woken) line until the NEXT dg or sync line of that thread has been applied (`undo_transfer_lock` keeps the
    exemption: it is the first of up to three graph lines of a release).  So if the expected graph
    operation does not follow (the old `release_self`), the violation is reported at that next line.
    `sync release_self … to_transferred` clears `anyone_waiting` and is followed by
    `dg 0 unblock_runtimes_blocked_on <key> Completed` when the flag was set and <me> does not own the
    key's transfer target; when <me> owns it the waiters' edges already point at <me> = the resolved owner
    (theorem `c18_handback_own_target_keeps_edges_accurate`), the flag stays and nobody is woken.
-/
import SalsaVerif.Drive.Common
import SalsaVerif.Model.SyncDG

namespace SalsaVerif.Drive.SyncDG
open SalsaVerif.Model.SyncDG

structure DState where
  st : State
  keys : Array (Nat × Nat)
  /-- (key, thread): the sync-table half of a release / transfer / hand-back of `key` by `thread` has
      been replayed, its graph half is the thread's next dg line; W3 is not evaluated on `key` meanwhile -/
  pending : List (Nat × Nat) := []
  /-- (key, thread): `thread` handed the re-claimed `key` back while owning its transfer target — its next
      dg line must NOT be the wake-up `unblock_runtimes_blocked_on key` (salsa e06010e) -/
  quiet : List (Nat × Nat) := []

def dinit : DState := { st := init, keys := #[], pending := [], quiet := [] }

def nat? (s : String) : Option Nat := if s.isEmpty then none else s.toNat?

def thread? (s : String) : Option Nat :=
  if s.startsWith "t" then nat? (s.drop 1).toString else none

def keyName? (s : String) : Option (Nat × Nat) :=
  match s.splitOn ":" with
  | [a, b] => do
    let a ← nat? a; let b ← nat? b
    some (a, b)
  | _ => none

/-- Intern a key name (first-seen ordinal). -/
def intern (d : DState) (n : Nat × Nat) : DState × Nat :=
  match d.keys.findIdx? (· == n) with
  | some i => (d, i)
  | none => ({ d with keys := d.keys.push n }, d.keys.size)

def key? (d : DState) (s : String) : Option (DState × Nat) := (keyName? s).map (intern d)

def res? (s : String) : Option WaitResult :=
  if s = "Completed" then some .completed else if s = "Panicked" then some .panicked
  else if s = "Cancelled" then some .cancelled else none

def fmtRes : WaitResult → String
  | .completed => "Completed"
  | .panicked => "Panicked"
  | .cancelled => "Cancelled"

def fmtB (b : Bool) : String := if b then "1" else "0"
def fmtT (t : Nat) : String := s!"t{t}"

def fmtK (d : DState) (k : Nat) : String :=
  match d.keys[k]? with
  | some (a, b) => s!"{a}:{b}"
  | none => s!"?:{k}"

def keyLe (d : DState) (a b : Nat) : Bool :=
  match d.keys[a]?, d.keys[b]? with
  | some (a1, a2), some (b1, b2) => a1 < b1 || (a1 == b1 && a2 ≤ b2)
  | _, _ => a ≤ b

/-- Key ordinals sorted by (ingredient, index) — insertion sort, the tables are tiny. -/
def sortedKeys (d : DState) : List Nat :=
  (List.range d.keys.size).foldl
    (fun acc x => (acc.takeWhile (keyLe d · x)) ++ x :: (acc.dropWhile (keyLe d · x))) []

def braces (tag : String) (l : List String) : String := tag ++ "{" ++ ";".intercalate l ++ "}"

def digest (d : DState) : String :=
  let s := d.st
  let ks := sortedKeys d
  let e := (ids s).filterMap fun t => (s.edges t).map fun u => s!"{fmtT t}>{fmtT u}"
  let q := ks.filterMap fun k =>
    if (s.qdeps k).isEmpty then none
    else some s!"{fmtK d k}=[{",".intercalate ((s.qdeps k).map fmtT)}]"
  let w := (ids s).filterMap fun t => (s.results t).map fun r => s!"{fmtT t}={fmtRes r}"
  let t := ks.filterMap fun k => (s.transferred k).map fun (th, o) => s!"{fmtK d k}>{fmtT th},{fmtK d o}"
  let dd := ks.filterMap fun k => (s.tdeps k).map fun l => s!"{fmtK d k}=[{",".intercalate (l.map (fmtK d))}]"
  " ".intercalate [braces "E" e, braces "Q" q, braces "W" w, braces "T" t, braces "D" dd]

def fmtOwner : SyncOwner → String
  | .thread t => s!"T{t}"
  | .transferred => "X"

def fmtSync (d : DState) : String :=
  braces "S" ((sortedKeys d).filterMap fun k => (d.st.sync k).map fun st =>
    s!"{fmtK d k}={fmtOwner st.owner}:{fmtB st.anyoneWaiting}{fmtB st.isTransferTarget}{fmtB st.claimedTwice}")

def invReport (s : State) (skip : List Nat := []) : String :=
  let bad := (if checkW1 s then [] else ["W1"]) ++ (if checkW2 s then [] else ["W2"])
    ++ (if checkW3 s skip then [] else ["W3"])
    ++ (if checkW4 s then [] else ["W4"]) ++ (if checkW5 s then [] else ["W5"])
  if bad.isEmpty then "inv=ok" else "inv=FAIL:" ++ ",".intercalate bad

def fmtKind : TransferKind → String
  | .noop => "noop"
  | .same => "same"
  | .changed => "changed"

def fmtClaim : ClaimAnswer → String
  | .claimed => "claimed"
  | .running o => s!"running:{fmtT o}"
  | .cycle false => "cycle"
  | .cycle true => "cycle_inner"

def fmtAnswer : Answer → Option String
  | .unit => none
  | .claim (.running o) b => some s!"running:{fmtT o}:{fmtB b}"
  | .claim a _ => some (fmtClaim a)
  | .transfer .noTarget => some "no-target"
  | .transfer (.done k b) => some s!"{fmtKind k}:{fmtB b}"
  | .woke r => some (fmtRes r)

def touchAll (s : State) (l : List Nat) : State := l.foldl touch s

/-- Result of handling one line. -/
inductive Out
  | skip
  | bad
  | notEnabled (why : String)
  | graph (d : DState) (ans : Option String) (extra : Option String)   -- prints digest + inv
  | sync (d : DState) (mismatch : Option String)                        -- prints ok / answer-mismatch

def withSt (d : DState) (s : State) : DState := { d with st := s }

def owner? (s : String) : Option SyncOwner :=
  if s = "X" then some .transferred
  else if s.startsWith "T:" then (thread? (s.drop 2).toString).map .thread else none

def whyAddEdge (s : State) (f t : Nat) : String :=
  if f = t then "add_edge:from==to"
  else if (s.edges f).isSome then "add_edge:from-already-blocked"
  else "add_edge:to-depends-on-from"

/-- dg lines (depth 0). `args` excludes `<me>`. -/
def applyDg (d : DState) (op : String) (args : List String) : Out :=
  let r : Option Out :=
    match op, args with
    | "add_edge", [f, k, t] => do
      let f ← thread? f; let (d, k) ← key? d k; let t ← thread? t
      let s := touchAll d.st [f, k, t]
      match addEdge s f k t with
      | some s' => some (.graph (withSt d s') none none)
      | none => some (.notEnabled (whyAddEdge s f t))
    | "wake", [t, r] => do
      let t ← thread? t; let r ← res? r
      match stepA d.st (.wake t) with
      | some (s', .woke r') =>
        if r = r' then some (.graph (withSt d s') none none)
        else some (.graph (withSt d s') (some ("MISMATCH:" ++ fmtRes r')) none)
      | _ => some (.notEnabled "wake:no-result")
    | "unblock_runtimes_blocked_on", [k, r] => do
      let (d, k) ← key? d k; let r ← res? r
      let s := touchAll d.st [k]
      match unblockRuntimesBlockedOn s k r with
      | some s' => some (.graph (withSt d s') none none)
      | none => some (.notEnabled "unblock_runtimes_blocked_on:dependent-not-blocked")
    | "unblock_transferred_queries_owned_by", [k, r] => do
      let (d, k) ← key? d k; let r ← res? r
      let s := touchAll d.st [k]
      match unblockTransferredOwnedBy s k r with
      | some s' => some (.graph (withSt d s') none none)
      | none => some (.notEnabled "unblock_transferred_queries_owned_by:assert")
    | "undo_transfer_lock", [k] => do
      let (d, k) ← key? d k
      let s := touchAll d.st [k]
      match undoTransferLock s k with
      | some s' => some (.graph (withSt d s') none none)
      | none => some (.notEnabled "undo_transfer_lock:owner-has-no-dependents-entry")
    | "transfer_lock", [q, c, n, o, nt, _before, _after, kind, blk] => do
      let (d, q) ← key? d q; let c ← thread? c; let (d, n) ← key? d n
      let o ← owner? o; let nt ← thread? nt
      let s := touchAll d.st [q, c, n, nt]
      match transferLockCore s q c n o with
      | some (s', kd, nt') =>
        let willBlock : Bool := kd == .changed && c != nt' && dependsOn s' nt' c == some false
        let model := s!"{fmtT nt'} {fmtKind kd} {fmtB willBlock}"
        let logged := s!"{fmtT nt} {kind} {blk}"
        if !transferClientOk s q n then some (.graph (withSt d s') (some "PRECOND:") none)
        else some (.graph (withSt d s') (if model = logged then none else some ("MISMATCH:" ++ model.replace " " ",")) none)
      | none =>
        match newOwnerThread s q n o with
        | none => some (.notEnabled "transfer_lock:new-owner-not-transferred")
        | some nt' =>
          if nt' ≠ c ∧ dependsOn s nt' c ≠ some true then
            some (.notEnabled "transfer_lock:new-owner-not-blocked-on-current-thread")
          else some (.notEnabled "transfer_lock:assert")
    | _, _ => none
  r.getD .bad

/-- dg check lines that need `<me>`. -/
def applyDgCheck (d : DState) (op : String) (me : Nat) (args : List String) : Option Out :=
  match op, args with
  | "block", [_k, other, ans] | "block_owner", [_k, other, ans] => do
    let other ← thread? other
    let s := touchAll d.st [me, other]
    match block s me other with
    | some (.running _) => some (.graph d (if ans = "running" then none else some "MISMATCH:running") none)
    | some _ => some (.graph d (if ans = "cycle" then none else some "MISMATCH:cycle") none)
    | none => some (.notEnabled "block:depends_on-does-not-terminate")
  | "block_transferred", [k, ans] => do
    let (d, k) ← key? d k
    let s := touchAll d.st [me, k]
    match blockTransferred s k me with
    | some r =>
      let model := match r with
        | .released => "released"
        | .imTheOwner => "im_the_owner"
        | .ownedBy o => s!"owned_by:{fmtT o}"
      some (.graph d (if ans = model then none else some ("MISMATCH:" ++ model)) none)
    | none => some (.notEnabled "block_transferred:does-not-terminate")
  | _, _ => none

def setSync (d : DState) (k : Nat) (v : Option SyncState) : DState :=
  withSt d { (touch d.st k) with sync := upd d.st.sync k v }

def addPending (d : DState) (k me : Nat) : DState := { d with pending := (k, me) :: d.pending }

def addQuiet (d : DState) (k me : Nat) : DState := { d with quiet := (k, me) :: d.quiet }

def flag? (pre s : String) : Option Bool :=
  if s = pre ++ "0" then some false else if s = pre ++ "1" then some true else none

/-- sync lines. `args` excludes `<me> <key>`. -/
def applySync (d : DState) (op : String) (me k : Nat) (args : List String) : Out :=
  let cur := d.st.sync k
  let r : Option Out :=
    match op, args with
    | "try_claim", [mode, ans] | "peek_claim", [mode, ans] => do
      if mode ≠ "allow" ∧ mode ≠ "deny" then none
      let peek := op = "peek_claim"
      let wr (v : SyncState) : DState := setSync d k (some v)
      match cur with
      | none =>
        if ans = "claimed" then some (.sync (if peek then d else wr (freshClaim me)) none)
        else some (.notEnabled "sync:entry-vacant-but-answer-not-claimed")
      | some st =>
        let waiting := wr { st with anyoneWaiting := true }
        if ans = "claimed" then some (.notEnabled "sync:claimed-but-entry-present")
        else if ans = "cycle" then some (.sync waiting none)
        else if ans.startsWith "running:" then do
          let o ← thread? (ans.drop 8).toString
          match st.owner with
          | .thread id =>
            if id = o then some (.sync waiting none) else some (.sync waiting (some s!"running:{fmtT id}"))
          | .transferred => some (.sync waiting none)
        else if ans = "cycle_inner" then
          if st.owner = .transferred ∧ mode = "deny" then some (.sync d none)
          else some (.notEnabled "sync:cycle_inner-needs-transferred-owner-and-deny")
        else if ans = "reclaimed" then
          if st.owner = .transferred ∧ mode = "allow" ∧ st.claimedTwice = false then
            some (.sync (if peek then d else wr { st with owner := .thread me, claimedTwice := true }) none)
          else some (.notEnabled "sync:reclaimed-needs-transferred-owner-allow-and-not-claimed-twice")
        else if ans = "released_claimed" then
          if st.owner = .transferred then some (.sync (if peek then d else wr (freshClaim me)) none)
          else some (.notEnabled "sync:released_claimed-needs-transferred-owner")
        else none
    | "release", [r, aw, tt, c2] => do
      let _ ← res? r; let aw ← flag? "aw=" aw; let tt ← flag? "tt=" tt; let c2 ← flag? "c2=" c2
      match cur with
      | none => some (.notEnabled "sync:release-without-entry")
      | some st =>
        let d' := setSync d k none
        let d' := if st.anyoneWaiting then addPending d' k me else d'
        if st.anyoneWaiting = aw ∧ st.isTransferTarget = tt ∧ st.claimedTwice = c2 then some (.sync d' none)
        else some (.sync d' (some s!"aw={fmtB st.anyoneWaiting},tt={fmtB st.isTransferTarget},c2={fmtB st.claimedTwice}"))
    | "release_self", [what] =>
      match cur with
      | none => some (.notEnabled "sync:release_self-without-entry")
      | some st =>
        if what = "to_transferred" then
          if st.claimedTwice then
            let st1 : SyncState := { st with claimedTwice := false, owner := .transferred }
            let d1 := setSync d k (some st1)
            if st.anyoneWaiting then
              -- `is_owner_of_transferred_query(key, me)` (its graph-lock hold has no trace line of its own;
              -- nothing but `me` can change the chain of a key `me` has re-claimed, so it is evaluated here)
              match isOwnerOfTransferredQuery (touch d1.st me) k me with
              | none => some (.notEnabled "sync:release_self-transfer-chain-does-not-terminate")
              | some true => some (.sync (addQuiet d1 k me) none)
              | some false =>
                some (.sync (addPending (setSync d1 k (some { st1 with anyoneWaiting := false })) k me) none)
            else some (.sync d1 none)
          else some (.notEnabled "sync:to_transferred-needs-claimed-twice")
        else if what = "release" then
          if st.claimedTwice then some (.sync d (some "to_transferred")) else some (.sync d none)
        else none
    | "release_panicking", [r] => do
      let _ ← res? r
      some (.sync d none)
    | "release_panicking", [r, tok] => do
      let r ← res? r
      if !tok.startsWith "tok=" then none
      let bits := (tok.drop 4).toString
      if bits = "?" then some (.sync d none)
      else
        let b ← nat? bits
        if b > 3 then none
        -- release_panicking: `Cancelled` iff `should_trigger_local_cancellation()` iff the token is exactly 1
        let want : WaitResult := if b = 1 then .cancelled else .panicked
        if r = want then some (.sync d none) else some (.sync d (some (fmtRes want)))
    | "mark_as_transfer_target", [o] =>
      match cur with
      | none => if o = "none" then some (.sync d none) else some (.sync d (some "none"))
      | some st =>
        let d' := setSync d k (some { st with anyoneWaiting := true, isTransferTarget := true })
        let model := match st.owner with
          | .thread t => s!"T:{fmtT t}"
          | .transferred => "X"
        some (.sync d' (if o = model then none else some model))
    | "transfer", [n] => do
      let _ ← keyName? n
      match cur with
      | none => some (.notEnabled "sync:transfer-without-entry")
      | some st => some (.sync (addPending (setSync d k (some { st with owner := .transferred, claimedTwice := false })) k me) none)
    | "block_self", [] => some (.sync d none)
    | "transfer_no_target", [n] => do
      let _ ← keyName? n
      if (d.st.sync k).isSome then some (.sync d none) else some (.notEnabled "sync:transfer_no_target-without-entry")
    | _, _ => none
  r.getD .bad

def mode? (s : String) : Option Bool :=
  if s = "allow" then some true else if s = "deny" then some false else none

def blk? (s : String) : Option Bool :=
  if s = "block" then some true else if s = "noblock" then some false else none

def whyProtocol (s : State) (t : Nat) (k : Option Nat) (dflt : String) : String :=
  if (s.edges t).isSome then "thread-blocked"
  else if (s.results t).isSome then "thread-has-unconsumed-result"
  else match k with
    | some k => if ownedBy s k t then dflt else "key-not-owned-by-thread"
    | none => dflt

def protocol (d : DState) (op : Op) (t : Nat) (k : Option Nat) (name : String) : Out :=
  match stepA d.st op with
  | some (s', a) => .graph (withSt d s') (fmtAnswer a) none
  | none => .notEnabled (whyProtocol d.st t k (name ++ ":assert"))

/-- `op …` lines. -/
def applyOp (d : DState) (args : List String) : Out :=
  let r : Option Out :=
    match args with
    | ["claim", t, k, a, b] => do
      let t ← thread? t; let (d, k) ← key? d k; let a ← mode? a; let b ← blk? b
      some (protocol d (.claim t k a b) t none "claim")
    | ["peek", t, k, a, b] => do
      let t ← thread? t; let (d, k) ← key? d k; let a ← mode? a; let b ← blk? b
      some (protocol d (.peek t k a b) t none "peek")
    | ["release", t, k, r] => do
      let t ← thread? t; let (d, k) ← key? d k; let r ← res? r
      some (protocol d (.release t k r) t (some k) "release")
    | ["release_self", t, k] => do
      let t ← thread? t; let (d, k) ← key? d k
      some (protocol d (.releaseSelf t k) t (some k) "release_self")
    | ["transfer", t, k, n] => do
      let t ← thread? t; let (d, k) ← key? d k; let (d, n) ← key? d n
      match protocol d (.transfer t k n) t (some k) "transfer" with
      | .graph d' a e =>
        if clientOk d.st (.transfer t k n) then some (.graph d' a e) else some (.graph d' (some "PRECOND:") e)
      | o => some o
    | ["wake", t] => do
      let t ← thread? t
      match stepA d.st (.wake t) with
      | some (s', a) => some (.graph (withSt d s') (fmtAnswer a) none)
      | none => some (.notEnabled "wake:no-result")
    | _ => none
  r.getD .bad

/-- Split off the five digest tokens at the end of a dg line. -/
def splitDigest (toks : List String) : List String × Option String :=
  let n := toks.length
  if n ≥ 5 ∧ ((toks.drop (n - 5)).head?.map (·.startsWith "E{")) = some true then
    (toks.take (n - 5), some (" ".intercalate (toks.drop (n - 5))))
  else (toks, none)

/-- The thread `me` logs its next line: its in-flight markers expire (the graph half of the operation is
    this very line — or the marker was wrong and W3 must see the key again).  `undo_transfer_lock` is
    the first of up to three graph lines of a release and keeps the marker. -/
def expire (d : DState) (me : Nat) (keep : Bool) : DState :=
  if keep then d
  else { d with pending := d.pending.filter (fun p => p.2 != me), quiet := d.quiet.filter (fun p => p.2 != me) }

/-- Is this dg line the wake-up of the waiters of a key that `me` has just handed back while owning its
    transfer target (the pre-e06010e behaviour)? -/
def unexpectedWake (d : DState) (op : String) (me : Nat) (args : List String) : Bool :=
  op == "unblock_runtimes_blocked_on" &&
    match args with
    | k :: _ =>
      match key? d k with
      | some (_, ki) => d.quiet.contains (ki, me)
      | none => false
    | [] => false

def handle (d : DState) (line : String) : Out × Option String :=
  match SalsaVerif.Drive.words line with
  | "dg" :: rest =>
    let (rest, want) := splitDigest rest
    match rest with
    | depth :: op :: me :: args =>
      match nat? depth, thread? me with
      | some dep, some me =>
        if dep > 0 then (.skip, none)
        else
          let noWake := unexpectedWake d op me args
          let d := expire d me (op == "undo_transfer_lock")
          match applyDgCheck d op me args with
          | some o => (o, want)
          | none =>
            match applyDg d op args with
            | .graph d' none extra =>
              if noWake then (.graph d' (some "MISMATCH:no-wake-own-transfer-target") extra, want)
              else (.graph d' none extra, want)
            | o => (o, want)
      | _, _ => (.bad, none)
    | _ => (.bad, none)
  | "sync" :: op :: me :: k :: args =>
    match thread? me, key? d k with
    | some me, some (d, k) => (applySync (expire d me false) op me k args, none)
    | _, _ => (.bad, none)
  | "op" :: args => (applyOp d args, none)
  | ["reset"] => (.graph dinit none none, none)
  | ["dump"] => (.graph d none (some (fmtSync d)), none)
  | _ => (.skip, none)

def step (d : DState) (line : String) : DState × String :=
  match handle d line with
  | (.skip, _) => (d, "skip")
  | (.bad, _) => (d, "bad-op")
  | (.notEnabled why, _) => (d, "not-enabled " ++ why)
  | (.sync d' none, _) => (d', "ok")
  | (.sync d' (some m), _) => (d', "answer-mismatch model=" ++ m)
  | (.graph d' ans extra, want) =>
    let dig := digest d'
    match ans with
    | some a =>
      if a.startsWith "MISMATCH:" then (d', "answer-mismatch model=" ++ (a.drop 9).toString)
      else if a.startsWith "PRECOND:" then
        (d', "client-precondition-violated " ++ dig ++ " " ++ invReport d'.st (d'.pending.map (·.1)))
      else
        let head := if want.all (· == dig) then "ok " else "digest-mismatch "
        (d', head ++ dig ++ " ans=" ++ a ++ (extra.map (" " ++ ·)).getD "" ++ " " ++ invReport d'.st (d'.pending.map (·.1)))
    | none =>
      let head := if want.all (· == dig) then "ok " else "digest-mismatch "
      (d', head ++ dig ++ (extra.map (" " ++ ·)).getD "" ++ " " ++ invReport d'.st (d'.pending.map (·.1)))

def main : IO Unit := SalsaVerif.Drive.runLoop dinit step

end SalsaVerif.Drive.SyncDG
