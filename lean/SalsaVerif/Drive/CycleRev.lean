/-
  Line protocol `svdriver cyclerev` (model `SalsaVerif.Model.CycleRev`): reads the op files of
  `vh seq --profile cycle` UNCHANGED and answers in the format of `seq run`.

  One op per line, tokens separated by exactly one space, integers decimal.  One output line per
  op line.

  ops
    prog <n> <ninputs> <ncells>   start a new case: fresh database, n nodes (1..64), ninputs ≤ 8,
                                  ncells must be 0                                  -> `ok`
    q <i> <kind> <expr>           define node i (nodes are defined in order 0, 1, …)  -> `ok`
         <kind> ::= fix | fixjoin | fb | nocyc | plain
                    fb = FallbackImmediate with value 200 + i; nocyc, plain = no cycle recovery
         <expr> ::= prefix notation, one token per constructor:
                    c<k> constant | i<k> input k | q<k> call node k
                    U <e> <e> union | N <e> <e> intersection | + <e> <e>  (a + b) % 4
                    ? i<k> <e> <e>   if input k is odd then first else second
                    ? <c> <e> c0     gate (<c> not an input): if the value of <c> is odd then <e>
                                     (evaluated only then) else 0
    input <i> <v> <d>             initial value / durability (0..2) of input i        -> `ok`
                                  (only before the first get / set / synth of the case)
    get <q>                       request node q  -> `v=<value> ev=<events>` | `panic:<class> ev=<events>`
         <class>  ::= cycle | too-many-iterations | cancelled:propagatedpanic | backdate-violation
                    | internal | out-of-fuel
         <events> ::= `-` | comma-separated, in order: X<q> WillExecute, V<q> DidValidateMemoizedValue,
                      C<q>:<k> WillIterateCycle
    set <i> <v> <d|k>             write input i (new revision), durability d or kept    -> `ok`
    synth <d>                     synthetic write of durability d (new revision)        -> `ok`
  `svdriver cyclerev-cert` is the same protocol with ` cert=<0|1>` appended to every `v=` answer:
  the closed-table certificate `certB` of the model file for that answer in the state after the
  request (`Props/C12Rev.lean: c12rev_exact_if_closed` turns `cert=1` into "the answer is lfp").
  A case that uses anything else (`b` lines, other kinds or operators, cells, lru, inject, …) is
  outside the model: the offending line and every later line of the case answer `unsupported`.
  Lines before the first `prog` answer `bad-op`.
-/
import SalsaVerif.Drive.Common
import SalsaVerif.Model.CycleRev

namespace SalsaVerif.Drive.CycleRev
open SalsaVerif.Model.CycleRev
open SalsaVerif.Model.Cycle (Strategy)

def nat? (s : String) : Option Nat := if s.isEmpty then none else s.toNat?

structure DSt where
  active : Bool := false
  ok : Bool := false
  n : Nat := 0
  ninputs : Nat := 0
  nodes : List Node := []
  inputs : List (Nat × Nat) := []
  /-- `none` until the first operation of the case -/
  db : Option St := none

def tagged (t : String) : Option (Char × Nat) :=
  match t.toList with
  | c :: rest => (nat? (String.ofList rest)).map (fun k => (c, k))
  | [] => none

def parseExpr (n ni : Nat) : Nat → List String → Option (Expr × List String)
  | 0, _ => none
  | _, [] => none
  | fuel + 1, t :: ts =>
    let bin (mk : Expr → Expr → Expr) (ts : List String) : Option (Expr × List String) := do
      let (a, r1) ← parseExpr n ni fuel ts
      let (b, r2) ← parseExpr n ni fuel r1
      some (mk a b, r2)
    if t = "U" then bin .union ts
    else if t = "N" then bin .inter ts
    else if t = "+" then bin .add ts
    else if t = "?" then
      -- `? i<k> a b` branches on an input; `? <e> a c0` with any other condition is a gate
      match parseExpr n ni fuel ts with
      | some (.input k, rest) => bin (.ite k) rest
      | some (c, rest) => do
        let (a, r1) ← parseExpr n ni fuel rest
        let (b, r2) ← parseExpr n ni fuel r1
        if b == .const 0 then some (.gate c a, r2) else none
      | none => none
    else match tagged t with
      | some ('c', k) => some (.const k, ts)
      | some ('i', k) => if k < ni then some (.input k, ts) else none
      | some ('q', k) => if k < n then some (.call k, ts) else none
      | _ => none

def parseKind (i : Nat) (s : String) : Option Strategy :=
  if s = "fix" then some (.fixpoint false)
  else if s = "fixjoin" then some (.fixpoint true)
  else if s = "fb" then some (.fallback (200 + i))
  else if s = "nocyc" ∨ s = "plain" then some .panic
  else none

def fmtClass : PanicClass → String
  | .cycle => "panic:cycle"
  | .tooManyIterations => "panic:too-many-iterations"
  | .propagated => "panic:cancelled:propagatedpanic"
  | .backdateViolation => "panic:backdate-violation"
  | .internal => "panic:internal"
  | .outOfFuel => "panic:out-of-fuel"

def fmtEv : Ev → String
  | .exec q => s!"X{q}"
  | .valid q => s!"V{q}"
  | .iterate q k => s!"C{q}:{k}"

def fmtEvs (evs : List Ev) : String :=
  if evs.isEmpty then "-" else ",".intercalate (evs.reverse.map fmtEv)

def DSt.prog (st : DSt) : Prog := ⟨st.nodes⟩

def DSt.state (st : DSt) : St :=
  match st.db with
  | some s => s
  | none => St.init st.n st.inputs

def handle (cert : Bool) (st : DSt) (line : String) : Option (DSt × String) :=
  match SalsaVerif.Drive.words line with
  | ["prog", n, ni, nc] => do
    let n ← nat? n; let ni ← nat? ni; let nc ← nat? nc
    if n = 0 ∨ n > 64 ∨ ni > 8 ∨ nc ≠ 0 then none
    some ({ active := true, ok := true, n := n, ninputs := ni, inputs := List.replicate ni (0, 0) }, "ok")
  | "q" :: i :: kind :: toks => do
    let i ← nat? i
    if i ≠ st.nodes.length ∨ i ≥ st.n ∨ st.db.isSome then none
    let strat ← parseKind i kind
    let (e, rest) ← parseExpr st.n st.ninputs (toks.length + 1) toks
    if !rest.isEmpty then none
    some ({ st with nodes := st.nodes ++ [⟨strat, e⟩] }, "ok")
  | ["input", i, v, d] => do
    let i ← nat? i; let v ← nat? v; let d ← nat? d
    if i ≥ st.ninputs ∨ v ≥ 256 ∨ d ≥ 3 ∨ st.db.isSome then none
    some ({ st with inputs := st.inputs.set i (v, d) }, "ok")
  | ["get", q] => do
    let q ← nat? q
    if q ≥ st.n ∨ st.nodes.length ≠ st.n then none
    let (o, s') := get st.prog st.state q
    let r := match o with
      | .value v => s!"v={v}"
      | .panic c => fmtClass c
    let ct := match o with
      | .value v => if cert then (if certB st.prog s' q v then " cert=1" else " cert=0") else ""
      | .panic _ => ""
    some ({ st with db := some s' }, s!"{r} ev={fmtEvs s'.evs}{ct}")
  | ["set", i, v, d] => do
    let i ← nat? i; let v ← nat? v
    let nd ← if d = "k" then some none else (nat? d).map some
    if i ≥ st.ninputs ∨ v ≥ 256 ∨ nd.any (· ≥ 3) then none
    some ({ st with db := some (write st.state i v nd) }, "ok")
  | ["synth", d] => do
    let d ← nat? d
    if d ≥ 3 then none
    some ({ st with db := some (synth st.state d) }, "ok")
  | _ => none

def step (cert : Bool) (st : DSt) (line : String) : DSt × String :=
  if line.startsWith "prog " then
    match handle cert {} line with
    | some r => r
    | none => ({ active := true, ok := false }, "unsupported")
  else if !st.active then (st, "bad-op")
  else if !st.ok then (st, "unsupported")
  else
    match handle cert st line with
    | some r => r
    | none => ({ st with ok := false }, "unsupported")

def main (cert : Bool := false) : IO Unit := SalsaVerif.Drive.runLoop ({} : DSt) (step cert)

end SalsaVerif.Drive.CycleRev

