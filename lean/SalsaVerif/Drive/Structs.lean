/-
  Line protocol `svdriver structs` — replays a hook trace of the tracked-struct protocol (class `ts`
  of /verif/harness/TRACE_FORMAT.md, recorded from real salsa by `vh structs` / `vh seq --trace-out`)
  through the functions of `SalsaVerif.Model.Structs`, comparing after EVERY line the model's answer
  with the traced outcome and evaluating the world invariant `WInv` (`winvB`, Model/StructsInv.lean).

  TOKENS (one space between tokens, integers decimal)
    t<N>                          thread ordinal (ignored: the harnesses are single-threaded)
    <qkey> = <ing>:<idx>          a query (creator) key; creators are numbered in first-seen order
    <sid>  = <ing>:<idx>g<gen>    a tracked-struct id; `idx` is salsa's table index, mapped to the
                                  model's slot index in order of first allocation
    <ident> = <ing>/<hash>/<dis>  an `Identity`;  <pairs> = [<ident>=<sid>,…]
    <orev> = <revision> | none    the `updated_at` lock word

  INPUT LINES and what is checked (M = model, all comparisons are exact)
    reset                                       fresh database
    note t0 new <T|U> <k> <a> [<b>]             field values of the next `new_struct` (identity k, tracked a[,b])
    note t0 eq-panic <n>                        user PartialEq panicked after n tracked fields were updated
    note t0 caught <class>                      a panic reached the harness: pending deletes are abandoned
                                                (`deleteEntityUnwound` for the deletes in progress)
    ts push <q>                                 frame pushed; M: creator q is idle
    ts seed <q> <pairs>                         M: creator's memo list = <pairs>;            `step (.begin q)`
    ts ident <q> <ing> <hash> <dis> <found:<sid>|fresh> cur= dur= ca=
                                                M: `newIdentity` gives <dis>, `IdentityMap.reuse` gives found/fresh
    ts update <sid> seen=<orev> cur= dur= ca= <current | leak | panic:write_locked |
                                   ok <sid'> idchg=<b> olddur=<d> revs=[…] now=<rev>>
                                                M: `update` on the found id: same outcome, new id, bumped
                                                revisions, durability, lock word; `clear_memos` seen iff idchg
    ts update_unwind restored=<orev>            `update_fields` unwound: lock word restored (M never took it);
                                                the first n tracked fields stay updated (`updateTracked` on the prefix)
    ts alloc <ing> <fresh|reuse> <sid> leaked=<n> cur= dur= ca=
                                                M: `allocate`: fresh slot vs FIFO free-list pop, id, #leaked entries
    ts new <q> <ing> <sid> <reused|updated_id|allocated>
                                                M: `newStruct` / `step (.new …)` from the state before the call:
                                                same id, same table state as built line by line, same idmap action
    ts pop <q> done A<pairs> S<pairs>           M: `IdentityMap.drain`: A is a permutation of the active list
                                                (hash-table order is an input), S = the stale list in order;
                                                creator := idle A
    ts pop <q> aborted                          frame dropped by an unwind: creator keeps its old memo
    ts stale <q> [<sid>,…]                      the struct ids among them = the stale list of the pop of q
    ts remove_outputs <q> <pairs>               M: creator q is idle with exactly this list; creator := idle []
    ts delete <sid> seen=<orev> cur= <ok|panic:write_locked|panic:read_locked>
                                                M: next expected delete, lock word, `deleteEntity` result
    ts clear_memo <sid> <fkey> / ts clear_memos <sid> <n>
                                                M: the slot's ghost memo list has a memo of that function / n functions
    ts free_push <sid> now=none                 M: `deleteEntity` applied here (FIFO push); memos were cleared
    ts read <sid> seen=<orev> cur= <u | f<i> [rev= dur=]>
                                                M: lock word, generation, field revision, durability; `readField`
    ts memos <idx>g<gen> / ts mread seen= cur=  memo-table access of a struct slot = `readField`
    ts locked now=<rev>                         M: lock word after the read
    ts age <sid> <sid'>                         harness action `age_free_lists`: free entry and ghost slot generation
                                                are raised (legal iff not lowered)
    memo publish t0 <fkey> m<K>                 a memo keyed by a struct slot: ghost `addMemo`
    ts seed_iteration … / a second `ts seed` of a frame
                                                fixpoint iteration (not modelled): the rest of the case is
                                                answered `skip-unmodelled`
    any other class / note                      `skip`

  OUTPUT: one line per input line
    ok[ <detail>] inv=<ok|FAIL:<components>>    accepted; the invariant of the model world after the line
    answer-mismatch model=<model's answer> inv=…    traced outcome ≠ model (the model state is advanced as the
                                                model says where that is possible)
    not-enabled <why> inv=…                     the line cannot occur in the model state (protocol order)
    skip | skip-unmodelled | bad-op
-/
import SalsaVerif.Drive.Common
import SalsaVerif.Model.StructsInv

namespace SalsaVerif.Drive.Structs
open SalsaVerif.Model.Structs

abbrev Pairs := List (Identity × Id)

structure PendingNew where
  q : Nat
  g : Nat
  hash : Nat
  cur : Nat
  dur : Nat
  ca : Nat
  fields : Fields
  identity : Identity
  found : Option Id
  tentative : Option State := none
  updated : Option (Option Id) := none
  allocId : Option Id := none

structure DState where
  w : World := World.empty
  qmap : List (String × Nat) := []
  smap : List (Nat × Nat) := []                 -- salsa table index ↦ model slot index
  hashes : List ((Nat × Nat) × Nat) := []       -- (ingredient, identity value) ↦ traced hash
  frames : List (Nat × Bool) := []              -- (creator, begun), innermost first
  saved : List (Nat × Pairs) := []              -- creator ↦ memo list at `begin` (restored on abort)
  fields : Option Fields := none
  eqPanic : Option Nat := none
  pn : Option PendingNew := none
  popped : List (Nat × Pairs) := []             -- creator ↦ stale list of its pop, until the `stale` line
  queues : List Pairs := []                     -- expected deletes, innermost first
  dels : List (Nat × Id × Nat × Nat) := []      -- deletes in progress (ingredient, id, cur, #queues at its start), innermost first
  cleared : List Nat := []                      -- slots whose `clear_memos` line was seen and not yet consumed
  rd : Option Nat := none
  mem : Option Id := none
  structIngs : List Nat := []
  idchg : List Nat := []                        -- running creators that got an identity-changed id
  cut : Bool := false

/-! ### parsing -/

def nat? (s : String) : Option Nat := if s.isEmpty then none else s.toNat?

def stripPrefix? (p s : String) : Option String :=
  if s.startsWith p then some (s.drop p.length).toString else none

def kv? (key s : String) : Option Nat := (stripPrefix? (key ++ "=") s).bind nat?

/-- `<rev>` or `none` -/
def orev? (s : String) : Option (Option Nat) :=
  if s = "none" then some none else (nat? s).map some

def kvRev? (key s : String) : Option (Option Nat) := (stripPrefix? (key ++ "=") s).bind orev?

/-- `<idx>g<gen>` -/
def idxGen? (s : String) : Option (Nat × Nat) :=
  match s.splitOn "g" with
  | [a, b] => do let i ← nat? a; let g ← nat? b; some (i, g)
  | _ => none

/-- `<ing>:<idx>g<gen>` ↦ (ingredient, salsa index, generation) -/
def sid? (s : String) : Option (Nat × Nat × Nat) :=
  match s.splitOn ":" with
  | [a, b] => do let i ← nat? a; let (x, g) ← idxGen? b; some (i, x, g)
  | _ => none

/-- `<ing>:<idx>` -/
def qkey? (s : String) : Option (Nat × Nat) :=
  match s.splitOn ":" with
  | [a, b] => do let i ← nat? a; let x ← nat? b; some (i, x)
  | _ => none

def identity? (s : String) : Option Identity :=
  match s.splitOn "/" with
  | [a, b, c] => do let i ← nat? a; let h ← nat? b; let d ← nat? c; some ⟨i, h, d⟩
  | _ => none

/-- `[x,y,…]` ↦ the items -/
def bracket? (s : String) : Option (List String) :=
  if s.startsWith "[" && s.endsWith "]" then
    let inner := ((s.drop 1).toString.dropEnd 1).toString
    if inner.isEmpty then some [] else some (inner.splitOn ",")
  else none

def mapM? {α β : Type} (f : α → Option β) : List α → Option (List β)
  | [] => some []
  | a :: l => do let b ← f a; let bs ← mapM? f l; some (b :: bs)

def natList? (s : String) : Option (List Nat) := (bracket? s).bind (mapM? nat?)

/-- `[<ident>=<sid>,…]` with salsa indices -/
def rawPairs? (s : String) : Option (List (Identity × Nat × Nat × Nat)) :=
  (bracket? s).bind <| mapM? fun item =>
    match item.splitOn "=" with
    | [a, b] => do let i ← identity? a; let x ← sid? b; some (i, x)
    | _ => none

/-! ### printing (model ids go back through the slot map) -/

def orevStr : Option Nat → String
  | none => "none"
  | some r => toString r

def realIdx (d : DState) (m : Nat) : String :=
  match d.smap.find? fun e => e.2 == m with
  | some e => toString e.1
  | none => "?" ++ toString m

def sidStr (d : DState) (g : Nat) (id : Id) : String :=
  toString g ++ ":" ++ realIdx d id.idx ++ "g" ++ toString id.gen

def identStr (i : Identity) : String :=
  toString i.ingr ++ "/" ++ toString i.hash ++ "/" ++ toString i.disamb

def pairsStr (d : DState) (l : Pairs) : String :=
  "[" ++ ",".intercalate (l.map fun x => identStr x.1 ++ "=" ++ sidStr d x.1.ingr x.2) ++ "]"

def natListStr (l : List Nat) : String := "[" ++ ",".intercalate (l.map toString) ++ "]"

def inv (d : DState) : String :=
  match winvFailures d.w with
  | [] => " inv=ok"
  | fs => " inv=FAIL:" ++ ",".intercalate fs

def ok (d : DState) (detail : String := "") : DState × String :=
  (d, (if detail.isEmpty then "ok" else "ok " ++ detail) ++ inv d)

def mismatch (d : DState) (model : String) : DState × String :=
  (d, "answer-mismatch model=" ++ model ++ inv d)

def notEnabled (d : DState) (why : String) : DState × String :=
  (d, "not-enabled " ++ why ++ inv d)

/-! ### ids and creators -/

def modelIdx? (d : DState) (real : Nat) : Option Nat := (d.smap.find? fun e => e.1 == real).map (·.2)

def modelId? (d : DState) (x : Nat × Nat × Nat) : Option Id :=
  (modelIdx? d x.2.1).map fun m => ⟨m, x.2.2⟩

def modelPairs? (d : DState) (l : List (Identity × Nat × Nat × Nat)) : Option Pairs :=
  mapM? (fun x => (modelId? d x.2).map fun id => (x.1, id)) l

/-- index of the creator `key`, spawning it (`step .spawn`) on first sight -/
def creator (d : DState) (key : String) : DState × Nat :=
  match d.qmap.lookup key with
  | some i => (d, i)
  | none =>
    let i := d.w.ctxs.length
    match step (fun _ => 0) d.w .spawn with
    | .ok w' => ({ d with w := w', qmap := (key, i) :: d.qmap }, i)
    | .error _ => (d, i)

def setCtx (d : DState) (q : Nat) (c : Ctx) : DState := { d with w := ⟨d.w.st, d.w.ctxs.set q c⟩ }

def setSt (d : DState) (s : State) : DState := { d with w := ⟨s, d.w.ctxs⟩ }

def lookupN {α : Type} (l : List (Nat × α)) (k : Nat) : Option α := (l.find? fun e => e.1 == k).map (·.2)

def eraseN {α : Type} (l : List (Nat × α)) (k : Nat) : List (Nat × α) := l.filter fun e => e.1 != k

def distinctPayloads (ms : List Memo) : List Nat := (ms.map (·.payload)).eraseDups

def countIngr (g : Nat) (l : List (Nat × Id)) : Nat := (l.filter fun p => p.1 == g).length

/-! ### frames -/

def topIs (d : DState) (q : Nat) : Bool :=
  match d.frames with
  | (c, _) :: _ => c == q
  | [] => false

/-- `step (.begin q)` for a top frame that got no (non-empty) `seed` line: the creator must have
    no structs in its memo.  Returns a warning when the model's memo is not empty. -/
def ensureBegun (d : DState) : DState × Option String :=
  match d.frames with
  | (q, false) :: rest =>
    match d.w.ctxs[q]? with
    | some (Ctx.idle a) =>
      let d1 := if a.isEmpty then d else setCtx d q (Ctx.idle [])
      match step (fun _ => 0) d1.w (.begin q) with
      | .ok w' =>
        ({ d1 with w := w', frames := (q, true) :: rest, saved := (q, a) :: eraseN d1.saved q },
         if a.isEmpty then none else some ("memo-not-seeded:" ++ pairsStr d a))
      | .error _ => (d, some "begin-failed")
    | _ => (d, some "creator-not-idle")
  | _ => (d, none)

def hPush (d : DState) (key : String) : DState × String :=
  let (d, q) := creator d key
  match d.w.ctxs[q]? with
  | some (Ctx.idle _) =>
    let d1 := { d with frames := (q, false) :: d.frames }
    match lookupN d.popped q with
    | some (_ :: _) => mismatch { d1 with popped := eraseN d1.popped q } "stale-structs-never-discarded"
    | _ => ok d1
  | _ => notEnabled d "creator-running"

def hSeed (d : DState) (key list : String) : DState × String :=
  match rawPairs? list with
  | none => (d, "bad-op")
  | some raw =>
    let (d, q) := creator d key
    match d.frames with
    | (c, begun) :: rest =>
      if c != q then notEnabled d "not-top-frame" else
      if raw.isEmpty then ok d "noop" else
      if begun then ({ d with cut := true }, "skip-unmodelled cycle-seed") else
      match d.w.ctxs[q]?, modelPairs? d raw with
      | some (Ctx.idle a), some l =>
        let d1 := if a == l then d else setCtx d q (Ctx.idle l)
        match step (fun _ => 0) d1.w (.begin q) with
        | .ok w' =>
          let d2 := { d1 with w := w', frames := (q, true) :: rest, saved := (q, l) :: eraseN d1.saved q }
          if a == l then ok d2 else mismatch d2 ("memo=" ++ pairsStr d a)
        | .error _ => notEnabled d "begin-failed"
      | some (Ctx.idle a), none => mismatch d ("memo=" ++ pairsStr d a ++ " unknown-slot")
      | _, _ => notEnabled d "creator-not-idle"
    | [] => notEnabled d "no-frame"

def hPopDone (d : DState) (key a s : String) : DState × String :=
  match (stripPrefix? "A" a).bind rawPairs?, (stripPrefix? "S" s).bind rawPairs? with
  | some ra, some rs =>
    let (d, q) := creator d key
    if !topIs d q then notEnabled d "not-top-frame" else
    let (d, warn) := ensureBegun d
    match d.w.ctxs[q]? with
    | some (Ctx.running f) =>
      let dr := IdentityMap.drain f.idmap
      match modelPairs? d ra, modelPairs? d rs with
      | some la, some ls =>
        let permOk := la.length == dr.1.length && la.all (dr.1.contains ·) && dr.1.all (la.contains ·)
        let d' := { setCtx d q (Ctx.idle la) with
                    frames := d.frames.drop 1, popped := (q, dr.2) :: eraseN d.popped q, pn := none,
                    saved := eraseN d.saved q, idchg := d.idchg.erase q }
        if permOk && ls == dr.2 && warn.isNone && d.pn.isNone then ok d'
        else mismatch d' ("A" ++ pairsStr d dr.1 ++ " S" ++ pairsStr d dr.2 ++
                          (match warn with | some w => " " ++ w | none => "") ++
                          (if d.pn.isNone then "" else " new-in-progress"))
      | _, _ => mismatch d ("A" ++ pairsStr d dr.1 ++ " S" ++ pairsStr d dr.2 ++ " unknown-slot")
    | _ => notEnabled d "creator-not-running"
  | _, _ => (d, "bad-op")

def hPopAborted (d : DState) (key : String) : DState × String :=
  let (d, q) := creator d key
  if !topIs d q then notEnabled d "not-top-frame" else
  -- an unwind through a creator that already replaced an id by its next generation leaves the old
  -- generation in that creator's memo: outside the model (no op aborts an execution half-way)
  if d.frames.any (fun fr => d.idchg.contains fr.1) then
    ({ d with cut := true }, "skip-unmodelled abort-after-identity-change")
  else
  let begun := match d.frames with | (_, b) :: _ => b | [] => false
  let d1 := if begun then setCtx d q (Ctx.idle ((lookupN d.saved q).getD [])) else d
  ok { d1 with frames := d.frames.drop 1, pn := none, saved := eraseN d.saved q } "aborted"

/-! ### new_struct -/

def hIdent (d : DState) (key ing hash dis found cur dur ca : String) : DState × String :=
  match nat? ing, nat? hash, nat? dis, kv? "cur" cur, kv? "dur" dur, kv? "ca" ca with
  | some g, some h, some dn, some cur, some dur, some ca =>
    let foundT : Option (Option (Nat × Nat × Nat)) :=
      if found = "fresh" then some none else ((stripPrefix? "found:" found).bind sid?).map some
    match foundT with
    | none => (d, "bad-op")
    | some foundT =>
      let (d, q) := creator d key
      if !topIs d q then notEnabled d "not-top-frame" else
      let (d, warn) := ensureBegun d
      match d.fields, d.w.ctxs[q]? with
      | some fields, some (Ctx.running f) =>
        let hashFn : Nat → Nat := fun _ => h
        let identity := newIdentity hashFn f g fields
        let foundM := (IdentityMap.reuse f.idmap identity).2
        let pn : PendingNew := { q, g, hash := h, cur, dur, ca, fields, identity, found := foundM }
        let known := d.hashes.lookup (g, fields.idv)
        let hashOk := match known with | some h' => h' == h | none => true
        let d := { d with
                   pn := some pn, eqPanic := none,
                   structIngs := if d.structIngs.contains g then d.structIngs else g :: d.structIngs,
                   hashes := if known.isSome then d.hashes else ((g, fields.idv), h) :: d.hashes }
        let foundStr := match foundM with | some id => "found:" ++ sidStr d g id | none => "fresh"
        let foundOk := match foundT, foundM with
          | none, none => true
          | some x, some id => modelId? d x == some id && x.1 == g
          | _, _ => false
        if identity.disamb == dn && foundOk && hashOk && warn.isNone then ok d
        else mismatch d (toString identity.disamb ++ " " ++ foundStr ++
                         (if hashOk then "" else " hash-not-a-function") ++
                         (match warn with | some w => " " ++ w | none => ""))
      | none, _ => notEnabled d "no-fields-note"
      | _, _ => notEnabled d "creator-not-running"
  | _, _, _, _, _, _ => (d, "bad-op")

/-- the model's `update` outcome in the format of the trace line -/
def updateAnswer (d : DState) (pn : PendingNew) (s : State) (id : Id) (v : Slot) :
    String × Option State × Option (Option Id) :=
  match update s pn.cur pn.dur pn.ca id pn.fields with
  | .error .updateWriteLocked => ("panic:write_locked", none, none)
  | .error _ => ("panic:model", none, none)
  | .ok (s', none) => ("leak", some s', some none)
  | .ok (s', some id') =>
    if v.updatedAt == some pn.cur then ("current", some s', some (some id'))
    else
      match s'.slots[id.idx]? with
      | some v' =>
        ("ok " ++ sidStr d pn.g id' ++ " idchg=" ++ (if id' == id then "0" else "1") ++
         " olddur=" ++ toString v.dur ++ " revs=" ++ natListStr v'.revs ++
         " now=" ++ orevStr v'.updatedAt, some s', some (some id'))
      | none => ("panic:model", none, none)

def hUpdate (d : DState) (sid seen cur dur ca : String) (outcome : List String) : DState × String :=
  match d.pn, sid? sid, kvRev? "seen" seen, kv? "cur" cur, kv? "dur" dur, kv? "ca" ca with
  | some pn, some x, some seenT, some cur, some dur, some ca =>
    match pn.found with
    | some id =>
      if modelId? d x != some id || cur != pn.cur || dur != pn.dur || ca != pn.ca || pn.updated.isSome then
        mismatch d ("update-of " ++ sidStr d pn.g id)
      else
        match d.w.st.slots[id.idx]? with
        | some v =>
          let (ans, s', upd) := updateAnswer d pn d.w.st id v
          let idchg := match upd with | some (some id') => id' != id | _ => false
          let clearedOk := d.cleared.contains id.idx == idchg
          let d' := { d with pn := some { pn with tentative := s', updated := upd },
                             cleared := d.cleared.erase id.idx }
          if v.updatedAt == seenT && ans == " ".intercalate outcome && clearedOk then ok d'
          else mismatch d' ("seen=" ++ orevStr v.updatedAt ++ " " ++ ans ++
                            (if clearedOk then "" else if idchg then " memos-not-cleared" else " memos-cleared"))
        | none => notEnabled d "bad-id"
    | none => notEnabled d "update-without-found-id"
  | none, _, _, _, _, _ => notEnabled d "no-pending-new"
  | _, _, _, _, _, _ => (d, "bad-op")

def hUnwind (d : DState) (restored : String) : DState × String :=
  match d.pn, kvRev? "restored" restored with
  | some pn, some r =>
    match pn.found, d.eqPanic with
    | some id, some n =>
      match d.w.st.slots[id.idx]? with
      | some v =>
        let p := updateTracked pn.ca (v.revs.take n) (v.fields.tracked.take n) (pn.fields.tracked.take n)
        let v' := { v with revs := p.1 ++ v.revs.drop n,
                           fields := ⟨v.fields.idv, p.2 ++ v.fields.tracked.drop n⟩ }
        let d' := setSt { d with pn := none, eqPanic := none } ⟨d.w.st.slots.set id.idx v', d.w.st.free⟩
        if v.updatedAt == r then ok d' ("unwound=" ++ toString n)
        else mismatch d' ("restored=" ++ orevStr v.updatedAt)
      | none => notEnabled d "bad-id"
    | some _, none =>
      -- the unwind started after `update_fields` (event callback in `clear_memos`): not modelled
      ({ d with cut := true }, "skip-unmodelled unwind-in-clear-memos")
    | _, _ => notEnabled d "no-found-id"
  | none, some _ => notEnabled d "no-pending-new"
  | _, none => (d, "bad-op")

def hAlloc (d : DState) (ing how sid leaked cur dur ca : String) : DState × String :=
  match d.pn, nat? ing, sid? sid, kv? "leaked" leaked, kv? "cur" cur, kv? "dur" dur, kv? "ca" ca with
  | some pn, some g, some x, some lk, some cur, some dur, some ca =>
    let s := pn.tentative.getD d.w.st
    if !((pn.found.isNone || pn.updated == some none) && pn.allocId.isNone) then
      notEnabled d "alloc-not-expected"
    else if g != pn.g || cur != pn.cur || dur != pn.dur || ca != pn.ca then mismatch d "alloc-args"
    else
      match allocate s cur dur ca g pn.fields with
      | .ok (s2, id2) =>
        let reuse := (allocLoop g s.free).1.isSome
        let lkM := countIngr g s.free - countIngr g s2.free - (if reuse then 1 else 0)
        -- a fresh slot gets the next model index; its salsa index must be new and its generation 0
        let freshOk := !reuse && (modelIdx? d x.2.1).isNone && x.2.2 == 0 && x.1 == g
        let d1 := if freshOk then { d with smap := (x.2.1, id2.idx) :: d.smap } else d
        let idOk := if reuse then modelId? d x == some id2 && x.1 == g else freshOk
        let ans := (if reuse then "reuse " ++ sidStr d1 g id2
                    else "fresh " ++ (if freshOk then sidStr d1 g id2 else toString g ++ ":<new>g0")) ++
                   " leaked=" ++ toString lkM
        let d2 := { d1 with pn := some { pn with tentative := some s2, allocId := some id2 } }
        if idOk && how == (if reuse then "reuse" else "fresh") && lk == lkM then ok d2 else mismatch d2 ans
      | .error _ => mismatch d "panic:badId"
  | none, _, _, _, _, _, _ => notEnabled d "no-pending-new"
  | _, _, _, _, _, _, _ => (d, "bad-op")

def hNew (d : DState) (key ing sid how : String) : DState × String :=
  match d.pn, nat? ing, sid? sid with
  | some pn, some g, some x =>
    let (d, q) := creator d key
    if q != pn.q || g != pn.g then notEnabled d "new-of-other-call" else
    match d.w.ctxs[q]? with
    | some (Ctx.running f) =>
      let hashFn : Nat → Nat := fun _ => pn.hash
      match newStruct hashFn pn.cur pn.dur pn.ca g pn.fields f d.w.st,
            step hashFn d.w (.new q pn.cur pn.dur pn.ca g pn.fields) with
      | .ok out, .ok w' =>
        let howM := if some out.id == pn.found then "reused"
                    else if pn.allocId == some out.id then "allocated" else "updated_id"
        let stOk := (pn.tentative.getD d.w.st) == out.state && w'.st == out.state
        let d' := { d with w := w', pn := none, fields := none,
                           idchg := if how == "updated_id" && !d.idchg.contains q then q :: d.idchg else d.idchg }
        if modelId? d x == some out.id && x.1 == g && howM == how && stOk && out.identity == pn.identity then
          ok d' (sidStr d' g out.id)
        else mismatch d' (sidStr d' g out.id ++ " " ++ howM ++ (if stOk then "" else " state-differs"))
      | _, _ => mismatch { d with pn := none, fields := none } "panic"
    | _ => notEnabled d "creator-not-running"
  | none, _, _ => notEnabled d "no-pending-new"
  | _, _, _ => (d, "bad-op")

/-! ### discarding -/

def idsOf (l : Pairs) : List (Nat × Id) := l.map fun p => (p.1.ingr, p.2)

def hStale (d : DState) (key list : String) : DState × String :=
  match (bracket? list).bind (mapM? sid?) with
  | some raws =>
    let (d, q) := creator d key
    let structs := raws.filter fun x => d.structIngs.contains x.1
    match mapM? (fun x => (modelId? d x).map fun id => (x.1, id)) structs with
    | some ids =>
      match lookupN d.popped q with
      | some stale =>
        let d' := { d with popped := eraseN d.popped q, queues := stale :: d.queues }
        if idsOf stale == ids then ok d' else mismatch d' (pairsStr d stale)
      | none =>
        match d.w.ctxs[q]? with
        | some (Ctx.idle a) =>
          -- `specify` over an executed memo: all structs of the old memo are stale
          let d' := { setCtx d q (Ctx.idle []) with queues := a :: d.queues }
          if idsOf a == ids then ok d' "memo-replaced" else mismatch d' (pairsStr d a)
        | _ => notEnabled d "creator-running"
    | none => mismatch d "unknown-slot"
  | none => (d, "bad-op")

def hRemoveOutputs (d : DState) (key list : String) : DState × String :=
  match rawPairs? list with
  | some raw =>
    let (d, q) := creator d key
    match d.w.ctxs[q]?, modelPairs? d raw with
    | some (Ctx.idle a), some l =>
      let d' := { setCtx d q (Ctx.idle []) with queues := l :: d.queues }
      if a == l then ok d' else mismatch d' (pairsStr d a)
    | some (Ctx.idle a), none => mismatch d (pairsStr d a ++ " unknown-slot")
    | _, _ => notEnabled d "creator-running"
  | none => (d, "bad-op")

def popExpected : List Pairs → Option ((Identity × Id) × List Pairs)
  | [] => none
  | [] :: rest => popExpected rest
  | (x :: xs) :: rest => some (x, xs :: rest)

/-- a panic unwinds through every delete in progress: their slots stay write-locked
    (`deleteEntityUnwound`), nothing more is pushed, the remaining expected deletes never happen -/
def unwindDeletes (d : DState) : DState :=
  let s := d.dels.foldl (fun s e => deleteEntityUnwound s e.2.1) d.w.st
  { setSt d s with dels := [], queues := [] }

/-- the first expected delete that has not happened among the queues above depth `keep` -/
def missingDelete (d : DState) (keep : Nat) : Option String :=
  match popExpected (d.queues.take (d.queues.length - keep)) with
  | some (e, _) => some (sidStr d e.1.ingr e.2)
  | none => none

/-- a line that belongs to the innermost delete in progress (`clear_memo`, `clear_memos`, `free_push`):
    every delete announced by a nested `remove_outputs` must have happened; those queues are closed -/
def closeNested (d : DState) : DState × Option String :=
  match d.dels with
  | (_, _, _, depth) :: _ => ({ d with queues := d.queues.drop (d.queues.length - depth) }, missingDelete d depth)
  | [] => (d, none)

/-- replace an `ok …` answer by the report of a delete that should have happened before this line -/
def withMissing (missing : Option String) (r : DState × String) : DState × String :=
  match missing with
  | some m => if r.2.startsWith "ok" then mismatch r.1 ("expected-delete:" ++ m) else r
  | none => r

def hDelete (d : DState) (sid seen cur outcome : String) : DState × String :=
  match sid? sid, kvRev? "seen" seen, kv? "cur" cur with
  | some x, some seenT, some cur =>
    match modelId? d x with
    | some id =>
      let (expOk, queues, expStr) := match popExpected d.queues with
        | some (e, qs) => (e.2 == id && e.1.ingr == x.1, qs, sidStr d e.1.ingr e.2)
        | none => (false, [], "none")
      let d := if expOk then { d with queues := queues } else d
      match d.w.st.slots[id.idx]? with
      | some v =>
        let (ans, d') := match deleteEntity d.w.st cur x.1 id with
          | .ok _ => ("ok", { d with dels := (x.1, id, cur, d.queues.length) :: d.dels })
          | .error .deleteWriteLocked =>
            ("panic:write_locked", unwindDeletes (setSt d (deleteEntityUnwound d.w.st id)))
          | .error .deleteReadLocked =>
            ("panic:read_locked", unwindDeletes (setSt d (deleteEntityUnwound d.w.st id)))
          | .error _ => ("panic:model", d)
        if expOk && v.updatedAt == seenT && ans == outcome then ok d'
        else mismatch d' ((if expOk then "" else "expected-delete:" ++ expStr ++ " ") ++
                          "seen=" ++ orevStr v.updatedAt ++ " " ++ ans)
      | none => notEnabled d "bad-id"
    | none => mismatch d "unknown-slot"
  | _, _, _ => (d, "bad-op")

def hClearMemo (d : DState) (sid fkey : String) : DState × String :=
  match sid? sid, qkey? fkey with
  | some x, some (fing, _) =>
    match (modelId? d x).bind fun id => d.w.st.slots[id.idx]? with
    | some v =>
      if v.memos.any (·.payload == fing) then ok d
      else mismatch d ("memos=" ++ natListStr (distinctPayloads v.memos))
    | none => mismatch d "unknown-slot"
  | _, _ => (d, "bad-op")

def hClearMemos (d : DState) (sid n : String) : DState × String :=
  match sid? sid, nat? n with
  | some x, some n =>
    match modelId? d x with
    | some id =>
      match d.w.st.slots[id.idx]? with
      | some v =>
        let m := (distinctPayloads v.memos).length
        let d' := { d with cleared := if d.cleared.contains id.idx then d.cleared else id.idx :: d.cleared }
        if m == n then ok d' else mismatch d' (toString m)
      | none => notEnabled d "bad-id"
    | none => mismatch d "unknown-slot"
  | _, _ => (d, "bad-op")

def hFreePush (d : DState) (sid now : String) : DState × String :=
  match sid? sid, kvRev? "now" now with
  | some x, some nowT =>
    match d.dels, modelId? d x with
    | (g, id, cur, _) :: rest, some id' =>
      if id != id' || g != x.1 then notEnabled d "free-push-of-other-delete" else
      match deleteEntity d.w.st cur g id with
      | .ok s' =>
        let clearedOk := d.cleared.contains id.idx
        let d' := { setSt d s' with dels := rest, cleared := d.cleared.erase id.idx }
        if clearedOk && nowT == none then ok d'
        else mismatch d' ("now=none" ++ if clearedOk then "" else " memos-not-cleared")
      | .error _ => mismatch d "panic"
    | _, _ => notEnabled d "no-delete-in-progress"
  | _, _ => (d, "bad-op")

/-! ### reads -/

/-- `kind` = `["u"]` or `["f<i>", "rev=…", "dur=…"]` / `["f<i>"]` (write-locked: nothing more is read) -/
def readCommon (d : DState) (id : Id) (seen cur : String) (curN : Nat) (kind : List String) : DState × String :=
  match d.w.st.slots[id.idx]? with
  | some v =>
    let kindM := match kind with
      | f :: _ =>
        match (stripPrefix? "f" f).bind nat? with
        | some i =>
          if v.updatedAt.isSome then
            f ++ " rev=" ++ (match v.revs[i]? with | some r => toString r | none => "?") ++ " dur=" ++ toString v.dur
          else f
        | none => f
      | [] => ""
    let ans := "seen=" ++ orevStr v.updatedAt ++ " cur=" ++ toString curN ++ " " ++ kindM
    let traced := " ".intercalate (seen :: cur :: kind)
    let genOk := v.gen == id.gen
    let d' := match readField d.w.st curN id.idx with
      | .ok s' => { setSt d s' with rd := some id.idx }
      | .error _ => { d with rd := none }
    if ans == traced && genOk then ok d'
    else if ans == traced && d.frames.isEmpty then
      -- a handle leaked out of its revision and read at top level: the model's read ignores the
      -- generation as the real one does; reported, not rejected
      ok d' ("stale-handle slot-gen=" ++ toString v.gen)
    else mismatch d' (ans ++ if genOk then "" else " stale-handle slot-gen=" ++ toString v.gen)
  | none => notEnabled d "bad-id"

def hRead (d : DState) (sid seen cur : String) (kind : List String) : DState × String :=
  match sid? sid, kv? "cur" cur with
  | some x, some curN =>
    match modelId? d x with
    | some id => readCommon d id seen cur curN kind
    | none => mismatch d "unknown-slot"
  | _, _ => (d, "bad-op")

def hMemos (d : DState) (tok : String) : DState × String :=
  match idxGen? tok with
  | some (real, gen) =>
    match modelIdx? d real with
    | some m => ({ d with mem := some ⟨m, gen⟩ }, "ok")
    | none => ({ d with mem := none }, "skip")
  | none => (d, "bad-op")

def hMread (d : DState) (seen cur : String) : DState × String :=
  match d.mem, kv? "cur" cur with
  | some id, some curN =>
    let (d', o) := readCommon { d with mem := none } id seen cur curN ["u"]
    (d', o)
  | none, some _ => notEnabled d "no-memos-line"
  | _, none => (d, "bad-op")

def hLocked (d : DState) (now : String) : DState × String :=
  match d.rd, kvRev? "now" now with
  | some idx, some nowT =>
    match d.w.st.slots[idx]? with
    | some v =>
      let d' := { d with rd := none }
      if v.updatedAt == nowT then ok d' else mismatch d' ("now=" ++ orevStr v.updatedAt)
    | none => notEnabled d "bad-id"
  | none, some _ => notEnabled d "no-read-in-progress"
  | _, none => (d, "bad-op")

/-! ### harness actions, ghost memos, notes -/

def hAge (d : DState) (a b : String) : DState × String :=
  match sid? a, sid? b with
  | some x, some y =>
    match modelId? d x with
    | some id =>
      if !(d.w.st.free.any (· == (x.1, id))) then notEnabled d "not-on-free-list"
      else if y.2.2 < id.gen || y.2.1 != x.2.1 || y.1 != x.1 then notEnabled d "generation-lowered"
      else
        let id' : Id := ⟨id.idx, y.2.2⟩
        let free' := d.w.st.free.map fun p => if p == (x.1, id) then (x.1, id') else p
        let slots' := match d.w.st.slots[id.idx]? with
          | some v => d.w.st.slots.set id.idx { v with gen := y.2.2 }
          | none => d.w.st.slots
        ok (setSt d ⟨slots', free'⟩)
    | none => mismatch d "unknown-slot"
  | _, _ => (d, "bad-op")

def hMemoPublish (d : DState) (fkey : String) : DState × String :=
  match qkey? fkey with
  | some (fing, real) =>
    match modelIdx? d real with
    | some m =>
      match addMemo d.w.st m fing with
      | .ok s' => ok (setSt d s')
      | .error _ => mismatch d "memo-insert-into-dead-slot"
    | none => (d, "skip")
  | none => (d, "bad-op")

def hNote (d : DState) (ws : List String) : DState × String :=
  match ws with
  | ["new", "T", k, a, b] =>
    match nat? k, nat? a, nat? b with
    | some k, some a, some b => ({ d with fields := some ⟨k, [a, b]⟩ }, "ok")
    | _, _, _ => (d, "bad-op")
  | ["new", "U", k, a] =>
    match nat? k, nat? a with
    | some k, some a => ({ d with fields := some ⟨k, [a]⟩ }, "ok")
    | _, _ => (d, "bad-op")
  | ["eq-panic", n] =>
    match nat? n with
    | some n => ({ d with eqPanic := some n }, "ok")
    | none => (d, "bad-op")
  | "caught" :: _ =>
    let d' := { unwindDeletes d with popped := [], pn := none, rd := none, mem := none, fields := none }
    if d.frames.isEmpty then ok d' else notEnabled { d' with frames := [] } "frames-left-after-panic"
  | _ => (d, "skip")

def tsLine1 (d : DState) (ws : List String) : DState × String :=
  match ws with
  | ["push", _, q] => hPush d q
  | ["seed", _, q, l] => hSeed d q l
  | "seed_iteration" :: _ => ({ d with cut := true }, "skip-unmodelled seed_iteration")
  | ["pop", _, q, "done", a, s] => hPopDone d q a s
  | ["pop", _, q, "aborted"] => hPopAborted d q
  | ["ident", _, q, ing, hash, dis, found, cur, dur, ca] => hIdent d q ing hash dis found cur dur ca
  | "update" :: _ :: sid :: seen :: cur :: dur :: ca :: outcome => hUpdate d sid seen cur dur ca outcome
  | ["update_unwind", _, r] => hUnwind d r
  | ["alloc", _, ing, how, sid, lk, cur, dur, ca] => hAlloc d ing how sid lk cur dur ca
  | ["new", _, q, ing, sid, how] => hNew d q ing sid how
  | ["stale", _, q, l] => hStale d q l
  | ["remove_outputs", _, q, l] => hRemoveOutputs d q l
  | ["delete", _, sid, seen, cur, o] => hDelete d sid seen cur o
  | ["clear_memo", _, sid, f] => let (d, m) := closeNested d; withMissing m (hClearMemo d sid f)
  | ["clear_memos", _, sid, n] => let (d, m) := closeNested d; withMissing m (hClearMemos d sid n)
  | ["free_push", _, sid, now] => let (d, m) := closeNested d; withMissing m (hFreePush d sid now)
  | "read" :: _ :: sid :: seen :: cur :: kind => hRead d sid seen cur kind
  | ["memos", _, tok] => hMemos d tok
  | ["mread", _, seen, cur] => hMread d seen cur
  | ["locked", _, now] => hLocked d now
  | ["age", _, a, b] => hAge d a b
  | _ => (d, "bad-op")

/-- every line that is not part of a discard loop requires that all announced deletes happened -/
def tsLine (d : DState) (ws : List String) : DState × String :=
  match ws with
  | op :: _ =>
    if op == "delete" || op == "clear_memo" || op == "clear_memos" || op == "free_push" || op == "remove_outputs" then
      tsLine1 d ws
    else if ws.getLast? == some "aborted" then
      -- a panic is unwinding: the deletes in progress and the announced ones are abandoned
      tsLine1 (unwindDeletes d) ws
    else
      let m := missingDelete d 0
      let d1 := if m.isSome || !d.dels.isEmpty then unwindDeletes d else { d with queues := [] }
      withMissing (if m.isNone && !d.dels.isEmpty then some "free-push-missing" else m) (tsLine1 d1 ws)
  | [] => (d, "bad-op")

def stepLine (d : DState) (line : String) : DState × String :=
  match SalsaVerif.Drive.words line with
  | ["reset"] => ok {}
  | "ts" :: ws => if d.cut then (d, "skip-unmodelled") else tsLine d ws
  | "note" :: _ :: ws => if d.cut then (d, "skip") else hNote d ws
  | ["memo", "publish", _, fkey, _] => if d.cut then (d, "skip") else hMemoPublish d fkey
  | cls :: _ =>
    if cls = "dg" || cls = "sync" || cls = "cancel" || cls = "memo" || cls = "alloc" || cls = "note" then (d, "skip")
    else (d, "bad-op")
  | [] => (d, "bad-op")

def main : IO Unit := SalsaVerif.Drive.runLoop ({} : DState) stepLine

end SalsaVerif.Drive.Structs
