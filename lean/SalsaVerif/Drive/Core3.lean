/-
  Line protocol `svdriver core3` — the engine model `Model/Core3.lean` (stage S3 = stage S2 plus
  `noeq` functions, untracked cells, the `lru` function with its LRU policy).

  ops (tokens separated by one space; integers decimal): everything of `svdriver core`
  (see Drive/Core.lean: prog, q, input, set, synth, get, dump) with these changes / additions:
    prog <nq> <ninputs> <ncells>   fresh state; every cell 0; the `lru` function starts with
                                   capacity 2 (the harness declares `lru = 2`) and an empty set   -> `ok`
    q <idx> <kind> <expr…>         kind ∈ {plain, noeq, lru}; extra token `u<c>`: untracked read of
                                   cell c (c < ncells)                                            -> `ok`
    cell <c> <v>                   change cell c outside salsa (NO revision bump)                 -> `ok`
    lrucap <n>                     `set_lru_capacity(n)` of the `lru` function (no revision bump;
                                   capacity 0 clears the LRU set)                                 -> `ok`
    evict                          `trigger_lru_eviction()` (no revision bump)                    -> `ok`
  Every revision bump (set / synth, also a rejected one) runs the eviction first.
  `dump` additionally prints the cells, the LRU capacity and set, and `-` for an evicted value.
  anything else: `bad-op`.
-/
import SalsaVerif.Drive.Common
import SalsaVerif.Model.Core3

namespace SalsaVerif.Drive.Core3
open SalsaVerif.Model.Core3 SalsaVerif.Model.Lru

def nat? (s : String) : Option Nat := if s.isEmpty then none else s.toNat?

def natOfChars (cs : List Char) : Option Nat := nat? (String.ofList cs)

/-- prefix-notation parser; `fuel` bounds the recursion (number of tokens suffices) -/
def parseExpr : Nat → List String → Option (Expr × List String)
  | 0, _ => none
  | _ + 1, [] => none
  | fuel + 1, tok :: rest =>
    match tok.toList with
    | ['+'] => do
      let (a, r1) ← parseExpr fuel rest
      let (b, r2) ← parseExpr fuel r1
      some (.add a b, r2)
    | ['&'] => do
      let (a, r1) ← parseExpr fuel rest
      let (b, r2) ← parseExpr fuel r1
      some (.min a b, r2)
    | ['|'] => do
      let (a, r1) ← parseExpr fuel rest
      let (b, r2) ← parseExpr fuel r1
      some (.max a b, r2)
    | ['?'] => do
      let (c, r0) ← parseExpr fuel rest
      let (a, r1) ← parseExpr fuel r0
      let (b, r2) ← parseExpr fuel r1
      some (.ite c a b, r2)
    | 'c' :: ds => do let n ← natOfChars ds; some (.const n, rest)
    | 'i' :: ds => do let n ← natOfChars ds; some (.inp n, rest)
    | 'q' :: ds => do let n ← natOfChars ds; some (.qry n, rest)
    | 'u' :: ds => do let n ← natOfChars ds; some (.cell n, rest)
    | _ => none

/-- every input read is `< n`, every cell read `< nc` -/
def inputsBelow (n nc : Nat) : Expr → Bool
  | .const _ => true
  | .inp k => decide (k < n)
  | .qry _ => true
  | .cell c => decide (c < nc)
  | .add a b => inputsBelow n nc a && inputsBelow n nc b
  | .min a b => inputsBelow n nc a && inputsBelow n nc b
  | .max a b => inputsBelow n nc a && inputsBelow n nc b
  | .ite c a b => inputsBelow n nc c && inputsBelow n nc a && inputsBelow n nc b

structure DState where
  active : Bool
  nq : Nat
  nin : Nat
  ncells : Nat
  /-- the queries defined so far, in order -/
  exprs : List (Kind × Expr)
  /-- a get/set/synth has happened -/
  started : Bool
  st : State

def DState.empty : DState :=
  { active := false, nq := 0, nin := 0, ncells := 0, exprs := [], started := false,
    st := init (fun _ => ⟨0, 1, 0⟩) (fun _ => 0) 2 }

def fmtEv : Ev → String
  | .exec q => s!"X{q}"
  | .valid q => s!"V{q}"

def fmtEvs (l : List Ev) : String := if l.isEmpty then "-" else ",".intercalate (l.map fmtEv)

def fmtDep : Dep → String
  | .inp i => s!"i{i}"
  | .qry q => s!"q{q}"
  | .cell c => s!"u{c}"

def fmtMemo (q : Nat) (m : Memo) : String :=
  let edges := (m.obs.filter (·.recd)).map (fun o => fmtDep o.dep)
  let v := match m.value with | some v => toString v | none => "-"
  s!"{q}:{v}@va{m.va}/ca{m.ca}/d{m.dur}{if m.untracked then "/u" else ""}[{",".intercalate edges}]"

def dump (d : DState) : String :=
  let s := d.st
  let ins := (List.range d.nin).map fun i => s!"{i}:{(s.inp i).val}@ca{(s.inp i).ca}/d{(s.inp i).dur}"
  let ms := (List.range d.nq).filterMap fun q => (s.memos q).map (fmtMemo q)
  let cs := (List.range d.ncells).map fun c => s!"{c}:{s.cells c}"
  s!"cur={s.cur} lc={lc s 1},{lc s 2},{lc s 3} inputs={" ".intercalate ins} cells={" ".intercalate cs} lru={s.lru.capacity}:{s.lru.set} memos={" ".intercalate ms}"

def parseDur (t : String) : Option Nat := do
  let d ← nat? t
  if d ≤ 3 then some d else none

def handle (d : DState) (line : String) : Option (DState × String) :=
  match SalsaVerif.Drive.words line with
  | ["prog", nq, nin, ncells] => do
    let nq ← nat? nq
    let nin ← nat? nin
    let ncells ← nat? ncells
    some ({ DState.empty with active := true, nq := nq, nin := nin, ncells := ncells }, "ok")
  | "q" :: idx :: kind :: toks => do
    if !d.active then none
    let idx ← nat? idx
    if idx ≠ d.exprs.length ∨ idx ≥ d.nq then none
    let kind ← if kind = "plain" then some Kind.plain else if kind = "noeq" then some Kind.noeq
      else if kind = "lru" then some Kind.lru else none
    let (e, rest) ← parseExpr (toks.length + 1) toks
    if !rest.isEmpty then none
    if !(e.callsBelow idx) ∨ !(inputsBelow d.nin d.ncells e) then none
    some ({ d with exprs := d.exprs ++ [(kind, e)] }, "ok")
  | ["input", i, v, dur] => do
    if !d.active ∨ d.started then none
    let i ← nat? i
    let v ← nat? v
    let dur ← parseDur dur
    if i ≥ d.nin then none
    let s := d.st
    some ({ d with st := { s with inp := fun j => if j = i then ⟨v, 1, dur⟩ else s.inp j } }, "ok")
  | ["set", i, v, nd] => do
    if !d.active then none
    let i ← nat? i
    let v ← nat? v
    let nd ← if nd = "k" then some none else (parseDur nd).map some
    if i ≥ d.nin then none
    let out := if writePanics d.st i then "panic:never-change" else "ok"
    some ({ d with started := true, st := write d.st i v nd }, out)
  | ["synth", dur] => do
    if !d.active then none
    let dur ← parseDur dur
    let out := if synthPanics dur then "panic:never-change" else "ok"
    some ({ d with started := true, st := synth d.st dur }, out)
  | ["get", q] => do
    if !d.active then none
    let q ← nat? q
    if q ≥ d.exprs.length then none
    let s0 := { d.st with trace := [] }
    let r := fetch (progOf d.exprs) s0 q
    some ({ d with started := true, st := r.1 }, s!"v={r.2.val} ev={fmtEvs r.1.trace}")
  | ["cell", c, v] => do
    if !d.active then none
    let c ← nat? c
    let v ← nat? v
    if c ≥ d.ncells then none
    some ({ d with st := setCell d.st c v }, "ok")
  | ["lrucap", n] => do
    if !d.active then none
    let n ← nat? n
    some ({ d with st := lruCap d.st n }, "ok")
  | ["evict"] => if d.active then some ({ d with st := evictLru d.st }, "ok") else none
  | ["dump"] => if d.active then some (d, dump d) else none
  | _ => none

def step (d : DState) (line : String) : DState × String :=
  match handle d line with
  | some r => r
  | none => (d, "bad-op")

def main : IO Unit := SalsaVerif.Drive.runLoop DState.empty step

end SalsaVerif.Drive.Core3
