/-
  Line protocol `svdriver edges` (counterpart of harness/src/bin/edges.rs).

  ops (tokens separated by one space; integers decimal):
    D <u:0|1> <extra: - | c:s> <after: n|c|x> <edges: - | k:ing:idx:gen,...>   derived origin round trip
    A <ing:idx:gen> <extra> <after: n|x>                                      assigned origin
    J <u> <edges>                                                             persisted round trip
    P <index> <generation> <ingredient_raw>     PackedQueryEdge::new      -> `some i m` | `none`
    U <index> <metadata>                        PackedQueryEdge::edge     -> `i g ing`
    T <raw> <0|1>                               IngredientIndex::with_tag -> `raw'`
    G <raw>                                     IngredientIndex::tag      -> `0|1`
    S <bits>                                    IterationStamp            -> `iter cc some:b|none def ini`
    I <cc>                                      IterationStamp::initial   -> `bits`
    M <page> <slot>                             make_id(..).index()       -> `index`
    X <index>                                   split_id                  -> `page slot`
    K <ops over c,e,d,q,t,r>                    cancellation token        -> trace of results and bits
  output of D/A/J:
    kind=K tag=T meta=M [key=i:x:g] edges=.. rev=.. inputs=.. outputs=.. iterout=.. extra=-|c:s:n
  anything else: `bad-op`.
-/
import SalsaVerif.Drive.Common
import SalsaVerif.Model.Origin
import SalsaVerif.Gen.Stamp
import SalsaVerif.Gen.Ids
import SalsaVerif.Gen.Consts

namespace SalsaVerif.Drive.Edges
open SalsaVerif.Gen.Edge SalsaVerif.Model.Origin

def nat? (s : String) : Option Nat := if s.isEmpty then none else s.toNat?

def mkKey (ing idx gen : Nat) : DatabaseKeyIndex :=
  DatabaseKeyIndex.new ing (Id.with_generation (Id.from_index idx) gen)

def parseEdge (s : String) : Option QueryEdge :=
  match s.splitOn ":" with
  | [k, a, b, c] => do
    let a ← nat? a; let b ← nat? b; let c ← nat? c
    if k = "o" then some (QueryEdge.output (mkKey a b c))
    else if k = "i" then some (QueryEdge.input (mkKey a b c)) else none
  | _ => none

def parseEdges (s : String) : Option (List QueryEdge) :=
  if s = "-" then some [] else (s.splitOn ",").mapM parseEdge

def parseExtra (s : String) : Option (Option Extra) :=
  if s = "-" then some none else
  match s.splitOn ":" with
  | [c, st] => do
    let st ← nat? st
    if c = "1" then some (some ⟨true, st, 0⟩) else if c = "0" then some (some ⟨false, st, 0⟩) else none
  | _ => none

def fmtKey (k : DatabaseKeyIndex) : String :=
  s!"{DatabaseKeyIndex.ingredient_index0 k}:{Id.index0 (DatabaseKeyIndex.key_index0 k)}:{Id.generation0 (DatabaseKeyIndex.key_index0 k)}"

def fmtEdge (e : QueryEdge) : String :=
  (if QueryEdge.kind e = QueryEdgeKind_Output then "o:" else "i:") ++ fmtKey (QueryEdge.key e)

def joinOr (l : List String) : String := if l.isEmpty then "-" else ",".intercalate l

def fmtStored (o : Stored) : String :=
  let r := o.origin
  let kind := match r with
    | .assigned _ => 1
    | .derived k _ => k
    | .invalid => 0
  let key := match r with
    | .assigned k => s!" key={fmtKey k}"
    | _ => ""
  let extra := match o.extra with
    | none => "-"
    | some x => s!"{if x.converged then 1 else 0}:{x.stamp}:{x.nids}"
  let outs := match r with
    | .derived _ s => s.iterOutputs
    | _ => []
  s!"kind={kind} tag={o.tag} meta={o.metadata}{key} edges={joinOr (r.edges.map fmtEdge)} rev={joinOr (r.edges.reverse.map fmtEdge)} inputs={joinOr (r.inputs.map fmtKey)} outputs={joinOr (r.outputs.map fmtKey)} iterout={joinOr (outs.map fmtEdge)} extra={extra}"

def applyAfter (o : Stored) (a : String) : Option Stored :=
  if a = "n" then some o else if a = "c" then o.clearEdges else if a = "x" then o.getOrInsertExtra else none

def tokenRun (ops : List Char) : Option String :=
  let rec go (bits : Nat) (acc : String) : List Char → Option String
    | [] => some acc
    | c :: cs =>
      let step : Option (Nat × String) :=
        if c = 'c' then some (SalsaVerif.Gen.Consts.CancellationToken.cancel bits, "")
        else if c = 'e' then
          let r := SalsaVerif.Gen.Consts.CancellationToken.set_cancellation_disabled bits true
          some (r.1, s!"e{if r.2 then 1 else 0}")
        else if c = 'd' then
          let r := SalsaVerif.Gen.Consts.CancellationToken.set_cancellation_disabled bits false
          some (r.1, s!"d{if r.2 then 1 else 0}")
        else if c = 'q' then some (bits, s!"q{if SalsaVerif.Gen.Consts.CancellationToken.is_cancelled bits then 1 else 0}")
        else if c = 't' then some (bits, s!"t{if SalsaVerif.Gen.Consts.CancellationToken.should_trigger_local_cancellation bits then 1 else 0}")
        else if c = 'r' then some (SalsaVerif.Gen.Consts.CancellationToken.reset bits, "")
        else none
      match step with
      | none => none
      | some (b, o) => go b (acc ++ o ++ s!"[{b}]") cs
  go 0 "" ops

def handle (line : String) : Option String :=
  match SalsaVerif.Drive.words line with
  | ["D", u, x, a, es] => do
    let kind ← if u = "0" then some DerivedOriginKind_Derived else if u = "1" then some DerivedOriginKind_DerivedUntracked else none
    if a ≠ "n" ∧ a ≠ "c" ∧ a ≠ "x" then none
    let x ← parseExtra x
    let es ← parseEdges es
    match (newDerived kind es x).bind (applyAfter · a) with
    | some o => some (fmtStored o)
    | none => some "panic"
  | ["A", k, x, a] => do
    if a ≠ "n" ∧ a ≠ "x" then none
    let x ← parseExtra x
    match k.splitOn ":" with
    | [i, j, g] => do
      let i ← nat? i; let j ← nat? j; let g ← nat? g
      match applyAfter (assigned (mkKey i j g) x) a with
      | some o => some (fmtStored o)
      | none => some "panic"
    | _ => none
  | ["J", u, es] => do
    let kind ← if u = "0" then some DerivedOriginKind_Derived else if u = "1" then some DerivedOriginKind_DerivedUntracked else none
    let es ← parseEdges es
    match persistRoundtrip kind es with
    | some o => some (fmtStored o)
    | none => some "panic"
  | ["P", a, b, c] => do
    let a ← nat? a; let b ← nat? b; let c ← nat? c
    match PackedQueryEdge.new ⟨a, b, c⟩ with
    | some p => some s!"some {p.index} {p.metadata}"
    | none => some "none"
  | ["U", a, b] => do
    let a ← nat? a; let b ← nat? b
    let e := PackedQueryEdge.edge ⟨a, b⟩
    some s!"{e.index} {e.generation} {e.ingredient}"
  | ["T", a, b] => do
    let a ← nat? a
    if b ≠ "0" ∧ b ≠ "1" then none
    some s!"{IngredientIndex.with_tag a (b = "1")}"
  | ["G", a] => do
    let a ← nat? a
    some (if IngredientIndex.tag a then "1" else "0")
  | ["S", a] => do
    let a ← nat? a
    let inc := match SalsaVerif.Gen.Stamp.IterationStamp.increment_iteration a with
      | some b => s!"some:{b}"
      | none => "none"
    -- the harness never calls increment on 0xFFFF (u16 overflow is a debug panic); it prints `none`
    let inc := if a = 65535 then "none" else inc
    some s!"{SalsaVerif.Gen.Stamp.IterationStamp.iteration a} {SalsaVerif.Gen.Stamp.IterationStamp.cancellation_count a} {inc} {if SalsaVerif.Gen.Stamp.IterationStamp.is_default a then 1 else 0} {if SalsaVerif.Gen.Stamp.IterationStamp.is_initial_iteration a then 1 else 0}"
  | ["I", a] => do
    let a ← nat? a
    some s!"{SalsaVerif.Gen.Stamp.IterationStamp.initial a}"
  | ["M", a, b] => do
    let a ← nat? a; let b ← nat? b
    some s!"{SalsaVerif.Gen.Ids.Id.index0 (SalsaVerif.Gen.Ids.make_id a b)}"
  | ["X", a] => do
    let a ← nat? a
    let r := SalsaVerif.Gen.Ids.split_id (SalsaVerif.Gen.Ids.Id.from_index a)
    some s!"{r.1} {r.2}"
  | ["K", ops] => tokenRun ops.toList
  | _ => none

def step (_ : Unit) (line : String) : Unit × String :=
  match handle line with
  | some o => ((), o)
  | none => ((), "bad-op")

def main : IO Unit := SalsaVerif.Drive.runLoop () step

end SalsaVerif.Drive.Edges
