/-
  Line protocol `svdriver alloc` — replays a trace of page-allocator operations against the LTS of
  Model/Alloc.lean (C24 trace acceptance) and evaluates the Bool form of `c24_single_writer`
  (`singleWriterOk`) after every op.  One output line per input line; tokens separated by ONE
  space, integers decimal.  The whole input is read before the first answer (trace lines need a
  look-ahead, see B).

  A. plain ops.  Handle ids are arbitrary integers; id 0 is the database's original handle and
     exists from the start, every other handle is created by `cloneh`.

    take <h> <ing> <page>        `fetch_or_push_page` popped `page` from `non_full_pages[ing]` for handle `h`
    push <h> <ing> <page>        `push_page`: fresh page with boxcar index `page` for handle `h`
    load <h> <page> <n>          `PageView::allocate`: `allocated.load()` returned `n`
                                 (`n ≥ PAGE_LEN`: the page is full, `Err`, nothing else happens)
    write <h> <page> <slot> [v]  slot `slot` of `page` initialised (with value `v`, default 0)
    store <h> <page> <n>         `allocated.store(n)`; the id `make_id(page, n-1)` is handed out
    release <h> <ing> <page>     one `record_unfilled_page(ing, page)` of the handle's drain
    droph <h> [<ing> ...]        handle dropped: `record_unfilled_pages` for all cached pages, in the
                                 given drain order (default: the model's list order)
    cloneh <h> <h2>              `Storage::clone` of live handle `h` creates handle `h2` (empty cache)

    output:  `ok inv=ok|FAIL`  |  `not-enabled <why> inv=ok|FAIL`  |  `bad-op`
             (`inv` = `singleWriterOk` of the model state after the op; `<why>` is a single token or
              `expected-page <p>` / `expected-allocated <n>` / `expected-store <page> <n>`)

  B. hook-trace lines (harness/TRACE_FORMAT.md, class `alloc`); unknown handles `h<N>` are created
     on first sight (clone of any live handle).

    reset                                          fresh table                        -> `ok inv=ok`
    alloc take t<me> <ing> <page>                  = take;  the handle is the `h<N>` of the next
    alloc push t<me> <ing> <page>                  = push;  `alloc handle_page t<me> h<N> <ing> <page>` line
    alloc handle_page t<me> h<N> <ing> <page>      checks that the model's cache of `h<N>` has `page` for `ing`
    alloc handle_release t<me> h<N> <ing> <page>   checks the cache entry; remembered for the `record` line
    alloc record t<me> <ing> <page>                = release (on the handle of the preceding `handle_release` of `t<me>`)
    alloc slot t<me> <ing> <page> <slot> <read> <stored>
                                                   = load <read>; write <slot>; store <stored> on the handle
                                                     of the next `alloc got t<me> h<N> <ing> <page> <slot>` line
    alloc got t<me> h<N> <ing> <page> <slot>       checks that `make_id(page, slot)` was handed out
    any other class (dg, sync, cancel, memo, note)                                    -> `skip`
-/
import SalsaVerif.Drive.Common
import SalsaVerif.Model.Alloc

namespace SalsaVerif.Drive.Alloc
open SalsaVerif.Gen.Ids SalsaVerif.Model.Alloc

structure DState where
  s : State
  hmap : List (Nat × Nat)                     -- external handle id ↦ handle index
  pendingRelease : List (Nat × Nat × Nat × Nat) -- thread ↦ (handle index, ing, page)

def DState.init : DState := ⟨State.init, [(0, 0)], []⟩

def nat? (s : String) : Option Nat := if s.isEmpty then none else s.toNat?

def tagged? (c : Char) (s : String) : Option Nat :=
  if s.startsWith (String.singleton c) then nat? (s.drop 1).toString else none

def inv (s : State) : String := if singleWriterOk s then " inv=ok" else " inv=FAIL"

/-- run one label -/
def fire (d : DState) (l : Label) : DState × String :=
  match step d.s l with
  | some s' => ({ d with s := s' }, "ok" ++ inv s')
  | none => (d, "not-enabled " ++ why d.s l ++ inv d.s)

def firstLive (hs : List Handle) : Option Nat :=
  let rec go : List Handle → Nat → Option Nat
    | [], _ => none
    | h :: rest, i => if h.live then some i else go rest (i + 1)
  go hs 0

/-- handle index of an external id; in trace mode unknown ids are created by a clone -/
def resolve (d : DState) (h : Nat) (create : Bool) : Option (DState × Nat) :=
  match d.hmap.lookup h with
  | some i => some (d, i)
  | none =>
    if create then
      match firstLive d.s.handles with
      | some p => match step d.s (.cloneHandle p) with
        | some s' => some ({ d with s := s', hmap := (h, s'.handles.length - 1) :: d.hmap }, s'.handles.length - 1)
        | none => none
      | none => none
    else none

def withHandle (d : DState) (h : Nat) (create : Bool) (k : DState → Nat → DState × String) : DState × String :=
  match resolve d h create with
  | some (d', i) => k d' i
  | none => (d, "not-enabled unknown-handle" ++ inv d.s)

def natList? : List String → Option (List Nat)
  | [] => some []
  | w :: ws => do let n ← nat? w; let ns ← natList? ws; some (n :: ns)

/-- the three steps of one `PageView::allocate` -/
def allocate3 (d : DState) (i page slot nread nstored : Nat) : DState × String :=
  match fire d (.load i page nread) with
  | (d1, r1) =>
    if !r1.startsWith "ok" then (d, r1) else
    match fire d1 (.write i page slot 0) with
    | (d2, r2) =>
      if !r2.startsWith "ok" then (d, r2) else
      match fire d2 (.store i page nstored) with
      | (d3, r3) => if r3.startsWith "ok" then (d3, r3) else (d, r3)

/-- look ahead (up to the next `reset`) for `alloc <op> t<me> h<N> <rest…>` and return `N` -/
def lookAhead (lines : Array String) (from_ : Nat) (op t : String) (rest : List String) : Option Nat := Id.run do
  let mut i := from_
  while i < lines.size do
    match SalsaVerif.Drive.words lines[i]! with
    | ["reset"] => return none
    | "alloc" :: op' :: t' :: h :: rest' =>
      if op' = op && t' = t && rest' = rest then return tagged? 'h' h
    | _ => pure ()
    i := i + 1
  return none

def traceOp (lines : Array String) (idx : Nat) (d : DState) (ws : List String) : DState × String :=
  match ws with
  | [op, t, ing, page] =>
    if op = "take" || op = "push" then
      match tagged? 't' t, nat? ing, nat? page with
      | some _, some ingN, some pageN =>
        match lookAhead lines (idx + 1) "handle_page" t [ing, page] with
        | some h => withHandle d h true fun d i =>
            fire d (if op = "take" then .take i ingN pageN else .push i ingN pageN)
        | none => (d, "not-enabled no-handle-line" ++ inv d.s)
      | _, _, _ => (d, "bad-op")
    else if op = "record" then
      match tagged? 't' t, nat? ing, nat? page with
      | some tN, some ingN, some pageN =>
        match d.pendingRelease.find? fun e => e.1 == tN with
        | some (_, i, ing', page') =>
          let d := { d with pendingRelease := d.pendingRelease.filter fun e => e.1 != tN }
          if ing' = ingN && page' = pageN then fire d (.release i ingN pageN)
          else (d, "not-enabled record-without-release" ++ inv d.s)
        | none => (d, "not-enabled record-without-release" ++ inv d.s)
      | _, _, _ => (d, "bad-op")
    else (d, "bad-op")
  | [op, t, h, ing, page] =>
    match tagged? 't' t, tagged? 'h' h, nat? ing, nat? page with
    | some tN, some hN, some ingN, some pageN =>
      if op = "handle_page" then
        withHandle d hN true fun d i =>
          if lookup (getH d.s i).mostRecent ingN = some pageN then (d, "ok" ++ inv d.s)
          else (d, "not-enabled cache-mismatch" ++ inv d.s)
      else if op = "handle_release" then
        withHandle d hN true fun d i =>
          if lookup (getH d.s i).mostRecent ingN = some pageN then
            ({ d with pendingRelease := (tN, i, ingN, pageN) :: d.pendingRelease.filter fun e => e.1 != tN },
             "ok" ++ inv d.s)
          else (d, "not-enabled cache-mismatch" ++ inv d.s)
      else (d, "bad-op")
    | _, _, _, _ => (d, "bad-op")
  | ["slot", t, ing, page, slot, nread, nstored] =>
    match tagged? 't' t, nat? ing, nat? page, nat? slot, nat? nread, nat? nstored with
    | some _, some _, some pageN, some slotN, some nr, some ns =>
      match lookAhead lines (idx + 1) "got" t [ing, page, slot] with
      | some h => withHandle d h true fun d i => allocate3 d i pageN slotN nr ns
      | none => (d, "not-enabled no-handle-line" ++ inv d.s)
    | _, _, _, _, _, _ => (d, "bad-op")
  | ["got", t, h, ing, page, slot] =>
    match tagged? 't' t, tagged? 'h' h, nat? ing, nat? page, nat? slot with
    | some _, some _, some _, some pageN, some slotN =>
      if d.s.handed.any fun e => e.1 == make_id pageN slotN then (d, "ok" ++ inv d.s)
      else (d, "not-enabled id-not-handed-out" ++ inv d.s)
    | _, _, _, _, _ => (d, "bad-op")
  | _ => (d, "bad-op")

def stepLine (lines : Array String) (idx : Nat) (d : DState) (line : String) : DState × String :=
  match SalsaVerif.Drive.words line with
  | ["take", h, ing, page] =>
    match nat? h, nat? ing, nat? page with
    | some h, some ing, some page => withHandle d h false fun d i => fire d (.take i ing page)
    | _, _, _ => (d, "bad-op")
  | ["push", h, ing, page] =>
    match nat? h, nat? ing, nat? page with
    | some h, some ing, some page => withHandle d h false fun d i => fire d (.push i ing page)
    | _, _, _ => (d, "bad-op")
  | ["load", h, page, n] =>
    match nat? h, nat? page, nat? n with
    | some h, some page, some n => withHandle d h false fun d i => fire d (.load i page n)
    | _, _, _ => (d, "bad-op")
  | ["write", h, page, slot] =>
    match nat? h, nat? page, nat? slot with
    | some h, some page, some slot => withHandle d h false fun d i => fire d (.write i page slot 0)
    | _, _, _ => (d, "bad-op")
  | ["write", h, page, slot, v] =>
    match nat? h, nat? page, nat? slot, nat? v with
    | some h, some page, some slot, some v => withHandle d h false fun d i => fire d (.write i page slot v)
    | _, _, _, _ => (d, "bad-op")
  | ["store", h, page, n] =>
    match nat? h, nat? page, nat? n with
    | some h, some page, some n => withHandle d h false fun d i => fire d (.store i page n)
    | _, _, _ => (d, "bad-op")
  | ["release", h, ing, page] =>
    match nat? h, nat? ing, nat? page with
    | some h, some ing, some page => withHandle d h false fun d i => fire d (.release i ing page)
    | _, _, _ => (d, "bad-op")
  | "droph" :: h :: order =>
    match nat? h, natList? order with
    | some h, some order => withHandle d h false fun d i =>
        let order := if order.isEmpty then (getH d.s i).mostRecent.map (·.1) else order
        fire d (.dropHandle i order)
    | _, _ => (d, "bad-op")
  | ["cloneh", h, h2] =>
    match nat? h, nat? h2 with
    | some h, some h2 =>
      if (d.hmap.lookup h2).isSome then (d, "not-enabled handle-exists" ++ inv d.s) else
      withHandle d h false fun d i =>
        match step d.s (.cloneHandle i) with
        | some s' => ({ d with s := s', hmap := (h2, s'.handles.length - 1) :: d.hmap }, "ok" ++ inv s')
        | none => (d, "not-enabled " ++ why d.s (.cloneHandle i) ++ inv d.s)
    | _, _ => (d, "bad-op")
  | ["reset"] => (DState.init, "ok" ++ inv State.init)
  | "alloc" :: ws => traceOp lines idx d ws
  | cls :: _ =>
    if cls = "dg" || cls = "sync" || cls = "cancel" || cls = "memo" || cls = "note" then (d, "skip")
    else (d, "bad-op")
  | [] => (d, "bad-op")

partial def readAll (h : IO.FS.Stream) (acc : Array String) : IO (Array String) := do
  let line ← h.getLine
  if line.isEmpty then return acc
  let l := if line.endsWith "\n" then (line.dropEnd 1).toString else line
  readAll h (acc.push l)

def main : IO Unit := do
  let lines ← readAll (← IO.getStdin) #[]
  let out ← IO.getStdout
  let mut d := DState.init
  for idx in [0:lines.size] do
    let (d', o) := stepLine lines idx d lines[idx]!
    d := d'
    out.putStrLn o
  out.flush

end SalsaVerif.Drive.Alloc
