/-
  Line protocol `svdriver coreacc` — the engine model `Model/CoreAcc.lean` (stage S2 `Core` +
  accumulators: `pu` expressions and `acc` requests).  It is the `core` protocol plus two items.

  ops (tokens separated by one space; integers decimal):
    prog <nq> <ninputs> [<ncells>] start a new case (the cell count is accepted and ignored): fresh state, current revision 1, every input
                                   value 0 / durability 0 / changed_at 1, no memos           -> `ok`
    q <idx> <kind> <expr tokens…>  define query idx (0-based; must be defined in increasing order,
                                   idx < nq).  kind ∈ {plain}.  expr in PREFIX notation:
                                     c<n>      constant n
                                     i<k>      read input k            (k < ninputs)
                                     q<j>      call query j            (j < idx)
                                     + a b     (a + b) mod 4
                                     & a b     min a b
                                     | a b     max a b
                                     ? c a b   if c is odd then a else b — only the taken branch is
                                               evaluated; evaluation is left to right, c first
                                     pu a      evaluate a, push its value to the accumulator
                                               (`Acc(v).accumulate(db)`), the result is that value
                                                                                              -> `ok`
    input <i> <v> <dur>            initial value / durability (0..3) of input i; only before the
                                   first get/set/synth/acc of the case (changed_at stays 1)   -> `ok`
    set <i> <v> <d>                input write, d ∈ {k,0,1,2,3} (k = keep the durability)
                                   -> `ok`, or `panic:never-change` if the input's current
                                   durability is 3 (the revision still advances, nothing else changes)
    synth <d>                      synthetic write of durability d ∈ 0..3
                                   -> `ok`, or `panic:never-change` for d = 3 (revision advances)
    get <q>                        fetch query q (must be defined)
                                   -> `v=<value> ev=<events>`: the events emitted by this op in
                                   order, `X<q>` = WillExecute, `V<q>` = DidValidateMemoizedValue,
                                   joined by `,`; `-` if none
    acc <q>                        `q::accumulated::<Acc>(db, key)` (q must be defined)
                                   -> `acc=<v1,v2,…> ev=<events>`: the accumulated values in the
                                   order salsa returns them (`-` if none) and the events emitted by
                                   the op (the initial fetch and every `refresh_memo` of the search)
    accs <q>                       (debug) the same request answered by the explicit-stack loop
                                   `accumulatedByStack` with fuel 1000000: same output format, or
                                   `out-of-fuel`
    dump                           (debug) `cur=.. lc=.. inputs=.. memos=..` — free format
  anything else (unknown op, wrong arity, index out of range, op before `prog`): `bad-op`.

  Values: constants and input values are arbitrary naturals; `+` reduces mod 4.
-/
import SalsaVerif.Drive.Common
import SalsaVerif.Model.CoreAcc

namespace SalsaVerif.Drive.CoreAcc
open SalsaVerif.Model.CoreAcc

def nat? (s : String) : Option Nat := if s.isEmpty then none else s.toNat?

def natOfChars (cs : List Char) : Option Nat := nat? (String.ofList cs)

/-- prefix-notation parser; `fuel` bounds the recursion (number of tokens suffices) -/
def parseExpr : Nat → List String → Option (Expr × List String)
  | 0, _ => none
  | _ + 1, [] => none
  | fuel + 1, tok :: rest =>
    match tok.toList with
    | ['+'] => do
      let (a, r1) ← parseExpr fuel rest
      let (b, r2) ← parseExpr fuel r1
      some (.add a b, r2)
    | ['&'] => do
      let (a, r1) ← parseExpr fuel rest
      let (b, r2) ← parseExpr fuel r1
      some (.min a b, r2)
    | ['|'] => do
      let (a, r1) ← parseExpr fuel rest
      let (b, r2) ← parseExpr fuel r1
      some (.max a b, r2)
    | ['?'] => do
      let (c, r0) ← parseExpr fuel rest
      let (a, r1) ← parseExpr fuel r0
      let (b, r2) ← parseExpr fuel r1
      some (.ite c a b, r2)
    | ['p', 'u'] => do
      let (a, r1) ← parseExpr fuel rest
      some (.pu a, r1)
    | 'c' :: ds => do let n ← natOfChars ds; some (.const n, rest)
    | 'i' :: ds => do let n ← natOfChars ds; some (.inp n, rest)
    | 'q' :: ds => do let n ← natOfChars ds; some (.qry n, rest)
    | _ => none

/-- every input read is `< n` -/
def inputsBelow (n : Nat) : Expr → Bool
  | .const _ => true
  | .inp k => decide (k < n)
  | .qry _ => true
  | .add a b => inputsBelow n a && inputsBelow n b
  | .min a b => inputsBelow n a && inputsBelow n b
  | .max a b => inputsBelow n a && inputsBelow n b
  | .ite c a b => inputsBelow n c && inputsBelow n a && inputsBelow n b
  | .pu a => inputsBelow n a

structure DState where
  active : Bool
  nq : Nat
  nin : Nat
  /-- the queries defined so far, in order -/
  exprs : List Expr
  /-- a get/set/synth has happened -/
  started : Bool
  st : State

def DState.empty : DState :=
  { active := false, nq := 0, nin := 0, exprs := [], started := false, st := init fun _ => ⟨0, 1, 0⟩ }

def fmtEv : Ev → String
  | .exec q => s!"X{q}"
  | .valid q => s!"V{q}"

def fmtEvs (l : List Ev) : String := if l.isEmpty then "-" else ",".intercalate (l.map fmtEv)

def fmtNats (l : List Nat) : String := if l.isEmpty then "-" else ",".intercalate (l.map toString)

def fmtDep : Dep → String
  | .inp i => s!"i{i}"
  | .qry q => s!"q{q}"

def fmtMemo (q : Nat) (m : Memo) : String :=
  let edges := (m.obs.filter (·.recd)).map (fun o => fmtDep o.dep)
  s!"{q}:{m.value}@va{m.va}/ca{m.ca}/d{m.dur}[{",".intercalate edges}]acc{m.acc}/{m.accIn}"

def dump (d : DState) : String :=
  let s := d.st
  let ins := (List.range d.nin).map fun i => s!"{i}:{(s.inp i).val}@ca{(s.inp i).ca}/d{(s.inp i).dur}"
  let ms := (List.range d.nq).filterMap fun q => (s.memos q).map (fmtMemo q)
  s!"cur={s.cur} lc={lc s 1},{lc s 2},{lc s 3} inputs={" ".intercalate ins} memos={" ".intercalate ms}"

def parseDur (t : String) : Option Nat := do
  let d ← nat? t
  if d ≤ 3 then some d else none

def handle (d : DState) (line : String) : Option (DState × String) :=
  match SalsaVerif.Drive.words line with
  | ["prog", nq, nin] => do
    let nq ← nat? nq
    let nin ← nat? nin
    some ({ DState.empty with active := true, nq := nq, nin := nin }, "ok")
  | ["prog", nq, nin, ncells] => do
    -- the harness always prints the cell count; this model has no cells (`u<c>` is rejected)
    let nq ← nat? nq
    let nin ← nat? nin
    let _ ← nat? ncells
    some ({ DState.empty with active := true, nq := nq, nin := nin }, "ok")
  | "q" :: idx :: kind :: toks => do
    if !d.active then none
    let idx ← nat? idx
    if idx ≠ d.exprs.length ∨ idx ≥ d.nq then none
    if kind ≠ "plain" then none
    let (e, rest) ← parseExpr (toks.length + 1) toks
    if !rest.isEmpty then none
    if !(e.callsBelow idx) ∨ !(inputsBelow d.nin e) then none
    some ({ d with exprs := d.exprs ++ [e] }, "ok")
  | ["input", i, v, dur] => do
    if !d.active ∨ d.started then none
    let i ← nat? i
    let v ← nat? v
    let dur ← parseDur dur
    if i ≥ d.nin then none
    let s := d.st
    some ({ d with st := { s with inp := fun j => if j = i then ⟨v, 1, dur⟩ else s.inp j } }, "ok")
  | ["set", i, v, nd] => do
    if !d.active then none
    let i ← nat? i
    let v ← nat? v
    let nd ← if nd = "k" then some none else (parseDur nd).map some
    if i ≥ d.nin then none
    let out := if writePanics d.st i then "panic:never-change" else "ok"
    some ({ d with started := true, st := write d.st i v nd }, out)
  | ["synth", dur] => do
    if !d.active then none
    let dur ← parseDur dur
    let out := if synthPanics dur then "panic:never-change" else "ok"
    some ({ d with started := true, st := synth d.st dur }, out)
  | ["get", q] => do
    if !d.active then none
    let q ← nat? q
    if q ≥ d.exprs.length then none
    let s0 := { d.st with trace := [] }
    let r := fetch (progOf d.exprs) s0 q
    some ({ d with started := true, st := r.1 }, s!"v={r.2.val} ev={fmtEvs r.1.trace}")
  | ["acc", q] => do
    if !d.active then none
    let q ← nat? q
    if q ≥ d.exprs.length then none
    let s0 := { d.st with trace := [] }
    let r := accumulatedBy (progOf d.exprs) s0 q
    some ({ d with started := true, st := r.1 }, s!"acc={fmtNats r.2} ev={fmtEvs r.1.trace}")
  | ["accs", q] => do
    if !d.active then none
    let q ← nat? q
    if q ≥ d.exprs.length then none
    let s0 := { d.st with trace := [] }
    match accumulatedByStack (progOf d.exprs) 1000000 s0 q with
    | some r => some ({ d with started := true, st := r.1 }, s!"acc={fmtNats r.2} ev={fmtEvs r.1.trace}")
    | none => some (d, "out-of-fuel")
  | ["dump"] => if d.active then some (d, dump d) else none
  | _ => none

def step (d : DState) (line : String) : DState × String :=
  match handle d line with
  | some r => r
  | none => (d, "bad-op")

def main : IO Unit := SalsaVerif.Drive.runLoop DState.empty step

end SalsaVerif.Drive.CoreAcc
