/-
  Line protocol `svdriver cycle` (model `SalsaVerif.Model.Cycle`).

  One op per line, tokens separated by exactly one space, integers decimal.  One output line per
  op line.

  ops
    prog <n>                 start a new database with `n` nodes (1 ≤ n ≤ 64), every node
                             `panic c0`, every input 0                          -> `ok`
    node <i> <strat> <expr>  define node i (< n)                               -> `ok`
         <strat> ::= fix | fixjoin | fb:<v> | panic
                     fix     = Fixpoint, cycle_initial = 0, cycle_fn = identity
                     fixjoin = Fixpoint, cycle_initial = 0, cycle_fn = new ∪ previous
                     fb:<v>  = FallbackImmediate (cycle_result) with value v (< 256)
                     panic   = no cycle recovery
         <expr>  ::= prefix notation, one token per constructor, tokens separated by one space:
                     c<k>          constant set k (< 256)
                     i<k>          input k (< 16)
                     n<k>          call node k (< n)
                     U <e> <e>     union
                     I <e> <e>     intersection
                     ?<k> <e> <e>  if input k ≠ 0 then first else second
                     ? <c> <e> c0  value-controlled gate: if bit 0 of the value of <c> is set
                                   then <e> (evaluated only then) else the empty set; the third
                                   operand must be the token `c0`
                     e.g.  `node 0 fix U c1 I n1 ?2 i0 n0`
         (re)defining a node starts a new revision (all memos and poison dropped).
    input <i> <v>            set input i (< 16) to v (< 256); new revision      -> `ok`
    get <i>                  request node i (< n) in the current revision
                                 -> `<value>`                       decimal, < 256
                                  | `panic:cycle`                   re-entered a `panic` node
                                  | `panic:too-many-iterations`     iteration stamp exhausted
                                  | `panic:cancelled:propagated-panic`  a head poisoned by an
                                                                    earlier panic of this revision
                                  | `panic:out-of-fuel`             model fuel (proved unreachable)
    lfp <i>                  reference: least fixpoint of the equations at node i -> `<value>`
    fbref <i>                reference for fallback programs (fallback iff on a cycle) -> `<value>`
    oncycle <i>              is node i on a cycle of the call graph (inputs decide `?<k>`, the
                             values of `fbref` decide the gates)                 -> `0|1`
    iters                    number of `WillIterateCycle` steps of the last `get`
                             (0 if it panicked or there was none)                -> `<k>`
  anything else (unknown op, missing `prog`, index out of range, trailing tokens) -> `bad-op`.
-/
import SalsaVerif.Drive.Common
import SalsaVerif.Model.Cycle

namespace SalsaVerif.Drive.Cycle
open SalsaVerif.Model.Cycle

def nat? (s : String) : Option Nat := if s.isEmpty then none else s.toNat?

structure DSt where
  prog : Option Prog := none
  inputs : List Nat := List.replicate 16 0
  db : Db := Db.empty
  lastIters : Nat := 0

def envOf (l : List Nat) : Nat → Nat := fun i => l.getD i 0

def parseStrat (s : String) : Option Strategy :=
  if s = "fix" then some (.fixpoint false)
  else if s = "fixjoin" then some (.fixpoint true)
  else if s = "panic" then some .panic
  else match s.splitOn ":" with
    | ["fb", v] => do
      let v ← nat? v
      if v < 256 then some (.fallback v) else none
    | _ => none

/-- the number after the one-character tag of a token. -/
def tagged (t : String) : Option (Char × Nat) :=
  match t.toList with
  | c :: rest => (nat? (String.ofList rest)).map (fun k => (c, k))
  | [] => none

/-- recursive descent over the token list; returns the expression and the remaining tokens. -/
def parseExpr (n : Nat) : Nat → List String → Option (Expr × List String)
  | 0, _ => none
  | _, [] => none
  | fuel + 1, t :: ts =>
    let bin (mk : Expr → Expr → Expr) : Option (Expr × List String) := do
      let (a, r1) ← parseExpr n fuel ts
      let (b, r2) ← parseExpr n fuel r1
      some (mk a b, r2)
    if t = "U" then bin .union
    else if t = "I" then bin .inter
    else if t = "?" then do
      let (c, r1) ← parseExpr n fuel ts
      let (a, r2) ← parseExpr n fuel r1
      match r2 with
      | "c0" :: r3 => some (.gate c a, r3)
      | _ => none
    else match tagged t with
      | some ('c', k) => if k < 256 then some (.const k, ts) else none
      | some ('i', k) => if k < 16 then some (.input k, ts) else none
      | some ('n', k) => if k < n then some (.call k, ts) else none
      | some ('?', k) => if k < 16 then bin (.ite k) else none
      | _ => none

def fmtClass : PanicClass → String
  | .cycle => "panic:cycle"
  | .tooManyIterations => "panic:too-many-iterations"
  | .propagated => "panic:cancelled:propagated-panic"
  | .outOfFuel => "panic:out-of-fuel"

def handle (st : DSt) (line : String) : Option (DSt × String) :=
  match SalsaVerif.Drive.words line with
  | ["prog", n] => do
    let n ← nat? n
    if n = 0 ∨ n > 64 then none
    some ({ prog := some ⟨List.replicate n ⟨.panic, .const 0⟩⟩ }, "ok")
  | "node" :: i :: strat :: toks => do
    let P ← st.prog
    let i ← nat? i
    if i ≥ P.n then none
    let strat ← parseStrat strat
    let (e, rest) ← parseExpr P.n (toks.length + 1) toks
    if !rest.isEmpty then none
    some ({ st with prog := some ⟨P.nodes.set i ⟨strat, e⟩⟩, db := st.db.newRevision,
                    lastIters := 0 }, "ok")
  | ["input", i, v] => do
    let _ ← st.prog
    let i ← nat? i; let v ← nat? v
    if i ≥ 16 ∨ v ≥ 256 then none
    some ({ st with inputs := st.inputs.set i v, db := st.db.newRevision, lastIters := 0 }, "ok")
  | ["get", i] => do
    let P ← st.prog
    let i ← nat? i
    if i ≥ P.n then none
    match st.db.get P (envOf st.inputs) i with
    | (.value v k, db') => some ({ st with db := db', lastIters := k }, toString v)
    | (.panic c, db') => some ({ st with db := db', lastIters := 0 }, fmtClass c)
  | ["lfp", i] => do
    let P ← st.prog
    let i ← nat? i
    if i ≥ P.n then none
    some (st, toString ((lfpL P (envOf st.inputs)).getD i 0))
  | ["fbref", i] => do
    let P ← st.prog
    let i ← nat? i
    if i ≥ P.n then none
    some (st, toString ((fbReferenceL P (envOf st.inputs)).getD i 0))
  | ["oncycle", i] => do
    let P ← st.prog
    let i ← nat? i
    if i ≥ P.n then none
    let env := envOf st.inputs
    some (st, if onCycleL P env (fun j => (fbReferenceL P env).getD j 0) i then "1" else "0")
  | ["iters"] => do
    let _ ← st.prog
    some (st, toString st.lastIters)
  | _ => none

def step (st : DSt) (line : String) : DSt × String :=
  match handle st line with
  | some r => r
  | none => (st, "bad-op")

def main : IO Unit := SalsaVerif.Drive.runLoop ({} : DSt) step

end SalsaVerif.Drive.Cycle
