/-
  Line protocol `svdriver lru` — the LRU eviction policy alone (Model/Lru.lean,
  src/function/eviction/lru.rs).  Initial state: `Lru::new(0)` (capacity 0, empty set).

  ops (tokens separated by one space; integers decimal):
    cap <n>      set_capacity(n)                       -> `ok`
    use <id>     record_use(id)                        -> `ok`
    evict        for_each_evicted(cb)                  -> the evicted ids in callback order,
                                                          space separated, `-` if none
    set          iterate the linked hash set           -> the ids front (least recently used) to
                                                          back, space separated, `-` if empty
  anything else: `bad-op`.
-/
import SalsaVerif.Drive.Common
import SalsaVerif.Model.Lru

namespace SalsaVerif.Drive.Lru
open SalsaVerif.Model.Lru

def nat? (s : String) : Option Nat := if s.isEmpty then none else s.toNat?

def fmtIds (l : List Nat) : String :=
  if l.isEmpty then "-" else " ".intercalate (l.map toString)

def handle (l : Lru) (line : String) : Option (Lru × String) :=
  match SalsaVerif.Drive.words line with
  | ["cap", n] => do
    let n ← nat? n
    some (setCapacity l n, "ok")
  | ["use", id] => do
    let id ← nat? id
    some (recordUse l id, "ok")
  | ["evict"] =>
    let r := forEachEvicted l
    some (r.1, fmtIds r.2)
  | ["set"] => some (l, fmtIds l.set)
  | _ => none

def step (l : Lru) (line : String) : Lru × String :=
  match handle l line with
  | some r => r
  | none => (l, "bad-op")

def main : IO Unit := SalsaVerif.Drive.runLoop (Lru.new 0) step

end SalsaVerif.Drive.Lru
