/-
  Line protocol `svdriver cancel` — replays a trace of the clone counter / cancellation flag /
  cancellation count / revision against Model/Cancel.lean part (1) (C20 trace acceptance).
  One output line per input line.  Tokens are separated by ONE space, integers are decimal.

  A. plain ops (handle ids `h` are arbitrary integers chosen by the harness; id 0 is the
     database's original handle, which exists from the start: `clone 0` is not enabled, `check 0`
     is, and `drop 0` is enabled only as the very last drop, after which nothing is enabled)

    clone <h>      a new handle `h` was created by `StorageHandle::clone` (clones += 1)
    drop <h>       handle `h` was dropped (`CoordinateDrop::drop`, clones -= 1)
    setflag        `set_cancellation_flag`  (entry of `cancel_others`)
    resetflag      `reset_cancellation_flag`; enabled iff the flag is set and clones = 1
                   (this is the model's `await` followed by `resetFlag`)
    bumpcc         `bump_cancellation_count`; enabled only right after `resetflag`
    newrev         `new_revision`: mandatory right after an overflowing `bumpcc`, otherwise enabled
                   while the writer holds `&mut Zalsa` (after `bumpcc`, any number of times)
    check <h>      `unwind_if_revision_cancelled` on live handle `h` (global flag part)

    output:  clone/drop/setflag/resetflag/bumpcc/newrev:
                 `clones=<n> flag=<0|1> cc=<n> cur=<n>`     state after the op
                 (`bumpcc` on cc = 255 appends ` overflow`: cc stays 255, `newrev` must follow)
             check:  `ok clones=.. flag=.. cc=.. cur=..`  |  `unwind clones=.. flag=.. cc=.. cur=..`
             `not-enabled`   the op is not enabled in the model (state unchanged)
             `bad-op`        malformed line
    The write itself ends implicitly: after `bumpcc`(+`newrev`s) the next clone / setflag ends the
    writer's exclusive section (model label `write`).

  B. hook-trace lines (harness/TRACE_FORMAT.md, class `cancel`); values carried by the line are
     compared with the model

    reset                                   fresh database                              -> `ok`
    cancel set_flag t<me>                   = setflag
    cancel proceed t<me> <clones>           wait loop left: model `await` (needs clones = 1)
    cancel reset_flag t<me>                 `resetFlag` (preceded by an implicit `await` if no `proceed` was logged)
    cancel bump_cc t<me> <cc after> <overflow 0|1>
    cancel new_revision t<me> <revision after>
    cancel clone t<me> <clones after>
    cancel drop t<me> <clones after>        some live non-writer handle is dropped; with none left
                                            and clones = 1 it is the last handle (database dropped)
    cancel unwind t<me> h<N> <PendingWrite|Local>   PendingWrite needs the flag set; Local is not
                                            this model's business (accepted)
    any other class (dg, sync, alloc, memo, note)                                       -> `skip`

    output:  `ok`  |  `not-enabled`  |  `mismatch <what> model=<v> trace=<v>`  |  `skip`  |  `bad-op`
    (after a `mismatch` the model state is the model's, not the trace's).
-/
import SalsaVerif.Drive.Common
import SalsaVerif.Model.Cancel

namespace SalsaVerif.Drive.Cancel
open SalsaVerif.Model.Cancel

structure DState where
  s : State
  hmap : List (Nat × Nat)        -- external handle id ↦ reader index
  pendingOverflow : Bool         -- `bump_cancellation_count` returned true, `new_revision` not yet seen
  gone : Bool                    -- the last handle was dropped

def DState.init : DState := ⟨State.init, [], false, false⟩

def nat? (s : String) : Option Nat := if s.isEmpty then none else s.toNat?

/-- `t12` / `h3` -/
def tagged? (c : Char) (s : String) : Option Nat :=
  if s.startsWith (String.singleton c) then nat? (s.drop 1).toString else none

def fmt (s : State) : String :=
  s!"clones={s.clones} flag={if s.flag then 1 else 0} cc={s.cc} cur={s.cur}"

/-- the writer's exclusive section ends (no further revision bump) -/
def endWrite (d : DState) : DState :=
  if d.s.phase = .bumped ∧ !d.pendingOverflow then
    match step d.s (.write .lruCapacity) with
    | some s' => { d with s := s' }
    | none => d
  else d

def firstLive (rs : List Reader) : Option Nat :=
  let rec go : List Reader → Nat → Option Nat
    | [], _ => none
    | r :: rest, i => if r.live then some i else go rest (i + 1)
  go rs 0

/-- a clone by whoever can clone: the writer's handle outside `cancel_others`, else a live reader -/
def doClone (d : DState) : Option State :=
  match step d.s (.cloneHandle none 0) with
  | some s' => some s'
  | none => match firstLive d.s.readers with
    | some i => step d.s (.cloneHandle (some i) 0)
    | none => none

def opClone (d : DState) : Option DState :=
  if d.pendingOverflow || d.gone then none else
  let d := endWrite d
  (doClone d).map fun s' => { d with s := s' }

def opDropIdx (d : DState) (i : Nat) : Option DState :=
  if d.pendingOverflow || d.gone then none else
  let d := endWrite d
  (step d.s (.finish i)).map fun s' => { d with s := s' }

def opSetFlag (d : DState) : Option DState :=
  if d.pendingOverflow || d.gone then none else
  let d := endWrite d
  (step d.s .setFlag).map fun s' => { d with s := s' }

def opAwait (d : DState) : Option DState :=
  if d.gone then none else (step d.s .await).map fun s' => { d with s := s' }

def opResetFlag (d : DState) : Option DState :=
  if d.gone then none else
  let s1 := if d.s.phase = .flagSet then step d.s .await else some d.s
  match s1 with
  | some s1 => (step s1 .resetFlag).map fun s' => { d with s := s' }
  | none => none

/-- `bump_cancellation_count`: on overflow the count is unchanged and the model's `bumpCc` label
    is completed by the `new_revision` that must follow -/
def opBumpCc (d : DState) : Option (DState × Bool) :=
  if d.gone || d.pendingOverflow then none else
  if d.s.phase = .flagReset then
    let (_, overflow) := bumpCancellationCount d.s
    if overflow then some ({ d with pendingOverflow := true }, true)
    else (step d.s .bumpCc).map fun s' => ({ d with s := s' }, false)
  else none

def opNewRev (d : DState) : Option DState :=
  if d.gone then none else
  if d.pendingOverflow then
    (step d.s .bumpCc).map fun s' => { d with s := s', pendingOverflow := false }
  else if d.s.phase = .bumped then some { d with s := newRevision d.s }
  else none

def liveHandle (d : DState) (h : Nat) : Bool :=
  match d.hmap.lookup h with
  | some i => match d.s.readers[i]? with
    | some r => r.live
    | none => false
  | none => false

def out (r : Option DState) (d : DState) : DState × String :=
  match r with
  | some d' => (d', fmt d'.s)
  | none => (d, "not-enabled")

def cmp (d : DState) (what : String) (model trace : Nat) : DState × String :=
  if model = trace then (d, "ok") else (d, s!"mismatch {what} model={model} trace={trace}")

def traceOp (d : DState) (ws : List String) : DState × String :=
  match ws with
  | ["set_flag", t] =>
    if (tagged? 't' t).isNone then (d, "bad-op") else
    match opSetFlag d with
    | some d' => (d', "ok")
    | none => (d, "not-enabled")
  | ["proceed", t, n] =>
    match tagged? 't' t, nat? n with
    | some _, some n => match opAwait d with
      | some d' => cmp d' "clones" d'.s.clones n
      | none => (d, "not-enabled")
    | _, _ => (d, "bad-op")
  | ["reset_flag", t] =>
    if (tagged? 't' t).isNone then (d, "bad-op") else
    match opResetFlag d with
    | some d' => (d', "ok")
    | none => (d, "not-enabled")
  | ["bump_cc", t, v, o] =>
    match tagged? 't' t, nat? v, nat? o with
    | some _, some v, some o => match opBumpCc d with
      | some (d', overflow) =>
        if (if overflow then 1 else 0) ≠ o then
          (d', s!"mismatch overflow model={if overflow then 1 else 0} trace={o}")
        else cmp d' "cc" d'.s.cc v
      | none => (d, "not-enabled")
    | _, _, _ => (d, "bad-op")
  | ["new_revision", t, r] =>
    match tagged? 't' t, nat? r with
    | some _, some r => match opNewRev d with
      | some d' => cmp d' "revision" d'.s.cur r
      | none => (d, "not-enabled")
    | _, _ => (d, "bad-op")
  | ["clone", t, n] =>
    match tagged? 't' t, nat? n with
    | some _, some n => match opClone d with
      | some d' => cmp d' "clones" d'.s.clones n
      | none => (d, "not-enabled")
    | _, _ => (d, "bad-op")
  | ["drop", t, n] =>
    match tagged? 't' t, nat? n with
    | some _, some n =>
      match firstLive d.s.readers with
      | some i => match opDropIdx d i with
        | some d' => cmp d' "clones" d'.s.clones n
        | none => (d, "not-enabled")
      | none =>
        -- the last handle: the database is dropped
        if !d.gone && !d.pendingOverflow && d.s.clones = 1 && d.s.phase != .flagSet && d.s.phase != .awaited then
          cmp { d with gone := true } "clones" 0 n
        else (d, "not-enabled")
    | _, _ => (d, "bad-op")
  | ["unwind", t, h, kind] =>
    match tagged? 't' t, tagged? 'h' h with
    | some _, some _ =>
      if kind = "PendingWrite" then
        if unwindIfRevisionCancelled d.s = .unwindPendingWrite then (d, "ok") else (d, "not-enabled")
      else if kind = "Local" then (d, "ok")
      else (d, "bad-op")
    | _, _ => (d, "bad-op")
  | _ => (d, "bad-op")

def stepLine (d : DState) (line : String) : DState × String :=
  match SalsaVerif.Drive.words line with
  | ["clone", h] =>
    match nat? h with
    | some h =>
      if (d.hmap.lookup h).isSome || h = 0 then (d, "not-enabled") else
      match opClone d with
      | some d' => ({ d' with hmap := (h, d'.s.readers.length - 1) :: d'.hmap }, fmt d'.s)
      | none => (d, "not-enabled")
    | none => (d, "bad-op")
  | ["drop", h] =>
    match nat? h with
    | some h => match d.hmap.lookup h with
      | some i => out (opDropIdx d i) d
      | none =>
        if h = 0 && !d.gone && !d.pendingOverflow && d.s.clones = 1 && d.s.phase != .flagSet && d.s.phase != .awaited then
          let d' := { endWrite d with gone := true }
          ({ d' with s := { d'.s with clones := 0 } }, fmt { d'.s with clones := 0 })
        else (d, "not-enabled")
    | none => (d, "bad-op")
  | ["setflag"] => out (opSetFlag d) d
  | ["resetflag"] => out (opResetFlag d) d
  | ["bumpcc"] =>
    match opBumpCc d with
    | some (d', overflow) => (d', fmt d'.s ++ (if overflow then " overflow" else ""))
    | none => (d, "not-enabled")
  | ["newrev"] => out (opNewRev d) d
  | ["check", h] =>
    match nat? h with
    | some h =>
      if (liveHandle d h || h = 0) && !d.gone then
        match unwindIfRevisionCancelled d.s with
        | .ok => (d, "ok " ++ fmt d.s)
        | .unwindPendingWrite => (d, "unwind " ++ fmt d.s)
      else (d, "not-enabled")
    | none => (d, "bad-op")
  | ["reset"] => (DState.init, "ok")
  | "cancel" :: ws => traceOp d ws
  | cls :: _ =>
    if cls = "dg" || cls = "sync" || cls = "alloc" || cls = "memo" || cls = "note" then (d, "skip")
    else (d, "bad-op")
  | [] => (d, "bad-op")

def main : IO Unit := SalsaVerif.Drive.runLoop DState.init stepLine

end SalsaVerif.Drive.Cancel
