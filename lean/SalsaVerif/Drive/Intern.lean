/-
  Line protocols `svdriver rq` and `svdriver intern` (Model/Intern.lean, src/interned.rs).
  Tokens are separated by one space; integers are decimal.  Anything else: `bad-op`.

  ── `svdriver rq`: the `RevisionQueue` alone.  Initial state: `RevisionQueue::new(3)`.
    new <n|max>   RevisionQueue::new(n), n ≥ 1; `max` = usize::MAX (IMMORTAL, no slots)  -> `ok`
    record <r>    record(Revision r), r ≥ 1        -> `ok` | `panic:index` (empty queue)
    primed        is_primed()                      -> `1` | `0`
    stale <r>     is_stale(Revision r), r ≥ 1      -> `1` | `0`
    dump          the slots, newest first, space separated; `-` if there are none

  ── `svdriver intern`: one interned ingredient whose values all land in ONE shard (constant
     hash), single thread.  Initial state: REVISIONS = 3, current revision 1, nothing interned.
     Ids are printed as the allocation index within the ingredient (0, 1, 2, … in order of
     first allocation); the harness canonicalises real ids the same way.
    new <n|max>                          fresh ingredient with `revisions = n` (n ≥ 1) or
                                         `usize::MAX`; current revision back to 1     -> `ok`
    rev <cur>                            the current revision becomes <cur> (≥ 1)      -> `ok`
    intern <dur> <inquery> <field>       intern the value <field>; <inquery> = 1: called from a
                                         query whose stamp durability is <dur> (0 LOW, 1 MEDIUM,
                                         2 HIGH, 3 NEVER_CHANGE); <inquery> = 0: no active query
                                         (<dur> ignored)
                                         -> `new <id> g<gen>` | `hit <id> g<gen>` |
                                            `reuse <id> g<gen>` | `panic`
    mca <id> <edge gen>                  maybe_changed_after for the edge (id, generation)
                                         -> `changed` | `unchanged` | `panic` (unknown id)
    memo <id>                            ghost: a memo is attached to <id>   -> `ok` | `panic`
    dump                                 -> `cur=<c> q=<slots|-> lru=<ids front..back|->
                                             slots=<id:field:gen:last:dur:nmemos,…|->`
                                            (`last` printed as `max` for Revision::max())
-/
import SalsaVerif.Drive.Common
import SalsaVerif.Model.Intern

namespace SalsaVerif.Drive.Intern
open SalsaVerif.Model.Intern

def nat? (s : String) : Option Nat := if s.isEmpty then none else s.toNat?

/-- a strictly positive integer (Revision / NonZeroUsize). -/
def pos? (s : String) : Option Nat :=
  match nat? s with
  | some 0 => none
  | r => r

def fmtNats (l : List Nat) (sep : String := " ") : String :=
  if l.isEmpty then "-" else sep.intercalate (l.map toString)

def cap? (s : String) : Option (Option Nat) :=
  if s = "max" then some none else (pos? s).map some

/-! ### rq -/

def handleRq (q : RevisionQueue) (line : String) : Option (RevisionQueue × String) :=
  match SalsaVerif.Drive.words line with
  | ["new", n] => do
    let c ← cap? n
    some (RevisionQueue.new c, "ok")
  | ["record", r] => do
    let r ← pos? r
    match q.record r with
    | some q' => some (q', "ok")
    | none => some (q, "panic:index")
  | ["primed"] => some (q, if q.isPrimed then "1" else "0")
  | ["stale", r] => do
    let r ← pos? r
    some (q, if q.isStale r then "1" else "0")
  | ["dump"] => some (q, fmtNats q.revisions)
  | _ => none

def stepRq (q : RevisionQueue) (line : String) : RevisionQueue × String :=
  match handleRq q line with
  | some r => r
  | none => (q, "bad-op")

def mainRq : IO Unit := SalsaVerif.Drive.runLoop (RevisionQueue.new (some 3)) stepRq

/-! ### intern -/

def fmtKind : Kind → String
  | .new => "new"
  | .hit => "hit"
  | .reuse => "reuse"

def fmtRev (r : Nat) : String := if r = REV_MAX then "max" else toString r

def fmtSlot (v : Slot) : String :=
  s!"{v.id}:{v.fields}:{v.generation}:{fmtRev v.lastInternedAt}:{v.durability}:{v.memos.length}"

def fmtSys (s : Sys) : String :=
  let slots := if s.it.shard.slots.isEmpty then "-" else ",".intercalate (s.it.shard.slots.map fmtSlot)
  s!"cur={s.cur} q={fmtNats s.it.queue.revisions ","} lru={fmtNats s.it.shard.lru ","} slots={slots}"

def handleIntern (s : Sys) (line : String) : Option (Sys × String) :=
  match SalsaVerif.Drive.words line with
  | ["new", n] => do
    let c ← cap? n
    some (Sys.init c, "ok")
  | ["rev", r] => do
    let r ← pos? r
    some ({ s with cur := r }, "ok")
  | ["intern", d, q, x] => do
    let d ← nat? d
    let x ← nat? x
    if d > 3 then none
    let q ← if q = "1" then some true else if q = "0" then some false else none
    match s.it.intern s.cur d q x with
    | some (it, o) => some ({ s with it := it }, s!"{fmtKind o.kind} {o.id} g{o.generation}")
    | none => some (s, "panic")
  | ["mca", id, g] => do
    let id ← nat? id
    let g ← nat? g
    match s.it.maybeChangedAfter id g s.cur with
    | some (it, c) => some ({ s with it := it }, if c then "changed" else "unchanged")
    | none => some (s, "panic")
  | ["memo", id] => do
    let id ← nat? id
    match s.it.addMemo id with
    | some it => some ({ s with it := it }, "ok")
    | none => some (s, "panic")
  | ["dump"] => some (s, fmtSys s)
  | _ => none

def stepIntern (s : Sys) (line : String) : Sys × String :=
  match handleIntern s line with
  | some r => r
  | none => (s, "bad-op")

def mainIntern : IO Unit := SalsaVerif.Drive.runLoop (Sys.init (some 3)) stepIntern

end SalsaVerif.Drive.Intern
