/- Shared IO loop for the line-protocol drivers (core Lean only). -/
namespace SalsaVerif.Drive

/-- Feed every stdin line to `step`, printing one output line per input line. -/
partial def loop {σ : Type} (step : σ → String → σ × String) (h : IO.FS.Stream) (out : IO.FS.Stream) (s : σ) : IO Unit := do
  let line ← h.getLine
  if line.isEmpty then
    out.flush
    return ()
  let l := if line.endsWith "\n" then (line.dropEnd 1).toString else line
  let (s', o) := step s l
  out.putStrLn o
  loop step h out s'

def runLoop {σ : Type} (init : σ) (step : σ → String → σ × String) : IO Unit := do
  loop step (← IO.getStdin) (← IO.getStdout) init

def words (l : String) : List String := l.splitOn " "

end SalsaVerif.Drive
