/-
  Hand model of tracked structs (src/tracked_struct.rs, the tracked-struct part of
  src/active_query.rs, `update_fields` of components/salsa-macro-rules/src/setup_tracked_struct.rs,
  and the stale-struct loop of src/function/diff_outputs.rs / execute.rs).

  What is modelled
  * `Id` = (slot index, generation); the table is a `List Slot` indexed by slot index, a fresh
    allocation appends.  `Slot.gen` is GHOST: Rust keeps the generation only inside the `Id`
    handles; the model records in the slot the generation of the last handle handed out for it
    (written by `allocate` and by the identity-changed branch of `update`).
  * identity field value `Fields.idv : Nat`, tracked field values `Fields.tracked : List Nat`;
    the identity hash is an uninterpreted parameter `hash : Nat → Nat` (collisions allowed).
  * `Frame` = the two tracked-struct maps of an `ActiveQuery`: `disamb` (DisambiguatorMap, an
    association list (ingredient, hash) ↦ next disambiguator) and `idmap` (IdentityMap, a list of
    `Entry`; iteration order = insertion order, hashbrown's order is not modelled).
  * free list: every struct ingredient owns a `SegQueue<Id>`; single-threaded that is a FIFO queue.
    The model keeps ONE list of `(ingredient, Id)`, pushes at the back, and `allocate g` pops the
    first entry of ingredient `g` — exactly the per-ingredient FIFO queues.
  * panics/asserts are `Except Panic _` results.  `Panic.badId` (table lookup with an index that
    is not in the table) and `Panic.badOp` (ill-formed op of the `World` op language, memo insert
    into a dead slot) have no Rust counterpart; they keep the functions total without a silent
    default.
  * memos stored in a slot are ghost payloads `Memo {payload, gen}`; `gen` = the slot's generation
    when the memo was inserted.

  Not modelled: `seed_iteration` (cycle iterations mark the previous ids active), the recursive
  `remove_outputs` cascade inside `clear_memos` (approximated by the separate `discard` op of
  `World`), persistence, concurrency (`updated_at` is used as a lock; its value protocol is kept).
  Generations are `Nat` standing for `u32`: `generation == u32::MAX` is written `GEN_MAX ≤ gen`.
  `Disambiguator(u32)`: the `+= 1` overflow (2^32 same-hash creations in one execution) is not
  modelled; the debug-only `debug_assert!(updated_at.is_none())` of `allocate` is not a result
  (it cannot fire in a state satisfying the invariant `FreeOK` of Proofs/Structs.lean).
  Core Lean only.
-/
namespace SalsaVerif.Model.Structs

/-- `u32::MAX`, the largest generation of an `Id` (src/id.rs: `generation: u32`). -/
def GEN_MAX : Nat := 2^32 - 1

structure Id where
  idx : Nat
  gen : Nat
deriving DecidableEq, Repr

-- src/id.rs: fn next_generation   (`checked_add(1)` on `u32`)
def Id.nextGeneration (id : Id) : Option Id :=
  if id.gen < GEN_MAX then some { idx := id.idx, gen := id.gen + 1 } else none

inductive Panic where
  | updateWriteLocked   -- update: `assert!(last_updated_at.is_some())`
  | deleteWriteLocked   -- delete_entity: `updated_at.swap(None)` returned `None`
  | deleteReadLocked    -- delete_entity: `updated_at.swap(None)` returned `Some(cur)`
  | readWriteLocked     -- acquire_read_lock: `updated_at == None`
  | badId               -- table lookup outside the table (no Rust counterpart: `Table::get_raw`)
  | badOp               -- ill-formed model op (no Rust counterpart)
deriving DecidableEq, Repr

structure Fields where
  idv : Nat
  tracked : List Nat
deriving DecidableEq, Repr

/-- ghost memo: `gen` = generation of the slot when the memo was inserted. -/
structure Memo where
  payload : Nat
  gen : Nat
deriving DecidableEq, Repr

-- src/tracked_struct.rs: struct Value   (`gen` is ghost, see the header)
structure Slot where
  gen : Nat
  updatedAt : Option Nat
  dur : Nat
  revs : List Nat
  fields : Fields
  memos : List Memo
deriving DecidableEq, Repr

-- src/tracked_struct.rs: struct Identity
structure Identity where
  ingr : Nat
  hash : Nat
  disamb : Nat
deriving DecidableEq, Repr

-- src/tracked_struct.rs: struct TrackedEntry
structure Entry where
  identity : Identity
  id : Id
  active : Bool
deriving DecidableEq, Repr

structure Frame where
  disamb : List ((Nat × Nat) × Nat)
  idmap : List Entry
deriving DecidableEq, Repr

structure State where
  slots : List Slot
  free : List (Nat × Id)
deriving DecidableEq, Repr

def State.empty : State := ⟨[], []⟩

/-! ### DisambiguatorMap -/

def DisambiguatorMap.get : List ((Nat × Nat) × Nat) → Nat × Nat → Nat
  | [], _ => 0
  | (k, v) :: rest, key => if k = key then v else DisambiguatorMap.get rest key

def DisambiguatorMap.set : List ((Nat × Nat) × Nat) → Nat × Nat → Nat → List ((Nat × Nat) × Nat)
  | [], key, v => [(key, v)]
  | (k, v') :: rest, key, v =>
    if k = key then (key, v) :: rest else (k, v') :: DisambiguatorMap.set rest key v

-- src/tracked_struct.rs: fn disambiguate   (vacant ⇒ insert 0; result := *d; *d += 1)
def DisambiguatorMap.disambiguate (d : List ((Nat × Nat) × Nat)) (key : Nat × Nat) :
    List ((Nat × Nat) × Nat) × Nat :=
  (DisambiguatorMap.set d key (DisambiguatorMap.get d key + 1), DisambiguatorMap.get d key)

/-! ### IdentityMap -/

/-- `table.find(key)` -/
def IdentityMap.find : List Entry → Identity → Option Id
  | [], _ => none
  | e :: rest, key => if e.identity = key then some e.id else IdentityMap.find rest key

-- src/tracked_struct.rs: fn insert_entry   (the returned previous id is ignored by every caller)
def IdentityMap.insertEntry : List Entry → Identity → Id → Bool → List Entry
  | [], key, id, a => [⟨key, id, a⟩]
  | e :: rest, key, id, a =>
    if e.identity = key then ⟨key, id, a⟩ :: rest else e :: IdentityMap.insertEntry rest key id a

-- src/tracked_struct.rs: fn seed
def IdentityMap.seed : List Entry → List (Identity × Id) → List Entry
  | m, [] => m
  | m, (key, id) :: rest => IdentityMap.seed (IdentityMap.insertEntry m key id false) rest

/-- the `entry.active = true` of `reuse` -/
def IdentityMap.markActive : List Entry → Identity → List Entry
  | [], _ => []
  | e :: rest, key =>
    if e.identity = key then ⟨e.identity, e.id, true⟩ :: rest
    else e :: IdentityMap.markActive rest key

-- src/tracked_struct.rs: fn reuse
def IdentityMap.reuse (m : List Entry) (key : Identity) : List Entry × Option Id :=
  (IdentityMap.markActive m key, IdentityMap.find m key)

/-- order of `stale.sort_unstable_by(|a, b| (a.0.ingredient_index(), a.1).cmp(..))`;
    `Id: Ord` is derived, i.e. lexicographic (index, generation). -/
def staleLe (a b : Identity × Id) : Bool :=
  decide (a.1.ingr < b.1.ingr) ||
    (decide (a.1.ingr = b.1.ingr) &&
      (decide (a.2.idx < b.2.idx) || (decide (a.2.idx = b.2.idx) && decide (a.2.gen ≤ b.2.gen))))

def insertSorted (a : Identity × Id) : List (Identity × Id) → List (Identity × Id)
  | [] => [a]
  | b :: rest => if staleLe a b then a :: b :: rest else b :: insertSorted a rest

def sortStale : List (Identity × Id) → List (Identity × Id)
  | [] => []
  | a :: rest => insertSorted a (sortStale rest)

def Entry.pair (e : Entry) : Identity × Id := (e.identity, e.id)

-- src/tracked_struct.rs: fn drain   (active, stale sorted by (ingredient, id))
def IdentityMap.drain (m : List Entry) : List (Identity × Id) × List (Identity × Id) :=
  ((m.filter (fun e => e.active)).map Entry.pair,
   sortStale ((m.filter (fun e => !e.active)).map Entry.pair))

/-- A fresh `ActiveQuery` whose `tracked_struct_ids` were seeded by `seed_tracked_struct_ids`
    (src/zalsa_local.rs) from the previous memo; `disambiguator_map` starts EMPTY. -/
def Frame.seed (prevActive : List (Identity × Id)) : Frame :=
  ⟨[], IdentityMap.seed [] prevActive⟩

/-! ### update_fields -/

-- src/tracked_struct.rs: fn update_field
def updateField (old new : Nat) : Nat × Bool :=
  if old = new then (old, false) else (new, true)

/-- the tracked-field part of `update_fields`: `if update_field(..) { revisions[i].store(rev) }`.
    The arity of an ingredient is fixed in Rust; on an arity mismatch (not reachable from Rust)
    the remaining new fields are treated as stored with a fresh revision. -/
def updateTracked (changedAt : Nat) : List Nat → List Nat → List Nat → List Nat × List Nat
  | r :: rs, o :: os, n :: ns =>
    ((if (updateField o n).2 then changedAt else r) :: (updateTracked changedAt rs os ns).1,
     (updateField o n).1 :: (updateTracked changedAt rs os ns).2)
  | _, _, ns => (List.replicate ns.length changedAt, ns)

structure UpdateFields where
  revs : List Nat
  fields : Fields
  identityChanged : Bool
deriving DecidableEq, Repr

-- components/salsa-macro-rules/src/setup_tracked_struct.rs: fn update_fields
def updateFields (changedAt : Nat) (revs : List Nat) (old new : Fields) : UpdateFields :=
  ⟨(updateTracked changedAt revs old.tracked new.tracked).1,
   ⟨(updateField old.idv new.idv).1, (updateTracked changedAt revs old.tracked new.tracked).2⟩,
   (updateField old.idv new.idv).2⟩

/-- `C::new_revisions(changed_at)` -/
def newRevisions (changedAt : Nat) (fields : Fields) : List Nat :=
  List.replicate fields.tracked.length changedAt

/-! ### the ingredient -/

/-- the `value` closure of `allocate` -/
def newValue (gen cur dur changedAt : Nat) (fields : Fields) : Slot :=
  { gen := gen, updatedAt := some cur, dur := dur, revs := newRevisions changedAt fields,
    fields := fields, memos := [] }

/-- `while let Some(id) = self.free_list.pop() { let Some(id) = id.next_generation() else
    { continue }; ..; return id }` on the queue of ingredient `g`: returns the reused id (generation
    already bumped) and the remaining free list.  Entries whose generation would overflow are
    popped and dropped (the slot is leaked). -/
def allocLoop (g : Nat) : List (Nat × Id) → Option Id × List (Nat × Id)
  | [] => (none, [])
  | (g', id) :: rest =>
    if g' = g then
      match id.nextGeneration with
      | some id' => (some id', rest)
      | none => allocLoop g rest
    else ((allocLoop g rest).1, (g', id) :: (allocLoop g rest).2)

-- src/tracked_struct.rs: fn allocate
def allocate (s : State) (cur dur changedAt g : Nat) (fields : Fields) : Except Panic (State × Id) :=
  match (allocLoop g s.free).1 with
  | some id =>
    match s.slots[id.idx]? with
    | none => .error .badId
    | some _ =>
      .ok (⟨s.slots.set id.idx (newValue id.gen cur dur changedAt fields), (allocLoop g s.free).2⟩, id)
  | none =>
    .ok (⟨s.slots ++ [newValue 0 cur dur changedAt fields], (allocLoop g s.free).2⟩,
         ⟨s.slots.length, 0⟩)

/-- the slot written by the locked part of `update` -/
def updatedValue (v : Slot) (cur dur changedAt : Nat) (id : Id) (fields : Fields) : Slot :=
  let u := updateFields changedAt v.revs v.fields fields
  { gen := if u.identityChanged then id.gen + 1 else v.gen,
    updatedAt := some cur,
    dur := dur,
    revs := if dur < v.dur then newRevisions changedAt fields else u.revs,
    fields := u.fields,
    memos := if u.identityChanged then [] else v.memos }

-- src/tracked_struct.rs: fn update   (`some id` = `Ok(id)`, `none` = `Err(fields)`)
def update (s : State) (cur dur changedAt : Nat) (id : Id) (fields : Fields) :
    Except Panic (State × Option Id) :=
  match s.slots[id.idx]? with
  | none => .error .badId
  | some v =>
    match v.updatedAt with
    | none => .error .updateWriteLocked
    | some last =>
      if last = cur then .ok (s, some id)
      else if GEN_MAX ≤ id.gen then .ok (s, none)
      else
        .ok (⟨s.slots.set id.idx (updatedValue v cur dur changedAt id fields), s.free⟩,
             some (if (updateFields changedAt v.revs v.fields fields).identityChanged
                   then ⟨id.idx, id.gen + 1⟩ else id))

structure NewStruct where
  frame : Frame
  state : State
  identity : Identity   -- ghost: the identity under which the struct was registered
  id : Id
deriving DecidableEq, Repr

/-- the identity `new_struct` computes: (ingredient, hash of the identity fields, disambiguator) -/
def newIdentity (hash : Nat → Nat) (f : Frame) (g : Nat) (fields : Fields) : Identity :=
  ⟨g, hash fields.idv, (DisambiguatorMap.disambiguate f.disamb (g, hash fields.idv)).2⟩

-- src/tracked_struct.rs: fn new_struct
def newStruct (hash : Nat → Nat) (cur dur changedAt g : Nat) (fields : Fields)
    (f : Frame) (s : State) : Except Panic NewStruct :=
  let d' := (DisambiguatorMap.disambiguate f.disamb (g, hash fields.idv)).1
  let identity := newIdentity hash f g fields
  let m1 := (IdentityMap.reuse f.idmap identity).1
  match (IdentityMap.reuse f.idmap identity).2 with
  | some id =>
    match update s cur dur changedAt id fields with
    | .error p => .error p
    | .ok (s1, some id1) =>
      if id1 ≠ id then
        .ok ⟨⟨d', IdentityMap.insertEntry m1 identity id1 true⟩, s1, identity, id1⟩
      else .ok ⟨⟨d', m1⟩, s1, identity, id⟩
    | .ok (s1, none) =>
      match allocate s1 cur dur changedAt g fields with
      | .error p => .error p
      | .ok (s2, id2) => .ok ⟨⟨d', IdentityMap.insertEntry m1 identity id2 true⟩, s2, identity, id2⟩
  | none =>
    match allocate s cur dur changedAt g fields with
    | .error p => .error p
    | .ok (s2, id2) => .ok ⟨⟨d', IdentityMap.insertEntry m1 identity id2 true⟩, s2, identity, id2⟩

-- src/tracked_struct.rs: fn delete_entity   (`g` = the ingredient whose free list gets the id)
def deleteEntity (s : State) (cur g : Nat) (id : Id) : Except Panic State :=
  match s.slots[id.idx]? with
  | none => .error .badId
  | some v =>
    match v.updatedAt with
    | none => .error .deleteWriteLocked
    | some r =>
      if r = cur then .error .deleteReadLocked
      else .ok ⟨s.slots.set id.idx { v with updatedAt := none, memos := [] }, s.free ++ [(g, id)]⟩

/-- What is left behind when `delete_entity` panics: `updated_at.swap(None)` happens BEFORE the
    check, so after a caught unwind the slot is write-locked for ever and not on the free list. -/
def deleteEntityUnwound (s : State) (id : Id) : State :=
  match s.slots[id.idx]? with
  | none => s
  | some v => ⟨s.slots.set id.idx { v with updatedAt := none }, s.free⟩

-- src/tracked_struct.rs: fn lock_fields / acquire_read_lock  (tracked_field, untracked_field)
def readField (s : State) (cur idx : Nat) : Except Panic State :=
  match s.slots[idx]? with
  | none => .error .badId
  | some v =>
    match v.updatedAt with
    | none => .error .readWriteLocked
    | some _ => .ok ⟨s.slots.set idx { v with updatedAt := some cur }, s.free⟩

/-- ghost op: a memo of a function keyed by the struct is inserted into the slot's memo table,
    tagged with the slot's generation.  Only for live slots (`badOp` otherwise). -/
def addMemo (s : State) (idx payload : Nat) : Except Panic State :=
  match s.slots[idx]? with
  | none => .error .badId
  | some v =>
    match v.updatedAt with
    | none => .error .badOp
    | some _ => .ok ⟨s.slots.set idx { v with memos := ⟨payload, v.gen⟩ :: v.memos }, s.free⟩

/-! ### one execution of the creator query -/

/-- one `Struct::new` call of the creator: the creator's stamp so far + ingredient + fields -/
structure Creation where
  dur : Nat
  changedAt : Nat
  ingr : Nat
  fields : Fields
deriving DecidableEq, Repr

/-- the body of the creator: its `new_struct` calls in order; returns the (identity, id) of
    every creation in creation order (ghost trace). -/
def runCreations (hash : Nat → Nat) (cur : Nat) :
    List Creation → Frame → State → Except Panic (Frame × State × List (Identity × Id))
  | [], f, s => .ok (f, s, [])
  | c :: rest, f, s =>
    match newStruct hash cur c.dur c.changedAt c.ingr c.fields f s with
    | .error p => .error p
    | .ok out =>
      match runCreations hash cur rest out.frame out.state with
      | .error p => .error p
      | .ok (f', s', rs) => .ok (f', s', (out.identity, out.id) :: rs)

-- src/function/diff_outputs.rs: fn diff_outputs   (loop over `stale_tracked_structs`,
-- `report_stale_output` → `remove_stale_output` → `delete_entity`)
def deleteAll (s : State) (cur : Nat) : List (Identity × Id) → Except Panic State
  | [] => .ok s
  | (identity, id) :: rest =>
    match deleteEntity s cur identity.ingr id with
    | .error p => .error p
    | .ok s1 => deleteAll s1 cur rest

structure ExecOut where
  state : State
  active : List (Identity × Id)    -- stored in the new memo (`tracked_struct_ids`)
  stale : List (Identity × Id)     -- ghost: what `diff_outputs` deleted, in order
  created : List (Identity × Id)   -- ghost: per creation, in creation order
deriving DecidableEq, Repr

-- src/function/execute.rs: fn execute   (tracked-struct part: seed, body, drain, diff_outputs)
def runExecution (hash : Nat → Nat) (cur : Nat) (prevActive : List (Identity × Id))
    (creations : List Creation) (s : State) : Except Panic ExecOut :=
  match runCreations hash cur creations (Frame.seed prevActive) s with
  | .error p => .error p
  | .ok (f1, s1, rs) =>
    match deleteAll s1 cur (IdentityMap.drain f1.idmap).2 with
    | .error p => .error p
    | .ok s2 => .ok ⟨s2, (IdentityMap.drain f1.idmap).1, (IdentityMap.drain f1.idmap).2, rs⟩

/-! ### several creators sharing the table (op language for the invariants) -/

/-- a creator query: either it has a memo (`idle`, with the memo's `tracked_struct_ids`; no memo =
    `idle []`) or it is executing (`running`, its frame). -/
inductive Ctx where
  | idle (active : List (Identity × Id))
  | running (f : Frame)
deriving DecidableEq, Repr

structure World where
  st : State
  ctxs : List Ctx
deriving DecidableEq, Repr

def World.empty : World := ⟨State.empty, []⟩

inductive Op where
  | spawn                                                  -- a new creator query, never executed
  | begin (q : Nat)                                        -- push frame, seed from the old memo
  | new (q cur dur changedAt g : Nat) (fields : Fields)    -- `Struct::new` inside creator q
  | finish (q cur : Nat)                                   -- drain, diff_outputs, store new memo
  | discard (q cur : Nat)                                  -- q's memo is dropped: `remove_outputs`
  | read (cur idx : Nat)                                   -- field read
  | addMemo (idx payload : Nat)                            -- ghost
deriving DecidableEq, Repr

def step (hash : Nat → Nat) (w : World) : Op → Except Panic World
  | .spawn => .ok ⟨w.st, w.ctxs ++ [Ctx.idle []]⟩
  | .begin q =>
    match w.ctxs[q]? with
    | some (Ctx.idle a) => .ok ⟨w.st, w.ctxs.set q (Ctx.running (Frame.seed a))⟩
    | _ => .error .badOp
  | .new q cur dur changedAt g fields =>
    match w.ctxs[q]? with
    | some (Ctx.running f) =>
      match newStruct hash cur dur changedAt g fields f w.st with
      | .error p => .error p
      | .ok out => .ok ⟨out.state, w.ctxs.set q (Ctx.running out.frame)⟩
    | _ => .error .badOp
  | .finish q cur =>
    match w.ctxs[q]? with
    | some (Ctx.running f) =>
      match deleteAll w.st cur (IdentityMap.drain f.idmap).2 with
      | .error p => .error p
      | .ok s2 => .ok ⟨s2, w.ctxs.set q (Ctx.idle (IdentityMap.drain f.idmap).1)⟩
    | _ => .error .badOp
  | .discard q cur =>
    match w.ctxs[q]? with
    | some (Ctx.idle a) =>
      match deleteAll w.st cur a with
      | .error p => .error p
      | .ok s2 => .ok ⟨s2, w.ctxs.set q (Ctx.idle [])⟩
    | _ => .error .badOp
  | .read cur idx =>
    match readField w.st cur idx with
    | .error p => .error p
    | .ok s => .ok ⟨s, w.ctxs⟩
  | .addMemo idx payload =>
    match addMemo w.st idx payload with
    | .error p => .error p
    | .ok s => .ok ⟨s, w.ctxs⟩

def runOps (hash : Nat → Nat) : World → List Op → Except Panic World
  | w, [] => .ok w
  | w, op :: rest =>
    match step hash w op with
    | .error p => .error p
    | .ok w1 => runOps hash w1 rest

end SalsaVerif.Model.Structs
