/-
  Engine model L1 `CoreAcc` = `Core` (stage S2) + accumulators (DESIGN.md §4 C11).

  A copy of `Model/Core.lean` (memoised plain functions over inputs, dynamic dependencies,
  durabilities, the durability shortcut, deep verification in recorded edge order, backdating,
  durability-changing writes, synthetic writes, NEVER_CHANGE, the event trace) extended by
    * `Body.push v k`           — `Accumulator::accumulate` inside a tracked function,
    * `Frame.acc / accIn`       — `ActiveQuery::accumulated / accumulated_inputs`,
    * `Memo.acc / accIn`        — `QueryRevisionsExtra::accumulated` (the values pushed by the last
                                  execution, in push order) / `QueryRevisions::accumulated_inputs`,
    * `Res.hasAcc / accIn`      — what `report_tracked_read` passes on
                                  (`revisions.accumulated().is_some()`, `&revisions.accumulated_inputs`),
    * `discardEdges`            — `QueryRevisions::discard_edges_if_never_change`,
    * `deepEdges` returns the OR of the `Unchanged { accumulated }` answers and the deep-verify
      step stores it (`old_revisions.accumulated_inputs.store(inputs)`),
    * `accumulatedBy`           — `IngredientImpl::accumulated_by` (search by structural recursion on the
                                  call rank); `accLoop` / `accumulatedByStack` — the same with the explicit
                                  stack of accumulated.rs and fuel (proved equal in Proofs/CoreAccStack.lean).

  One accumulator type.  Single thread, acyclic programs.  Durabilities are plain `Nat`: 0 = LOW,
  1 = MEDIUM, 2 = HIGH, 3 (and above) = NEVER_CHANGE.  Revisions are plain `Nat`, `R1 = 1`.

  Ghost data (carried by the state, never read by a decision, never printed by the driver
  except `trace`): `Memo.deepAt`, `Memo.obs` entries with `recd = false` and the `val` component
  of every entry, `State.wlog`, `State.trace`.

  Core Lean only.
-/
namespace SalsaVerif.Model.CoreAcc

/-- A dependency: an input field or a (smaller) query. -/
inductive Dep where
  | inp (i : Nat)
  | qry (q : Nat)
deriving DecidableEq, Repr

/-- Query bodies are resumptions: every read of the database is a node; `push v k` accumulates
    the value `v` (`Acc(v).accumulate(db)`) and continues with `k`. -/
inductive Body where
  | ret (v : Nat)
  | read (d : Dep) (k : Nat → Body)
  | push (v : Nat) (k : Body)

/-- One read of the last execution: what was read, the value it returned (ghost) and whether
    salsa recorded an edge for it (`add_read`). -/
structure Obs where
  dep : Dep
  val : Nat
  recd : Bool
deriving DecidableEq, Repr

/-- Event stream (`zalsa.event`): `WillExecute` and `DidValidateMemoizedValue`. -/
inductive Ev where
  | exec (q : Nat)
  | valid (q : Nat)
deriving DecidableEq, Repr

-- src/function/memo.rs: struct Memo / MemoHeader / QueryRevisions
structure Memo where
  value : Nat
  /-- `verified_at` -/
  va : Nat
  /-- `revisions.changed_at` -/
  ca : Nat
  /-- `revisions.durability` -/
  dur : Nat
  /-- ghost: revision of the last execution or deep verification -/
  deepAt : Nat
  /-- the reads of the last execution in order; those with `recd` are `origin.edges` -/
  obs : List Obs
  /-- `extra.accumulated`: the values pushed by the last execution, in push order -/
  acc : List Nat
  /-- `revisions.accumulated_inputs` (`true` = `InputAccumulatedValues::Any`) -/
  accIn : Bool
deriving Repr

-- src/zalsa_local.rs: fn accumulated (`Some` iff the map is not empty) — `.is_some()`
def Memo.hasAcc (m : Memo) : Bool := !m.acc.isEmpty

-- src/input.rs: one field of an input struct (value, `revisions[f]`, `durability`)
structure Inp where
  val : Nat
  ca : Nat
  dur : Nat
deriving Repr

-- src/runtime.rs: struct Runtime (+ the memo table and the input table)
structure State where
  /-- `revisions[0]` = current revision -/
  cur : Nat
  /-- `revisions[d]` for durabilities d ≥ 1 (`last_changed_revision`) -/
  lch : Nat → Nat
  inp : Nat → Inp
  memos : Nat → Option Memo
  /-- ghost: (revision, reported durability) of every revision bump / accepted write -/
  wlog : List (Nat × Nat)
  /-- the events emitted so far, oldest first (never read by a decision) -/
  trace : List Ev

-- src/runtime.rs: fn last_changed_revision (LOW ↦ current revision)
def lc (s : State) (d : Nat) : Nat := if d = 0 then s.cur else s.lch d

-- src/function/memo.rs: fn insert_memo
def setMemo (s : State) (q : Nat) (m : Memo) : State :=
  { s with memos := fun q' => if q' = q then some m else s.memos q' }

-- src/zalsa.rs: fn event
def emit (s : State) (e : Ev) : State := { s with trace := s.trace ++ [e] }

/-- what a read reports to the reader (`report_tracked_read`): value, `changed_at`, `durability`,
    `has_accumulated`, `accumulated_inputs` -/
structure Res where
  val : Nat
  ca : Nat
  dur : Nat
  hasAcc : Bool
  accIn : Bool
deriving Repr

-- src/function/fetch.rs: fn fetch (the arguments of `report_tracked_read`)
def Memo.res (m : Memo) : Res := ⟨m.value, m.ca, m.dur, m.hasAcc, m.accIn⟩

-- src/input.rs: fn field (`report_tracked_read_simple`: no accumulator part)
def Inp.res (x : Inp) : Res := ⟨x.val, x.ca, x.dur, false, false⟩

-- src/active_query.rs: struct ActiveQuery (changed_at, durability, input_outputs, accumulated,
-- accumulated_inputs)
structure Frame where
  ca : Nat
  dur : Nat
  obs : List Obs
  acc : List Nat
  accIn : Bool

-- src/active_query.rs: fn add_read / add_read_simple.  `accumulated_inputs` of the read is `Any`
-- if the dependency has accumulated values, else its own flag; the edge is recorded if the
-- durability is not NEVER_CHANGE or that flag is `Any`; the frame's flag is OR-ed.
def Frame.push (f : Frame) (d : Dep) (r : Res) : Frame :=
  { ca := max f.ca r.ca, dur := min f.dur r.dur,
    obs := f.obs ++ [⟨d, r.val, decide (r.dur ≠ 3) || (r.hasAcc || r.accIn)⟩],
    acc := f.acc, accIn := f.accIn || (r.hasAcc || r.accIn) }

-- src/active_query.rs: fn accumulate
def Frame.accumulate (f : Frame) (v : Nat) : Frame := { f with acc := f.acc ++ [v] }

abbrev FetchFn := State → Nat → State × Res
/-- `VerifyResult`: `(changed, accumulated)`; the second component is meaningful for `Unchanged` -/
abbrev McaFn := State → Nat → Nat → State × Bool × Bool

-- src/input.rs: fn field (report_tracked_read_simple) / src/function/fetch.rs: fn fetch
def readDep (fe : FetchFn) (s : State) : Dep → State × Res
  | .inp i => (s, (s.inp i).res)
  | .qry q => fe s q

-- src/function/execute.rs: fn execute_query (the user function running against the database)
def runBody (fe : FetchFn) : Body → State → Frame → State × Frame × Nat
  | .ret v, s, f => (s, f, v)
  | .read d k, s, f =>
    let r := readDep fe s d
    runBody fe (k r.2.val) r.1 (f.push d r.2)
  | .push v k, s, f => runBody fe k s (f.accumulate v)

-- src/function/backdate.rs: fn backdate_if_appropriate (compares values and durabilities only)
def backdateCa (old : Option Memo) (v : Nat) (f : Frame) : Nat :=
  match old with
  | some o => if o.value = v ∧ o.dur ≤ f.dur then o.ca else f.ca
  | none => f.ca

-- src/active_query.rs: fn new (durability NEVER_CHANGE, changed_at R1, no edges, nothing accumulated)
def frame0 : Frame := { ca := 1, dur := 3, obs := [], acc := [], accIn := false }

-- src/zalsa_local.rs: fn discard_edges_if_never_change (non-persistence build): the edges of a
-- NEVER_CHANGE memo are dropped unless `accumulated_inputs` is `Any`.  (The memo's own accumulated
-- values play no role.)  Dropped edges stay in `obs` as ghost entries with `recd = false`.
def discardEdges (dur : Nat) (accIn : Bool) (obs : List Obs) : List Obs :=
  if dur = 3 ∧ accIn = false then obs.map fun o => { o with recd := false } else obs

-- src/function/memo.rs: Memo::new(value, current_revision, revisions)
def newMemo (v cur ca dur : Nat) (obs : List Obs) (acc : List Nat) (accIn : Bool) : Memo :=
  { value := v, va := cur, ca := ca, dur := dur, deepAt := cur, obs := obs, acc := acc, accIn := accIn }

-- src/function/execute.rs: fn execute (CycleRecoveryStrategy::Panic arm)
def execute (fe : FetchFn) (P : Nat → Body) (s : State) (q : Nat) (old : Option Memo) : State × Res :=
  let r := runBody fe (P q) (emit s (.exec q)) frame0
  let ca := backdateCa old r.2.2 r.2.1
  let m := newMemo r.2.2 r.1.cur ca r.2.1.dur (discardEdges r.2.1.dur r.2.1.accIn r.2.1.obs) r.2.1.acc r.2.1.accIn
  (setMemo r.1 q m, m.res)

-- src/key.rs: fn maybe_changed_after (input field: `revisions[f] > rev`, `Unchanged { Empty }`;
-- function: recursive)
def depChanged (mc : McaFn) (s : State) (d : Dep) (rev : Nat) : State × Bool × Bool :=
  match d with
  | .inp i => (s, decide ((s.inp i).ca > rev), false)
  | .qry q => mc s q rev

-- src/function/maybe_changed_after.rs: fn deep_verify_edges (recorded order, stop at first change;
-- `inputs |= accumulated`).  Result: (state, all unchanged?, inputs)
def deepEdges (mc : McaFn) : List Obs → State → Nat → State × Bool × Bool
  | [], s, _ => (s, true, false)
  | o :: os, s, rev =>
    if o.recd then
      let r := depChanged mc s o.dep rev
      if r.2.1 then (r.1, false, false)
      else
        let t := deepEdges mc os r.1 rev
        (t.1, t.2.1, r.2.2 || t.2.2)
    else deepEdges mc os s rev

-- src/function/memo.rs: fn mark_as_verified (event, then `verified_at := cur`)
def markVerified (s : State) (q : Nat) (m : Memo) : State :=
  setMemo (emit s (.valid q)) q { m with va := s.cur }

/-- `deep_verify_edges` stores `accumulated_inputs`, then `mark_as_verified` (the ghost `deepAt`
    moves too). -/
def markDeepVerified (s : State) (q : Nat) (m : Memo) (ai : Bool) : State :=
  setMemo (emit s (.valid q)) q { m with va := s.cur, deepAt := s.cur, accIn := ai }

-- src/function/fetch.rs: fn refresh_memo (fetch_hot, fetch_cold: shallow_verify_memo,
-- deep_verify_memo, execute)
def fetchStep (fe : FetchFn) (mc : McaFn) (P : Nat → Body) (s : State) (q : Nat) : State × Res :=
  match s.memos q with
  | none => execute fe P s q none
  | some m =>
    if m.va = s.cur then (s, m.res)
    else if lc s m.dur ≤ m.va then (markVerified s q m, m.res)
    else
      let r := deepEdges mc m.obs s m.va
      if r.2.1 then (markDeepVerified r.1 q m r.2.2, ⟨m.value, m.ca, m.dur, m.hasAcc, r.2.2⟩)
      else execute fe P r.1 q (some m)

-- src/function/maybe_changed_after.rs: fn maybe_changed_after (+ _hot, _cold);
-- `VerifyResult::unchanged_for_memo`: `Any` if the memo has accumulated values, else its flag
def mcaStep (fe : FetchFn) (mc : McaFn) (P : Nat → Body) (s : State) (q : Nat) (rev : Nat) : State × Bool × Bool :=
  match s.memos q with
  | none => (s, true, false)
  | some _ =>
    let r := fetchStep fe mc P s q
    (r.1, decide (r.2.ca > rev), r.2.hasAcc || r.2.accIn)

/-- The engine by structural recursion on the call rank: level `r + 1` handles query `r` with
    level `r` as the engine for its callees. -/
def eng (P : Nat → Body) : Nat → FetchFn × McaFn
  | 0 => (fun s _ => (s, ⟨0, 0, 0, false, false⟩), fun s _ _ => (s, true, false))
  | r + 1 =>
    let sub := eng P r
    (fun s q => if q < r then sub.1 s q else if q = r then fetchStep sub.1 sub.2 P s q else (s, ⟨0, 0, 0, false, false⟩),
     fun s q rev => if q < r then sub.2 s q rev else if q = r then mcaStep sub.1 sub.2 P s q rev else (s, true, false))

-- src/function/fetch.rs: fn fetch
def fetch (P : Nat → Body) (s : State) (q : Nat) : State × Res := (eng P (q + 1)).1 s q

/-! ### `accumulated_by`

  src/function/accumulated.rs: `fn accumulated_by` is an explicit-stack depth-first search with a
  visited set: pop `k`; skip if visited; `ingredient.accumulated(db, k)` (for a function:
  `refresh_memo`, which may emit events; for an input: `(None, Empty)`); append its values; if its
  `accumulated_inputs` flag is `Empty` skip the sub-graph; else push `origin.inputs()` in reverse so
  that the first-read dependency is popped first.

  Here the stack is the recursion: `accVisitEdges` walks the recorded edges of one key in order and
  `accVisit` is the body of the loop for one popped key, by structural recursion on the call rank
  (level `r + 1` handles query `r`; its edges go to queries `< r`).  The sequence of visited-set
  tests, `refresh_memo` calls and output extensions is that of the explicit stack. -/

abbrev VisitFn := State → Dep → List Dep → State × List Dep × List Nat

/-- `stack.extend(origin.inputs().rev())` followed by the pops of these entries -/
def accVisitEdges (visit : VisitFn) : List Obs → State → List Dep → State × List Dep × List Nat
  | [], s, vis => (s, vis, [])
  | o :: os, s, vis =>
    if o.recd then
      let r := visit s o.dep vis
      let t := accVisitEdges visit os r.1 r.2.1
      (t.1, t.2.1, r.2.2 ++ t.2.2)
    else accVisitEdges visit os s vis

/-- one iteration of `while let Some(k) = stack.pop()` together with the iterations for the keys
    it pushes -/
def accVisit (P : Nat → Body) : Nat → VisitFn
  | 0 => fun s d vis =>
    if d ∈ vis then (s, vis, [])
    else match d with
      | .inp _ => (s, d :: vis, [])
      | .qry _ => (s, vis, [])
  | r + 1 => fun s d vis =>
    if d ∈ vis then (s, vis, [])
    else match d with
      | .inp _ => (s, d :: vis, [])
      | .qry k =>
        if k < r then accVisit P r s d vis
        else if k = r then
          -- `accumulated_map`: `refresh_memo`, then the memo's map and flag
          let f := (eng P (r + 1)).1 s r
          match f.1.memos r with
          | none => (f.1, d :: vis, [])
          | some m =>
            if m.accIn then
              let t := accVisitEdges (accVisit P r) m.obs f.1 (d :: vis)
              (t.1, t.2.1, m.acc ++ t.2.2)
            else (f.1, d :: vis, m.acc)
        else (s, vis, [])

-- src/function/accumulated.rs: fn accumulated_by (`fetch`, then the search from `key`)
def accumulatedBy (P : Nat → Body) (s : State) (q : Nat) : State × List Nat :=
  let f := fetch P s q
  let t := accVisit P (q + 1) f.1 (.qry q) []
  (t.1, t.2.2)

/-! The same search with the explicit stack of accumulated.rs and explicit fuel (one unit per
    `stack.pop()`); `Proofs/CoreAccStack.lean` shows that with enough fuel it is `accumulatedBy`. -/

-- src/zalsa_local.rs: fn inputs (`origin.inputs()`): the recorded edges, in order
def Memo.inputs (m : Memo) : List Dep := (m.obs.filter (·.recd)).map (·.dep)

/-- `while let Some(k) = stack.pop() { … }`: the head of the list is the top of the stack, so
    `stack.extend(origin.inputs().rev())` is `m.inputs ++ rest`.  `none` = out of fuel. -/
def accLoop (P : Nat → Body) : Nat → State → List Dep → List Dep → List Nat → Option (State × List Nat)
  | 0, _, _, _, _ => none
  | _ + 1, s, [], _, out => some (s, out)
  | n + 1, s, d :: rest, vis, out =>
    if d ∈ vis then accLoop P n s rest vis out
    else match d with
      | .inp _ => accLoop P n s rest (d :: vis) out
      | .qry k =>
        let f := fetch P s k
        match f.1.memos k with
        | none => accLoop P n f.1 rest (d :: vis) out
        | some m =>
          if m.accIn then accLoop P n f.1 (m.inputs ++ rest) (d :: vis) (out ++ m.acc)
          else accLoop P n f.1 rest (d :: vis) (out ++ m.acc)

def accumulatedByStack (P : Nat → Body) (fuel : Nat) (s : State) (q : Nat) : Option (State × List Nat) :=
  accLoop P fuel (fetch P s q).1 [.qry q] [] []

/-! ### Writes -/

-- src/input.rs: fn set_field (after `zalsa_mut(); new_revision()`); src/runtime.rs:
-- fn report_tracked_write.  Rejected (only the revision advances) when the field is NEVER_CHANGE.
def write (s : State) (i : Nat) (v : Nat) (nd : Option Nat) : State :=
  let cur' := s.cur + 1
  let x := s.inp i
  if x.dur ≥ 3 then { s with cur := cur', wlog := (cur', 0) :: s.wlog }
  else
    { s with
      cur := cur'
      lch := fun k => if k ≤ x.dur then cur' else s.lch k
      inp := fun j => if j = i then ⟨v, cur', (match nd with | some d => d | none => x.dur)⟩ else s.inp j
      wlog := (cur', x.dur) :: (cur', 0) :: s.wlog }

/-- does `write s i …` panic (`assert old durability ≠ NEVER_CHANGE`, after the revision bump)? -/
def writePanics (s : State) (i : Nat) : Bool := decide ((s.inp i).dur ≥ 3)

-- src/storage.rs / src/runtime.rs: fn synthetic_write = new_revision(); report_tracked_write(d)
def synth (s : State) (d : Nat) : State :=
  let cur' := s.cur + 1
  if d ≥ 3 then { s with cur := cur', wlog := (cur', 0) :: s.wlog }
  else { s with cur := cur', lch := fun k => if k ≤ d then cur' else s.lch k, wlog := (cur', d) :: (cur', 0) :: s.wlog }

/-- does `synth s d` panic (`report_tracked_write(NEVER_CHANGE)`)? -/
def synthPanics (d : Nat) : Bool := decide (d ≥ 3)

/-! ### Histories -/

inductive Op where
  | get (q : Nat)
  | set (i : Nat) (v : Nat) (nd : Option Nat)
  | synth (d : Nat)
  | acc (q : Nat)
deriving Repr

def step (P : Nat → Body) (s : State) : Op → State
  | .get q => (fetch P s q).1
  | .set i v nd => write s i v nd
  | .synth d => synth s d
  | .acc q => (accumulatedBy P s q).1

/-- Fresh database: revision R1, the given input values and durabilities, `changed_at = R1`. -/
def init (inp : Nat → Inp) : State :=
  { cur := 1, lch := fun _ => 1, inp := fun i => ⟨(inp i).val, 1, (inp i).dur⟩,
    memos := fun _ => none, wlog := [], trace := [] }

def run (P : Nat → Body) (inp : Nat → Inp) (ops : List Op) : State := ops.foldl (step P) (init inp)

/-- an answer of the history: a value (`get`) or a list of accumulated values (`acc`) -/
inductive Out where
  | val (v : Nat)
  | acc (l : List Nat)
deriving DecidableEq, Repr

/-- the answers of the `get` and `acc` operations of a history, in order -/
def outputs (P : Nat → Body) : State → List Op → List Out
  | _, [] => []
  | s, .get q :: ops => .val (fetch P s q).2.val :: outputs P (fetch P s q).1 ops
  | s, .set i v nd :: ops => outputs P (write s i v nd) ops
  | s, .synth d :: ops => outputs P (synth s d) ops
  | s, .acc q :: ops => .acc (accumulatedBy P s q).2 :: outputs P (accumulatedBy P s q).1 ops

/-! ### Reference semantics (from scratch, no memo table) -/

def evalB (sem : Dep → Nat) : Body → Nat
  | .ret v => v
  | .read d k => evalB sem (k (sem d))
  | .push _ k => evalB sem k

/-- the values pushed by a from-scratch evaluation of the body, in push order -/
def evalAcc (sem : Dep → Nat) : Body → List Nat
  | .ret _ => []
  | .read d k => evalAcc sem (k (sem d))
  | .push v k => v :: evalAcc sem k

/-- the functions called by a from-scratch evaluation of the body, in call order (with repetitions) -/
def depCall : Dep → List Nat
  | .inp _ => []
  | .qry q => [q]

def evalCalls (sem : Dep → Nat) : Body → List Nat
  | .ret _ => []
  | .read d k => depCall d ++ evalCalls sem (k (sem d))
  | .push _ k => evalCalls sem k

def semAt (P : Nat → Body) (inp : Nat → Inp) : Nat → Nat → Nat
  | 0, _ => 0
  | r + 1, q =>
    if q < r then semAt P inp r q
    else if q = r then
      evalB (fun d => match d with | .inp i => (inp i).val | .qry q' => semAt P inp r q') (P q)
    else 0

def sem (P : Nat → Body) (inp : Nat → Inp) (q : Nat) : Nat := semAt P inp (q + 1) q

/-- value of a dependency over the current inputs -/
def semDep (P : Nat → Body) (inp : Nat → Inp) : Dep → Nat
  | .inp i => (inp i).val
  | .qry q => sem P inp q

/-- the from-scratch pushes of `q` -/
def pushesOf (P : Nat → Body) (inp : Nat → Inp) (q : Nat) : List Nat := evalAcc (semDep P inp) (P q)

/-- the from-scratch callees of `q` in call order -/
def callsOf (P : Nat → Body) (inp : Nat → Inp) (q : Nat) : List Nat := evalCalls (semDep P inp) (P q)

/-- visit the callees in order, threading the visited list -/
def refVisitL (visit : Nat → List Nat → List Nat × List Nat) : List Nat → List Nat → List Nat × List Nat
  | [], vis => (vis, [])
  | c :: cs, vis =>
    let r := visit c vis
    let t := refVisitL visit cs r.1
    (t.1, r.2 ++ t.2)

/-- preorder of the from-scratch call tree: a function contributes its own pushes at its first
    visit, then its callees are visited in call order (structural recursion on the call rank) -/
def refVisit (P : Nat → Body) (inp : Nat → Inp) : Nat → Nat → List Nat → List Nat × List Nat
  | 0 => fun _ vis => (vis, [])
  | r + 1 => fun q vis =>
    if q ∈ vis then (vis, [])
    else if q < r then refVisit P inp r q vis
    else if q = r then
      let t := refVisitL (refVisit P inp r) (callsOf P inp q) (q :: vis)
      (t.1, pushesOf P inp q ++ t.2)
    else (vis, [])

/-- **Reference semantics of `accumulated`**: own pushes first, then the callees in first-call
    order, every function once. -/
def refAcc (P : Nat → Body) (inp : Nat → Inp) (q : Nat) : List Nat := (refVisit P inp (q + 1) q []).2

/-! The from-scratch oracle for histories: the environment is (value, durability) per input —
    the durability only decides whether a write is rejected; no revisions, no memos. -/

def refInp (env : Nat → Nat × Nat) : Nat → Inp := fun i => ⟨(env i).1, 0, (env i).2⟩

def refWrite (env : Nat → Nat × Nat) (i v : Nat) (nd : Option Nat) : Nat → Nat × Nat :=
  if (env i).2 ≥ 3 then env
  else fun j => if j = i then (v, match nd with | some d => d | none => (env i).2) else env j

def refOutputs (P : Nat → Body) : (Nat → Nat × Nat) → List Op → List Out
  | _, [] => []
  | env, .get q :: ops => .val (sem P (refInp env) q) :: refOutputs P env ops
  | env, .set i v nd :: ops => refOutputs P (refWrite env i v nd) ops
  | env, .synth _ :: ops => refOutputs P env ops
  | env, .acc q :: ops => .acc (refAcc P (refInp env) q) :: refOutputs P env ops

/-! ### The program language of the line protocol (DESIGN §2.2), compiled to `Body` by CPS -/

inductive Expr where
  | const (n : Nat)
  | inp (k : Nat)
  | qry (j : Nat)
  | add (a b : Expr)
  | min (a b : Expr)
  | max (a b : Expr)
  | ite (c a b : Expr)
  | pu (a : Expr)
deriving Repr

/-- left-to-right evaluation; `ite` evaluates the condition, then only the taken branch; `pu a`
    evaluates `a`, pushes its value and continues with that value -/
def compile : Expr → (Nat → Body) → Body
  | .const n, k => k n
  | .inp i, k => .read (.inp i) k
  | .qry j, k => .read (.qry j) k
  | .add a b, k => compile a fun x => compile b fun y => k ((x + y) % 4)
  | .min a b, k => compile a fun x => compile b fun y => k (Nat.min x y)
  | .max a b, k => compile a fun x => compile b fun y => k (Nat.max x y)
  | .ite c a b, k => compile c fun x => if x % 2 = 1 then compile a k else compile b k
  | .pu a, k => compile a fun x => .push x (k x)

/-- every called query is smaller than `r` -/
def Expr.callsBelow (r : Nat) : Expr → Bool
  | .const _ => true
  | .inp _ => true
  | .qry j => decide (j < r)
  | .add a b => a.callsBelow r && b.callsBelow r
  | .min a b => a.callsBelow r && b.callsBelow r
  | .max a b => a.callsBelow r && b.callsBelow r
  | .ite c a b => c.callsBelow r && a.callsBelow r && b.callsBelow r
  | .pu a => a.callsBelow r

/-- the program defined by a list of expressions (query `q` = `es[q]`; undefined queries return 0) -/
def progOf (es : List Expr) (q : Nat) : Body :=
  match es[q]? with
  | some e => compile e .ret
  | none => .ret 0

/-- `Wf` as a Bool: query `q` calls only queries `< q` -/
def wfList : Nat → List Expr → Bool
  | _, [] => true
  | r, e :: es => e.callsBelow r && wfList (r + 1) es

end SalsaVerif.Model.CoreAcc
