/-
  Executable model of salsa's wait-for graph (`DependencyGraph`, src/runtime/dependency_graph.rs),
  the `Runtime` wrappers that use it (src/runtime.rs: `block`, `block_transferred`,
  `BlockOnTransferredOwner::block`, `Running::block_on`) and the per-key sync table
  (src/function/sync.rs).  One Lean function per Rust function, following DESIGN.md Appendix B
  line by line.  Core Lean only.

  Representation
  * thread ids and key ids are plain `Nat`.
  * the five maps of `DependencyGraph` are functions:
      `edges       : thread → Option thread`          (`edges`, only `blocked_on_id` is kept)
      `qdeps       : key → List thread`               (`query_dependents`; `[]` = no entry — the
                                                       Rust code never stores an empty vector)
      `results     : thread → Option WaitResult`      (`wait_results`)
      `transferred : key → Option (thread × key)`     (`transferred`)
      `tdeps       : key → Option (List key)`         (`transferred_dependents`; `some []` is a
                                                       present-but-empty entry, which matters for
                                                       the `.get_mut(..).unwrap()` calls)
    lists keep the Rust order (`push` appends, `swap_remove` is `swapRemoveAt`).
  * `sync : key → Option SyncState` is the `SyncTable` (all shards merged).
  * `bound` is a GHOST field: a strict upper bound on every id mentioned so far.  It is only used
    (a) as fuel for the Rust `while`/recursive loops and (b) by the driver to enumerate the maps.
    Every loop returns `none` when it runs out of fuel (Rust: the loop would not terminate).
  * every `assert!`, `debug_assert!`, `.unwrap()`, `.expect()` of the Rust code is an explicit
    `none` result ("not enabled"); nothing is silently defaulted.
-/
namespace SalsaVerif.Model.SyncDG

/-- Point update of a map represented as a function. -/
def upd {α : Type} (f : Nat → α) (k : Nat) (v : α) : Nat → α := fun x => if x = k then v else f x

@[simp] theorem upd_same {α : Type} (f : Nat → α) (k : Nat) (v : α) : upd f k v k = v := by
  simp [upd]

@[simp] theorem upd_other {α : Type} (f : Nat → α) (k x : Nat) (v : α) (h : x ≠ k) :
    upd f k v x = f x := by
  simp [upd, h]

theorem upd_apply {α : Type} (f : Nat → α) (k x : Nat) (v : α) :
    upd f k v x = if x = k then v else f x := rfl

-- src/runtime.rs: enum WaitResult
inductive WaitResult
  | completed
  | panicked
  | cancelled
  deriving DecidableEq, Repr, Inhabited

-- src/function/sync.rs: enum SyncOwner
inductive SyncOwner
  | thread (t : Nat)
  | transferred
  deriving DecidableEq, Repr

-- src/function/sync.rs: struct SyncState (the `key` field is the map key)
structure SyncState where
  owner : SyncOwner
  anyoneWaiting : Bool
  isTransferTarget : Bool
  claimedTwice : Bool
  deriving DecidableEq, Repr

structure State where
  edges : Nat → Option Nat
  qdeps : Nat → List Nat
  results : Nat → Option WaitResult
  transferred : Nat → Option (Nat × Nat)
  tdeps : Nat → Option (List Nat)
  sync : Nat → Option SyncState
  bound : Nat

def init : State :=
  { edges := fun _ => none, qdeps := fun _ => [], results := fun _ => none,
    transferred := fun _ => none, tdeps := fun _ => none, sync := fun _ => none, bound := 0 }

/-- Ghost: record that id `n` has been mentioned. -/
def touch (s : State) (n : Nat) : State := { s with bound := max s.bound (n + 1) }

/-- `transferred_dependents.get(k)` flattened (`None` ↦ `[]`). -/
def tdepsL (s : State) (k : Nat) : List Nat := (s.tdeps k).getD []

/-! ### Small-vector helpers -/

-- smallvec: fn swap_remove (precondition `i < len`, checked by the callers below)
def swapRemoveAt (l : List Nat) (i : Nat) : List Nat :=
  match l.getLast? with
  | none => l
  | some x => (l.set i x).dropLast

-- src/runtime/dependency_graph.rs: fn SmallSet::remove
def smallSetRemove (l : List Nat) (v : Nat) : List Nat :=
  match l.findIdx? (· == v) with
  | some i => swapRemoveAt l i
  | none => l

/-! ### `Edges` -/

-- src/runtime/dependency_graph.rs: fn Edges::depends_on   (the `while let` loop)
def dependsOnLoop (edges : Nat → Option Nat) (to : Nat) : Nat → Nat → Option Bool
  | 0, _ => none
  | fuel + 1, p =>
    match edges p with
    | some q => if q = to then some true else dependsOnLoop edges to fuel q
    | none => some (decide (p = to))

-- src/runtime/dependency_graph.rs: fn depends_on   (`none` = the walk does not terminate)
def dependsOn (s : State) (fromId toId : Nat) : Option Bool :=
  dependsOnLoop s.edges toId (s.bound + 1) fromId

/-! ### `DependencyGraph` -/

-- src/runtime/dependency_graph.rs: fn add_edge
def addEdge (s : State) (fromId key toId : Nat) : Option State :=
  if fromId = toId then none                       -- assert_ne!(from_id, to_id)
  else if (s.edges fromId).isSome then none        -- debug_assert!(!self.edges.contains_key(&from_id))
  else
    match dependsOn s toId fromId with             -- debug_assert!(!self.depends_on(to_id, from_id))
    | some false =>
      some { s with edges := upd s.edges fromId (some toId),
                    qdeps := upd s.qdeps key (s.qdeps key ++ [fromId]) }
    | _ => none

-- src/runtime/dependency_graph.rs: fn unblock_runtime   (edge removed, then result stored)
def unblockRuntime (s : State) (id : Nat) (r : WaitResult) : Option State :=
  match s.edges id with
  | none => none                                   -- .expect("not blocked")
  | some _ => some { s with edges := upd s.edges id none, results := upd s.results id (some r) }

/-- The `for from_id in dependents` loop of `unblock_runtimes_blocked_on`. -/
def unblockAll (r : WaitResult) : State → List Nat → Option State
  | s, [] => some s
  | s, t :: ts =>
    match unblockRuntime s t r with
    | none => none
    | some s' => unblockAll r s' ts

-- src/runtime/dependency_graph.rs: fn unblock_runtimes_blocked_on
def unblockRuntimesBlockedOn (s : State) (key : Nat) (r : WaitResult) : Option State :=
  unblockAll r { s with qdeps := upd s.qdeps key [] } (s.qdeps key)

/-- `self.transferred_dependents.get_mut(&owner).unwrap().remove(&key)` -/
def tdepsRemove (s : State) (owner key : Nat) : Option State :=
  match s.tdeps owner with
  | none => none                                   -- .unwrap()
  | some l => some { s with tdeps := upd s.tdeps owner (some (smallSetRemove l key)) }

/-- `self.transferred_dependents.get_mut(&owner).unwrap().push(key)` (`SmallSet::push`) -/
def tdepsPush (s : State) (owner key : Nat) : Option State :=
  match s.tdeps owner with
  | none => none                                   -- .unwrap()
  | some l =>
    if l.contains key then none                    -- debug_assert!(!self.0.contains(&value))
    else some { s with tdeps := upd s.tdeps owner (some (l ++ [key])) }

/-- One iteration list of `unblock_recursive`: `for query in dependents { unblock_on; recurse }`. -/
def forEachDep (f : State → Nat → Option State) : State → List Nat → Option State
  | s, [] => some s
  | s, d :: ds =>
    match f s d with
    | none => none
    | some s' => forEachDep f s' ds

-- src/runtime/dependency_graph.rs: fn unblock_recursive (inner fn of
-- unblock_runtimes_blocked_on_transferred_queries_owned_by); fuel = recursion depth
def unblockRecursive (r : WaitResult) : Nat → State → Nat → Option State
  | 0, _, _ => none
  | fuel + 1, s, query =>
    let deps := tdepsL s query
    let s1 := { s with transferred := upd s.transferred query none, tdeps := upd s.tdeps query none }
    forEachDep (fun s q =>
      match unblockRuntimesBlockedOn s q r with
      | none => none
      | some s' => unblockRecursive r fuel s' q) s1 deps

-- src/runtime/dependency_graph.rs: fn undo_transfer_lock
def undoTransferLock (s : State) (key : Nat) : Option State :=
  match s.transferred key with
  | none => some s
  | some (_, owner) => tdepsRemove { s with transferred := upd s.transferred key none } owner key

-- src/runtime/dependency_graph.rs: fn unblock_runtimes_blocked_on_transferred_queries_owned_by
def unblockTransferredOwnedBy (s : State) (key : Nat) (r : WaitResult) : Option State :=
  match undoTransferLock s key with                -- the same `if let Some((_, owner)) = …remove` block
  | none => none
  | some s1 => unblockRecursive r (s.bound + 1) s1 key

/-- The `while let Some(..) = self.transferred.get(&current_owner)` loop of
    `thread_id_of_transferred_query`. -/
def resolveLoop (tr : Nat → Option (Nat × Nat)) (skip : Option Nat) : Nat → Nat → Nat → Option Nat
  | 0, _, _ => none
  | fuel + 1, cur, resolved =>
    match tr cur with
    | none => some resolved
    | some (nt, nk) => resolveLoop tr skip fuel nk (if some nk = skip then resolved else nt)

-- src/runtime/dependency_graph.rs: fn thread_id_of_transferred_query
-- outer `none` = loop does not terminate; `some none` = Rust `None`
def threadIdOfTransferredQuery (s : State) (key : Nat) (skip : Option Nat) : Option (Option Nat) :=
  match s.transferred key with
  | none => some none
  | some (rt, owner) =>
    match resolveLoop s.transferred skip (s.bound + 1) owner rt with
    | none => none
    | some t => some (some t)

/-- `find_blocked_thread`: the scan of one `query_dependents` list. -/
def findIdx (s : State) (newOwner : Nat) : List Nat → Nat → Option (Option Nat)
  | [], _ => some none
  | t :: ts, i =>
    if t = newOwner then some (some i)
    else
      match dependsOn s newOwner t with
      | none => none
      | some true => some (some i)
      | some false => findIdx s newOwner ts (i + 1)

/-- `.find_map(..)` over the transferred dependents. -/
def findFirst {α : Type} (f : Nat → Option (Option α)) : List Nat → Option (Option α)
  | [] => some none
  | d :: ds =>
    match f d with
    | none => none
    | some (some r) => some (some r)
    | some none => findFirst f ds

-- src/runtime/dependency_graph.rs: fn find_blocked_thread (inner fn of unblock_transfer_target)
def findBlockedThread (s : State) (newOwner : Nat) : Nat → Nat → Option (Option (Nat × Nat))
  | 0, _ => none
  | fuel + 1, query =>
    match findIdx s newOwner (s.qdeps query) 0 with
    | none => none
    | some (some i) => some (some (query, i))
    | some none => findFirst (fun d => findBlockedThread s newOwner fuel d) (tdepsL s query)

-- src/runtime/dependency_graph.rs: fn unblock_transfer_target
def unblockTransferTarget (s : State) (source newOwner : Nat) : Option State :=
  match findBlockedThread s newOwner (s.bound + 1) source with
  | none => none
  | some none => some s
  | some (some (q, i)) =>
    match (s.qdeps q)[i]? with
    | none => none
    | some t =>
      -- swap_remove(i); the entry disappears when the list becomes empty (`[]` = no entry)
      unblockRuntime { s with qdeps := upd s.qdeps q (swapRemoveAt (s.qdeps q) i) } t .completed

/-- The `for dependent in dependents.iter()` loop of `update_transferred_edges`. -/
def repointEdges (newThread : Nat) : State → List Nat → Option State
  | s, [] => some s
  | s, t :: ts =>
    match s.edges t with
    | none => none                                 -- edges.get_mut(dependent).unwrap()
    | some _ =>
      let s' := { s with edges := upd s.edges t (some newThread) }
      match dependsOn s' newThread t with          -- debug_assert!(!edges.depends_on(new_owner_thread, *dependent))
      | some false => repointEdges newThread s' ts
      | _ => none

-- src/runtime/dependency_graph.rs: fn update_transferred_edges (fuel = recursion depth)
def updateTransferredEdges (newThread : Nat) : Nat → State → Nat → Option State
  | 0, _, _ => none
  | fuel + 1, s, query =>
    match repointEdges newThread s (s.qdeps query) with
    | none => none
    | some s1 => forEachDep (fun s d => updateTransferredEdges newThread fuel s d) s1 (tdepsL s1 query)

inductive TransferKind
  | noop      -- early `return false`: same (thread, owner) as before and the owner runs on this thread
  | same      -- entry written, `thread_changed = false`
  | changed   -- `thread_changed = true`: entry written, or same entry as before but owned by another thread
  deriving DecidableEq, Repr

/-- The re-pointing `while let Entry::Occupied` loop of `transfer_lock`. -/
def repointLoop (s : State) (query oldThread oldOwner newOwner : Nat) : Nat → Nat → Option State
  | 0, _ => none
  | fuel + 1, seg =>
    match s.transferred seg with
    | none => some s
    | some (_, nextTarget) =>
      if nextTarget = query then
        match tdepsRemove s query seg with
        | none => none
        | some s1 =>
          if oldOwner = newOwner then some { s1 with transferred := upd s1.transferred seg none }
          else tdepsPush { s1 with transferred := upd s1.transferred seg (some (oldThread, oldOwner)) }
                 oldOwner seg
      else repointLoop s query oldThread oldOwner newOwner fuel nextTarget

/-- `new_owner_thread` of `transfer_lock`. -/
def newOwnerThread (s : State) (query newOwner : Nat) (ownerId : SyncOwner) : Option Nat :=
  match ownerId with
  | .thread t => some t
  | .transferred =>
    match threadIdOfTransferredQuery s newOwner (some query) with
    | some (some t) => some t
    | _ => none                                    -- .expect("new owner should be blocked on `query`")

/-- `debug_assert!(new_owner_thread == current_thread || dg.depends_on(new_owner_thread, current_thread))` -/
def transferPre (s : State) (nt cur : Nat) : Option Bool :=
  if nt = cur then some true else dependsOn s nt cur

/-- The `match dg.transferred.entry(query)` block of `transfer_lock`.
    `some none` = the early `return false` (same `(thread, owner)` as before);
    `some (some (s', thread_changed))` otherwise. -/
def transferEntry (s : State) (query cur newOwner nt : Nat) : Option (Option (State × Bool)) :=
  match s.transferred query with
  | none =>                                        -- Entry::Vacant
    some (some ({ s with transferred := upd s.transferred query (some (nt, newOwner)) },
                decide (cur ≠ nt)))
  | some (oldThread, oldOwner) =>                  -- Entry::Occupied
    if oldThread = nt ∧ oldOwner = newOwner then some none
    else
      match tdepsRemove s oldOwner query with
      | none => none
      | some s1 =>
        let s2 := { s1 with transferred := upd s1.transferred query (some (nt, newOwner)) }
        match repointLoop s2 query oldThread oldOwner newOwner (s.bound + 1) newOwner with
        | none => none
        | some s3 => some (some (s3, true))

/-- `let all_dependents = dg.transferred_dependents.entry(new_owner).or_default(); … push(query)` -/
def registerDependent (s : State) (query newOwner : Nat) : Option State :=
  let l := tdepsL s newOwner
  if l.contains newOwner then none                 -- debug_assert!(!all_dependents.contains(&new_owner))
  else if l.contains query then none               -- SmallSet::push: debug_assert!(!self.0.contains(&value))
  else some { s with tdeps := upd s.tdeps newOwner (some (l ++ [query])) }

/-- The `if thread_changed { … }` block of `transfer_lock` without its `block_on`. -/
def afterTransfer (s : State) (query nt : Nat) : Option State :=
  match unblockTransferTarget s query nt with
  | none => none
  | some s1 => updateTransferredEdges nt (s1.bound + 1) s1 query

-- src/runtime/dependency_graph.rs: fn transfer_lock, everything before the final `block_on`
def transferLockCore (s : State) (query cur newOwner : Nat) (ownerId : SyncOwner) :
    Option (State × TransferKind × Nat) :=
  match newOwnerThread s query newOwner ownerId with
  | none => none
  | some nt =>
    match transferPre s nt cur with
    | some true =>
      match transferEntry s query cur newOwner nt with
      | none => none
      | some none =>
        -- same `(thread, owner)` as before: the transfer maps are up to date.  A no-op when the owner
        -- runs on this thread.  Otherwise `cur` had re-claimed `query` and the threads that blocked on
        -- it meanwhile point at `cur`: they are handed over as for a first transfer (the dependent is
        -- not registered again).  Before this repair the early return was unconditional.
        if cur = nt then some (s, .noop, nt)
        else
          match afterTransfer s query nt with
          | none => none
          | some s7 => some (s7, .changed, nt)
      | some (some (s4, changed)) =>
        match registerDependent s4 query newOwner with
        | none => none
        | some s5 =>
          if changed then
            match afterTransfer s5 query nt with
            | none => none
            | some s7 => some (s7, .changed, nt)
          else some (s5, .same, nt)
    | _ => none

-- src/runtime/dependency_graph.rs: fn transfer_lock (returns `true` iff it blocked)
def transferLock (s : State) (query cur newOwner : Nat) (ownerId : SyncOwner) :
    Option (State × TransferKind × Bool) :=
  match transferLockCore s query cur newOwner ownerId with
  | none => none
  | some (s1, .changed, nt) =>
    if cur = nt then some (s1, .changed, false)
    else
      match dependsOn s1 nt cur with
      | none => none
      | some true => some (s1, .changed, false)
      | some false =>
        match addEdge s1 cur newOwner nt with      -- Self::block_on(me, current_thread, new_owner, new_owner_thread, guard)
        | none => none
        | some s2 => some (s2, .changed, true)
  | some (s1, kind, _) => some (s1, kind, false)

/-! ### `Runtime` / `SyncTable` -/

-- src/function/sync.rs: enum ClaimResult
inductive ClaimAnswer
  | claimed
  | running (other : Nat)
  | cycle (inner : Bool)
  deriving DecidableEq, Repr

-- src/runtime.rs: fn Runtime::block / fn BlockOnTransferredOwner::block
def block (s : State) (me other : Nat) : Option ClaimAnswer :=
  if me = other then some (.cycle false)
  else
    match dependsOn s other me with
    | none => none
    | some true => some (.cycle false)
    | some false => some (.running other)

-- src/runtime.rs: enum BlockTransferredResult
inductive BlockTransferredResult
  | imTheOwner
  | ownedBy (other : Nat)
  | released
  deriving DecidableEq, Repr

-- src/runtime.rs: fn block_transferred
def blockTransferred (s : State) (query cur : Nat) : Option BlockTransferredResult :=
  match threadIdOfTransferredQuery s query none with
  | none => none
  | some none => some .released
  | some (some owner) =>
    if owner = cur then some .imTheOwner
    else
      match dependsOn s owner cur with
      | none => none
      | some true => some .imTheOwner
      | some false => some (.ownedBy owner)

def setWaiting (s : State) (k : Nat) (st : SyncState) : State :=
  { s with sync := upd s.sync k (some { st with anyoneWaiting := true }) }

def freshClaim (t : Nat) : SyncState :=
  { owner := .thread t, anyoneWaiting := false, isTransferTarget := false, claimedTwice := false }

-- src/function/sync.rs: fn try_claim_transferred (+ the `Err(other_thread) => other_thread.block(write)` arm)
def tryClaimTransferred (s : State) (t k : Nat) (st : SyncState) (reentrant : Bool) :
    Option (State × ClaimAnswer) :=
  match blockTransferred s k t with
  | none => none
  | some .imTheOwner =>
    if reentrant then
      if st.claimedTwice then none                 -- debug_assert!(!*claimed_twice)
      else some ({ s with sync := upd s.sync k (some { st with owner := .thread t, claimedTwice := true }) },
                 .claimed)
    else some (s, .cycle true)
  | some (.ownedBy other) =>
    let s1 := setWaiting s k st
    match block s1 t other with
    | none => none
    | some a => some (s1, a)
  | some .released => some ({ s with sync := upd s.sync k (some (freshClaim t)) }, .claimed)

-- src/function/sync.rs: fn try_claim
def tryClaim (s : State) (t k : Nat) (reentrant : Bool) : Option (State × ClaimAnswer) :=
  match s.sync k with
  | none => some ({ s with sync := upd s.sync k (some (freshClaim t)) }, .claimed)
  | some st =>
    match st.owner with
    | .thread id =>
      let s1 := setWaiting s k st
      match block s1 t id with
      | none => none
      | some a => some (s1, a)
    | .transferred => tryClaimTransferred s t k st reentrant

-- src/function/sync.rs: fn peek_claim_transferred
def peekClaimTransferred (s : State) (t k : Nat) (st : SyncState) (reentrant : Bool) :
    Option (State × ClaimAnswer) :=
  match blockTransferred s k t with
  | none => none
  | some .imTheOwner => if reentrant then some (s, .claimed) else some (s, .cycle true)
  | some (.ownedBy other) =>
    let s1 := setWaiting s k st
    match block s1 t other with
    | none => none
    | some a => some (s1, a)
  | some .released => some (s, .claimed)

-- src/function/sync.rs: fn peek_claim
def peekClaim (s : State) (t k : Nat) (reentrant : Bool) : Option (State × ClaimAnswer) :=
  match s.sync k with
  | none => some (s, .claimed)
  | some st =>
    match st.owner with
    | .thread id =>
      let s1 := setWaiting s k st
      match block s1 t id with
      | none => none
      | some a => some (s1, a)
    | .transferred => peekClaimTransferred s t k st reentrant

-- src/function/sync.rs: fn ClaimGuard::release   (the entry has already been removed by the caller)
def release (s : State) (k : Nat) (st : SyncState) (r : WaitResult) : Option State :=
  if !st.anyoneWaiting then some s
  else
    match (if st.claimedTwice then undoTransferLock s k else some s) with
    | none => none
    | some s1 =>
      match unblockRuntimesBlockedOn s1 k r with
      | none => none
      | some s2 => if st.isTransferTarget then unblockTransferredOwnedBy s2 k r else some s2

-- src/function/sync.rs: fn drop_impl (ReleaseMode::Default, `r = completed`) and fn release_panicking
-- (`r = panicked | cancelled`): remove the entry, then `release`
def releaseEntry (s : State) (k : Nat) (r : WaitResult) : Option State :=
  match s.sync k with
  | none => none                                   -- .expect("key should only be claimed/released once")
  | some st => release { s with sync := upd s.sync k none } k st r

-- src/runtime.rs: fn is_owner_of_transferred_query
-- (`thread_id_of_transferred_query(query, None) == Some(thread_id)`; `none` = the walk does not terminate)
def isOwnerOfTransferredQuery (s : State) (query t : Nat) : Option Bool :=
  match threadIdOfTransferredQuery s query none with
  | none => none
  | some r => some (decide (r = some t))

-- src/function/sync.rs: fn release_self   (`t` = `thread::current().id()`)
def releaseSelf (s : State) (t k : Nat) : Option State :=
  match s.sync k with
  | none => none                                   -- panic!("key should only be claimed/released once")
  | some st =>
    if st.claimedTwice then
      -- hand the re-claimed key back to its transfer target.  Since /repo commit 451fce7 the threads
      -- that started waiting on it meanwhile are woken; since e06010e only when the query at the end of
      -- the transfer chain is NOT owned by the releasing thread
      -- (`if anyone_waiting && !is_owner_of_transferred_query(key, current) { anyone_waiting = false; unblock… }`),
      -- otherwise `anyone_waiting` stays as it is and nobody is woken.
      let st1 : SyncState := { st with claimedTwice := false, owner := .transferred }
      let s1 := { s with sync := upd s.sync k (some st1) }
      if st.anyoneWaiting then
        match isOwnerOfTransferredQuery s1 k t with
        | none => none
        | some true => some s1
        | some false =>
          unblockRuntimesBlockedOn
            { s with sync := upd s.sync k (some { st1 with anyoneWaiting := false }) } k .completed
      else some s1
    else release { s with sync := upd s.sync k none } k st .completed

inductive TransferAnswer
  | noTarget                                       -- `panic!("new owner to be a locked query")` after releasing
  | done (kind : TransferKind) (blocked : Bool)
  deriving DecidableEq, Repr

-- src/function/sync.rs: fn mark_as_transfer_target   (`none` = Rust `None`: no entry)
def markAsTransferTarget (s : State) (key : Nat) : Option (State × SyncOwner) :=
  match s.sync key with
  | none => none
  | some st =>
    some ({ s with sync := upd s.sync key (some { st with anyoneWaiting := true, isTransferTarget := true }) },
          st.owner)

/-- `*id = SyncOwner::Transferred; *claimed_twice = false;` in `transfer`. -/
def setTransferred (s : State) (k : Nat) : Option State :=
  match s.sync k with
  | none => none                                   -- .expect("key should only be claimed/released once")
  | some st => some { s with sync := upd s.sync k (some { st with owner := .transferred, claimedTwice := false }) }

-- src/function/sync.rs: fn transfer
def transfer (s : State) (t k newOwner : Nat) : Option (State × TransferAnswer) :=
  match markAsTransferTarget s newOwner with
  | none =>
    match releaseEntry s k .panicked with
    | none => none
    | some s1 => some (s1, .noTarget)
  | some (s1, ownerId) =>
    match setTransferred s1 k with
    | none => none
    | some s2 =>
      match transferLock s2 k t newOwner ownerId with
      | none => none
      | some (s3, kind, blocked) => some (s3, .done kind blocked)

/-! ### Protocol steps -/

/-- A thread can act only while it is neither blocked nor holding an unconsumed wait result
    (it sits inside `DependencyGraph::block_on` until it has removed its `wait_results` entry). -/
def idle (s : State) (t : Nat) : Bool := (s.edges t).isNone && (s.results t).isNone

/-- `sync k` is held by thread `t` (it owns the `ClaimGuard`). -/
def ownedBy (s : State) (k t : Nat) : Bool :=
  match s.sync k with
  | some st => decide (st.owner = .thread t)
  | none => false

inductive Op
  /-- `try_claim(k, reentrant)` by thread `t`; when the answer is `Running` and `blk` the caller goes on
      to `Running::block_on` (the edge is added under the same locks), otherwise it drops the `Running`. -/
  | claim (t k : Nat) (reentrant blk : Bool)
  /-- `peek_claim`, same conventions. -/
  | peek (t k : Nat) (reentrant blk : Bool)
  /-- drop of a `ClaimGuard` in `ReleaseMode::Default` (`r = completed`) or `release_panicking`
      (`r = panicked` / `cancelled`). -/
  | release (t k : Nat) (r : WaitResult)
  /-- drop in `ReleaseMode::SelfOnly`. -/
  | releaseSelf (t k : Nat)
  /-- drop in `ReleaseMode::TransferTo(newOwner)`. -/
  | transfer (t k newOwner : Nat)
  /-- the `block_on` loop of thread `t` consumes its wait result. -/
  | wake (t : Nat)
  deriving DecidableEq, Repr

/-- Does the op contain an ownership transfer or a re-entrant claim (the `_partial` theorems
    exclude these)? -/
def Op.isBasic : Op → Bool
  | .claim _ _ _ _ => true
  | .peek _ _ _ _ => true
  | .release _ _ _ => true
  | .releaseSelf _ _ => true
  | .transfer _ _ _ => false
  | .wake _ => true

/-- Op sequences of the protocol without ownership transfer. -/
def basicOps (ops : List Op) : Bool := ops.all Op.isBasic


/-- Answers, for the theorems and the driver. -/
inductive Answer
  | unit
  | claim (a : ClaimAnswer) (blocked : Bool)
  | transfer (a : TransferAnswer)
  | woke (r : WaitResult)
  deriving DecidableEq, Repr

def finishClaim (t k : Nat) (blk : Bool) : State × ClaimAnswer → Option (State × Answer)
  | (s, .running other) =>
    if blk then
      match addEdge s t k other with               -- Running::block_on → DependencyGraph::block_on
      | none => none
      | some s' => some (s', .claim (.running other) true)
    else some (s, .claim (.running other) false)
  | (s, a) => some (s, .claim a false)

def stepA (s : State) : Op → Option (State × Answer)
  | .claim t k re blk =>
    let s := touch (touch s t) k
    if idle s t then
      match tryClaim s t k re with
      | none => none
      | some r => finishClaim t k blk r
    else none
  | .peek t k re blk =>
    let s := touch (touch s t) k
    if idle s t then
      match peekClaim s t k re with
      | none => none
      | some r => finishClaim t k blk r
    else none
  | .release t k r =>
    let s := touch (touch s t) k
    if idle s t && ownedBy s k t then (releaseEntry s k r).map (·, .unit) else none
  | .releaseSelf t k =>
    let s := touch (touch s t) k
    if idle s t && ownedBy s k t then (releaseSelf s t k).map (·, .unit) else none
  | .transfer t k newOwner =>
    let s := touch (touch (touch s t) k) newOwner
    if idle s t && ownedBy s k t then
      (transfer s t k newOwner).map fun (s', a) => (s', .transfer a)
    else none
  | .wake t =>
    let s := touch s t
    match s.results t with
    | none => none
    | some r => some ({ s with results := upd s.results t none }, .woke r)

def step (s : State) (op : Op) : Option State := (stepA s op).map (·.1)

def run : State → List Op → Option State
  | s, [] => some s
  | s, op :: ops =>
    match step s op with
    | none => none
    | some s' => run s' ops

/-! ### Graph-level steps at lock-hold granularity

`release` is NOT one critical section of the graph mutex in the Rust code (it takes the mutex up to
three times: `undo_transfer_lock`, `unblock_runtimes_blocked_on`, `unblock_…_transferred_queries_owned_by`),
so other threads' graph operations may interleave.  `GOp` is the set of operations each of which IS one
hold of the graph mutex; the graph invariants (W1, W2, W5) are proved for arbitrary sequences of these,
which covers every interleaving.  The sync table is not touched by these steps. -/
inductive GOp
  /-- `add_edge` (from `block_on`); the caller is the blocking thread itself, so it is `idle`. -/
  | addEdge (fromId key toId : Nat)
  /-- `wait_results.remove(&t)` in `block_on`. -/
  | wake (t : Nat)
  | unblockOn (key : Nat) (r : WaitResult)
  | unblockTransferred (key : Nat) (r : WaitResult)
  | undoTransfer (key : Nat)
  /-- `transfer_lock` up to (not including) its final `block_on`, which is a separate `addEdge`. -/
  | transferLock (query cur newOwner : Nat) (owner : SyncOwner)
  deriving DecidableEq, Repr

/-- Ghost: record the thread id inside a `SyncOwner`. -/
def touchOwner (s : State) : SyncOwner → State
  | .thread t => touch s t
  | .transferred => s

def gstep (s : State) : GOp → Option State
  | .addEdge f k t =>
    let s := touch (touch (touch s f) k) t
    if idle s f then addEdge s f k t else none
  | .wake t =>
    let s := touch s t
    match s.results t with
    | none => none
    | some _ => some { s with results := upd s.results t none }
  | .unblockOn k r => unblockRuntimesBlockedOn (touch s k) k r
  | .unblockTransferred k r => unblockTransferredOwnedBy (touch s k) k r
  | .undoTransfer k => undoTransferLock (touch s k) k
  | .transferLock q c n o =>
    (transferLockCore (touchOwner (touch (touch (touch s q) c) n) o) q c n o).map (·.1)

def grun : State → List GOp → Option State
  | s, [] => some s
  | s, op :: ops =>
    match gstep s op with
    | none => none
    | some s' => grun s' ops

/-- States reachable from `init` by some finite op sequence. -/
def Reachable (s : State) : Prop := ∃ ops, run init ops = some s

/-! ### Specification vocabulary -/

/-- A path of one or more `edges` steps (`a` is transitively blocked on `b`). -/
inductive Path (e : Nat → Option Nat) : Nat → Nat → Prop
  | single {a b : Nat} : e a = some b → Path e a b
  | cons {a b c : Nat} : e a = some b → Path e b c → Path e a c

/-- The owner-key component of `transferred` as a functional graph on keys. -/
def tnext (tr : Nat → Option (Nat × Nat)) : Nat → Option Nat := fun k => (tr k).map (·.2)

/-- A path of one or more steps along `transferred` (key `a`'s lock is transitively owned by key `b`). -/
def TPath (tr : Nat → Option (Nat × Nat)) (a b : Nat) : Prop := Path (tnext tr) a b

/-- W4: `transferred` is a forest (no key transitively owns itself) and `transferred_dependents` is
    exactly its inverse, as duplicate-free lists. -/
structure Forest (s : State) : Prop where
  fwd : ∀ k t o, s.transferred k = some (t, o) → k ∈ tdepsL s o
  bwd : ∀ k o, k ∈ tdepsL s o → ∃ t, s.transferred k = some (t, o)
  nodup : ∀ o, (tdepsL s o).Nodup
  acyclic : ∀ k, ¬ TPath s.transferred k k

/-- CLIENT precondition of `transfer k → newOwner` that the Rust code does NOT assert (the engine
    guarantees it by its stack discipline: a query only transfers its lock to a cycle head that is
    still active above it): the new owner is a different key and, when `k` has no `transferred` entry
    yet (the `Entry::Vacant` arm, which has no re-pointing loop), the new owner's lock is not already
    transitively owned by `k`.  Decidable; the driver evaluates it on every replayed `transfer_lock`. -/
def transferClientOk (s : State) (k newOwner : Nat) : Bool :=
  newOwner != k &&
    ((s.transferred k).isSome ||
      dependsOnLoop (tnext s.transferred) k (s.bound + 1) newOwner == some false)

/-- The extra client precondition of a step (only `transfer` has one). -/
def clientOk (s : State) : Op → Bool
  | .transfer t k n => transferClientOk (touch (touch (touch s t) k) n) k n
  | _ => true

/-- Runs in which every `transfer` also satisfies the client precondition `transferClientOk`. -/
def runC : State → List Op → Option State
  | s, [] => some s
  | s, op :: ops =>
    if clientOk s op then
      match step s op with
      | none => none
      | some s' => runC s' ops
    else none

def gclientOk (s : State) : GOp → Bool
  | .transferLock q c n o => transferClientOk (touchOwner (touch (touch (touch s q) c) n) o) q n
  | _ => true

def grunC : State → List GOp → Option State
  | s, [] => some s
  | s, op :: ops =>
    if gclientOk s op then
      match gstep s op with
      | none => none
      | some s' => grunC s' ops
    else none

/-- Per-thread status: a thread is blocked (has an edge), ready (has an unconsumed wait result) or idle. -/
inductive Status
  | idle
  | blocked
  | ready
  deriving DecidableEq, Repr

def status (s : State) (t : Nat) : Status :=
  if (s.edges t).isSome then .blocked else if (s.results t).isSome then .ready else .idle

/-- The thread that executes a protocol step. -/
def Op.actor : Op → Nat
  | .claim t _ _ _ => t
  | .peek t _ _ _ => t
  | .release t _ _ => t
  | .releaseSelf t _ => t
  | .transfer t _ _ => t
  | .wake t => t

/-- Allowed per-thread status changes in one protocol step `s —op→ s'` (W5, "exactly once"):
    a thread only becomes blocked by its own step, a blocked thread only leaves that state by
    receiving a result, a result is never overwritten or dropped and is consumed only by the
    thread's own `wake`. -/
def Lifecycle (s s' : State) (op : Op) : Prop := ∀ t,
  (status s' t = status s t ∧ s'.results t = s.results t) ∨
  (status s t = .idle ∧ status s' t = .blocked ∧ op.actor = t ∧ op ≠ .wake t) ∨
  (status s t = .blocked ∧ status s' t = .ready) ∨
  (status s t = .ready ∧ status s' t = .idle ∧ op = .wake t)

/-! ### Decidable invariant checks (evaluated over ids `< bound`) -/

def ids (s : State) : List Nat := List.range s.bound

/-- W1: a thread has an outgoing edge iff it occurs exactly once in all `qdeps` lists together. -/
def checkW1 (s : State) : Bool :=
  (ids s).all fun t =>
    let n := ((ids s).map fun k => (s.qdeps k).count t).sum
    if (s.edges t).isSome then n == 1 else n == 0

/-- W2: following `edges` from any thread ends (no cycle). -/
def checkW2 (s : State) : Bool :=
  (ids s).all fun t => (s.edges t).isNone || dependsOnLoop s.edges t (s.bound + 1) t == some false

def walkEnds (tr : Nat → Option (Nat × Nat)) : Nat → Nat → Bool
  | 0, _ => false
  | fuel + 1, k =>
    match tr k with
    | none => true
    | some (_, o) => walkEnds tr fuel o

/-- W4: `transferred` is a forest and `tdeps` is its inverse (as duplicate-free lists). -/
def checkW4 (s : State) : Bool :=
  (ids s).all fun k =>
    walkEnds s.transferred (s.bound + 1) k
    && (match s.transferred k with
        | none => true
        | some (_, o) => (tdepsL s o).contains k)
    && (tdepsL s k).all (fun d => match s.transferred d with
        | some (_, o) => o == k
        | none => false)
    && (tdepsL s k).eraseDups.length == (tdepsL s k).length

/-- W5: a thread with an unconsumed result is not blocked. -/
def checkW5 (s : State) : Bool :=
  (ids s).all fun t => (s.results t).isNone || (s.edges t).isNone

/-- The thread that `thread_id_of_transferred_query` resolves a transferred key to. -/
def resolvedOwner (s : State) (k : Nat) : Option Nat :=
  match threadIdOfTransferredQuery s k none with
  | some (some t) => some t
  | _ => none

/-- Threads that currently hold a RE-CLAIMED key (`Thread(u)` with `claimed_twice`) on the `transferred`
    chain above `k`.  While such a key is re-claimed, `transfer_lock` of a key below it resolves the new
    owner to the re-claiming thread `u` (`mark_as_transfer_target` answers `Thread(u)`), so dependents of
    the keys below it legitimately point at `u` until the key is handed back (by `release_self`, which
    must wake them, or by `transfer`, which re-points them). -/
def reclaimersAlong (s : State) : Nat → Nat → List Nat
  | 0, _ => []
  | fuel + 1, k =>
    match s.transferred k with
    | none => []
    | some (_, o) =>
      (match s.sync o with
       | some st =>
         (match st.owner with
          | .thread u => if st.claimedTwice then [u] else []
          | .transferred => [])
       | none => []) ++ reclaimersAlong s fuel o

/-- W3 with resolved owners: every dependent of `k` points at the thread that owns `k` —
    `Thread(u)` ⇒ `u` (while a transferred key is re-claimed, `claimed_twice`, older dependents may
    still point at the resolved owner of its `transferred` chain); `Transferred` ⇒ the resolved owner
    (and the key must still have its `transferred` entry), or the thread that currently holds a
    re-claimed key further up the chain (`reclaimersAlong`; allowed for re-claimed keys, too); no sync
    entry ⇒ no dependents.
    Keys in `skip` are exempt (the trace driver passes the keys whose release / transfer is in flight
    between its sync-table line and its graph line). -/
def checkW3 (s : State) (skip : List Nat) : Bool :=
  (ids s).all fun k =>
    skip.contains k || (s.qdeps k).all fun t =>
      let viaChain := (s.transferred k).isSome &&
        (s.edges t == resolvedOwner s k ||
          (reclaimersAlong s (s.bound + 1) k).any fun u => s.edges t == some u)
      match s.sync k with
      | none => false
      | some st =>
        match st.owner with
        | .thread u => s.edges t == some u || (st.claimedTwice && viaChain)
        | .transferred => viaChain

/-- W6 (state part): a key without sync entry has no dependents. -/
def checkW6 (s : State) : Bool :=
  (ids s).all fun k => (s.sync k).isSome || (s.qdeps k).isEmpty

end SalsaVerif.Model.SyncDG
