/-
  Model of the LRU eviction *policy* alone (src/function/eviction/lru.rs).

  Rust state: `capacity : Option<NonZeroUsize>` and `set : FxLinkedHashSet<Id>`.
  Here: `capacity : Nat` with `0` standing for `None` (`NonZeroUsize::new(0) = None`), and the
  linked hash set as a `List Nat` in iteration order: front = least recently used (what
  `pop_front` removes), back = most recently used.  hashlink's `LinkedHashSet::insert` on an
  element that is already present moves it to the back; on a new element appends it.

  What eviction *does* to a memo (clear the value only for `Derived` origins) is not part of the
  policy and lives in the engine model.
  Core Lean only.
-/
namespace SalsaVerif.Model.Lru

structure Lru where
  /-- `0` = `None` (LRU disabled). -/
  capacity : Nat
  /-- iteration order of the linked hash set: front = least recently used. -/
  set : List Nat
deriving DecidableEq, Repr

-- src/function/eviction/lru.rs: fn new
def Lru.new (cap : Nat) : Lru := ⟨cap, []⟩

-- hashlink: LinkedHashSet::insert (existing element is moved to the back, new one appended)
def linkedInsert (set : List Nat) (id : Nat) : List Nat := set.erase id ++ [id]

-- src/function/eviction/lru.rs: fn record_use
def recordUse (l : Lru) (id : Nat) : Lru :=
  if l.capacity ≠ 0 then { l with set := linkedInsert l.set id } else l

-- src/function/eviction/lru.rs: fn set_capacity
def setCapacity (l : Lru) (capacity : Nat) : Lru :=
  if capacity = 0 then ⟨0, []⟩ else ⟨capacity, l.set⟩

/-- `while set.len() > cap { if let Some(id) = set.pop_front() { cb(id) } }`:
    returns (remaining set, evicted ids in callback order). -/
def evictLoop (cap : Nat) : List Nat → List Nat × List Nat
  | [] => ([], [])
  | x :: xs =>
    if (x :: xs).length > cap then
      let r := evictLoop cap xs
      (r.1, x :: r.2)
    else (x :: xs, [])

-- src/function/eviction/lru.rs: fn for_each_evicted
def forEachEvicted (l : Lru) : Lru × List Nat :=
  if l.capacity = 0 then (l, [])
  else
    let r := evictLoop l.capacity l.set
    ({ l with set := r.1 }, r.2)

/-- Operations of the policy, for statements over arbitrary histories. -/
inductive Op where
  | use (id : Nat)
  | setCap (n : Nat)
  | evict
deriving DecidableEq, Repr

def step (l : Lru) : Op → Lru
  | .use id => recordUse l id
  | .setCap n => setCapacity l n
  | .evict => (forEachEvicted l).1

def run (l : Lru) (ops : List Op) : Lru := ops.foldl step l

/-- What an observer of the policy sees. -/
inductive Event where
  /-- `record_use(id)` was accepted (capacity ≠ 0). -/
  | used (id : Nat)
  /-- the eviction callback ran for `id`. -/
  | evicted (id : Nat)
  /-- the capacity was set to 0: the set was cleared. -/
  | cleared
deriving DecidableEq, Repr

def stepEvents (l : Lru) : Op → List Event
  | .use id => if l.capacity ≠ 0 then [.used id] else []
  | .setCap n => if n = 0 then [.cleared] else []
  | .evict => (forEachEvicted l).2.map .evicted

/-- Event log of a history, in chronological order. -/
def events : Lru → List Op → List Event
  | _, [] => []
  | l, op :: ops => stepEvents l op ++ events (step l op) ops

end SalsaVerif.Model.Lru
