/-
  Model `Persist` (DESIGN.md §C26) on top of Model/Core.lean: the stage-S2 engine as it is compiled
  with salsa's cargo feature `persistence`, the serialized form of a database (`snapshot`) and
  loading it into a fresh database (`restore`).

  1. The engine under `cfg(feature = "persistence")`.  Two `cfg`s touch the S2 fragment:
       src/active_query.rs  fn add_read / add_read_simple — an edge is recorded for EVERY read
                            (non-persistence builds skip reads of durability NEVER_CHANGE);
       src/function/execute.rs — `discard_edges_if_never_change` is compiled out.
     So `pushP` records every observation (`recd := true`) and everything downstream of it
     (`runBodyP`, `executeP`, `fetchStepP`, `mcaStepP`, `engP`, `fetchP`) is the Core function with
     `pushP` in place of `Frame.push`.  Everything else (`State`, `Memo`, `readDep`, `deepEdges`,
     `depChanged`, `markVerified`, `backdateCa`, `write`, `synth`, `sem`, …) is shared with Core.
     Observable consequence (seen in the differential test): deep verification of a reader of a
     NEVER_CHANGE query re-validates that query (event `DidValidateMemoizedValue`), which a
     non-persistence build never does.

  2. `snapshot pers s` (src/database.rs mod persistence: `as_serialize`; src/function.rs mod
     persistence: `SerializeIngredient::serialize`; src/function/memo.rs: `should_serialize`,
     `with_origin`; src/runtime.rs: only `revisions` is serialized; src/input.rs mod persistence:
     values, `revisions`, `durabilities` of every input):
       * `cur`, `lch`, all inputs are kept;
       * the memo of query `q` is kept iff `pers q` (the function is `#[salsa::tracked(persist)]`;
         every memo of the fragment has a value and is final, so `should_serialize` holds), with
         `value`, `verified_at`, `changed_at`, `durability` unchanged and its edges rewritten by
         `flattenObs`;
       * memos of non-persisted functions are dropped.
     `flattenObs` = `collect_minimum_serialized_edges` (src/function.rs, the one in `mod
     persistence`): walk the memo's edges in recorded order; an edge on an input field or on a
     persistable function stays; an edge on a NON-persistable function `j` is replaced by
     `cmse j` = src/function.rs `fn collect_minimum_serialized_edges` (the free function): if `j`
     has no memo nothing is added; otherwise `j` is marked visited and its memo's edges are walked
     in order, skipping an edge that is visited or already among the flattened edges, inserting an
     input-field edge, and descending into EVERY function edge — persistable or not (only the top
     level asks `is_persistable`; below it the walk goes down to the input leaves).
     The flattened edges are an `FxIndexSet`: inserting an edge that is present is a no-op.
     Deviation kept on purpose: Core's `obs` is the read *sequence* (a repeated read is listed
     twice) while salsa's edges are an index set; top-level entries are therefore copied as they
     are (a repeated edge is a no-op for deep verification: input comparisons are pure and a
     function verified a moment ago is hot), so that `flattenObs` is the identity on a memo whose
     dependencies are all inputs or persisted functions.

  3. `restore t` (src/database.rs: `deserialize`; src/runtime.rs: `deserialize_from`;
     src/function.rs mod persistence: `DeserializeIngredient` inserts every memo with its
     serialized `verified_at` and revisions): a fresh database — empty event log — holding exactly
     the snapshot's data.  Ids are preserved, so queries and inputs keep their indices.

  Ghost data (`Memo.deepAt`, the `val` components of `obs`, `State.wlog`) is carried through
  unchanged; a flattened leaf carries the value recorded by the memo it was taken from.

  Core Lean only.
-/
import SalsaVerif.Model.Core

namespace SalsaVerif.Model.Persist
open SalsaVerif.Model.Core

/-! ### the engine of a `persistence` build -/

-- src/active_query.rs: fn add_read / add_read_simple under cfg(feature = "persistence")
def pushP (f : Frame) (d : Dep) (r : Res) : Frame :=
  { ca := max f.ca r.ca, dur := min f.dur r.dur, obs := f.obs ++ [⟨d, r.val, true⟩] }

-- src/function/execute.rs: fn execute_query
def runBodyP (fe : FetchFn) : Body → State → Frame → State × Frame × Nat
  | .ret v, s, f => (s, f, v)
  | .read d k, s, f =>
    let r := readDep fe s d
    runBodyP fe (k r.2.val) r.1 (pushP f d r.2)

-- src/function/execute.rs: fn execute (no `discard_edges_if_never_change` in this build)
def executeP (fe : FetchFn) (P : Nat → Body) (s : State) (q : Nat) (old : Option Memo) : State × Res :=
  let r := runBodyP fe (P q) (emit s (.exec q)) frame0
  let ca := backdateCa old r.2.2 r.2.1
  (setMemo r.1 q (newMemo r.2.2 r.1.cur ca r.2.1.dur r.2.1.obs), ⟨r.2.2, ca, r.2.1.dur⟩)

-- src/function/fetch.rs: fn refresh_memo
def fetchStepP (fe : FetchFn) (mc : McaFn) (P : Nat → Body) (s : State) (q : Nat) : State × Res :=
  match s.memos q with
  | none => executeP fe P s q none
  | some m =>
    if m.va = s.cur then (s, ⟨m.value, m.ca, m.dur⟩)
    else if lc s m.dur ≤ m.va then (markVerified s q m, ⟨m.value, m.ca, m.dur⟩)
    else
      let r := deepEdges mc m.obs s m.va
      if r.2 then (markDeepVerified r.1 q m, ⟨m.value, m.ca, m.dur⟩)
      else executeP fe P r.1 q (some m)

-- src/function/maybe_changed_after.rs: fn maybe_changed_after
def mcaStepP (fe : FetchFn) (mc : McaFn) (P : Nat → Body) (s : State) (q : Nat) (rev : Nat) : State × Bool :=
  match s.memos q with
  | none => (s, true)
  | some _ =>
    let r := fetchStepP fe mc P s q
    (r.1, decide (r.2.ca > rev))

def engP (P : Nat → Body) : Nat → FetchFn × McaFn
  | 0 => (fun s _ => (s, ⟨0, 0, 0⟩), fun s _ _ => (s, true))
  | r + 1 =>
    let sub := engP P r
    (fun s q => if q < r then sub.1 s q else if q = r then fetchStepP sub.1 sub.2 P s q else (s, ⟨0, 0, 0⟩),
     fun s q rev => if q < r then sub.2 s q rev else if q = r then mcaStepP sub.1 sub.2 P s q rev else (s, true))

-- src/function/fetch.rs: fn fetch
def fetchP (P : Nat → Body) (s : State) (q : Nat) : State × Res := (engP P (q + 1)).1 s q

/-! ### serialization -/

/-- the two sets threaded through `collect_minimum_serialized_edges`: `flattened_edges`
    (`FxIndexSet`, insertion order) and `visited_edges` -/
structure FAcc where
  flat : List Obs
  visited : List Dep

def hasDep (l : List Obs) (d : Dep) : Bool := l.any fun o => decide (o.dep = d)

/-- `FxIndexSet::insert` -/
def insertEdge (a : FAcc) (o : Obs) : FAcc :=
  if hasDep a.flat o.dep then a else { a with flat := a.flat ++ [{ o with recd := true }] }

/-- one edge of a memo below the top level (the loop body of the free function
    `collect_minimum_serialized_edges`); `rec k` = the walk into function `k` -/
def cmseEdge (rec : Nat → FAcc → FAcc) (a : FAcc) (o : Obs) : FAcc :=
  if a.visited.contains o.dep then a
  else if hasDep a.flat o.dep then a
  else match o.dep with
    | .inp _ => insertEdge a o
    | .qry k => rec k a

-- src/function.rs: fn collect_minimum_serialized_edges (free function; function ingredient) and
-- src/input/input_field.rs: fn collect_minimum_serialized_edges (insert the leaf).
-- The fuel is the call rank: the edges of `j`'s memo are on queries below `j`.
def cmse (s : State) : Nat → Nat → FAcc → FAcc
  | 0, _, a => a
  | fuel + 1, j, a =>
    match s.memos j with
    | none => a
    | some m =>
      (m.obs.filter (·.recd)).foldl (cmseEdge (cmse s fuel)) { a with visited := .qry j :: a.visited }

/-- one top-level edge -/
def flattenEdge (pers : Nat → Bool) (s : State) (a : FAcc) (o : Obs) : FAcc :=
  match o.dep with
  | .inp _ => { a with flat := a.flat ++ [o] }
  | .qry j => if pers j then { a with flat := a.flat ++ [o] } else cmse s (j + 1) j a

-- src/function.rs mod persistence: fn collect_minimum_serialized_edges (top level)
def flattenObs (pers : Nat → Bool) (s : State) (obs : List Obs) : List Obs :=
  (obs.foldl (flattenEdge pers s) ⟨[], []⟩).flat

-- src/function/memo.rs mod persistence: fn with_origin
def snapshotMemo (pers : Nat → Bool) (s : State) (m : Memo) : Memo :=
  { m with obs := flattenObs pers s m.obs }

-- src/database.rs mod persistence: fn as_serialize
def snapshot (pers : Nat → Bool) (s : State) : State :=
  { s with memos := fun q => if pers q then (s.memos q).map (snapshotMemo pers s) else none }

-- src/database.rs mod persistence: fn deserialize (into a fresh database)
def restore (t : State) : State :=
  { cur := t.cur, lch := t.lch, inp := t.inp, memos := t.memos, wlog := t.wlog, trace := [] }

/-! ### histories with snapshots -/

inductive POp where
  | get (q : Nat)
  | set (i : Nat) (v : Nat) (nd : Option Nat)
  | synth (d : Nat)
  /-- serialize, deserialize into a fresh database, continue there -/
  | snapshot
deriving Repr

def POp.isSnap : POp → Bool
  | .snapshot => true
  | _ => false

def stepP (pers : Nat → Bool) (P : Nat → Body) (s : State) : POp → State
  | .get q => (fetchP P s q).1
  | .set i v nd => write s i v nd
  | .synth d => synth s d
  | .snapshot => restore (snapshot pers s)

def runP (pers : Nat → Bool) (P : Nat → Body) (inp : Nat → Inp) (ops : List POp) : State :=
  ops.foldl (stepP pers P) (init inp)

/-- the answers of the `get` operations of a history, in order -/
def outputsP (pers : Nat → Bool) (P : Nat → Body) : State → List POp → List Nat
  | _, [] => []
  | s, .get q :: ops => (fetchP P s q).2.val :: outputsP pers P (fetchP P s q).1 ops
  | s, .set i v nd :: ops => outputsP pers P (write s i v nd) ops
  | s, .synth d :: ops => outputsP pers P (synth s d) ops
  | s, .snapshot :: ops => outputsP pers P (restore (snapshot pers s)) ops

/-- from-scratch oracle: a snapshot changes nothing -/
def refOutputsP (P : Nat → Body) : (Nat → Nat × Nat) → List POp → List Nat
  | _, [] => []
  | env, .get q :: ops => sem P (refInp env) q :: refOutputsP P env ops
  | env, .set i v nd :: ops => refOutputsP P (refWrite env i v nd) ops
  | env, .synth _ :: ops => refOutputsP P env ops
  | env, .snapshot :: ops => refOutputsP P env ops

/-- the harness convention of the `persist` tie: even-indexed queries are persisted -/
def evenPers (q : Nat) : Bool := q % 2 == 0

end SalsaVerif.Model.Persist
