/-
  Model `Cycle` — fixpoint / fallback / panic cycle handling of salsa
  (`src/function/fetch.rs: fetch, fetch_cold_cycle`, `src/function/execute.rs: execute,
  execute_maybe_iterate, try_complete_query, try_complete_cycle_head`, `src/cycle.rs`).

  ABSTRACTION (read this first).  The model abstracts salsa's provisional-memo reuse
  (`validate_same_iteration`, dependency flattening, lazy finalisation through
  `validate_provisional`) to:  *every participant of a cycle is re-evaluated once per iteration
  of the outermost head*.  Concretely: a query that completes while some cycle head is active
  below it on the stack is provisional and lives in `St.cache` for this iteration only; a head
  with no active head below it is the *outermost* head: when it completes it compares every
  head's new value with its provisional value; unequal ⇒ the provisional values are replaced,
  the iteration stamp is incremented, the cache is cleared and the body runs again; equal ⇒
  every cached memo is finalised (moved to `St.final`).  (salsa decides "outermost" per cycle via
  the transitive cycle-head sets and can therefore finish an independent inner cycle earlier;
  values do not depend on that.)  Cycle-head sets are kept only to decide which
  `FallbackImmediate` queries take their fallback value; they are resolved eagerly
  (`substHeads`: a head that leaves the stack is replaced by the heads it depends on), which is
  what `collect_all_cycle_heads` computes lazily.  Metadata convergence (durability /
  changed_at / untracked) is not modelled: only values decide convergence.  Incremental reuse
  across revisions is not modelled either: a write drops every memo (`Db.newRevision`).  That
  this abstraction is faithful on *values* and *panic classes* is established by the
  line-protocol correspondence, not by proof.

  BODY LANGUAGE: `const | input | call | union | inter | ite i a b` (branch on an INPUT) and the
  VALUE-controlled `gate c a`: evaluate `c` first (its calls are fetched and recorded), and only
  if bit 0 of its value is set evaluate `a` (only then are the callees of `a` fetched); otherwise
  ∅.  `gate` is monotone (bit 0, once set, stays set as values ascend), but with it the CALL GRAPH
  DEPENDS ON VALUES: cycles form, grow and reshape while iterating.  `callees env ρ e` is therefore
  relative to an assignment `ρ` of the callee values (irrelevant for gate-free bodies,
  `Prog.NoGate`).  For this the head loop decides after EVERY pass whether its head is the
  outermost one (as salsa's `outer_cycle` does): a later pass can re-enter a query further down
  the stack, which then drives the iteration, and the former outermost head completes as a nested
  head.  Differential evidence: values and panic classes of `svdriver cycle` = salsa on the
  generated gated cases of `vh seq --profile cycle --flavours 6` (and unchanged on the gate-free
  flavours: 1.45 M answer/reference lines identical to the model before the extension).

  Proofs about this file (all core Lean): `Proofs/CycleLfp.lean` (`evalExpr_mono`: `Mono` is
  automatic for the body language, gates included; `lfp_fix`: the fuel `8 * n + 1` of `lfp`
  suffices; `lfpL_getD`: the memoised `lfpL` of the driver = `lfp`), `Proofs/CycleSound.lean`
  (every memo = `lfp`, gates included), `Proofs/CycleChain*.lean` (ascending chain, termination:
  gate-free programs), `Proofs/CycleFb*.lean` (fallback programs: gate-free),
  `Proofs/CycleFuel.lean` (`outOfFuel` is unreachable for well-formed programs).

  Values are 8-bit sets represented as `Nat < 256` (`|||` union, `&&&` intersection, `0` = ⊥).
  Core Lean only.
-/
import SalsaVerif.Gen.Stamp

namespace SalsaVerif.Model.Cycle
open SalsaVerif.Gen.Stamp

/-! ## Programs -/

/-- bodies: monotone expressions over 8-bit sets; `ite i a b` branches on input `i ≠ 0`,
    `gate c a` on bit 0 of the VALUE of `c`. -/
inductive Expr where
  | const (c : Nat)
  | input (i : Nat)
  | call (j : Nat)
  | union (a b : Expr)
  | inter (a b : Expr)
  | ite (i : Nat) (a b : Expr)
  /-- value-controlled gate: evaluate `c`; if bit 0 of its value is set evaluate `a` (only
      then — its callees are fetched only when the gate is open), else ∅.  Monotone (bit 0, once
      set, stays set as values ascend), but the call graph now depends on VALUES. -/
  | gate (c a : Expr)
  deriving Repr, DecidableEq, Inhabited

/-- `src/cycle.rs: CycleRecoveryStrategy` (+ the two `cycle_fn`s the harness uses). -/
inductive Strategy where
  /-- `Fixpoint`; `cycle_initial = ∅`; `cycle_fn` = identity (`join = false`) or
      join with the previous provisional value (`join = true`). -/
  | fixpoint (join : Bool)
  /-- `FallbackImmediate` (`cycle_result`) with the fallback value. -/
  | fallback (v : Nat)
  /-- `Panic` (no recovery). -/
  | panic
  deriving Repr, DecidableEq, Inhabited

structure Node where
  strat : Strategy
  body : Expr
  deriving Repr, DecidableEq, Inhabited

structure Prog where
  nodes : List Node
  deriving Repr, DecidableEq, Inhabited

def Prog.n (P : Prog) : Nat := P.nodes.length

/-- node `j`; an out-of-range index is a constant-∅ node without recovery. -/
def Prog.node (P : Prog) (j : Nat) : Node := P.nodes.getD j ⟨.panic, .const 0⟩

/-! ## Reference semantics -/

/-- pure evaluation of a body over an assignment `ρ` of the callees. -/
def evalExpr (env ρ : Nat → Nat) : Expr → Nat
  | .const c => c % 256
  | .input i => env i % 256
  | .call j => ρ j % 256
  | .union a b => evalExpr env ρ a ||| evalExpr env ρ b
  | .inter a b => evalExpr env ρ a &&& evalExpr env ρ b
  | .ite i a b => if env i % 256 ≠ 0 then evalExpr env ρ a else evalExpr env ρ b
  | .gate c a => if evalExpr env ρ c % 2 = 1 then evalExpr env ρ a else 0

/-- the callees of a body under the inputs `env` and the callee values `ρ`, in evaluation order
    (`ρ` only matters below a `gate`: the callees of the guarded part count iff the gate is open
    under `ρ`; for gate-free bodies this is the input-determined callee list). -/
def callees (env ρ : Nat → Nat) : Expr → List Nat
  | .const _ => []
  | .input _ => []
  | .call j => [j]
  | .union a b => callees env ρ a ++ callees env ρ b
  | .inter a b => callees env ρ a ++ callees env ρ b
  | .ite i a b => if env i % 256 ≠ 0 then callees env ρ a else callees env ρ b
  | .gate c a => callees env ρ c ++ (if evalExpr env ρ c % 2 = 1 then callees env ρ a else [])

/-- all syntactic callees (both branches, open or closed gates). -/
def allCallees : Expr → List Nat
  | .const _ => []
  | .input _ => []
  | .call j => [j]
  | .union a b => allCallees a ++ allCallees b
  | .inter a b => allCallees a ++ allCallees b
  | .ite _ a b => allCallees a ++ allCallees b
  | .gate c a => allCallees c ++ allCallees a

/-- no value-controlled gate in the body. -/
def Expr.noGate : Expr → Bool
  | .const _ => true
  | .input _ => true
  | .call _ => true
  | .union a b => a.noGate && b.noGate
  | .inter a b => a.noGate && b.noGate
  | .ite _ a b => a.noGate && b.noGate
  | .gate _ _ => false

/-- well-formed: every call targets an existing node. -/
def Prog.Wf (P : Prog) : Prop := ∀ nd ∈ P.nodes, ∀ c ∈ allCallees nd.body, c < P.n

instance (P : Prog) : Decidable P.Wf := by unfold Prog.Wf; infer_instance

/-- gate-free: the call graph is determined by the inputs alone. -/
def Prog.NoGate (P : Prog) : Prop := ∀ nd ∈ P.nodes, nd.body.noGate = true

instance (P : Prog) : Decidable P.NoGate := by unfold Prog.NoGate; infer_instance

/-- one round of the equations. -/
def step (P : Prog) (env : Nat → Nat) (ρ : Nat → Nat) : Nat → Nat :=
  fun i => evalExpr env ρ (P.node i).body

/-- Kleene iteration from ⊥. -/
def kleene (P : Prog) (env : Nat → Nat) : Nat → (Nat → Nat)
  | 0 => fun _ => 0
  | k + 1 => step P env (kleene P env k)

/-- least fixpoint: fuel = height of the lattice (8) × nodes, + 1. -/
def lfp (P : Prog) (env : Nat → Nat) : Nat → Nat := kleene P env (8 * P.n + 1)

/-- is there a path of length `1..fuel` from `a` to `b` in the call graph under the inputs `env`
    and the values `ρ` (which decide the gates; irrelevant for gate-free programs)? -/
def reach (P : Prog) (env ρ : Nat → Nat) : Nat → Nat → Nat → Bool
  | 0, _, _ => false
  | k + 1, a, b => (callees env ρ (P.node a).body).any (fun c => c == b || reach P env ρ k c b)

def onCycle (P : Prog) (env ρ : Nat → Nat) (i : Nat) : Bool := reach P env ρ P.n i i

def fallbackValue (P : Prog) (i : Nat) : Nat :=
  match (P.node i).strat with
  | .fallback v => v % 256
  | _ => 0

/-- reference for fallback programs: fallback value iff on a cycle, else body over the results
    (round `k + 1` decides the gates, hence the call graph, by the values of round `k`; for
    gate-free programs the graph is input-determined and the rounds only propagate values). -/
def fbRef (P : Prog) (env : Nat → Nat) : Nat → Nat → Nat
  | 0, _ => 0
  | k + 1, i => if onCycle P env (fbRef P env k) i then fallbackValue P i
                else evalExpr env (fbRef P env k) (P.node i).body

def fbReference (P : Prog) (env : Nat → Nat) : Nat → Nat := fbRef P env (P.n + 1)

/-! ### Executable (memoised) versions of the references, used by the driver.
   `kleene`/`reach`/`fbRef` above are the specifications (functions, exponential to run);
   the list versions compute the same tables round by round (`lfpL` is proved equal to `lfp`
   in `Proofs/CycleLfp.lean`; `onCycleL`/`fbReferenceL` are only tested against the
   specifications). -/

def kleeneL (P : Prog) (env : Nat → Nat) : Nat → List Nat
  | 0 => List.replicate P.n 0
  | k + 1 =>
    let prev := kleeneL P env k
    (List.range P.n).map (fun i => evalExpr env (fun j => prev.getD j 0) (P.node i).body)

def lfpL (P : Prog) (env : Nat → Nat) : List Nat := kleeneL P env (8 * P.n + 1)

/-- `reachL k a` = the nodes reachable from `a` by a path of length `1..k`. -/
def reachL (P : Prog) (env ρ : Nat → Nat) : Nat → Nat → List Nat
  | 0, _ => []
  | k + 1, a =>
    let prev := reachL P env ρ k a
    let next := callees env ρ (P.node a).body ++
      prev.flatMap (fun c => callees env ρ (P.node c).body)
    next.eraseDups

def onCycleL (P : Prog) (env ρ : Nat → Nat) (i : Nat) : Bool := (reachL P env ρ P.n i).contains i

def fbRefL (P : Prog) (env : Nat → Nat) : Nat → List Nat
  | 0 => List.replicate P.n 0
  | k + 1 =>
    let prev := fbRefL P env k
    (List.range P.n).map (fun i =>
      if onCycleL P env (fun j => prev.getD j 0) i then fallbackValue P i
      else evalExpr env (fun j => prev.getD j 0) (P.node i).body)

def fbReferenceL (P : Prog) (env : Nat → Nat) : List Nat := fbRefL P env (P.n + 1)

/-! ## Engine model -/

inductive PanicClass where
  /-- "dependency graph cycle" (`fetch_cold_cycle`, strategy `Panic`). -/
  | cycle
  /-- "too many cycle iterations". -/
  | tooManyIterations
  /-- `Cancelled::PropagatedPanic`: a head poisoned by an earlier panic in this revision. -/
  | propagated
  /-- model fuel exhausted; shown unreachable (`Proofs`), never produced by salsa. -/
  | outOfFuel
  deriving Repr, DecidableEq, Inhabited

/-- a panic unwinding to the top, with the query stack at the point of the panic
    (innermost first) — the frames whose `PoisonProvisionalIfPanicking` guards run. -/
structure Panic where
  cls : PanicClass
  stack : List Nat
  deriving Repr, DecidableEq, Inhabited

/-- a provisional memo: value + the cycle heads it depends on. -/
structure Entry where
  val : Nat
  heads : List Nat
  deriving Repr, DecidableEq, Inhabited

structure St where
  /-- active query stack, innermost first. -/
  stack : List Nat
  /-- provisional values of cycle heads (first match wins). -/
  prov : List (Nat × Nat)
  /-- provisional memos of the current iteration, newest first. -/
  cache : List (Nat × Entry)
  /-- finalised memos. -/
  final : List (Nat × Nat)
  /-- heads poisoned by a panic earlier in this revision. -/
  poisoned : List Nat
  /-- number of `WillIterateCycle` events so far. -/
  iters : Nat
  deriving Repr, DecidableEq, Inhabited

abbrev Res (α : Type) := Except Panic α

/-- result of a fetch: value, cycle heads of the memo read, new state. -/
abbrev Fetched := Nat × List Nat × St

/-- `cycle_initial`: ∅ for fixpoint functions, the fallback value for `cycle_result`. -/
def cycleInitial (P : Prog) (j : Nat) : Nat := fallbackValue P j

/-- src/function/fetch.rs: fn fetch_cold_cycle -/
def fetchColdCycle (P : Prog) (c : Nat) (s : St) : Res Fetched :=
  match (P.node c).strat with
  | .panic => .error ⟨.cycle, s.stack⟩
  | _ =>
    match s.prov.lookup c with
    | some v => .ok (v, [c], s)
    | none => .ok (cycleInitial P c, [c], { s with prov := (c, cycleInitial P c) :: s.prov })

/-- src/function/fetch.rs: fn fetch (refresh_memo / fetch_hot / fetch_cold);
    `execute` is the recursive call. -/
def fetch (P : Prog) (execute : Nat → St → Res Fetched) (c : Nat) (s : St) : Res Fetched :=
  if s.poisoned.contains c then .error ⟨.propagated, s.stack⟩
  else
    match s.final.lookup c with
    | some v => .ok (v, [], s)
    | none =>
      if s.stack.contains c then fetchColdCycle P c s
      else
        match s.cache.lookup c with
        | some e => .ok (e.val, e.heads, s)
        | none => execute c s

/-- the query function: evaluate the body, fetching callees through `read`;
    collects the cycle heads of everything read (`report_tracked_read`). -/
def evalM (env : Nat → Nat) (read : Nat → St → Res Fetched) : Expr → St → Res Fetched
  | .const c, s => .ok (c % 256, [], s)
  | .input i, s => .ok (env i % 256, [], s)
  | .call j, s =>
    match read j s with
    | .error e => .error e
    | .ok (v, hs, s') => .ok (v % 256, hs, s')
  | .union a b, s =>
    match evalM env read a s with
    | .error e => .error e
    | .ok (x, h1, s1) =>
      match evalM env read b s1 with
      | .error e => .error e
      | .ok (y, h2, s2) => .ok (x ||| y, h1 ++ h2, s2)
  | .inter a b, s =>
    match evalM env read a s with
    | .error e => .error e
    | .ok (x, h1, s1) =>
      match evalM env read b s1 with
      | .error e => .error e
      | .ok (y, h2, s2) => .ok (x &&& y, h1 ++ h2, s2)
  | .ite i a b, s => if env i % 256 ≠ 0 then evalM env read a s else evalM env read b s
  | .gate c a, s =>
    match evalM env read c s with
    | .error e => .error e
    | .ok (x, h1, s1) =>
      if x % 2 = 1 then
        match evalM env read a s1 with
        | .error e => .error e
        | .ok (y, h2, s2) => .ok (y, h1 ++ h2, s2)
      else .ok (0, h1, s1)

/-- `recover_from_cycle` / the `FallbackImmediate` replacement for a cycle head. -/
def cycleFn (P : Prog) (j : Nat) (last v : Nat) : Nat :=
  match (P.node j).strat with
  | .fixpoint false => v
  | .fixpoint true => v ||| last
  | .fallback fv => fv % 256
  | .panic => v

/-- value of a participant that is not a head (`FallbackImmediate` takes `cycle_initial`). -/
def participantValue (P : Prog) (j : Nat) (v : Nat) : Nat :=
  match (P.node j).strat with
  | .fallback fv => fv % 256
  | _ => v

/-- is `k` a cycle head (has a provisional value)? -/
def isHead (prov : List (Nat × Nat)) (k : Nat) : Bool := (prov.lookup k).isSome

/-- `collect_all_cycle_heads`, done eagerly: when `c` leaves the stack with heads `hc`, every
    memo that depends on `c` depends on `hc` instead (heads always name active queries). -/
def substHeads (c : Nat) (hc : List Nat) (hs : List Nat) : List Nat :=
  hs.flatMap (fun k => if k = c then hc else [k])

def substCache (c : Nat) (hc : List Nat) (cache : List (Nat × Entry)) : List (Nat × Entry) :=
  cache.map (fun p => (p.1, ⟨p.2.val, substHeads c hc p.2.heads⟩))

/-- new provisional values of all heads = their values of this iteration. -/
def updateProv (cache1 : List (Nat × Entry)) (prov : List (Nat × Nat)) : List (Nat × Nat) :=
  prov.filterMap (fun p => (cache1.lookup p.1).map (fun e => (p.1, e.val)))

/-- has every head reproduced its provisional value? -/
def converged (cache1 : List (Nat × Entry)) (prov : List (Nat × Nat)) : Bool :=
  prov.all (fun p => (cache1.lookup p.1).map (·.val) == prov.lookup p.1)

/-- src/function/execute.rs: fn execute_maybe_iterate (+ try_complete_query,
    complete_cycle_participant, try_complete_cycle_head).
    `s` has `j` on top of the stack.  A query that completes while a cycle head is active below
    it is provisional (`cache`); a head with no head below it is the outermost head and drives
    the iteration.  This is decided afresh after every pass (as `try_complete_query: outer_cycle`
    does): with value-controlled gates a later pass of a head that already iterated can re-enter
    a query further down the stack, which then is the outermost head, and the former one
    completes as a nested head.  (Without gates the order of the depth-first search does not
    depend on values and a head that iterated once stays the outermost one.)  Structural
    recursion on `fuel` = `MAX_ITERATIONS + 1 − iteration`. -/
def executeMaybeIterate (P : Prog) (env : Nat → Nat) (read : Nat → St → Res Fetched) (j : Nat) :
    Nat → Nat → St → Res Fetched
  | 0, _, s => .error ⟨.outOfFuel, s.stack⟩
  | fuel + 1, stamp, s =>
    match evalM env read (P.node j).body s with
    | .error e => .error e
    | .ok (v, hs, s1) =>
      -- the heads that are still active once `j` is popped
      let hs' := hs.filter (fun k => k != j)
      let below := s1.stack.tail.any (isHead s1.prov)
      match s1.prov.lookup j with
      | none =>
        if below then
          -- Participant (or a query that merely ran while a cycle is open)
          let v' := if hs'.isEmpty then v else participantValue P j v
          .ok (v', hs', { s1 with stack := s1.stack.tail,
                                   cache := (j, ⟨v', hs'⟩) :: substCache j hs' s1.cache })
        else
          -- Completed: no cycle anywhere
          .ok (v, [], { s1 with stack := s1.stack.tail, final := (j, v) :: s1.final })
      | some last =>
        -- CycleHead
        let new := cycleFn P j last v
        if below then
          -- nested: iterated as part of the outer cycle
          .ok (new, hs', { s1 with stack := s1.stack.tail,
                                    cache := (j, ⟨new, hs'⟩) :: substCache j hs' s1.cache })
        else
          let cache1 := (j, ⟨new, []⟩) :: s1.cache
          if converged cache1 s1.prov then
            -- outermost and converged: finalise every participant
            .ok (new, [], { s1 with
              stack := s1.stack.tail, prov := [], cache := [],
              final := cache1.map (fun p => (p.1, p.2.val)) ++ s1.final })
          else
            match IterationStamp.increment_iteration stamp with
            | none => .error ⟨.tooManyIterations, s1.stack⟩
            | some stamp' =>
              executeMaybeIterate P env read j fuel stamp'
                { s1 with prov := updateProv cache1 s1.prov, cache := [], iters := s1.iters + 1 }

/-- fuel of the head loop. -/
def loopFuel : Nat := MAX_ITERATIONS + 1

/-- src/function/execute.rs: fn execute.  `d` bounds the depth of the query stack. -/
def execute (P : Prog) (env : Nat → Nat) : Nat → Nat → St → Res Fetched
  | 0, _, s => .error ⟨.outOfFuel, s.stack⟩
  | d + 1, j, s =>
    executeMaybeIterate P env (fetch P (execute P env d)) j loopFuel
      (IterationStamp.initial 0) { s with stack := j :: s.stack }

def St.init (final : List (Nat × Nat)) (poisoned : List Nat) : St :=
  ⟨[], [], [], final, poisoned, 0⟩

/-- a top-level request for node `j`. -/
def eval (P : Prog) (env : Nat → Nat) (final : List (Nat × Nat)) (poisoned : List Nat)
    (j : Nat) : Res (Nat × St) :=
  match fetch P (execute P env (P.n + 1)) j (St.init final poisoned) with
  | .error e => .error e
  | .ok (v, _, s) => .ok (v, s)

/-- the finalised assignment after a request from scratch. -/
def run (P : Prog) (env : Nat → Nat) (j : Nat) : Except PanicClass (Nat → Option Nat) :=
  match eval P env [] [] j with
  | .error e => .error e.cls
  | .ok (_, s) => .ok (fun i => s.final.lookup i)

/-! ## Database level: memos surviving between requests of one revision, poison -/

structure Db where
  final : List (Nat × Nat)
  poisoned : List Nat
  deriving Repr, DecidableEq, Inhabited

def Db.empty : Db := ⟨[], []⟩

inductive Outcome where
  | value (v : Nat) (iters : Nat)
  | panic (c : PanicClass)
  deriving Repr, DecidableEq, Inhabited

/-- frames that own a `PoisonProvisionalIfPanicking` guard (strategy ≠ Panic). -/
def poisonedBy (P : Prog) (stack : List Nat) : List Nat :=
  stack.filter (fun k => (P.node k).strat != .panic)

/-- a request; a panic leaves the finalised memos of before the request and poisons the
    recovering frames that were unwound. -/
def Db.get (P : Prog) (env : Nat → Nat) (db : Db) (j : Nat) : Outcome × Db :=
  match eval P env db.final db.poisoned j with
  | .ok (v, s) => (.value v s.iters, { db with final := s.final })
  | .error e => (.panic e.cls, { db with poisoned := poisonedBy P e.stack ++ db.poisoned })

/-- a write starts a new revision: nothing is reused (incremental reuse is out of scope of
    this model), poison is per revision. -/
def Db.newRevision (_db : Db) : Db := Db.empty

end SalsaVerif.Model.Cycle
