/-
  Engine model `CoreP` = stage S2 (Model/Core.lean) with a panic in user code (DESIGN.md §C22).

  The user code of this fragment is the query bodies; a body talks to the database only through
  its reads, so "a panic at any position of any body during an operation" = "the operation's
  n-th read panics".  `PState.fuel = some n`: the (n+1)-th read of the operation panics;
  `none`: no panic is injected.  `aborted = true` models the unwinding: every engine function
  returns immediately, no memo is installed, no `verified_at` is stored (the frames are popped by
  their guards, the claim of `ClaimGuard` is released — neither is state of this model).
  The state mutations made *before* the panic stay: memos of completed callees, `verified_at`
  marks, events.

  Everything that is not control flow is shared with Model/Core.lean (`State`, `Memo`, `Frame`,
  `setMemo`, `backdateCa`, `newMemo`, `write`, `synth`, `sem`, …).  Core Lean only.
-/
import SalsaVerif.Model.Core

namespace SalsaVerif.Model.CoreP
open SalsaVerif.Model.Core

structure PState where
  core : State
  /-- reads left before the injected panic -/
  fuel : Option Nat
  /-- a panic is unwinding -/
  aborted : Bool

abbrev PFetchFn := PState → Nat → PState × Res
abbrev PMcaFn := PState → Nat → Nat → PState × Bool

def dummy : Res := ⟨0, 0, 0⟩

/-- one read position of user code: the injected panic fires here when the fuel is exhausted -/
def tick (s : PState) : PState :=
  match s.fuel with
  | none => s
  | some 0 => { s with aborted := true }
  | some (n + 1) => { s with fuel := some n }

def onCore (s : PState) (f : State → State) : PState := { s with core := f s.core }

-- src/input.rs: fn field / src/function/fetch.rs: fn fetch, called from a body
def readDep (fe : PFetchFn) (s : PState) (d : Dep) : PState × Res :=
  let s1 := tick s
  if s1.aborted then (s1, dummy)
  else match d with
    | .inp i => (s1, ⟨(s1.core.inp i).val, (s1.core.inp i).ca, (s1.core.inp i).dur⟩)
    | .qry q => fe s1 q

-- src/function/execute.rs: fn execute_query
def runBody (fe : PFetchFn) : Body → PState → Frame → PState × Frame × Nat
  | .ret v, s, f => (s, f, v)
  | .read d k, s, f =>
    let r := readDep fe s d
    if r.1.aborted then (r.1, f, 0)
    else runBody fe (k r.2.val) r.1 (f.push d r.2)

-- src/function/execute.rs: fn execute (no memo is inserted when the body unwinds)
def execute (fe : PFetchFn) (P : Nat → Body) (s : PState) (q : Nat) (old : Option Memo) : PState × Res :=
  let r := runBody fe (P q) (onCore s (emit · (.exec q))) frame0
  if r.1.aborted then (r.1, dummy)
  else
    let ca := backdateCa old r.2.2 r.2.1
    (onCore r.1 (setMemo · q (newMemo r.2.2 r.1.core.cur ca r.2.1.dur r.2.1.obs)), ⟨r.2.2, ca, r.2.1.dur⟩)

def depChanged (mc : PMcaFn) (s : PState) (d : Dep) (rev : Nat) : PState × Bool :=
  match d with
  | .inp i => (s, decide ((s.core.inp i).ca > rev))
  | .qry q => mc s q rev

-- src/function/maybe_changed_after.rs: fn deep_verify_edges (unwinds with the callee)
def deepEdges (mc : PMcaFn) : List Obs → PState → Nat → PState × Bool
  | [], s, _ => (s, true)
  | o :: os, s, rev =>
    if o.recd then
      let r := depChanged mc s o.dep rev
      if r.1.aborted then (r.1, false)
      else if r.2 then (r.1, false) else deepEdges mc os r.1 rev
    else deepEdges mc os s rev

-- src/function/fetch.rs: fn refresh_memo
def fetchStep (fe : PFetchFn) (mc : PMcaFn) (P : Nat → Body) (s : PState) (q : Nat) : PState × Res :=
  match s.core.memos q with
  | none => execute fe P s q none
  | some m =>
    if m.va = s.core.cur then (s, ⟨m.value, m.ca, m.dur⟩)
    else if lc s.core m.dur ≤ m.va then (onCore s (markVerified · q m), ⟨m.value, m.ca, m.dur⟩)
    else
      let r := deepEdges mc m.obs s m.va
      if r.1.aborted then (r.1, dummy)
      else if r.2 then (onCore r.1 (markDeepVerified · q m), ⟨m.value, m.ca, m.dur⟩)
      else execute fe P r.1 q (some m)

-- src/function/maybe_changed_after.rs: fn maybe_changed_after
def mcaStep (fe : PFetchFn) (mc : PMcaFn) (P : Nat → Body) (s : PState) (q : Nat) (rev : Nat) : PState × Bool :=
  match s.core.memos q with
  | none => (s, true)
  | some _ =>
    let r := fetchStep fe mc P s q
    (r.1, decide (r.2.ca > rev))

def eng (P : Nat → Body) : Nat → PFetchFn × PMcaFn
  | 0 => (fun s _ => (s, dummy), fun s _ _ => (s, true))
  | r + 1 =>
    let sub := eng P r
    (fun s q => if q < r then sub.1 s q else if q = r then fetchStep sub.1 sub.2 P s q else (s, dummy),
     fun s q rev => if q < r then sub.2 s q rev else if q = r then mcaStep sub.1 sub.2 P s q rev else (s, true))

/-- one request with an optional injected panic: `inj = some n` makes the (n+1)-th read panic.
    Returns the state after the operation (unwinding finished) and `none` if it panicked. -/
def fetchInj (P : Nat → Body) (s : State) (q : Nat) (inj : Option Nat) : State × Option Res :=
  let r := (eng P (q + 1)).1 ⟨s, inj, false⟩ q
  (r.1.core, if r.1.aborted then none else some r.2)

/-! ### histories with injected panics -/

inductive POp where
  | get (q : Nat) (inj : Option Nat)
  | set (i : Nat) (v : Nat) (nd : Option Nat)
  | synth (d : Nat)

def pstep (P : Nat → Body) (s : State) : POp → State
  | .get q inj => (fetchInj P s q inj).1
  | .set i v nd => write s i v nd
  | .synth d => synth s d

def prun (P : Nat → Body) (inp : Nat → Inp) (ops : List POp) : State := ops.foldl (pstep P) (init inp)

end SalsaVerif.Model.CoreP
