/-
  C17 layer on top of the sync/wait-for-graph model (Model/SyncDG.lean): ghost execution counters.
  A thread may start executing key `k` (`ExecBegin`) only while it holds the claim on `k` and after
  the re-check under the claim found no memo verified in this revision; it publishes the memo
  (`Publish`) before it releases the claim.  The hypotheses of C17 — no cycles, no panics, no
  cancellation — are the enabling conditions of `xstep`:
    * no `transfer` steps and no same-thread re-entry of a key that is being executed (no cycles),
    * releases only with `Completed` and only after `Publish` (no panic / cancellation unwinds).
  One revision is modelled (counters start at 0, no memo is verified initially).
-/
import SalsaVerif.Model.SyncDG

namespace SalsaVerif.Model.SyncExec
open SalsaVerif.Model.SyncDG

structure XState where
  base : State
  /-- ghost: number of `ExecBegin k` in this revision -/
  execCount : Nat → Nat
  /-- `k` has a memo verified in the current revision (it was published) -/
  memo : Nat → Bool
  /-- the thread that is between `ExecBegin k` and `Publish k` -/
  executing : Nat → Option Nat

def xinit : XState :=
  { base := init, execCount := fun _ => 0, memo := fun _ => false, executing := fun _ => none }

inductive XOp
  /-- a protocol step of the sync table / wait-for graph (claim, peek, release, releaseSelf, wake) -/
  | proto (op : Op)
  /-- `execute` starts running the user function of `k` on thread `t` (event `WillExecute`) -/
  | execBegin (t k : Nat)
  /-- the new memo of `k` is inserted into the memo table -/
  | publish (t k : Nat)
  deriving DecidableEq, Repr

/-- Is this protocol step allowed under the C17 hypotheses? -/
def protoOk (x : XState) : Op → Bool
  | .transfer _ _ _ => false                                  -- no cycles ⇒ no ownership transfer
  | .release _ k r => decide (r = .completed) && (x.executing k).isNone   -- no panic/cancel; Publish first
  | .releaseSelf _ k => (x.executing k).isNone
  | _ => true

def xstep (x : XState) : XOp → Option XState
  | .proto op =>
    if protoOk x op then (step x.base op).map fun b => { x with base := b } else none
  | .execBegin t k =>
    -- `sync k = Thread t` (the claim is held), the thread is running, the re-check under the claim
    -- failed (no memo verified in this revision), and `t` is not already executing `k` (no cycle)
    if ownedBy x.base k t && idle x.base t && !x.memo k && decide (x.executing k ≠ some t) then
      some { x with execCount := upd x.execCount k (x.execCount k + 1),
                    executing := upd x.executing k (some t) }
    else none
  | .publish t k =>
    if decide (x.executing k = some t) && ownedBy x.base k t then
      some { x with memo := upd x.memo k true, executing := upd x.executing k none }
    else none

def xrun : XState → List XOp → Option XState
  | x, [] => some x
  | x, op :: ops =>
    match xstep x op with
    | none => none
    | some x' => xrun x' ops

end SalsaVerif.Model.SyncExec
