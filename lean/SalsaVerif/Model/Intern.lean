/-
  Model of the interned ingredient (src/interned.rs): the `RevisionQueue`, one shard of the
  interner (slots, key map, intrusive LRU list), `intern_id` (hit / reuse / cold paths) and the
  ingredient's `maybe_changed_after`.

  Representation
  * revisions are plain `Nat`; `R1 = 1` is `Revision::start()`, `REV_MAX = usize::MAX` is
    `Revision::max()`; durabilities are `0 = LOW .. 3 = NEVER_CHANGE (= Durability::MAX)`;
  * `C::REVISIONS : NonZeroUsize` is `revisions : Option Nat`, `none` standing for
    `usize::MAX = IMMORTAL` (garbage collection disabled);
  * `RevisionQueue.revisions` is the `SmallVec` (index 0 = newest); empty iff IMMORTAL;
  * a shard owns `slots` (the `Value<C>`s allocated in this shard, in allocation order; `id` is
    the slot's table index, `generation` the generation part of `metadata.id`), `keyMap`
    (association list fields ↦ slot id standing for `hashbrown::HashTable<ValueKey>`: lookup by
    fields, entries point to slots) and `lru` (the intrusive list: FRONT = most recently used
    = `push_front`; the reuse scan starts at the BACK = `back_mut()`);
  * `memos` is ghost: one entry per memo attached to the value, holding the generation of the id
    under which the memo was inserted.
  * `none` results are panics: `revisions[0]` on an empty queue (guarded by callers), a dangling
    table lookup, and `panic!("interned value in LRU so must be in key_map")`.  Props/C08 shows
    that none of them is reachable.
  * Fresh ids: `zalsa_local.allocate` hands out an unused table id; the model takes it as the
    parameter `fresh` of the shard step, and the single-shard `Interner` supplies a counter.
  Core Lean only.
-/
namespace SalsaVerif.Model.Intern

def R1 : Nat := 1
def REV_MAX : Nat := 2 ^ 64 - 1
def GEN_MAX : Nat := 2 ^ 32 - 1
def LOW : Nat := 0
def NEVER_CHANGE : Nat := 3

/-! ### RevisionQueue -/

structure RevisionQueue where
  /-- index 0 = most recent recorded revision. -/
  revisions : List Nat
deriving DecidableEq, Repr

-- src/interned.rs: fn RevisionQueue::new   (`none` = IMMORTAL ⇒ empty SmallVec)
def RevisionQueue.new (capacity : Option Nat) : RevisionQueue :=
  match capacity with
  | none => ⟨[]⟩
  | some n => ⟨List.replicate n R1⟩

-- src/interned.rs: fn RevisionQueue::record + record_cold
-- `none`: `self.revisions[0]` on the empty (IMMORTAL) queue panics; callers check
-- `C::REVISIONS != IMMORTAL` first.
def RevisionQueue.record (q : RevisionQueue) (revision : Nat) : Option RevisionQueue :=
  match q.revisions with
  | [] => none
  | newest :: rest =>
    if newest ≥ revision then some q
    else some ⟨revision :: (newest :: rest).dropLast⟩

-- src/interned.rs: fn RevisionQueue::is_stale
def RevisionQueue.isStale (q : RevisionQueue) (revision : Nat) : Bool :=
  match q.revisions.getLast? with
  | none => false
  | some oldest => if oldest = R1 then false else decide (revision < oldest)

-- src/interned.rs: fn RevisionQueue::is_primed
def RevisionQueue.isPrimed (q : RevisionQueue) : Bool :=
  match q.revisions.getLast? with
  | none => false
  | some oldest => decide (oldest > R1)

/-! ### one shard -/

structure Slot where
  id : Nat
  fields : Nat
  generation : Nat
  lastInternedAt : Nat
  durability : Nat
  /-- ghost: generation under which each attached memo was inserted. -/
  memos : List Nat
deriving DecidableEq, Repr

structure Shard where
  slots : List Slot
  keyMap : List (Nat × Nat)
  lru : List Nat
deriving DecidableEq, Repr

def Shard.empty : Shard := ⟨[], [], []⟩

def Shard.slot? (sh : Shard) (id : Nat) : Option Slot := sh.slots.find? (fun v => v.id == id)

def Shard.setSlot (sh : Shard) (v : Slot) : Shard :=
  { sh with slots := sh.slots.map (fun w => if w.id == v.id then v else w) }

inductive Kind where
  | new | hit | reuse
deriving DecidableEq, Repr

structure Outcome where
  kind : Kind
  id : Nat
  generation : Nat
deriving DecidableEq, Repr

-- src/interned.rs: fn is_reusable
def isReusable (revisions : Option Nat) (durability : Nat) : Bool :=
  revisions.isSome && durability == LOW

-- `zalsa_local.active_query().map(|(_, stamp)| (stamp.durability, current_revision))
--     .unwrap_or((Durability::MAX, Revision::max()))`
def newDurability (callerDur : Nat) (inQuery : Bool) : Nat :=
  if inQuery then callerDur else NEVER_CHANGE
def newLastInternedAt (cur : Nat) (inQuery : Bool) : Nat :=
  if inQuery then cur else REV_MAX

-- src/interned.rs: fn intern_id, fast path (`key_map.find` succeeded with value `v`)
def internHit (revisions : Option Nat) (cur callerDur : Nat) (inQuery : Bool)
    (sh : Shard) (v : Slot) : Shard × Outcome :=
  let reusable0 := isReusable revisions v.durability
  let refreshed := decide (v.lastInternedAt < cur)
  let last1 := if refreshed then cur else v.lastInternedAt
  -- `cursor_mut_from_ptr(&value.lru).remove(); push_front(..)`
  let lru1 := if refreshed && reusable0 then v.id :: sh.lru.erase v.id else sh.lru
  let dur1 := if inQuery then max v.durability callerDur else v.durability
  let lru2 := if inQuery && reusable0 && !isReusable revisions dur1 then lru1.erase v.id else lru1
  ({ (sh.setSlot { v with lastInternedAt := last1, durability := dur1 }) with lru := lru2 },
    ⟨.hit, v.id, v.generation⟩)

-- src/interned.rs: fn intern_id_cold + insert_value
def internCold (revisions : Option Nat) (cur callerDur : Nat) (inQuery : Bool) (key fresh : Nat)
    (sh : Shard) : Shard × Outcome :=
  let dur := newDurability callerDur inQuery
  let v : Slot := ⟨fresh, key, 0, newLastInternedAt cur inQuery, dur, []⟩
  ({ slots := sh.slots ++ [v],
     keyMap := (key, fresh) :: sh.keyMap,
     lru := if isReusable revisions dur then fresh :: sh.lru else sh.lru },
    ⟨.new, fresh, 0⟩)

/-- src/interned.rs: fn find_reusable_slot::inner.  The argument list is the LRU list seen from
    the BACK (`lru.reverse`); the result is what remains of it (entries at maximal generation
    are unlinked and leaked) and the slot to reuse, if any.  The first entry that is not stale
    ends the scan. -/
def scanLru (q : RevisionQueue) (sh : Shard) : List Nat → Option (List Nat × Option Slot)
  | [] => some ([], none)
  | id :: rest =>
    match sh.slot? id with
    | none => none
    | some v =>
      if !q.isStale v.lastInternedAt then some (id :: rest, none)
      else if v.generation < GEN_MAX then some (id :: rest, some v)
      else scanLru q sh rest

-- src/interned.rs: fn intern_id, reuse of the stale slot `v`
def internReuse (revisions : Option Nat) (cur callerDur : Nat) (inQuery : Bool) (key : Nat)
    (sh : Shard) (v : Slot) : Option (Shard × Outcome) :=
  if (v.fields, v.id) ∈ sh.keyMap then
    let dur := newDurability callerDur inQuery
    let v' : Slot := ⟨v.id, key, v.generation + 1, newLastInternedAt cur inQuery, dur, []⟩
    let lru1 := sh.lru.erase v.id
    some ({ slots := (sh.setSlot v').slots,
            keyMap := (key, v.id) :: sh.keyMap.erase (v.fields, v.id),
            lru := if isReusable revisions dur then v.id :: lru1 else lru1 },
          ⟨.reuse, v.id, v.generation + 1⟩)
  else none

/-- src/interned.rs: fn intern_id, everything done while holding the shard lock.
    `q` is the revision queue as read (lock-free) during the step. -/
def internShard (revisions : Option Nat) (q : RevisionQueue) (cur callerDur : Nat)
    (inQuery : Bool) (key fresh : Nat) (sh : Shard) : Option (Shard × Outcome) :=
  match sh.keyMap.lookup key with
  | some id =>
    match sh.slot? id with
    | none => none
    | some v => some (internHit revisions cur callerDur inQuery sh v)
  | none =>
    if !q.isPrimed then some (internCold revisions cur callerDur inQuery key fresh sh)
    else
      match scanLru q sh sh.lru.reverse with
      | none => none
      | some (r, none) =>
        some (internCold revisions cur callerDur inQuery key fresh { sh with lru := r.reverse })
      | some (r, some v) =>
        internReuse revisions cur callerDur inQuery key { sh with lru := r.reverse } v

/-! ### the single-shard interner -/

structure Interner where
  revisions : Option Nat
  queue : RevisionQueue
  shard : Shard
  nextId : Nat
deriving DecidableEq, Repr

-- src/interned.rs: fn IngredientImpl::new
def Interner.new (revisions : Option Nat) : Interner :=
  ⟨revisions, RevisionQueue.new revisions, Shard.empty, 0⟩

/-- `if C::REVISIONS != IMMORTAL { self.revision_queue.record(current_revision) }` -/
def recordIfMortal (revisions : Option Nat) (q : RevisionQueue) (cur : Nat) : Option RevisionQueue :=
  if revisions.isSome then q.record cur else some q

-- src/interned.rs: fn intern_id
def Interner.intern (s : Interner) (cur callerDur : Nat) (inQuery : Bool) (key : Nat) :
    Option (Interner × Outcome) :=
  match recordIfMortal s.revisions s.queue cur with
  | none => none
  | some q =>
    match internShard s.revisions q cur callerDur inQuery key s.nextId s.shard with
    | none => none
    | some r =>
      some ({ s with queue := q, shard := r.1,
                     nextId := if r.2.kind = .new then s.nextId + 1 else s.nextId }, r.2)

-- src/interned.rs: fn maybe_changed_after   (`true` = VerifyResult::changed())
def Interner.maybeChangedAfter (s : Interner) (id edgeGeneration cur : Nat) :
    Option (Interner × Bool) :=
  match recordIfMortal s.revisions s.queue cur with
  | none => none
  | some q =>
    match s.shard.slot? id with
    | none => none
    | some v =>
      if v.generation > edgeGeneration then some ({ s with queue := q }, true)
      else some ({ s with queue := q, shard := s.shard.setSlot { v with lastInternedAt := cur } }, false)

/-- ghost: a memo is attached to the value `id` (under its current generation). -/
def Interner.addMemo (s : Interner) (id : Nat) : Option Interner :=
  match s.shard.slot? id with
  | none => none
  | some v => some { s with shard := s.shard.setSlot { v with memos := v.generation :: v.memos } }

/-! ### histories -/

inductive Op where
  /-- `Runtime::new_revision`: `cur += 1`. -/
  | newRev
  | intern (callerDur : Nat) (inQuery : Bool) (fields : Nat)
  | mca (id : Nat) (edgeGeneration : Nat)
  | addMemo (id : Nat)
deriving DecidableEq, Repr

structure Sys where
  cur : Nat
  it : Interner
deriving DecidableEq, Repr

def Sys.init (revisions : Option Nat) : Sys := ⟨R1, Interner.new revisions⟩

/-- What a step returned. -/
inductive Ret where
  | unit
  | interned (o : Outcome)
  | verified (changed : Bool)
deriving DecidableEq, Repr

def stepSys (s : Sys) : Op → Option (Sys × Ret)
  | .newRev => some ({ s with cur := s.cur + 1 }, .unit)
  | .intern d q x =>
    match s.it.intern s.cur d q x with
    | none => none
    | some r => some ({ s with it := r.1 }, .interned r.2)
  | .mca id g =>
    match s.it.maybeChangedAfter id g s.cur with
    | none => none
    | some r => some ({ s with it := r.1 }, .verified r.2)
  | .addMemo id =>
    match s.it.addMemo id with
    | none => none
    | some it => some ({ s with it := it }, .unit)

/-- An event of a history: the revision it ran in, the op and what it returned. -/
structure Ev where
  cur : Nat
  op : Op
  ret : Ret
deriving DecidableEq, Repr

/-- Run a history; `none` as soon as a step panics.  Returns the final state and the log. -/
def runSys : Sys → List Op → Option (Sys × List Ev)
  | s, [] => some (s, [])
  | s, op :: ops =>
    match stepSys s op with
    | none => none
    | some r =>
      match runSys r.1 ops with
      | none => none
      | some r' => some (r'.1, ⟨s.cur, op, r.2⟩ :: r'.2)

end SalsaVerif.Model.Intern
