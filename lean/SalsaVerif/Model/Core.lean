/-
  Engine model L1 `Core`, stage S2 (DESIGN.md §1, §3, Appendix A): memoised plain functions over
  inputs with dynamic dependencies, durabilities, the durability shortcut (shallow verification),
  deep verification in recorded edge order, backdating, durability-changing input writes,
  synthetic writes, NEVER_CHANGE (rejected writes, unrecorded edges) — plus the event trace
  (`WillExecute` = `exec`, `DidValidateMemoizedValue` = `valid`).

  Single thread, acyclic programs.  Durabilities are plain `Nat`: 0 = LOW, 1 = MEDIUM, 2 = HIGH,
  3 (and above) = NEVER_CHANGE.  Revisions are plain `Nat`, `R1 = 1`.

  Ghost data (carried by the state, never read by a decision, never printed by the driver
  except `trace`): `Memo.deepAt`, `Memo.obs` entries with `recd = false` and the `val` component
  of every entry, `State.wlog`, `State.trace`.

  Core Lean only.
-/
namespace SalsaVerif.Model.Core

/-- A dependency: an input field or a (smaller) query. -/
inductive Dep where
  | inp (i : Nat)
  | qry (q : Nat)
deriving DecidableEq, Repr

/-- Query bodies are resumptions: every read of the database is a node. -/
inductive Body where
  | ret (v : Nat)
  | read (d : Dep) (k : Nat → Body)

/-- One read of the last execution: what was read, the value it returned (ghost) and whether
    salsa recorded an edge for it (`add_read`: NEVER_CHANGE reads are not recorded). -/
structure Obs where
  dep : Dep
  val : Nat
  recd : Bool
deriving DecidableEq, Repr

/-- Event stream (`zalsa.event`): `WillExecute` and `DidValidateMemoizedValue`. -/
inductive Ev where
  | exec (q : Nat)
  | valid (q : Nat)
deriving DecidableEq, Repr

-- src/function/memo.rs: struct Memo / MemoHeader / QueryRevisions
structure Memo where
  value : Nat
  /-- `verified_at` -/
  va : Nat
  /-- `revisions.changed_at` -/
  ca : Nat
  /-- `revisions.durability` -/
  dur : Nat
  /-- ghost: revision of the last execution or deep verification -/
  deepAt : Nat
  /-- the reads of the last execution in order; those with `recd` are `origin.edges` -/
  obs : List Obs
deriving Repr

-- src/input.rs: one field of an input struct (value, `revisions[f]`, `durability`)
structure Inp where
  val : Nat
  ca : Nat
  dur : Nat
deriving Repr

-- src/runtime.rs: struct Runtime (+ the memo table and the input table)
structure State where
  /-- `revisions[0]` = current revision -/
  cur : Nat
  /-- `revisions[d]` for durabilities d ≥ 1 (`last_changed_revision`) -/
  lch : Nat → Nat
  inp : Nat → Inp
  memos : Nat → Option Memo
  /-- ghost: (revision, reported durability) of every revision bump / accepted write -/
  wlog : List (Nat × Nat)
  /-- the events emitted so far, oldest first (never read by a decision) -/
  trace : List Ev

-- src/runtime.rs: fn last_changed_revision (LOW ↦ current revision)
def lc (s : State) (d : Nat) : Nat := if d = 0 then s.cur else s.lch d

-- src/function/memo.rs: fn insert_memo
def setMemo (s : State) (q : Nat) (m : Memo) : State :=
  { s with memos := fun q' => if q' = q then some m else s.memos q' }

-- src/zalsa.rs: fn event
def emit (s : State) (e : Ev) : State := { s with trace := s.trace ++ [e] }

/-- what a read reports to the reader: value, `changed_at`, `durability` -/
structure Res where
  val : Nat
  ca : Nat
  dur : Nat
deriving Repr

-- src/active_query.rs: struct ActiveQuery (changed_at, durability, input_outputs)
structure Frame where
  ca : Nat
  dur : Nat
  obs : List Obs

-- src/active_query.rs: fn add_read / add_read_simple
def Frame.push (f : Frame) (d : Dep) (r : Res) : Frame :=
  { ca := max f.ca r.ca, dur := min f.dur r.dur, obs := f.obs ++ [⟨d, r.val, decide (r.dur ≠ 3)⟩] }

abbrev FetchFn := State → Nat → State × Res
abbrev McaFn := State → Nat → Nat → State × Bool

-- src/input.rs: fn field (report_tracked_read_simple) / src/function/fetch.rs: fn fetch
def readDep (fe : FetchFn) (s : State) : Dep → State × Res
  | .inp i => (s, ⟨(s.inp i).val, (s.inp i).ca, (s.inp i).dur⟩)
  | .qry q => fe s q

-- src/function/execute.rs: fn execute_query (the user function running against the database)
def runBody (fe : FetchFn) : Body → State → Frame → State × Frame × Nat
  | .ret v, s, f => (s, f, v)
  | .read d k, s, f =>
    let r := readDep fe s d
    runBody fe (k r.2.val) r.1 (f.push d r.2)

-- src/function/backdate.rs: fn backdate_if_appropriate
def backdateCa (old : Option Memo) (v : Nat) (f : Frame) : Nat :=
  match old with
  | some o => if o.value = v ∧ o.dur ≤ f.dur then o.ca else f.ca
  | none => f.ca

-- src/active_query.rs: fn new (durability NEVER_CHANGE, changed_at R1, no edges)
def frame0 : Frame := { ca := 1, dur := 3, obs := [] }

-- src/function/memo.rs: Memo::new(value, current_revision, revisions)
def newMemo (v cur ca dur : Nat) (obs : List Obs) : Memo :=
  { value := v, va := cur, ca := ca, dur := dur, deepAt := cur, obs := obs }

-- src/function/execute.rs: fn execute (CycleRecoveryStrategy::Panic arm)
def execute (fe : FetchFn) (P : Nat → Body) (s : State) (q : Nat) (old : Option Memo) : State × Res :=
  let r := runBody fe (P q) (emit s (.exec q)) frame0
  let ca := backdateCa old r.2.2 r.2.1
  (setMemo r.1 q (newMemo r.2.2 r.1.cur ca r.2.1.dur r.2.1.obs), ⟨r.2.2, ca, r.2.1.dur⟩)

-- src/key.rs: fn maybe_changed_after (input field: `revisions[f] > rev`; function: recursive)
def depChanged (mc : McaFn) (s : State) (d : Dep) (rev : Nat) : State × Bool :=
  match d with
  | .inp i => (s, decide ((s.inp i).ca > rev))
  | .qry q => mc s q rev

-- src/function/maybe_changed_after.rs: fn deep_verify_edges (recorded order, stop at first change)
def deepEdges (mc : McaFn) : List Obs → State → Nat → State × Bool
  | [], s, _ => (s, true)
  | o :: os, s, rev =>
    if o.recd then
      let r := depChanged mc s o.dep rev
      if r.2 then (r.1, false) else deepEdges mc os r.1 rev
    else deepEdges mc os s rev

-- src/function/memo.rs: fn mark_as_verified (event, then `verified_at := cur`)
def markVerified (s : State) (q : Nat) (m : Memo) : State :=
  setMemo (emit s (.valid q)) q { m with va := s.cur }

/-- `mark_as_verified` after a successful deep verification (the ghost `deepAt` moves too). -/
def markDeepVerified (s : State) (q : Nat) (m : Memo) : State :=
  setMemo (emit s (.valid q)) q { m with va := s.cur, deepAt := s.cur }

-- src/function/fetch.rs: fn refresh_memo (fetch_hot, fetch_cold: shallow_verify_memo,
-- deep_verify_memo, execute)
def fetchStep (fe : FetchFn) (mc : McaFn) (P : Nat → Body) (s : State) (q : Nat) : State × Res :=
  match s.memos q with
  | none => execute fe P s q none
  | some m =>
    if m.va = s.cur then (s, ⟨m.value, m.ca, m.dur⟩)
    else if lc s m.dur ≤ m.va then (markVerified s q m, ⟨m.value, m.ca, m.dur⟩)
    else
      let r := deepEdges mc m.obs s m.va
      if r.2 then (markDeepVerified r.1 q m, ⟨m.value, m.ca, m.dur⟩)
      else execute fe P r.1 q (some m)

-- src/function/maybe_changed_after.rs: fn maybe_changed_after (+ _hot, _cold)
def mcaStep (fe : FetchFn) (mc : McaFn) (P : Nat → Body) (s : State) (q : Nat) (rev : Nat) : State × Bool :=
  match s.memos q with
  | none => (s, true)
  | some _ =>
    let r := fetchStep fe mc P s q
    (r.1, decide (r.2.ca > rev))

/-- The engine by structural recursion on the call rank: level `r + 1` handles query `r` with
    level `r` as the engine for its callees. -/
def eng (P : Nat → Body) : Nat → FetchFn × McaFn
  | 0 => (fun s _ => (s, ⟨0, 0, 0⟩), fun s _ _ => (s, true))
  | r + 1 =>
    let sub := eng P r
    (fun s q => if q < r then sub.1 s q else if q = r then fetchStep sub.1 sub.2 P s q else (s, ⟨0, 0, 0⟩),
     fun s q rev => if q < r then sub.2 s q rev else if q = r then mcaStep sub.1 sub.2 P s q rev else (s, true))

-- src/function/fetch.rs: fn fetch
def fetch (P : Nat → Body) (s : State) (q : Nat) : State × Res := (eng P (q + 1)).1 s q

-- src/input.rs: fn set_field (after `zalsa_mut(); new_revision()`); src/runtime.rs:
-- fn report_tracked_write.  Rejected (only the revision advances) when the field is NEVER_CHANGE.
def write (s : State) (i : Nat) (v : Nat) (nd : Option Nat) : State :=
  let cur' := s.cur + 1
  let x := s.inp i
  if x.dur ≥ 3 then { s with cur := cur', wlog := (cur', 0) :: s.wlog }
  else
    { s with
      cur := cur'
      lch := fun k => if k ≤ x.dur then cur' else s.lch k
      inp := fun j => if j = i then ⟨v, cur', (match nd with | some d => d | none => x.dur)⟩ else s.inp j
      wlog := (cur', x.dur) :: (cur', 0) :: s.wlog }

/-- does `write s i …` panic (`assert old durability ≠ NEVER_CHANGE`, after the revision bump)? -/
def writePanics (s : State) (i : Nat) : Bool := decide ((s.inp i).dur ≥ 3)

-- src/storage.rs / src/runtime.rs: fn synthetic_write = new_revision(); report_tracked_write(d)
def synth (s : State) (d : Nat) : State :=
  let cur' := s.cur + 1
  if d ≥ 3 then { s with cur := cur', wlog := (cur', 0) :: s.wlog }
  else { s with cur := cur', lch := fun k => if k ≤ d then cur' else s.lch k, wlog := (cur', d) :: (cur', 0) :: s.wlog }

/-- does `synth s d` panic (`report_tracked_write(NEVER_CHANGE)`)? -/
def synthPanics (d : Nat) : Bool := decide (d ≥ 3)

/-! ### Histories -/

inductive Op where
  | get (q : Nat)
  | set (i : Nat) (v : Nat) (nd : Option Nat)
  | synth (d : Nat)
deriving Repr

def step (P : Nat → Body) (s : State) : Op → State
  | .get q => (fetch P s q).1
  | .set i v nd => write s i v nd
  | .synth d => synth s d

/-- Fresh database: revision R1, the given input values and durabilities, `changed_at = R1`. -/
def init (inp : Nat → Inp) : State :=
  { cur := 1, lch := fun _ => 1, inp := fun i => ⟨(inp i).val, 1, (inp i).dur⟩,
    memos := fun _ => none, wlog := [], trace := [] }

def run (P : Nat → Body) (inp : Nat → Inp) (ops : List Op) : State := ops.foldl (step P) (init inp)

/-- the answers of the `get` operations of a history, in order -/
def outputs (P : Nat → Body) : State → List Op → List Nat
  | _, [] => []
  | s, .get q :: ops => (fetch P s q).2.val :: outputs P (fetch P s q).1 ops
  | s, .set i v nd :: ops => outputs P (write s i v nd) ops
  | s, .synth d :: ops => outputs P (synth s d) ops

/-! ### Reference semantics (from scratch, no memo table) -/

def evalB (sem : Dep → Nat) : Body → Nat
  | .ret v => v
  | .read d k => evalB sem (k (sem d))

def semAt (P : Nat → Body) (inp : Nat → Inp) : Nat → Nat → Nat
  | 0, _ => 0
  | r + 1, q =>
    if q < r then semAt P inp r q
    else if q = r then
      evalB (fun d => match d with | .inp i => (inp i).val | .qry q' => semAt P inp r q') (P q)
    else 0

def sem (P : Nat → Body) (inp : Nat → Inp) (q : Nat) : Nat := semAt P inp (q + 1) q

/-! The from-scratch oracle for histories: the environment is (value, durability) per input —
    the durability only decides whether a write is rejected; no revisions, no memos. -/

def refInp (env : Nat → Nat × Nat) : Nat → Inp := fun i => ⟨(env i).1, 0, (env i).2⟩

def refWrite (env : Nat → Nat × Nat) (i v : Nat) (nd : Option Nat) : Nat → Nat × Nat :=
  if (env i).2 ≥ 3 then env
  else fun j => if j = i then (v, match nd with | some d => d | none => (env i).2) else env j

def refOutputs (P : Nat → Body) : (Nat → Nat × Nat) → List Op → List Nat
  | _, [] => []
  | env, .get q :: ops => sem P (refInp env) q :: refOutputs P env ops
  | env, .set i v nd :: ops => refOutputs P (refWrite env i v nd) ops
  | env, .synth _ :: ops => refOutputs P env ops

/-! ### The program language of the line protocol (DESIGN §2.2), compiled to `Body` by CPS -/

inductive Expr where
  | const (n : Nat)
  | inp (k : Nat)
  | qry (j : Nat)
  | add (a b : Expr)
  | min (a b : Expr)
  | max (a b : Expr)
  | ite (c a b : Expr)
deriving Repr

/-- left-to-right evaluation; `ite` evaluates the condition, then only the taken branch -/
def compile : Expr → (Nat → Body) → Body
  | .const n, k => k n
  | .inp i, k => .read (.inp i) k
  | .qry j, k => .read (.qry j) k
  | .add a b, k => compile a fun x => compile b fun y => k ((x + y) % 4)
  | .min a b, k => compile a fun x => compile b fun y => k (Nat.min x y)
  | .max a b, k => compile a fun x => compile b fun y => k (Nat.max x y)
  | .ite c a b, k => compile c fun x => if x % 2 = 1 then compile a k else compile b k

/-- every called query is smaller than `r` -/
def Expr.callsBelow (r : Nat) : Expr → Bool
  | .const _ => true
  | .inp _ => true
  | .qry j => decide (j < r)
  | .add a b => a.callsBelow r && b.callsBelow r
  | .min a b => a.callsBelow r && b.callsBelow r
  | .max a b => a.callsBelow r && b.callsBelow r
  | .ite c a b => c.callsBelow r && a.callsBelow r && b.callsBelow r

/-- the program defined by a list of expressions (query `q` = `es[q]`; undefined queries return 0) -/
def progOf (es : List Expr) (q : Nat) : Body :=
  match es[q]? with
  | some e => compile e .ret
  | none => .ret 0

/-- `Wf` as a Bool: query `q` calls only queries `< q` -/
def wfList : Nat → List Expr → Bool
  | _, [] => true
  | r, e :: es => e.callsBelow r && wfList (r + 1) es

end SalsaVerif.Model.Core
