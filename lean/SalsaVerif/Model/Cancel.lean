/-
  Cancellation model (C20, C21).  Core Lean only.

  (1) The writer/reader machine of `Storage::cancel_others` (src/storage.rs), the clone counter
      of `StorageHandle::clone` / `CoordinateDrop::drop`, and the runtime's cancellation flag /
      cancellation count / current revision (src/runtime.rs).  Order of operations inside
      `cancel_others`, as in the code:
          set_cancellation_flag            (CancellationFlagGuard::new)
          wait on the condvar until *clones == 1
          reset_cancellation_flag          (CancellationFlagGuard::drop, end of the inner block)
          bump_cancellation_count          (on u8 overflow: Zalsa::new_revision)
      and then the caller writes through the `&mut Zalsa` (input setters / `synthetic_write`
      call `new_revision`; `set_lru_capacity` does not).

  (2) `Token`: the per-handle `CancellationToken` (src/zalsa_local.rs) over the generated bit
      operations of Gen/Consts.lean, the `DbGuard` of `Attached::attach` (src/attach.rs) and the
      `DisableLocalCancellationGuard` of `function/execute.rs`, as one LIFO stack of drop guards.
-/
import SalsaVerif.Gen.Consts

namespace SalsaVerif.Model.Cancel
open SalsaVerif.Gen.Consts

/-! ## (1) writer / reader machine -/

/-- result of `Zalsa::unwind_if_revision_cancelled` as far as the global flag is concerned -/
inductive Outcome where
  | ok
  | unwindPendingWrite        -- `Cancelled::PendingWrite.throw()`
deriving DecidableEq, Repr

/-- A reader thread owning one clone of the storage handle.  `work` is the number of fetch steps
    it still wants to perform; every fetch step starts with `unwind_if_revision_cancelled`. -/
structure Reader where
  work : Nat
  live : Bool          -- still owns its handle (`CoordinateDrop` not yet dropped)
  unwound : Bool       -- has unwound with `Cancelled::PendingWrite`
deriving DecidableEq, Repr

/-- program counter of the (unique, `&mut self`) writer inside `cancel_others` -/
inductive Phase where
  | idle            -- not inside `zalsa_mut`
  | flagSet         -- flag set, waiting on the condvar
  | awaited         -- observed `*clones == 1`, flag guard not yet dropped
  | flagReset       -- flag reset, count not yet bumped
  | bumped          -- `cancel_others` returned `&mut Zalsa`; the write itself is pending
deriving DecidableEq, Repr

/-- what the caller of `zalsa_mut` does with the `&mut Zalsa` -/
inductive WriteKind where
  | input           -- input setter / `synthetic_write`: `new_revision()`
  | lruCapacity     -- `set_lru_capacity` / `trigger_lru_eviction`: no revision bump
deriving DecidableEq, Repr

structure State where
  clones : Nat            -- `Coordinate::clones` (begins at 1: the writer's own handle)
  flag : Bool             -- `Runtime::revision_canceled`
  cc : Nat                -- `Runtime::cancellation_count : AtomicU8`
  cur : Nat               -- `Runtime::revisions[0]`
  readers : List Reader   -- every clone ever made, in creation order (index = reader id)
  phase : Phase
deriving DecidableEq, Repr

/-- `Storage::new`: one handle, flag clear, count 0, revision R1 -/
def State.init : State := ⟨1, false, 0, 1, [], .idle⟩

-- src/runtime.rs: fn set_cancellation_flag
def setCancellationFlag (s : State) : State := { s with flag := true }

-- src/runtime.rs: fn reset_cancellation_flag
def resetCancellationFlag (s : State) : State := { s with flag := false }

-- src/runtime.rs: fn load_cancellation_flag
def loadCancellationFlag (s : State) : Bool := s.flag

-- src/runtime.rs: fn cancellation_count
def cancellationCount (s : State) : Nat := s.cc

-- src/runtime.rs: fn bump_cancellation_count   (`checked_add(1)` on a `u8`; `true` = overflow,
-- in which case the count is left unchanged)
def bumpCancellationCount (s : State) : State × Bool :=
  if s.cc + 1 < 2^8 then ({ s with cc := s.cc + 1 }, false) else (s, true)

-- src/runtime.rs: fn new_revision
def newRevision (s : State) : State := { s with cur := s.cur + 1, cc := 0 }

-- src/zalsa.rs: fn unwind_if_revision_cancelled   (global part: the flag)
def unwindIfRevisionCancelled (s : State) : Outcome :=
  if loadCancellationFlag s then .unwindPendingWrite else .ok

def setReader (s : State) (i : Nat) (r : Reader) : State :=
  { s with readers := s.readers.set i r }

/-- one fetch step of reader `i`: first the cancellation check; on a set flag the reader unwinds
    (all remaining work is abandoned, the handle is dropped by a later `finish`), otherwise one
    unit of work is done. Enabled iff the reader is live and has work left. -/
def fetchStep (s : State) (i : Nat) : Option (Outcome × State) :=
  match s.readers[i]? with
  | none => none
  | some r =>
    if r.live && decide (0 < r.work) then
      match unwindIfRevisionCancelled s with
      | .unwindPendingWrite => some (.unwindPendingWrite, setReader s i { r with work := 0, unwound := true })
      | .ok => some (.ok, setReader s i { r with work := r.work - 1 })
    else none

-- src/storage.rs: impl Drop for CoordinateDrop   (`*clones -= 1; cvar.notify_all()`)
def finish (s : State) (i : Nat) : Option State :=
  match s.readers[i]? with
  | none => none
  | some r =>
    if r.live then
      some { (setReader s i { r with live := false }) with clones := s.clones - 1 }
    else none

/-- who clones: `none` = the writer's own handle (only outside `cancel_others`, which holds
    `&mut self`), `some i` = reader `i` (must be live). -/
def canClone (s : State) : Option Nat → Bool
  | none => s.phase == .idle
  | some i => match s.readers[i]? with
    | some r => r.live
    | none => false

-- src/storage.rs: impl Clone for StorageHandle   (`*clones += 1`)
def cloneHandle (s : State) (parent : Option Nat) (work : Nat) : Option State :=
  if canClone s parent then
    some { s with clones := s.clones + 1, readers := s.readers ++ [⟨work, true, false⟩] }
  else none

/-- src/storage.rs: fn cancel_others, the part after the inner block:
    `let overflow = bump_cancellation_count(); if overflow { zalsa.new_revision(); }` -/
def bumpCc (s : State) : State :=
  let (s1, overflow) := bumpCancellationCount s
  if overflow then newRevision s1 else s1

inductive Label where
  | fetchStep (i : Nat)
  | finish (i : Nat)
  | cloneHandle (parent : Option Nat) (work : Nat)
  | setFlag
  | await
  | resetFlag
  | bumpCc
  | write (k : WriteKind)
deriving DecidableEq, Repr

/-- the labelled transition system; `none` = the label is not enabled in `s` -/
def step (s : State) : Label → Option State
  | .fetchStep i => (fetchStep s i).map (·.2)
  | .finish i => finish s i
  | .cloneHandle p w => cloneHandle s p w
  | .setFlag =>
    if s.phase = .idle then some { setCancellationFlag s with phase := .flagSet } else none
  | .await =>
    -- `while *clones != 1 { clones = cvar.wait(clones) }`
    if s.phase = .flagSet ∧ s.clones = 1 then some { s with phase := .awaited } else none
  | .resetFlag =>
    if s.phase = .awaited then some { resetCancellationFlag s with phase := .flagReset } else none
  | .bumpCc =>
    if s.phase = .flagReset then some { bumpCc s with phase := .bumped } else none
  | .write k =>
    if s.phase = .bumped then
      match k with
      | .input => some { newRevision s with phase := .idle }
      | .lruCapacity => some { s with phase := .idle }
    else none

def run (s : State) : List Label → Option State
  | [] => some s
  | l :: ls => match step s l with
    | some s' => run s' ls
    | none => none

def Reachable (s : State) : Prop := ∃ ls, run State.init ls = some s

/-- a schedule as an infinite sequence of labels; state after its first `n` labels -/
def runSched (s : State) (sched : Nat → Label) : Nat → Option State
  | 0 => some s
  | n + 1 => match runSched s sched n with
    | some s' => step s' (sched n)
    | none => none

def Label.isReader : Label → Bool
  | .fetchStep _ => true
  | .finish _ => true
  | _ => false

/-- number of live reader handles -/
def liveCount : List Reader → Nat
  | [] => 0
  | r :: rs => (if r.live then 1 else 0) + liveCount rs

/-- the well-founded waitMeasure of the writer's wait: Σ over live readers of (remaining work + 1)
    (= Σ remaining work + clones − 1 in every reachable state) -/
def measureReaders : List Reader → Nat
  | [] => 0
  | r :: rs => (if r.live then r.work + 1 else 0) + measureReaders rs

def waitMeasure (s : State) : Nat := measureReaders s.readers

def Phase.pastAwait : Phase → Bool
  | .awaited | .flagReset | .bumped => true
  | _ => false

/-- the invariant of the machine (decidable) -/
def SInv (s : State) : Prop :=
  s.clones = 1 + liveCount s.readers ∧
  s.cc < 2^8 ∧
  (s.phase.pastAwait = true → liveCount s.readers = 0) ∧
  (s.flag = (s.phase == .flagSet || s.phase == .awaited))

instance (s : State) : Decidable (SInv s) := by unfold SInv; infer_instance

/-- `(current revision, cancellation count)` -/
def epoch (s : State) : Nat × Nat := (s.cur, s.cc)

def epochLt (a b : Nat × Nat) : Prop := a.1 < b.1 ∨ (a.1 = b.1 ∧ a.2 < b.2)
def epochLe (a b : Nat × Nat) : Prop := a = b ∨ epochLt a b

instance (a b : Nat × Nat) : Decidable (epochLt a b) := by unfold epochLt; infer_instance
instance (a b : Nat × Nat) : Decidable (epochLe a b) := by unfold epochLe; infer_instance

/-- what a provisional (cycle) memo records: `verified_at` and the `IterationStamp`
    `(iteration, cancellation_count)` -/
structure ProvisionalMemo where
  verifiedAt : Nat
  cc : Nat
  iteration : Nat
deriving DecidableEq, Repr

def ProvisionalMemo.epoch (m : ProvisionalMemo) : Nat × Nat := (m.verifiedAt, m.cc)

/-- a provisional memo inserted while the runtime is in state `s`
    (function/execute.rs: `IterationStamp::initial(zalsa.runtime().cancellation_count())`,
    `Memo::new(.., zalsa.current_revision(), ..)`) -/
def provisionalAt (s : State) (iteration : Nat) : ProvisionalMemo := ⟨s.cur, s.cc, iteration⟩

/-- the conjunction checked before a provisional memo is reused
    (`validate_may_be_provisional` + `validate_same_iteration`, `fetch_cold_cycle`,
    `previous_iteration`, `TryClaimCycleHeadsIter`): same revision, same cancellation count,
    same iteration as the cycle head. -/
def usableProvisional (s : State) (headIteration : Nat) (m : ProvisionalMemo) : Bool :=
  m.verifiedAt == s.cur && m.cc == cancellationCount s && m.iteration == headIteration

/-! ## (2) the cancellation token of one handle -/

structure Token where
  bits : Nat              -- `Arc<AtomicU8>`
deriving DecidableEq, Repr

def Token.new : Token := ⟨0⟩

-- src/zalsa_local.rs: fn CancellationToken::cancel
def Token.cancel (t : Token) : Token := ⟨CancellationToken.cancel t.bits⟩

-- src/zalsa_local.rs: fn CancellationToken::is_cancelled
def Token.isCancelled (t : Token) : Bool := CancellationToken.is_cancelled t.bits

-- src/zalsa_local.rs: fn CancellationToken::set_cancellation_disabled  (returns the previous bit)
def Token.setDisabled (t : Token) (disabled : Bool) : Token × Bool :=
  let r := CancellationToken.set_cancellation_disabled t.bits disabled
  (⟨r.1⟩, r.2)

-- src/zalsa_local.rs: fn CancellationToken::should_trigger_local_cancellation
def Token.shouldTrigger (t : Token) : Bool := CancellationToken.should_trigger_local_cancellation t.bits

-- src/zalsa_local.rs: fn CancellationToken::reset
def Token.reset (t : Token) : Token := ⟨CancellationToken.reset t.bits⟩

/-- the disabled bit, read the way `set_cancellation_disabled` reads the previous bit -/
def Token.isDisabled (t : Token) : Bool := (t.setDisabled true).2

/-- only the two mask bits are ever set -/
def Token.WF (t : Token) : Prop := t.bits < 4

instance (t : Token) : Decidable t.WF := by unfold Token.WF; infer_instance

/-- the drop guards alive on the handle's thread, innermost first -/
inductive Frame where
  | db (state : Bool)            -- attach.rs `DbGuard { state }`; `true` = `Some(attached)`: this guard attached the database
  | disable (wasDisabled : Bool) -- execute.rs `DisableLocalCancellationGuard { was_disabled }`
deriving DecidableEq, Repr

def Frame.isDb : Frame → Bool
  | .db _ => true
  | _ => false

def Frame.isDisable : Frame → Bool
  | .disable _ => true
  | _ => false

structure Local where
  token : Token          -- `ZalsaLocal::cancelled`
  attached : Bool        -- `ATTACHED.database.is_some()` on the handle's thread
  frames : List Frame
deriving DecidableEq, Repr

def Local.new : Local := ⟨Token.new, false, []⟩

def Local.attachDepth (l : Local) : Nat := (l.frames.filter Frame.isDb).length
def Local.guardDepth (l : Local) : Nat := (l.frames.filter Frame.isDisable).length

inductive LOp where
  | cancel       -- `CancellationToken::cancel` from any thread holding a clone of the token
  | attach       -- `Attached::attach` entry: `DbGuard::new`
  | pushGuard    -- `DisableLocalCancellationGuard::new` (fixpoint / fallback execution)
  | pop          -- innermost guard dropped: scope exit by return *or* by unwind (same `Drop` code)
  | check        -- `unwind_if_revision_cancelled` (local part); state-neutral, see `Local.check`
deriving DecidableEq, Repr

-- src/zalsa.rs: fn unwind_if_revision_cancelled   (local part: `Cancelled::Local.throw()` iff true)
def Local.check (l : Local) : Bool := l.token.shouldTrigger

/-- `none` = not enabled: `pop` with no guard alive; `pushGuard` while no database is attached
    (`execute` is only reached from the tracked-function wrapper, which runs inside
    `salsa::attach`, components/salsa-macro-rules/src/setup_tracked_fn.rs). -/
def Local.step (l : Local) : LOp → Option Local
  | .cancel => some { l with token := l.token.cancel }
  | .attach =>
    -- DbGuard::new: a database is already attached → `state: None`; else attach → `state: Some`
    if l.attached then some { l with frames := .db false :: l.frames }
    else some { l with attached := true, frames := .db true :: l.frames }
  | .pushGuard =>
    if l.attached then
      let (t, was) := l.token.setDisabled true
      some { l with token := t, frames := .disable was :: l.frames }
    else none
  | .pop =>
    match l.frames with
    | [] => none
    | .db state :: rest =>
      -- DbGuard::drop: `if let Some(attached) = self.state && let Some(prev) = database.replace(None) { uncancel() }`
      if state && l.attached then some { token := l.token.reset, attached := false, frames := rest }
      else if state then some { l with attached := false, frames := rest }
      else some { l with frames := rest }
    | .disable was :: rest =>
      -- DisableLocalCancellationGuard::drop
      some { l with token := (l.token.setDisabled was).1, frames := rest }
  | .check => some l

def Local.run (l : Local) : List LOp → Option Local
  | [] => some l
  | o :: os => match l.step o with
    | some l' => Local.run l' os
    | none => none

/-- nesting discipline of a sequence of ops relative to its start: `d` = guards opened so far by
    the sequence itself; a `pop` never closes a guard the sequence did not open; at the end all
    are closed. -/
def balanced : Nat → List LOp → Bool
  | d, [] => d == 0
  | d, .attach :: os => balanced (d + 1) os
  | d, .pushGuard :: os => balanced (d + 1) os
  | 0, .pop :: _ => false
  | d + 1, .pop :: os => balanced d os
  | d, _ :: os => balanced d os

def hasDb (fs : List Frame) : Bool := fs.any Frame.isDb
def hasGuard (fs : List Frame) : Bool := fs.any Frame.isDisable

/-- shape of the guard stack: a `DbGuard` has `state = Some` iff no other `DbGuard` is below it;
    a disable guard sits above some `DbGuard` and remembers whether a disable guard is below. -/
def framesOk : List Frame → Bool
  | [] => true
  | .db s :: rest => (s == !hasDb rest) && framesOk rest
  | .disable w :: rest => hasDb rest && (w == hasGuard rest) && framesOk rest

def LInv (l : Local) : Prop :=
  l.token.WF ∧ framesOk l.frames = true ∧ l.attached = hasDb l.frames ∧
  l.token.isDisabled = hasGuard l.frames

instance (l : Local) : Decidable (LInv l) := by unfold LInv; infer_instance

/-- the complete check of `Zalsa::unwind_if_revision_cancelled`: local token first, then the flag -/
inductive FullOutcome where
  | ok | unwindLocal | unwindPendingWrite
deriving DecidableEq, Repr

def unwindIfRevisionCancelledFull (s : State) (l : Local) : FullOutcome :=
  if l.check then .unwindLocal
  else if loadCancellationFlag s then .unwindPendingWrite
  else .ok

/-- one `Local` per handle -/
abbrev Family := Nat → Local

def Family.new : Family := fun _ => Local.new

def Family.step (f : Family) (h : Nat) (op : LOp) : Option Family :=
  ((f h).step op).map fun l => fun k => if k = h then l else f k

end SalsaVerif.Model.Cancel
