/-
  Engine model `CoreSpec`: stage S2 (Model/Core.lean — memoised plain functions over inputs,
  dynamic dependencies, durabilities, shallow/deep verification, backdating, writes) extended with
    (i)   tracked structs: every query ("creator") owns at most ONE tracked struct `Ts(k, v)`
          (identity field `k`, tracked field `v`).  `tracked_struct.rs: new_struct / update /
          allocate / delete_entity`, the read lock (`updated_at := cur`), tracked-field reads
          (`(field key, struct durability, field stamp)`), identity-field reads (no dependency);
    (ii)  values that carry an optional struct handle (`Val.h = some c`: the struct of creator `c`);
    (iii) the specifiable function `spec(t)` keyed by the struct: its memos have origin
          `Derived` (`origin = none`) or `Assigned creator` (`origin = some c`);
          `function/specify.rs: specify_and_record`, `validate_specified_value`,
          `function/maybe_changed_after.rs` (`Assigned` ⇒ changed, output edges ⇒
          `mark_validated_output`, `update_shallow` ⇒ `mark_outputs_as_verified`),
          `function/backdate.rs` AS REPAIRED (an `Assigned` memo replaced by a computed one keeps
          `changed_at` only when the value is equal, else `changed_at := cur`),
          `function/diff_outputs.rs` (stale structs are deleted with their memos, stale specified
          keys are reported and left alone), `discard_edges_if_never_change`.

  Modelling decisions
   * A struct is addressed by its creator `c` (`slots c`).  The struct's *id* (slot + generation)
     is abstracted to `Slot.gen`, a database-wide allocation ordinal: two allocations never share
     it, so it stands for "the `Id` printed in events" and for handle equality.  A memo remembers
     the `gen` of the struct its value points to (`Memo.hgen`) — values that differ only in the
     struct id are different values for `values_equal`.
   * A1 (no leaked handles): a handle `c` held by running code always denotes the *current*
     struct of `c`.  When no such struct exists the model answers `panic staleHandle`.
   * Panics do not unwind in the model: the first panic is latched in `State.panic` and the engine
     runs on; `stepGet` turns a latched panic into the result of the operation.  The state after
     a panic is not part of the model (the driver stops predicting the case).
   * `backdate violation` (debug builds panic) is latched as `backdateViolation`.

  Ghost data (never read by a decision): `Memo.deepAt`, `Obs.val`, unrecorded `Obs`, `State.wlog`,
  `State.trace`.  Core Lean only.
-/
namespace SalsaVerif.Model.CoreSpec

/-- a value: number + optional tracked-struct handle (the struct of creator `c`) -/
structure Val where
  n : Nat
  h : Option Nat
deriving DecidableEq, Repr

/-- A dependency: an input field, a (smaller) query, the tracked field of the struct of creator
    `c`, or the specifiable function on that struct. -/
inductive Dep where
  | inp (i : Nat)
  | qry (q : Nat)
  | field (c : Nat)
  | spec (c : Nat)
deriving DecidableEq, Repr

/-- Query bodies are resumptions: every access of the database is a node. -/
inductive Body where
  | ret (v : Val)
  | read (d : Dep) (k : Val → Body)
  /-- read the identity field of the struct of `c` (read lock, no dependency) -/
  | ident (c : Nat) (k : Nat → Body)
  /-- `Ts::new(db, idk, v)` in the executing query; the continuation gets the handle -/
  | create (idk : Nat) (v : Nat) (k : Val → Body)
  /-- `spec::specify(db, <struct of c>, v)` -/
  | specify (c : Nat) (v : Nat) (k : Body)

/-- a program: node bodies and the body of `spec` as a function of (identity field, tracked field) -/
structure Prog where
  node : Nat → Body
  spec : Nat → Nat → Body

/-- One edge / read of the last execution.  `out = true`: an *output* edge (`QueryEdge::output`)
    on `spec(struct of c)`, `dep = .spec c`, `val` = the specified value (ghost).  `recd = false`:
    not stored in the memo (NEVER_CHANGE reads; all edges of a NEVER_CHANGE memo). -/
structure Obs where
  dep : Dep
  val : Val
  recd : Bool
  out : Bool
deriving DecidableEq, Repr

/-- `zalsa.event`: the struct-keyed events carry (creator, generation) = the struct id -/
inductive Ev where
  | exec (q : Nat)
  | valid (q : Nat)
  | execS (c g : Nat)
  | validS (c g : Nat)
  /-- `WillDiscardStaleOutput { execute_key: q, output_key: Ts(c,g) }` -/
  | staleT (q c g : Nat)
  /-- `DidDiscard { key: Ts(c,g) }` -/
  | discT (c g : Nat)
  /-- `DidDiscard { key: spec(Ts(c,g)) }` -/
  | discS (c g : Nat)
  /-- `WillDiscardStaleOutput { execute_key: q, output_key: spec(Ts(c,g)) }` -/
  | staleS (q c g : Nat)
deriving DecidableEq, Repr

inductive Panic where
  /-- "can only use `specify` on salsa structs created during the current tracked fn" -/
  | specifyForeign
  /-- "cannot call `specify` twice for the same key in one query execution" -/
  | specifyTwice
  /-- `report_backdate_violation` (debug builds) -/
  | backdateViolation
  /-- `validate_specified_value`: "expected a query assigned by …" -/
  | validateNotAssigned
  /-- `delete_entity`: "cannot delete read-locked id" -/
  | deleteLocked
  /-- model assumption A1 violated: a handle / edge on a struct that does not exist -/
  | staleHandle
  /-- model limit: a second `Ts::new` in one execution -/
  | secondStruct
deriving DecidableEq, Repr

-- src/function/memo.rs: struct Memo / MemoHeader / QueryRevisions
structure Memo where
  value : Val
  /-- the id (allocation ordinal) of the struct `value.h` points to -/
  hgen : Option Nat
  /-- `verified_at` -/
  va : Nat
  /-- `revisions.changed_at` -/
  ca : Nat
  /-- `revisions.durability` -/
  dur : Nat
  /-- ghost: revision of the last execution or deep verification -/
  deepAt : Nat
  /-- `QueryOrigin`: `none` = Derived, `some c` = Assigned(creator c) -/
  origin : Option Nat
  /-- `tracked_struct_ids`: the id of the struct created by the last execution -/
  ts : Option Nat
  /-- reads and outputs of the last execution in order; those with `recd` are `origin.edges` -/
  obs : List Obs
deriving Repr

-- src/input.rs: one field of an input struct
structure Inp where
  val : Nat
  ca : Nat
  dur : Nat
deriving Repr

-- src/tracked_struct.rs: struct Value (fields, revisions[0], durability, updated_at)
structure Slot where
  /-- allocation ordinal (stands for the `Id`) -/
  gen : Nat
  /-- identity field -/
  k : Nat
  /-- tracked field -/
  v : Nat
  /-- `revisions[0]`: stamp of the tracked field -/
  fca : Nat
  dur : Nat
  /-- `updated_at` (`Some`; a deleted struct has no slot) -/
  upd : Nat
deriving Repr

structure State where
  cur : Nat
  lch : Nat → Nat
  inp : Nat → Inp
  /-- memo table of the node function -/
  memos : Nat → Option Memo
  /-- the tracked struct of creator `c` -/
  slots : Nat → Option Slot
  /-- memo table of `spec`, keyed by the struct of creator `c` -/
  smemos : Nat → Option Memo
  /-- number of struct allocations so far -/
  nextGen : Nat
  wlog : List (Nat × Nat)
  trace : List Ev
  /-- the first panic of the current operation -/
  panic : Option Panic

-- src/runtime.rs: fn last_changed_revision
def lc (s : State) (d : Nat) : Nat := if d = 0 then s.cur else s.lch d

def setMemo (s : State) (q : Nat) (m : Memo) : State :=
  { s with memos := fun q' => if q' = q then some m else s.memos q' }

def setSMemo (s : State) (c : Nat) (m : Option Memo) : State :=
  { s with smemos := fun c' => if c' = c then m else s.smemos c' }

def setSlot (s : State) (c : Nat) (sl : Option Slot) : State :=
  { s with slots := fun c' => if c' = c then sl else s.slots c' }

def emit (s : State) (e : Ev) : State := { s with trace := s.trace ++ [e] }

/-- latch a panic (the first one wins) -/
def fail (s : State) (p : Panic) : State :=
  match s.panic with
  | some _ => s
  | none => { s with panic := some p }

/-- the id of the current struct of `c` (0 if there is none; only used for event names) -/
def genOf (s : State) (c : Nat) : Nat :=
  match s.slots c with
  | some sl => sl.gen
  | none => 0

/-- the id of the struct a value points to -/
def hgenOf (s : State) (v : Val) : Option Nat :=
  match v.h with
  | some c => (s.slots c).map (·.gen)
  | none => none

structure Res where
  val : Val
  ca : Nat
  dur : Nat
deriving Repr

def Res.dflt : Res := ⟨⟨0, none⟩, 0, 0⟩

-- src/active_query.rs: struct ActiveQuery
structure Frame where
  ca : Nat
  dur : Nat
  obs : List Obs
  /-- `tracked_struct_ids` seeded from the old memo (inactive) -/
  seed : Option Nat
  /-- the struct created (active) in this execution -/
  ts : Option Nat

-- src/active_query.rs: fn add_read / add_read_simple
def Frame.push (f : Frame) (d : Dep) (r : Res) : Frame :=
  { f with ca := max f.ca r.ca, dur := min f.dur r.dur,
           obs := f.obs ++ [⟨d, r.val, decide (r.dur ≠ 3), false⟩] }

/-- has `add_output(spec(struct of c))` already been called in this execution? -/
def Frame.hasOut (f : Frame) (c : Nat) : Bool := f.obs.any fun o => o.out && decide (o.dep = .spec c)

-- src/active_query.rs: fn add_output (index set: a second insertion is a no-op)
def Frame.addOut (f : Frame) (c : Nat) (v : Nat) : Frame :=
  if f.hasOut c then f else { f with obs := f.obs ++ [⟨.spec c, ⟨v, none⟩, true, true⟩] }

-- src/active_query.rs: fn new
def frame0 (seed : Option Nat) : Frame := { ca := 1, dur := 3, obs := [], seed := seed, ts := none }

abbrev FetchFn := State → Nat → State × Res
abbrev McaFn := State → Nat → Nat → State × Bool

-- src/tracked_struct.rs: fn acquire_read_lock
def lockSlot (s : State) (c : Nat) (sl : Slot) : State := setSlot s c (some { sl with upd := s.cur })

-- src/zalsa.rs: fn memo_table_for → src/tracked_struct.rs: `Slot::memos` — every access to the memo
-- table of a tracked struct (get / insert / memo_slot) takes the struct's read lock
def touchMemos (s : State) (c : Nat) : State :=
  match s.slots c with
  | some sl => lockSlot s c sl
  | none => s

-- src/input.rs: fn field / src/function/fetch.rs: fn fetch / src/tracked_struct.rs: fn tracked_field
def readDep (fe fs : FetchFn) (s : State) : Dep → State × Res
  | .inp i => (s, ⟨⟨(s.inp i).val, none⟩, (s.inp i).ca, (s.inp i).dur⟩)
  | .qry q => fe s q
  | .field c =>
    match s.slots c with
    | some sl => (lockSlot s c sl, ⟨⟨sl.v, none⟩, sl.fca, sl.dur⟩)
    | none => (fail s .staleHandle, Res.dflt)
  | .spec c =>
    match s.slots c with
    | some _ => fs s c
    | none => (fail s .staleHandle, Res.dflt)

-- src/function/backdate.rs: fn backdate_if_appropriate (+ can_backdate, backdate).
-- Result: the new `changed_at` and whether `report_backdate_violation` fires.
def backdate (old : Option Memo) (newAssigned : Bool) (v : Val) (hg : Option Nat)
    (fca fdur cur : Nat) : Nat × Bool :=
  match old with
  | none => (fca, false)
  | some o =>
    if o.origin.isSome ∧ newAssigned = false then
      (if o.dur ≤ fdur ∧ o.value = v ∧ o.hgen = hg then o.ca else cur, false)
    else if o.dur ≤ fdur ∧ o.value = v ∧ o.hgen = hg then (o.ca, decide (fca < o.ca))
    else (fca, false)

def failIf (s : State) (b : Bool) (p : Panic) : State := if b then fail s p else s

-- src/tracked_struct.rs: fn new_struct (+ update, allocate) for the executing query `self`
def newStruct (s : State) (self : Nat) (f : Frame) (idk v : Nat) : State × Nat :=
  match f.seed, s.slots self with
  | some _, some sl =>
    -- fn update
    if sl.upd = s.cur then (s, sl.gen)
    else
      let fca := if sl.v ≠ v ∨ f.dur < sl.dur then f.ca else sl.fca
      (setSlot s self (some { gen := sl.gen, k := sl.k, v := v, fca := fca, dur := f.dur, upd := s.cur }), sl.gen)
  | _, _ =>
    -- fn allocate
    (setSMemo { setSlot s self (some { gen := s.nextGen, k := idk, v := v, fca := f.ca, dur := f.dur, upd := s.cur })
                with nextGen := s.nextGen + 1 } self none, s.nextGen)

/-- the memo `specify` installs: `Memo::new(Some(value), revision, QueryRevisions { changed_at,
    durability, origin: Assigned(active_query_key), .. })` -/
def assignedMemo (cur ca dur c v : Nat) : Memo :=
  { value := ⟨v, none⟩, hgen := none, va := cur, ca := ca, dur := dur, deepAt := cur,
    origin := some c, ts := none, obs := [] }

-- src/function/specify.rs: fn specify_and_record, second half: new `Assigned` memo with the
-- creator's stamp so far, backdated against the old memo, inserted; output edge recorded
def installAssigned (s : State) (f : Frame) (c v : Nat) : State × Frame :=
  let b := backdate (s.smemos c) true ⟨v, none⟩ none f.ca f.dur s.cur
  (setSMemo (failIf s b.2 .backdateViolation) c (some (assignedMemo s.cur b.1 f.dur c v)), f.addOut c v)

-- src/function/specify.rs: fn specify_and_record (executing query `self`, key = struct of `c`)
def specifyAndRecord (s : State) (self : Option Nat) (f : Frame) (c v : Nat) : State × Frame :=
  if self = some c ∧ f.ts.isSome = true then
    match s.smemos c with
    | some o =>
      if o.va = s.cur then
        match o.origin with
        | none => (s, f)                      -- a value produced by another query wins this revision
        | some _ => if f.hasOut c = true then (fail s .specifyTwice, f) else installAssigned s f c v
      else installAssigned s f c v
    | none => installAssigned s f c v
  else (fail s .specifyForeign, f)

-- src/tracked_struct.rs: fn untracked_field (read lock, no dependency)
def identStep (s : State) (c : Nat) : State × Nat :=
  match s.slots c with
  | some sl => (lockSlot s c sl, sl.k)
  | none => (fail s .staleHandle, 0)

-- `Ts::new(db, idk, v)` in the executing query: the new state, frame and the handle value
def createStep (s : State) (self : Option Nat) (f : Frame) (idk v : Nat) : State × Frame × Val :=
  match self with
  | some me =>
    if f.ts.isSome then (fail s .secondStruct, f, ⟨v, none⟩)
    else
      let r := newStruct s me f idk v
      (r.1, { f with ts := some r.2 }, ⟨v, some me⟩)
  | none => (fail s .secondStruct, f, ⟨v, none⟩)

-- src/function/execute.rs: fn execute_query (the user function running against the database)
def runBody (fe fs : FetchFn) (self : Option Nat) : Body → State → Frame → State × Frame × Val
  | .ret v, s, f => (s, f, v)
  | .read d k, s, f =>
    let r := readDep fe fs s d
    runBody fe fs self (k r.2.val) r.1 (f.push d r.2)
  | .ident c k, s, f =>
    let r := identStep s c
    runBody fe fs self (k r.2) r.1 f
  | .create idk v k, s, f =>
    let r := createStep s self f idk v
    runBody fe fs self (k r.2.2) r.1 r.2.1
  | .specify c v k, s, f =>
    let r := specifyAndRecord s self f c v
    runBody fe fs self k r.1 r.2

-- src/zalsa_local.rs: fn discard_edges_if_never_change
def finalObs (dur : Nat) (obs : List Obs) : List Obs :=
  if dur = 3 then obs.map fun o => { o with recd := false } else obs

def hit (m : Memo) : Res := ⟨m.value, m.ca, m.dur⟩

/-! ### the specifiable function (its body reads the struct and inputs only) -/

def noFetch : FetchFn := fun s _ => (s, Res.dflt)

/-- `fn spec(db, t) { let (k, v) = (t.k(db), t.v(db)); <body k v> }` -/
def specBody (SB : Nat → Nat → Body) (c : Nat) : Body :=
  .ident c fun k => .read (.field c) fun x => SB k x.n

-- src/function/execute.rs: fn execute (after the body returned): backdate, insert the memo
def installSpec (s1 : State) (c : Nat) (old : Option Memo) (f : Frame) (v : Val) : State × Res :=
  let b := backdate old false v none f.ca f.dur s1.cur
  (setSMemo (failIf s1 b.2 .backdateViolation) c
    (some { value := v, hgen := none, va := s1.cur, ca := b.1, dur := f.dur, deepAt := s1.cur,
            origin := none, ts := none, obs := finalObs f.dur f.obs }),
   ⟨v, b.1, f.dur⟩)

-- src/function/execute.rs: fn execute, for `spec(struct of c)`
def executeSpec (SB : Nat → Nat → Body) (s : State) (c : Nat) (old : Option Memo) : State × Res :=
  let r := runBody noFetch noFetch none (specBody SB c) (emit s (.execS c (genOf s c))) (frame0 none)
  installSpec r.1 c old r.2.1 r.2.2

/-- `maybe_changed_after` of the edges a `spec` memo can have (tracked field, input fields) -/
def depChangedLeaf (s : State) (d : Dep) (rev : Nat) : State × Bool :=
  match d with
  | .inp i => (s, decide ((s.inp i).ca > rev))
  | .field c =>
    match s.slots c with
    | some sl => (s, decide (sl.fca > rev))
    | none => (fail s .staleHandle, true)
  | _ => (s, true)

def deepEdgesLeaf : List Obs → State → Nat → State × Bool
  | [], s, _ => (s, true)
  | o :: os, s, rev =>
    if o.recd && !o.out then
      let r := depChangedLeaf s o.dep rev
      if r.2 then (r.1, false) else deepEdgesLeaf os r.1 rev
    else deepEdgesLeaf os s rev

-- src/function/fetch.rs: fn fetch / refresh_memo for `spec(struct of c)`
def fetchSpec (SB : Nat → Nat → Body) (s0 : State) (c : Nat) : State × Res :=
  let s := touchMemos s0 c
  match s.smemos c with
  | none => executeSpec SB s c none
  | some m =>
    if m.va = s.cur then (s, hit m)
    else if lc s m.dur ≤ m.va then
      (setSMemo (emit s (.validS c (genOf s c))) c (some { m with va := s.cur }), hit m)
    else
      match m.origin with
      | some _ => executeSpec SB s c (some m)          -- deep_verify_memo: Assigned ⇒ changed
      | none =>
        let r := deepEdgesLeaf m.obs s m.va
        if r.2 then
          (setSMemo (emit r.1 (.validS c (genOf s c))) c (some { m with va := r.1.cur, deepAt := r.1.cur }), hit m)
        else executeSpec SB r.1 c (some m)

-- src/function/maybe_changed_after.rs: fn maybe_changed_after for `spec(struct of c)`
def mcaSpec (SB : Nat → Nat → Body) (s0 : State) (c : Nat) (rev : Nat) : State × Bool :=
  let s := touchMemos s0 c
  match s.smemos c with
  | none => (s, true)
  | some _ =>
    let r := fetchSpec SB s c
    (r.1, decide (r.2.ca > rev))

/-! ### node functions -/

-- src/function/specify.rs: fn validate_specified_value (via `mark_validated_output`)
def markValidatedOutput (s0 : State) (executor c : Nat) : State :=
  let s := touchMemos s0 c
  match s.smemos c with
  | none => s
  | some m =>
    if m.origin = some executor then
      setSMemo (emit s (.validS c (genOf s c))) c (some { m with va := s.cur })
    else fail s .validateNotAssigned

-- src/function/memo.rs: fn mark_outputs_as_verified
def markOutputsVerified (executor : Nat) : List Obs → State → State
  | [], s => s
  | o :: os, s =>
    match o.recd && o.out, o.dep with
    | true, .spec c => markOutputsVerified executor os (markValidatedOutput s executor c)
    | _, _ => markOutputsVerified executor os s

-- src/key.rs: fn maybe_changed_after
def depChanged (mc : McaFn) (SB : Nat → Nat → Body) (s : State) (d : Dep) (rev : Nat) : State × Bool :=
  match d with
  | .inp i => (s, decide ((s.inp i).ca > rev))
  | .qry q => mc s q rev
  | .field c =>
    match s.slots c with
    | some sl => (s, decide (sl.fca > rev))
    | none => (fail s .staleHandle, true)
  | .spec c =>
    match s.slots c with
    | some _ => mcaSpec SB s c rev
    | none => (fail s .staleHandle, true)

-- src/function/maybe_changed_after.rs: fn deep_verify_edges
def deepEdges (mc : McaFn) (SB : Nat → Nat → Body) (executor : Nat) : List Obs → State → Nat → State × Bool
  | [], s, _ => (s, true)
  | o :: os, s, rev =>
    if o.recd then
      if o.out then
        match o.dep with
        | .spec c => deepEdges mc SB executor os (markValidatedOutput s executor c) rev
        | _ => deepEdges mc SB executor os s rev
      else
        let r := depChanged mc SB s o.dep rev
        if r.2 then (r.1, false) else deepEdges mc SB executor os r.1 rev
    else deepEdges mc SB executor os s rev

-- src/tracked_struct.rs: fn delete_entity (+ clear_memos), preceded by `report_stale_output`
def deleteEntity (s : State) (q : Nat) : State :=
  match s.slots q with
  | none => s
  | some sl =>
    let s1 := emit (emit s (.staleT q q sl.gen)) (.discT q sl.gen)
    let s2 := failIf s1 (decide (sl.upd = s.cur)) .deleteLocked
    let s3 := match s2.smemos q with
      | some _ => setSMemo (emit s2 (.discS q sl.gen)) q none
      | none => s2
    setSlot s3 q none

-- src/function/diff_outputs.rs: fn diff_outputs (old memo of node `q`, which is `Derived`)
def diffOutputs (s : State) (q : Nat) (old : Memo) (f : Frame) (oldGen : Nat) : State :=
  let s1 := if old.ts.isSome ∧ f.ts.isNone then deleteEntity s q else s
  -- stale specified keys: event only (`remove_stale_output` of a function ingredient is a no-op)
  let oldOut := old.obs.any fun o => o.recd && o.out && decide (o.dep = .spec q)
  if oldOut ∧ ¬ f.hasOut q then emit s1 (.staleS q q oldGen) else s1

/-- `tracked_struct_ids` of the old memo seed the new frame -/
def oldSeed (old : Option Memo) : Option Nat :=
  match old with
  | some o => o.ts
  | none => none

-- src/function/execute.rs: fn execute (after the body returned): backdate_if_appropriate,
-- diff_outputs, discard_edges_if_never_change, insert_memo
def installNode (s1 : State) (q : Nat) (old : Option Memo) (f : Frame) (v : Val) : State × Res :=
  let hg := hgenOf s1 v
  let b := backdate old false v hg f.ca f.dur s1.cur
  let s2 := failIf s1 b.2 .backdateViolation
  let s3 := match old with
    | some o => diffOutputs s2 q o f (genOf s1 q)
    | none => s2
  (setMemo s3 q { value := v, hgen := hg, va := s1.cur, ca := b.1, dur := f.dur, deepAt := s1.cur,
                  origin := none, ts := f.ts, obs := finalObs f.dur f.obs },
   ⟨v, b.1, f.dur⟩)

-- src/function/execute.rs: fn execute (CycleRecoveryStrategy::Panic arm), node `q`
def execute (fe : FetchFn) (P : Prog) (s : State) (q : Nat) (old : Option Memo) : State × Res :=
  let r := runBody fe (fetchSpec P.spec) (some q) (P.node q) (emit s (.exec q)) (frame0 (oldSeed old))
  installNode r.1 q old r.2.1 r.2.2

-- src/function/memo.rs: fn mark_as_verified
def markVerified (s : State) (q : Nat) (m : Memo) : State :=
  setMemo (emit s (.valid q)) q { m with va := s.cur }

def markDeepVerified (s : State) (q : Nat) (m : Memo) : State :=
  setMemo (emit s (.valid q)) q { m with va := s.cur, deepAt := s.cur }

-- src/function/fetch.rs: fn refresh_memo (fetch_hot, fetch_cold), node `q`
def fetchStep (fe : FetchFn) (mc : McaFn) (P : Prog) (s : State) (q : Nat) : State × Res :=
  match s.memos q with
  | none => execute fe P s q none
  | some m =>
    if m.va = s.cur then (s, hit m)
    else if lc s m.dur ≤ m.va then
      -- update_shallow: mark_as_verified, mark_outputs_as_verified
      (markOutputsVerified q m.obs (markVerified s q m), hit m)
    else
      let r := deepEdges mc P.spec q m.obs s m.va
      if r.2 then (markDeepVerified r.1 q m, hit m)
      else execute fe P r.1 q (some m)

-- src/function/maybe_changed_after.rs: fn maybe_changed_after, node `q`
def mcaStep (fe : FetchFn) (mc : McaFn) (P : Prog) (s : State) (q : Nat) (rev : Nat) : State × Bool :=
  match s.memos q with
  | none => (s, true)
  | some _ =>
    let r := fetchStep fe mc P s q
    (r.1, decide (r.2.ca > rev))

/-- The engine by structural recursion on the call rank (as in `Core`). -/
def eng (P : Prog) : Nat → FetchFn × McaFn
  | 0 => (fun s _ => (s, Res.dflt), fun s _ _ => (s, true))
  | r + 1 =>
    let sub := eng P r
    (fun s q => if q < r then sub.1 s q else if q = r then fetchStep sub.1 sub.2 P s q else (s, Res.dflt),
     fun s q rev => if q < r then sub.2 s q rev else if q = r then mcaStep sub.1 sub.2 P s q rev else (s, true))

def fetch (P : Prog) (s : State) (q : Nat) : State × Res := (eng P (q + 1)).1 s q

/-- the harness prints the fields of a returned handle (`t.k(db)`, `t.v(db)` outside any query):
    read lock only -/
def observe (s : State) (v : Val) : State :=
  match v.h with
  | some c =>
    match s.slots c with
    | some sl => lockSlot s c sl
    | none => fail s .staleHandle
  | none => s

def write (s : State) (i : Nat) (v : Nat) (nd : Option Nat) : State :=
  let cur' := s.cur + 1
  let x := s.inp i
  if x.dur ≥ 3 then { s with cur := cur', wlog := (cur', 0) :: s.wlog }
  else
    { s with
      cur := cur'
      lch := fun k => if k ≤ x.dur then cur' else s.lch k
      inp := fun j => if j = i then ⟨v, cur', (match nd with | some d => d | none => x.dur)⟩ else s.inp j
      wlog := (cur', x.dur) :: (cur', 0) :: s.wlog }

def writePanics (s : State) (i : Nat) : Bool := decide ((s.inp i).dur ≥ 3)

def synth (s : State) (d : Nat) : State :=
  let cur' := s.cur + 1
  if d ≥ 3 then { s with cur := cur', wlog := (cur', 0) :: s.wlog }
  else { s with cur := cur', lch := fun k => if k ≤ d then cur' else s.lch k, wlog := (cur', d) :: (cur', 0) :: s.wlog }

def synthPanics (d : Nat) : Bool := decide (d ≥ 3)

/-! ### Histories -/

inductive Op where
  | get (q : Nat)
  | set (i : Nat) (v : Nat) (nd : Option Nat)
  | synth (d : Nat)
deriving Repr

/-- `get q`: the request and the observation of the result by the caller -/
def getOp (P : Prog) (s : State) (q : Nat) : State × Val :=
  let r := fetch P s q
  (observe r.1 r.2.val, r.2.val)

/-- the result of a `get`: the value, or the panic that ended the request -/
def stepGet (P : Prog) (s : State) (q : Nat) : Except Panic (State × Val) :=
  let r := getOp P s q
  match r.1.panic with
  | some p => .error p
  | none => .ok r

def step (P : Prog) (s : State) : Op → State
  | .get q => (getOp P s q).1
  | .set i v nd => write s i v nd
  | .synth d => synth s d

def init (inp : Nat → Inp) : State :=
  { cur := 1, lch := fun _ => 1, inp := fun i => ⟨(inp i).val, 1, (inp i).dur⟩,
    memos := fun _ => none, slots := fun _ => none, smemos := fun _ => none, nextGen := 0,
    wlog := [], trace := [], panic := none }

def run (P : Prog) (inp : Nat → Inp) (ops : List Op) : State := ops.foldl (step P) (init inp)

/-- the answers of the `get` operations of a history, in order -/
def outputs (P : Prog) : State → List Op → List Val
  | _, [] => []
  | s, .get q :: ops => (getOp P s q).2 :: outputs P (getOp P s q).1 ops
  | s, .set i v nd :: ops => outputs P (write s i v nd) ops
  | s, .synth d :: ops => outputs P (synth s d) ops


/-! ### Reference semantics (from scratch: no memo table, no revisions, no stamps)

  A from-scratch run of node `q` yields its value, the struct it creates (identity, tracked field)
  and the value it specifies for `spec` on that struct.  `spec(struct of c)` means: the value the
  creator's from-scratch run specifies, else the body of `spec` on the struct's fields. -/

structure SemRes where
  val : Val
  /-- the struct created: (identity field, tracked field) -/
  ts : Option (Nat × Nat)
  /-- the value specified for `spec(struct)` (the first `specify` of the run) -/
  sp : Option Nat
deriving DecidableEq, Repr

def SemRes.dflt : SemRes := ⟨⟨0, none⟩, none, none⟩

/-- dependencies of a `spec` body: inputs only -/
def inpDep (inp : Nat → Inp) : Dep → Val
  | .inp i => ⟨(inp i).val, none⟩
  | _ => ⟨0, none⟩

/-- Run a body against semantic values of its dependencies (`sd`) and identity fields (`sk`).
    The run threads the struct created so far (`ts`), the value specified so far (`sp`) and the
    value of `spec(own struct)` computed so far by a request of the creator itself (`cv`): such a
    computed value is kept — a later `specify` in the same run is ignored.  `sb k v` is the value of
    the body of `spec` on a struct with fields `(k, v)`. -/
def ownRead (self : Nat) (sb : Nat → Nat → Val) (d : Dep) (ts : Option (Nat × Nat)) (sp : Option Nat)
    (cv : Option Val) (other : Val) : Val × Option Val :=
  if d = .spec self then
    match sp, cv with
    | some v, _ => (⟨v, none⟩, cv)
    | none, some x => (x, cv)
    | none, none =>
      let x := match ts with | some (i, v) => sb i v | none => ⟨0, none⟩
      (x, some x)
  else if d = .field self then (⟨match ts with | some (_, v) => v | none => 0, none⟩, cv)
  else (other, cv)

def ownIdent (self : Nat) (c : Nat) (ts : Option (Nat × Nat)) (other : Nat) : Nat :=
  if c = self then (match ts with | some (i, _) => i | none => 0) else other

/-- `specify` is ignored when a value is already specified or was computed by the creator itself -/
def specNext (sp : Option Nat) (cv : Option Val) (v : Nat) : Option Nat :=
  match sp, cv with
  | none, none => some v
  | _, _ => sp

def evalX (self : Nat) (sd : Dep → Val) (sk : Nat → Nat) (sb : Nat → Nat → Val) :
    Body → Option (Nat × Nat) → Option Nat → Option Val → SemRes
  | .ret v, ts, sp, _ => ⟨v, ts, sp⟩
  | .read d k, ts, sp, cv =>
    evalX self sd sk sb (k (ownRead self sb d ts sp cv (sd d)).1) ts sp (ownRead self sb d ts sp cv (sd d)).2
  | .ident c k, ts, sp, cv => evalX self sd sk sb (k (ownIdent self c ts (sk c))) ts sp cv
  | .create idk v k, _, sp, cv => evalX self sd sk sb (k ⟨v, some self⟩) (some (idk, v)) sp cv
  | .specify _ v k, ts, sp, cv => evalX self sd sk sb k ts (specNext sp cv v) cv

/-- the value of the body of `spec` on a struct with fields `(k, v)` -/
def specBodyVal (P : Prog) (inp : Nat → Inp) (k v : Nat) : Val :=
  (evalX 0 (inpDep inp) (fun _ => 0) (fun _ _ => ⟨0, none⟩) (P.spec k v) none none none).val

/-- the value of `spec(struct)` given the from-scratch result of the struct's creator -/
def specVal (P : Prog) (inp : Nat → Inp) (r : SemRes) : Val :=
  match r.sp, r.ts with
  | some v, _ => ⟨v, none⟩
  | none, some (k, v) => specBodyVal P inp k v
  | none, none => ⟨0, none⟩

def fieldVal (r : SemRes) : Val := ⟨match r.ts with | some (_, v) => v | none => 0, none⟩
def identVal (r : SemRes) : Nat := match r.ts with | some (k, _) => k | none => 0

def semDepOf (P : Prog) (inp : Nat → Inp) (lower : Nat → SemRes) : Dep → Val
  | .inp i => ⟨(inp i).val, none⟩
  | .qry q => (lower q).val
  | .field c => fieldVal (lower c)
  | .spec c => specVal P inp (lower c)

def semAt (P : Prog) (inp : Nat → Inp) : Nat → Nat → SemRes
  | 0, _ => SemRes.dflt
  | r + 1, q =>
    if q < r then semAt P inp r q
    else if q = r then
      evalX q (semDepOf P inp (semAt P inp r)) (fun c => identVal (semAt P inp r c)) (specBodyVal P inp)
        (P.node q) none none none
    else SemRes.dflt

/-- the from-scratch result of node `q` -/
def semRes (P : Prog) (inp : Nat → Inp) (q : Nat) : SemRes := semAt P inp (q + 1) q

/-- the from-scratch value of node `q` -/
def sem (P : Prog) (inp : Nat → Inp) (q : Nat) : Val := (semRes P inp q).val

/-- the from-scratch value of `spec(struct of creator c)` -/
def semSpec (P : Prog) (inp : Nat → Inp) (c : Nat) : Val := specVal P inp (semRes P inp c)

/-- from-scratch oracle for histories: (value, durability) per input -/
def refInp (env : Nat → Nat × Nat) : Nat → Inp := fun i => ⟨(env i).1, 0, (env i).2⟩

def refWrite (env : Nat → Nat × Nat) (i v : Nat) (nd : Option Nat) : Nat → Nat × Nat :=
  if (env i).2 ≥ 3 then env
  else fun j => if j = i then (v, match nd with | some d => d | none => (env i).2) else env j

def refOutputs (P : Prog) : (Nat → Nat × Nat) → List Op → List Val
  | _, [] => []
  | env, .get q :: ops => sem P (refInp env) q :: refOutputs P env ops
  | env, .set i v nd :: ops => refOutputs P (refWrite env i v nd) ops
  | env, .synth _ :: ops => refOutputs P env ops

/-! ### The program language of the line protocol, compiled to `Body` by CPS -/

inductive Expr where
  | const (n : Nat)
  | inp (k : Nat)
  | qry (j : Nat)
  | add (a b : Expr)
  | min (a b : Expr)
  | max (a b : Expr)
  | ite (c a b : Expr)
  /-- `mk c<idk> v f s` -/
  | mk (idk : Nat) (v f s : Expr)
  | tv (e : Expr)
  | tk (e : Expr)
  | sp (e : Expr)
deriving Repr

def orH (a b : Option Nat) : Option Nat := match a with | some x => some x | none => b

/-- left-to-right evaluation; binary operators keep the left handle if present, else the right -/
def compile : Expr → (Val → Body) → Body
  | .const n, k => k ⟨n, none⟩
  | .inp i, k => .read (.inp i) k
  | .qry j, k => .read (.qry j) k
  | .add a b, k => compile a fun x => compile b fun y => k ⟨(x.n + y.n) % 4, orH x.h y.h⟩
  | .min a b, k => compile a fun x => compile b fun y => k ⟨Nat.min x.n y.n, orH x.h y.h⟩
  | .max a b, k => compile a fun x => compile b fun y => k ⟨Nat.max x.n y.n, orH x.h y.h⟩
  | .ite c a b, k => compile c fun x => if x.n % 2 = 1 then compile a k else compile b k
  | .mk idk v f s, k =>
    compile v fun xv => compile f fun xf => compile s fun xs =>
      .create (idk % 2) xv.n fun hv =>
        match xf.n % 2, hv.h with
        | 1, some c => .specify c xs.n (k hv)
        | _, _ => k hv
  | .tv e, k => compile e fun x =>
    match x.h with
    | some c => .read (.field c) fun y => k ⟨y.n, none⟩
    | none => k ⟨x.n, none⟩
  | .tk e, k => compile e fun x =>
    match x.h with
    | some c => .ident c fun y => k ⟨y, none⟩
    | none => k ⟨x.n, none⟩
  | .sp e, k => compile e fun x =>
    match x.h with
    | some c => .read (.spec c) fun y => k ⟨y.n, none⟩
    | none => k ⟨x.n, none⟩

/-- expressions of the body of `spec`: `sk`, `sv`, constants, inputs, arithmetic, branches -/
inductive SExpr where
  | const (n : Nat)
  | inp (k : Nat)
  | sk
  | sv
  | add (a b : SExpr)
  | min (a b : SExpr)
  | max (a b : SExpr)
  | ite (c a b : SExpr)
deriving Repr

def compileS (kk vv : Nat) : SExpr → (Nat → Body) → Body
  | .const n, k => k n
  | .inp i, k => .read (.inp i) fun x => k x.n
  | .sk, k => k kk
  | .sv, k => k vv
  | .add a b, k => compileS kk vv a fun x => compileS kk vv b fun y => k ((x + y) % 4)
  | .min a b, k => compileS kk vv a fun x => compileS kk vv b fun y => k (Nat.min x y)
  | .max a b, k => compileS kk vv a fun x => compileS kk vv b fun y => k (Nat.max x y)
  | .ite c a b, k => compileS kk vv c fun x => if x % 2 = 1 then compileS kk vv a k else compileS kk vv b k

/-- every called query is smaller than `r` -/
def Expr.callsBelow (r : Nat) : Expr → Bool
  | .const _ => true
  | .inp _ => true
  | .qry j => decide (j < r)
  | .add a b => a.callsBelow r && b.callsBelow r
  | .min a b => a.callsBelow r && b.callsBelow r
  | .max a b => a.callsBelow r && b.callsBelow r
  | .ite c a b => c.callsBelow r && a.callsBelow r && b.callsBelow r
  | .mk _ v f s => v.callsBelow r && f.callsBelow r && s.callsBelow r
  | .tv e => e.callsBelow r
  | .tk e => e.callsBelow r
  | .sp e => e.callsBelow r

/-- an upper bound of the number of `mk` one evaluation can execute -/
def Expr.maxMk : Expr → Nat
  | .const _ => 0
  | .inp _ => 0
  | .qry _ => 0
  | .add a b => a.maxMk + b.maxMk
  | .min a b => a.maxMk + b.maxMk
  | .max a b => a.maxMk + b.maxMk
  | .ite c a b => c.maxMk + Nat.max a.maxMk b.maxMk
  | .mk _ v f s => 1 + v.maxMk + f.maxMk + s.maxMk
  | .tv e => e.maxMk
  | .tk e => e.maxMk
  | .sp e => e.maxMk

/-- does the expression contain a `mk`? -/
def Expr.hasMk : Expr → Bool
  | .const _ => false
  | .inp _ => false
  | .qry _ => false
  | .add a b => a.hasMk || b.hasMk
  | .min a b => a.hasMk || b.hasMk
  | .max a b => a.hasMk || b.hasMk
  | .ite c a b => c.hasMk || a.hasMk || b.hasMk
  | .mk _ _ _ _ => true
  | .tv e => e.hasMk
  | .tk e => e.hasMk
  | .sp e => e.hasMk

/-- the query never reads its own struct: no `tv` / `tk` / `sp` over an expression with a `mk`
    (the fragment of the integrated soundness theorem; `seq gen --profile spec` generates it) -/
def Expr.ownFree : Expr → Bool
  | .const _ => true
  | .inp _ => true
  | .qry _ => true
  | .add a b => a.ownFree && b.ownFree
  | .min a b => a.ownFree && b.ownFree
  | .max a b => a.ownFree && b.ownFree
  | .ite c a b => c.ownFree && a.ownFree && b.ownFree
  | .mk _ v f s => v.ownFree && f.ownFree && s.ownFree
  | .tv e => !e.hasMk && e.ownFree
  | .tk e => !e.hasMk && e.ownFree
  | .sp e => !e.hasMk && e.ownFree

/-- `wfList` plus `ownFree` for every query -/
def wfOwnFree : Nat → List Expr → Bool
  | _, [] => true
  | r, e :: es => e.callsBelow r && e.ownFree && wfOwnFree (r + 1) es

def progOf (es : List Expr) (sb : SExpr) : Prog where
  node q := match es[q]? with
    | some e => compile e .ret
    | none => .ret ⟨0, none⟩
  spec kk vv := compileS kk vv sb fun n => .ret ⟨n, none⟩

def wfList : Nat → List Expr → Bool
  | _, [] => true
  | r, e :: es => e.callsBelow r && decide (e.maxMk ≤ 1) && wfList (r + 1) es

end SalsaVerif.Model.CoreSpec
