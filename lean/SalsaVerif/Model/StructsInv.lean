/-
  Executable (Bool) form of the world invariant `WInv` of Proofs/Structs.lean, for the line-protocol
  driver `svdriver structs` (Drive/Structs.lean), which evaluates it after every replayed trace line.
  `Proofs/StructsInv.lean` proves `winvB w = true ↔ WInv w`.  Core Lean only.
-/
import SalsaVerif.Model.Structs

namespace SalsaVerif.Model.Structs

/-- Bool form of `Owns`: the slot of `id` is live and carries the handle's generation -/
def ownsB (s : State) (id : Id) : Bool :=
  match s.slots[id.idx]? with
  | some v => v.updatedAt.isSome && decide (v.gen = id.gen)
  | none => false

/-- Bool form of `DeadAt`: deleted slot of generation `id.gen` with an empty memo table -/
def deadAtB (s : State) (id : Id) : Bool :=
  match s.slots[id.idx]? with
  | some v => v.updatedAt.isNone && decide (v.gen = id.gen) && v.memos.isEmpty
  | none => false

/-- the handles a creator holds (same as `ctxIds` of Proofs/Structs.lean) -/
def ctxHandles : Ctx → List Id
  | .idle a => a.map (fun x => x.2)
  | .running f => f.idmap.map (fun e => e.id)

def nodupB : List Nat → Bool
  | [] => true
  | a :: l => !l.contains a && nodupB l

def ownsAllB (w : World) : Bool := w.ctxs.all fun c => (ctxHandles c).all (ownsB w.st)

def distinctB (w : World) : Bool := nodupB (w.ctxs.flatMap fun c => (ctxHandles c).map (·.idx))

def freeOKB (s : State) : Bool := s.free.all fun p => deadAtB s p.2

def freeNodupB (s : State) : Bool := nodupB (s.free.map fun p => p.2.idx)

def memoGenB (s : State) : Bool := s.slots.all fun v => v.memos.all fun m => decide (m.gen = v.gen)

/-- the names of the violated components of `WInv` (empty = the invariant holds) -/
def winvFailures (w : World) : List String :=
  (if ownsAllB w then [] else ["owns"]) ++
  (if distinctB w then [] else ["distinct"]) ++
  (if freeOKB w.st then [] else ["freeOK"]) ++
  (if freeNodupB w.st then [] else ["freeNodup"]) ++
  (if memoGenB w.st then [] else ["memoGen"])

def winvB (w : World) : Bool :=
  ownsAllB w && distinctB w && freeOKB w.st && freeNodupB w.st && memoGenB w.st

end SalsaVerif.Model.Structs
