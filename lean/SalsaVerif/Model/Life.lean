/-
  Memo allocation life cycle (C23).  Core Lean only.

  src/function.rs `insert_memo`: the new memo is `Box::leak`ed and stored in the slot's memo table;
  the memo it replaces goes to `deleted_entries` (`DeletedEntries::push`), "in case there is a
  reference to the old memo out there"; `insert_memo` returns `extend_memo_lifetime(&memo)`.
  src/function.rs `reset_for_new_revision` (called by `Zalsa::new_revision` / `evict_lru`, both
  `&mut Zalsa`): LRU eviction clears memo values *in place* (`evict_value_from_memo_for`,
  `map_memo` on `&mut`), then `deleted_entries.clear()` frees every deferred memo.
  src/tracked_struct.rs / src/interned.rs `clear_memos`: `take_memos` drops the slot's memos
  immediately; it runs only on a slot that is not in use in the current revision (tracked structs:
  `updated_at` swapped to `None` and `!= current_revision` checked — the "read lock"; interned:
  the slot is stale, `last_interned_at < current_revision`).
  Dropping the database drops the tables and `deleted_entries`.

  An allocation's state is *where it is referenced from* (as in the code, which has no state
  field): installed in a memo table = Live, in `deleted_entries` = Deferred, in the log of
  `Box::from_raw` drops = Freed; `stateOf` reads it off.

  What is *not* modelled (DESIGN §C23 Limits): raw-pointer arithmetic, provenance, the
  `transmute` lifetime extension, data races.  References are tagged with the revision they were
  handed out in; `&mut Zalsa` is modelled as "no reference outstanding".
-/
namespace SalsaVerif.Model.Life

inductive AllocState where
  | live        -- reachable from a memo table
  | deferred    -- in `deleted_entries`
  | freed
deriving DecidableEq, Repr

/-- an outstanding `&'db Memo` -/
structure Ref where
  target : Nat       -- allocation ordinal
  rev : Nat          -- revision it was handed out in
deriving DecidableEq, Repr

/-- key of a memo: (slot = struct id, memo ingredient index) -/
abbrev Key := Nat × Nat

structure State where
  next : Nat                          -- next allocation ordinal
  table : List (Key × Nat)            -- memo tables: key ↦ allocation currently installed
  deferred : List Nat                 -- `deleted_entries`
  frees : List Nat                    -- log: every `drop(Box::from_raw(..))`, newest first
  refs : List Ref
  cur : Nat                           -- current revision
  accessedAt : Nat → Nat              -- slot ↦ last revision in which it was read / written
  dropped : Bool

def State.init : State := ⟨0, [], [], [], [], 1, fun _ => 0, false⟩

def lookup : List (Key × Nat) → Key → Option Nat
  | [], _ => none
  | (k, v) :: rest, key => if k = key then some v else lookup rest key

def removeKey (t : List (Key × Nat)) (key : Key) : List (Key × Nat) := t.filter fun e => e.1 != key

/-- the allocations installed for `slot` -/
def slotEntries (t : List (Key × Nat)) (slot : Nat) : List (Key × Nat) := t.filter fun e => e.1.1 == slot

def vals (t : List (Key × Nat)) : List Nat := t.map (·.2)

/-- `none` = never allocated -/
def stateOf (s : State) (o : Nat) : Option AllocState :=
  if o ∈ s.frees then some .freed
  else if o ∈ s.deferred then some .deferred
  else if o ∈ vals s.table then some .live
  else none

/-- every allocation ever made that the database still knows about, or has freed -/
def allAllocs (s : State) : List Nat := vals s.table ++ s.deferred ++ s.frees

inductive Label where
  | publish (slot mi : Nat)         -- `insert_memo`
  | handOut (slot mi : Nat)         -- `fetch` returns `&'db` to the installed memo
  | dropRef (i : Nat)               -- a borrow ends
  | newRevision                     -- `Zalsa::new_revision` (`&mut`)
  | clearMemos (slot : Nat)         -- `clear_memos` (tracked struct deleted / id reused, interned slot reused)
  | evictInPlace (slot mi : Nat)    -- LRU eviction under `&mut`: value := None inside the live allocation
  | dropDb
deriving DecidableEq, Repr

def pre (s : State) : Label → Bool
  | .publish _ _ => !s.dropped
  | .handOut slot mi => !s.dropped && (lookup s.table (slot, mi)).isSome
  | .dropRef i => decide (i < s.refs.length)
  | .newRevision => !s.dropped && s.refs.isEmpty                      -- `&mut Zalsa`
  | .clearMemos slot => !s.dropped && s.accessedAt slot != s.cur      -- slot not in use in this revision
  | .evictInPlace slot mi => !s.dropped && s.refs.isEmpty && (lookup s.table (slot, mi)).isSome
  | .dropDb => !s.dropped && s.refs.isEmpty                           -- owner dropped: no borrow alive

def apply (s : State) : Label → State
  | .publish slot mi =>
    let o := s.next
    let old := lookup s.table (slot, mi)
    { s with
      next := s.next + 1
      table := ((slot, mi), o) :: removeKey s.table (slot, mi)
      deferred := match old with
        | some x => x :: s.deferred
        | none => s.deferred
      refs := ⟨o, s.cur⟩ :: s.refs
      accessedAt := fun x => if x = slot then s.cur else s.accessedAt x }
  | .handOut slot mi =>
    match lookup s.table (slot, mi) with
    | some o => { s with refs := ⟨o, s.cur⟩ :: s.refs
                         accessedAt := fun x => if x = slot then s.cur else s.accessedAt x }
    | none => s
  | .dropRef i => { s with refs := s.refs.eraseIdx i }
  | .newRevision =>
    { s with cur := s.cur + 1, frees := s.deferred ++ s.frees, deferred := [] }
  | .clearMemos slot =>
    let victims := vals (slotEntries s.table slot)
    { s with frees := victims ++ s.frees
             table := s.table.filter fun e => e.1.1 != slot }
  | .evictInPlace _ _ => s
  | .dropDb =>
    let victims := vals s.table ++ s.deferred
    { s with frees := victims ++ s.frees, table := [], deferred := [], dropped := true }

def step (s : State) (l : Label) : Option State := if pre s l then some (apply s l) else none

def run (s : State) : List Label → Option State
  | [] => some s
  | l :: ls => match step s l with
    | some s' => run s' ls
    | none => none

def Reachable (s : State) : Prop := ∃ ls, run State.init ls = some s

end SalsaVerif.Model.Life
