/-
  Model `CycleRev` — revision-aware model of salsa's cycle handling: THE CODE THAT EXISTS,
  single thread.  Where `Model/Cycle.lean` is the from-scratch semantics of the iteration scheme
  (a write drops every memo), this model keeps the memo table across revisions and follows
  `src/function/{fetch,execute,maybe_changed_after,memo}.rs`, `src/cycle.rs`,
  `src/active_query.rs`, `src/zalsa_local.rs` (QueryRevisions) and the single-thread behaviour of
  `src/function/sync.rs` + `src/runtime/dependency_graph.rs` function by function:

  * revisions / durabilities of inputs as in `Model/Core.lean` (`changed_at`, `verified_at`,
    shallow verification through `last_changed_revision`, deep verification in edge order,
    backdating — which `can_backdate` refuses for cycle participants);
  * memos with `cycle_heads` (with per-head iteration and `removed` flag), `iteration`,
    `verified_final`, `cycle_converged`, and the FLATTENED dependency list exactly as
    `complete_cycle_query` / `flatten_cycle_dependencies` computes it — a query that is still on
    the stack contributes the edges of its memo of the PREVIOUS iteration (the lag behind known
    finding kf2), and iteration stops when values + (durability, changed_at) converge;
  * `validate_provisional` (lazy finalisation of participants — known finding kf1 lives in its
    `verified_at` comparison) and `validate_same_iteration`;
  * `maybe_changed_after` on memos that were heads / participants, `maybe_changed_after_cold_cycle`;
  * `fetch_cold_cycle` (initial / last provisional value, `remove_all_except`), nested heads,
    `collect_all_cycle_heads`, `outer_cycle`, lock transfer to the outer head and re-claiming
    (`Reentrancy::Allow`), `set_iteration_count`, `finalize_cycle_head`;
  * panics: `cycle`, `too many cycle iterations`, `PropagatedPanic` (poisoned memos written by
    `PoisonProvisionalIfPanicking`), the debug `backdate violation`; unwinding runs the guards
    (`onPanic`).  `internal` collects salsa's `expect`/`assert` failures (never observed).

  The model follows salsa INCLUDING the two repairs it led to (`fix: treat a provisional memo as
  changed in maybe_changed_after` → `mcaStep`; `fix: keep changed_at of former cycle participants
  monotone` → `backdateIfAppropriate`); known findings kf1 and kf2 are unrepaired and reproduced.

  Not modelled: other threads, cancellation counts (always 0), untracked reads, outputs /
  tracked structs, accumulators, LRU.  Values are 8-bit sets as in `Model/Cycle.lean`; the body
  language is that of `Model/Cycle.lean` with `ite` testing the low bit of an input (as the
  harness does) plus `add` (`(a + b) % 4`, the non-monotone counter of the diverging flavour) and
  `gate c a` (the value-controlled gates of the gated flavour: `if c is odd then a else ∅`).
  The correspondence with salsa on values, panic classes and events is established by the line
  protocol (`svdriver cyclerev`: byte-identical answers and event sequences on the unchanged op
  files of `vh seq --profile cycle`), not by proof.  The last section holds the references: the
  translation to `Model/Cycle.lean` (`toCycle`, `envOfVals`) and the decidable closed-table
  certificates (`closedOn`, `fbClosedOn`, `certB`) that `Props/C12Rev.lean` / `C13Rev.lean` turn
  into "this answer is the least fixpoint / the fallback reference".  Proofs about this file:
  `Proofs/CycleRevLe*.lean` (every value is below every post-fixpoint), `Proofs/CycleRevFb.lean`,
  `Proofs/CycleRevMech.lean`.  Core Lean only.
-/
import SalsaVerif.Gen.Stamp
import SalsaVerif.Model.Cycle

namespace SalsaVerif.Model.CycleRev
open SalsaVerif.Gen.Stamp
open SalsaVerif.Model.Cycle (Strategy)

/-! ## Programs -/

inductive Expr where
  | const (c : Nat)
  | input (i : Nat)
  | call (j : Nat)
  | union (a b : Expr)
  | inter (a b : Expr)
  /-- branches on `input i % 2 = 1` -/
  | ite (i : Nat) (a b : Expr)
  /-- `(a + b) % 4` -/
  | add (a b : Expr)
  /-- value-controlled gate: evaluate `c`; if bit 0 of its value is set evaluate `a` (only then),
      else ∅.  Monotone, but the call graph now depends on values. -/
  | gate (c a : Expr)
  deriving Repr, DecidableEq, Inhabited

structure Node where
  strat : Strategy
  body : Expr
  deriving Repr, DecidableEq, Inhabited

structure Prog where
  nodes : List Node
  deriving Repr, DecidableEq, Inhabited

def Prog.n (P : Prog) : Nat := P.nodes.length
def Prog.node (P : Prog) (j : Nat) : Node := P.nodes.getD j ⟨.panic, .const 0⟩
def Prog.strat (P : Prog) (j : Nat) : Strategy := (P.node j).strat

/-- `cycle_initial` (fixpoint: ∅; `cycle_result`: the fallback value). -/
def cycleInitial (P : Prog) (j : Nat) : Nat :=
  match P.strat j with
  | .fallback v => v % 256
  | _ => 0

/-- `recover_from_cycle` (`cycle_fn`). -/
def cycleFn (P : Prog) (j : Nat) (last v : Nat) : Nat :=
  match P.strat j with
  | .fixpoint true => v ||| last
  | _ => v

def isFallback (P : Prog) (j : Nat) : Bool :=
  match P.strat j with
  | .fallback _ => true
  | _ => false

/-! ## State -/

/-- `QueryEdge` (inputs only): an input field or a function. -/
inductive Edge where
  | inp (i : Nat)
  | qry (q : Nat)
  deriving Repr, DecidableEq, Inhabited

/-- src/cycle.rs: struct CycleHead -/
structure Head where
  key : Nat
  iter : Nat
  removed : Bool
  deriving Repr, DecidableEq, Inhabited

/-- src/function/memo.rs: struct Memo + MemoHeader + QueryRevisions(+Extra) -/
structure Memo where
  /-- `None` = poisoned -/
  value : Option Nat
  /-- `verified_at` -/
  va : Nat
  /-- `changed_at` -/
  ca : Nat
  dur : Nat
  /-- `origin` = Derived(edges), in order -/
  edges : List Edge
  /-- `revisions.cycle_heads` (raw, with `removed` flags) -/
  heads : List Head
  /-- `revisions.iteration` -/
  iter : Nat
  /-- `verified_final` -/
  final : Bool
  /-- `cycle_converged` -/
  conv : Bool
  deriving Repr, DecidableEq, Inhabited

structure Inp where
  val : Nat
  ca : Nat
  dur : Nat
  deriving Repr, DecidableEq, Inhabited

/-- src/active_query.rs: struct ActiveQuery -/
structure Frame where
  key : Nat
  dur : Nat
  ca : Nat
  edges : List Edge
  heads : List Head
  deriving Repr, DecidableEq, Inhabited

inductive Owner where
  | thread
  | transferred
  deriving Repr, DecidableEq, Inhabited

/-- src/function/sync.rs: struct SyncState (one thread) -/
structure Sync where
  owner : Owner
  /-- `anyone_waiting` -/
  aw : Bool
  /-- `is_transfer_target` -/
  tt : Bool
  /-- `claimed_twice` -/
  c2 : Bool
  deriving Repr, DecidableEq, Inhabited

inductive Ev where
  /-- `WillExecute` -/
  | exec (q : Nat)
  /-- `DidValidateMemoizedValue` -/
  | valid (q : Nat)
  /-- `WillIterateCycle` -/
  | iterate (q : Nat) (k : Nat)
  deriving Repr, DecidableEq, Inhabited

structure St where
  /-- current revision -/
  cur : Nat
  /-- `revisions[d]` for d = 1, 2 (index 0 unused) -/
  lch : List Nat
  inp : List Inp
  memos : List (Option Memo)
  /-- active query stack, innermost first -/
  stack : List Frame
  /-- sync table of the function ingredients -/
  syncs : List (Nat × Sync)
  /-- `DependencyGraph::transferred`: query ↦ the query that owns its lock -/
  dg : List (Nat × Nat)
  /-- events, newest first -/
  evs : List Ev
  deriving Repr, DecidableEq, Inhabited

inductive PanicClass where
  | cycle
  | tooManyIterations
  | propagated
  | backdateViolation
  /-- an `expect` / `assert` of salsa failed -/
  | internal
  /-- model fuel exhausted -/
  | outOfFuel
  deriving Repr, DecidableEq, Inhabited

/-- a panic with the state at the point of the panic; guards transform `st` while unwinding. -/
structure Panic where
  cls : PanicClass
  st : St
  deriving Repr, DecidableEq, Inhabited

abbrev Res (α : Type) := Except Panic α

/-- run a guard's `Drop` while unwinding. -/
def onPanic {α : Type} (f : St → St) (r : Res α) : Res α :=
  match r with
  | .error p => .error { p with st := f p.st }
  | .ok a => .ok a

-- src/runtime.rs: fn last_changed_revision
def lastChanged (s : St) (d : Nat) : Nat :=
  if d = 0 then s.cur else if d ≥ 3 then 1 else s.lch.getD d 1

def memoOf (s : St) (c : Nat) : Option Memo := s.memos.getD c none

-- src/function.rs: fn insert_memo
def setMemo (s : St) (c : Nat) (m : Memo) : St := { s with memos := s.memos.set c (some m) }

def modMemo (s : St) (c : Nat) (f : Memo → Memo) : St :=
  match memoOf s c with
  | some m => setMemo s c (f m)
  | none => s

def emit (s : St) (e : Ev) : St := { s with evs := e :: s.evs }

/-! ## Cycle heads (src/cycle.rs) -/

/-- the iterator of `CycleHeads` skips removed heads. -/
def live (hs : List Head) : List Head := hs.filter (fun h => !h.removed)

-- fn contains
def headsContains (hs : List Head) (k : Nat) : Bool := (live hs).any (fun h => h.key == k)

-- fn insert (`none` = "Can't merge cycle heads … with different iterations")
def headsInsert : List Head → Nat → Nat → Option (List Head)
  | [], k, it => some [⟨k, it, false⟩]
  | h :: hs, k, it =>
    if h.key = k then
      if h.removed then some (⟨k, it, false⟩ :: hs)
      else if h.iter = it then some (h :: hs) else none
    else (headsInsert hs k it).map (fun r => h :: r)

-- fn extend
def headsExtend : List Head → List Head → Option (List Head)
  | hs, [] => some hs
  | hs, h :: rest =>
    if h.removed then headsExtend hs rest
    else match headsInsert hs h.key h.iter with
      | none => none
      | some hs' => headsExtend hs' rest

-- fn remove_all_except
def removeAllExcept (hs : List Head) (k : Nat) : List Head :=
  hs.map (fun h => if h.key = k then h else { h with removed := true })

-- fn update_iteration_count(_mut)
def updateIterationCount (hs : List Head) (k it : Nat) : List Head :=
  hs.map (fun h => if h.key = k then { h with iter := it } else h)

def Memo.provisional (m : Memo) : Bool := !m.final

-- src/function/memo.rs: fn cycle_heads (of MemoHeader): raw list, empty once final
def Memo.cycleHeads (m : Memo) : List Head := if m.final then [] else m.heads

/-- src/cycle.rs: enum ProvisionalStatus -/
inductive PStatus where
  | provisional (iter va : Nat) (heads : List Head)
  | poisoned (iter va : Nat)
  | final (iter va : Nat)
  deriving Repr, DecidableEq, Inhabited

-- src/function.rs: fn provisional_status
def provisionalStatus (s : St) (k : Nat) : Option PStatus :=
  match memoOf s k with
  | none => none
  | some m =>
    if m.value.isNone && !m.final then some (.poisoned m.iter m.va)
    else if m.final then some (.final m.iter m.va)
    else some (.provisional m.iter m.va m.cycleHeads)

/-- ordered-set insertion (`FxIndexSet::insert`). -/
def edgeInsert (es : List Edge) (e : Edge) : List Edge := if es.contains e then es else es ++ [e]

/-! ## Sync table and lock transfer, one thread
   (src/function/sync.rs, src/runtime/dependency_graph.rs) -/

def syncOf (s : St) (k : Nat) : Option Sync := s.syncs.lookup k

def setSync (s : St) (k : Nat) (y : Sync) : St :=
  { s with syncs := if (s.syncs.lookup k).isSome
      then s.syncs.map (fun p => if p.1 = k then (k, y) else p) else (k, y) :: s.syncs }

def eraseSync (s : St) (k : Nat) : St := { s with syncs := s.syncs.filter (fun p => p.1 != k) }

def dgSet (dg : List (Nat × Nat)) (k o : Nat) : List (Nat × Nat) :=
  if (dg.lookup k).isSome then dg.map (fun p => if p.1 = k then (k, o) else p) else (k, o) :: dg

def dgRemove (dg : List (Nat × Nat)) (k : Nat) : List (Nat × Nat) := dg.filter (fun p => p.1 != k)

inductive Claim where
  /-- `ClaimResult::Claimed`; `selfOnly` = re-claimed a transferred query (`ReleaseMode::SelfOnly`) -/
  | claimed (selfOnly : Bool)
  /-- `ClaimResult::Cycle { inner }` -/
  | cycle (inner : Bool)
  deriving Repr, DecidableEq, Inhabited

-- src/function/sync.rs: fn try_claim (+ try_claim_transferred); the only thread owns every
-- `Thread` entry, a `Transferred` entry is live iff the dependency graph still knows it
def tryClaim (s : St) (k : Nat) (allow : Bool) : Claim × St :=
  match syncOf s k with
  | none => (.claimed false, setSync s k ⟨.thread, false, false, false⟩)
  | some y =>
    match y.owner with
    | .thread => (.cycle false, setSync s k { y with aw := true })
    | .transferred =>
      if (s.dg.lookup k).isSome then
        if allow then (.claimed true, setSync s k { y with owner := .thread, c2 := true })
        else (.cycle true, s)
      else (.claimed false, setSync s k ⟨.thread, false, false, false⟩)

-- src/function/sync.rs: fn peek_claim with `Reentrancy::Deny`: `some inner` = Cycle, `none` = free
def peekClaim (s : St) (k : Nat) : Option Bool × St :=
  match syncOf s k with
  | none => (none, s)
  | some y =>
    match y.owner with
    | .thread => (some false, setSync s k { y with aw := true })
    | .transferred => if (s.dg.lookup k).isSome then (some true, s) else (none, s)

-- src/runtime/dependency_graph.rs: fn unblock_runtimes_blocked_on_transferred_queries_owned_by
-- (unblock_recursive); dependents of `k` = the queries transferred to `k`
def unblockRec : Nat → List (Nat × Nat) → Nat → List (Nat × Nat)
  | 0, dg, _ => dg
  | f + 1, dg, k =>
    let dg1 := dgRemove dg k
    let deps := (dg1.filter (fun p => p.2 == k)).map (·.1)
    deps.foldl (fun d q => unblockRec f d q) dg1

-- src/function/sync.rs: fn release (the entry `y` of `k` has been removed already)
def release (s : St) (k : Nat) (y : Sync) : St :=
  if !y.aw then s
  else
    let dg1 := if y.c2 then dgRemove s.dg k else s.dg
    let dg2 := if y.tt then unblockRec (s.memos.length + 1) dg1 k else dg1
    { s with dg := dg2 }

-- ReleaseMode::Default (also `release_panicking`)
def releaseDefault (s : St) (k : Nat) : St :=
  match syncOf s k with
  | none => s
  | some y => release (eraseSync s k) k y

-- fn release_self (ReleaseMode::SelfOnly)
def releaseSelf (s : St) (k : Nat) : St :=
  match syncOf s k with
  | none => s
  | some y =>
    if y.c2 then
      setSync s k { y with c2 := false, owner := .transferred,
                           aw := y.aw && (s.dg.lookup k).isSome }
    else release (eraseSync s k) k y

-- src/runtime/dependency_graph.rs: fn transfer_lock (the remapping that keeps the map acyclic)
def remap (q old o : Nat) : Nat → List (Nat × Nat) → Nat → List (Nat × Nat)
  | 0, dg, _ => dg
  | f + 1, dg, src =>
    match dg.lookup src with
    | none => dg
    | some nt =>
      if nt = q then (if old = o then dgRemove dg src else dgSet dg src old)
      else remap q old o f dg nt

def transferLock (dg : List (Nat × Nat)) (q o : Nat) : List (Nat × Nat) :=
  match dg.lookup q with
  | none => (q, o) :: dg
  | some old => if old = o then dg else remap q old o (dg.length + 1) (dgSet dg q o) o

inductive Mode where
  | default
  | selfOnly
  | transferTo (o : Nat)
  deriving Repr, DecidableEq, Inhabited

-- src/function/sync.rs: fn transfer; `none` = "new owner to be a locked query"
def transfer (s : St) (k o : Nat) : Option St :=
  match syncOf s o, syncOf s k with
  | some yo, some yk =>
    let s1 := setSync s o { yo with aw := true, tt := true }
    let s2 := setSync s1 k { yk with owner := .transferred, c2 := false }
    some { s2 with dg := transferLock s2.dg k o }
  | _, _ => none

-- fn drop_impl
def dropClaim (s : St) (k : Nat) : Mode → Option St
  | .default => some (releaseDefault s k)
  | .selfOnly => some (releaseSelf s k)
  | .transferTo o => transfer s k o

/-! ## Active queries (src/active_query.rs, src/zalsa_local.rs) -/

-- fn ActiveQuery::new
def pushQuery (s : St) (c : Nat) : St := { s with stack := ⟨c, 3, 1, [], []⟩ :: s.stack }

def popQuery (s : St) : St := { s with stack := s.stack.tail }

def modTop (s : St) (f : Frame → Frame) : St :=
  match s.stack with
  | [] => s
  | fr :: rest => { s with stack := f fr :: rest }

-- fn add_read_simple (input fields)
def addReadSimple (fr : Frame) (e : Edge) (dur ca : Nat) : Frame :=
  { fr with dur := min fr.dur dur, ca := max fr.ca ca,
            edges := if dur ≥ 3 then fr.edges else edgeInsert fr.edges e }

-- fn add_read; `none` = merge of heads with different iterations
def addRead (fr : Frame) (e : Edge) (dur ca : Nat) (heads : List Head) : Option Frame :=
  match headsExtend fr.heads heads with
  | none => none
  | some hs =>
    some { fr with dur := min fr.dur dur, ca := max fr.ca ca,
                   edges := if dur ≥ 3 && heads.isEmpty then fr.edges else edgeInsert fr.edges e,
                   heads := hs }

-- src/zalsa_local.rs: fn report_tracked_read (no active query: nothing to do)
def reportTrackedRead (s : St) (c : Nat) (m : Memo) : Res St :=
  match s.stack with
  | [] => .ok s
  | fr :: rest =>
    match addRead fr (.qry c) m.dur m.ca m.cycleHeads with
    | none => .error ⟨.internal, s⟩
    | some fr' => .ok { s with stack := fr' :: rest }

-- src/input.rs: fn field (`report_tracked_read_simple`)
def readInput (s : St) (i : Nat) : Nat × St :=
  let x := s.inp.getD i ⟨0, 1, 0⟩
  (x.val % 256, modTop s (fun fr => addReadSimple fr (.inp i) x.dur x.ca))

-- fn seed_active_query / seed_iteration: the previous iteration's durability and changed_at
def seedFrame (s : St) (src : Option Memo) : St :=
  match src with
  | some m =>
    if !m.final && m.va = s.cur then
      modTop s (fun fr => { fr with dur := min fr.dur m.dur, ca := max fr.ca m.ca })
    else s
  | none => s

/-! ## Flattening (src/function/execute.rs: fn flatten_cycle_dependencies,
   src/function.rs: fn flatten_cycle_head_dependencies) -/

def flattenQ (P : Prog) (s : St) : Nat → Nat → List Edge × List Nat → List Edge × List Nat
  | 0, _, acc => acc
  | f + 1, q, (flat, seen) =>
    match memoOf s q with
    | none => (flat, seen)
    | some m =>
      if m.final then (edgeInsert flat (.qry q), seen)
      else if seen.contains q then (flat, seen)
      else
        match P.strat q with
        | .panic =>
          m.edges.foldl (fun acc e =>
            match e with
            | .inp i => (edgeInsert acc.1 (.inp i), acc.2)
            | .qry q' => flattenQ P s f q' acc) (flat, q :: seen)
        | _ => (m.edges.foldl edgeInsert flat, q :: seen)

def flattenCycleDependencies (P : Prog) (s : St) (edges : List Edge) : List Edge :=
  (edges.foldl (fun acc e =>
    match e with
    | .inp i => (edgeInsert acc.1 (.inp i), acc.2)
    | .qry q => flattenQ P s (P.n + 1) q acc) (([] : List Edge), ([] : List Nat))).1

/-! ## Verification (src/function/maybe_changed_after.rs) -/

inductive Shallow where
  | verified
  | higherDurability
  | no
  deriving Repr, DecidableEq, Inhabited

def Shallow.yes : Shallow → Bool
  | .no => false
  | _ => true

-- fn shallow_verify_memo
def shallowVerifyMemo (s : St) (m : Memo) : Shallow :=
  if m.va = s.cur then .verified
  else if lastChanged s m.dur ≤ m.va then .higherDurability else .no

-- src/function/memo.rs: fn mark_as_verified
def markAsVerified (s : St) (c : Nat) : St :=
  modMemo (emit s (.valid c)) c (fun m => { m with va := s.cur })

-- fn update_shallow
def updateShallow (s : St) (c : Nat) : Shallow → St
  | .higherDurability => markAsVerified s c
  | _ => s

-- fn validate_provisional: every head final, verified in the revision this memo was verified
-- in, in the iteration this memo read
def validateProvisional (s : St) (c : Nat) (m : Memo) : Bool × St :=
  let ok := (live m.cycleHeads).all (fun h =>
    match provisionalStatus s h.key with
    | some (.final it va) => va == m.va && it == h.iter
    | _ => false)
  if ok then (true, modMemo s c (fun m => { m with final := true })) else (false, s)

-- fn validate_same_iteration (TryClaimCycleHeadsIter inlined)
def sameIterationHeads (m : Memo) : List Head → St → Res (Bool × St)
  | [], s => .ok (true, s)
  | h :: rest, s =>
    let (pc, s1) := peekClaim s h.key
    match pc with
    | none => .ok (false, s1)
    | some _ =>
      match provisionalStatus s1 h.key with
      | none => .error ⟨.internal, s1⟩
      | some (.poisoned _ va) => if va = s1.cur then .error ⟨.propagated, s1⟩ else .ok (false, s1)
      | some (.provisional it va _) =>
        if va != m.va || h.iter != it then .ok (false, s1) else sameIterationHeads m rest s1
      | some (.final it va) =>
        if va != m.va || h.iter != it then .ok (false, s1) else sameIterationHeads m rest s1

def validateSameIteration (s : St) (c : Nat) (m : Memo) : Res (Bool × St) :=
  if m.va != s.cur then .ok (false, s)
  else
    let hs := live m.cycleHeads
    if (hs.filter (fun h => h.key != c)).isEmpty then .ok (s.stack.any (fun fr => fr.key == c), s)
    else sameIterationHeads m hs s

-- fn validate_may_be_provisional
def validateMayBeProvisional (s : St) (c : Nat) (m : Memo) : Res (Bool × St) :=
  if m.final then .ok (true, s)
  else if m.heads.isEmpty then .ok (true, s)
  else
    let (ok1, s1) := validateProvisional s c m
    if ok1 then .ok (true, s1) else validateSameIteration s1 c m

/-- the two mutually recursive entry points, one level down (`eng`). -/
structure Eng where
  fetch : Nat → St → Res (Nat × St)
  /-- `true` = changed -/
  mca : Nat → Nat → St → Res (Bool × St)

-- fn deep_verify_edges; `true` = unchanged
def deepVerifyEdges (sub : Eng) (va : Nat) : List Edge → St → Res (Bool × St)
  | [], s => .ok (true, s)
  | .inp i :: rest, s =>
    if (s.inp.getD i ⟨0, 1, 0⟩).ca > va then .ok (false, s) else deepVerifyEdges sub va rest s
  | .qry q :: rest, s =>
    match sub.mca q va s with
    | .error p => .error p
    | .ok (ch, s1) => if ch then .ok (false, s1) else deepVerifyEdges sub va rest s1

-- fn deep_verify_memo; `true` = unchanged
def deepVerifyMemo (P : Prog) (sub : Eng) (c : Nat) (m : Memo) (s : St) : Res (Bool × St) :=
  if !m.final then .ok (false, s)
  else if P.strat c == .panic && !m.heads.isEmpty then .ok (false, s)
  else
    match deepVerifyEdges sub m.va m.edges s with
    | .error p => .error p
    | .ok (unch, s1) => .ok (unch, if unch then markAsVerified s1 c else s1)

-- fn verify_memo
def verifyMemo (P : Prog) (sub : Eng) (c : Nat) (m : Memo) (s : St) : Res (Bool × St) :=
  let su := shallowVerifyMemo s m
  if su.yes then
    match validateMayBeProvisional s c m with
    | .error p => .error p
    | .ok (ok1, s1) =>
      if ok1 then .ok (true, updateShallow s1 c su) else deepVerifyMemo P sub c m s1
  else deepVerifyMemo P sub c m s

/-! ## Execution (src/function/execute.rs) -/

/-- the query function (`cbody`), reading through `fetch`. -/
def evalM (fetch : Nat → St → Res (Nat × St)) : Expr → St → Res (Nat × St)
  | .const c, s => .ok (c % 256, s)
  | .input i, s => .ok (readInput s i)
  | .call j, s =>
    match fetch j s with
    | .error p => .error p
    | .ok (v, s1) => .ok (v % 256, s1)
  | .union a b, s =>
    match evalM fetch a s with
    | .error p => .error p
    | .ok (x, s1) =>
      match evalM fetch b s1 with
      | .error p => .error p
      | .ok (y, s2) => .ok (x ||| y, s2)
  | .inter a b, s =>
    match evalM fetch a s with
    | .error p => .error p
    | .ok (x, s1) =>
      match evalM fetch b s1 with
      | .error p => .error p
      | .ok (y, s2) => .ok (x &&& y, s2)
  | .ite i a b, s =>
    let (v, s1) := readInput s i
    if v % 2 = 1 then evalM fetch a s1 else evalM fetch b s1
  | .add a b, s =>
    match evalM fetch a s with
    | .error p => .error p
    | .ok (x, s1) =>
      match evalM fetch b s1 with
      | .error p => .error p
      | .ok (y, s2) => .ok ((x + y) % 4, s2)
  | .gate c a, s =>
    match evalM fetch c s with
    | .error p => .error p
    | .ok (x, s1) => if x % 2 = 1 then evalM fetch a s1 else .ok (0, s1)

/-- `try`-style fold (structural, so that the kernel can run it). -/
def foldE {α β ε : Type} (f : α → β → Except ε α) : α → List β → Except ε α
  | a, [] => .ok a
  | a, b :: bs =>
    match f a b with
    | .error e => .error e
    | .ok a' => foldE f a' bs

def foldO {α β : Type} (f : α → β → Option α) : α → List β → Option α
  | a, [] => some a
  | a, b :: bs =>
    match f a b with
    | none => none
    | some a' => foldO f a' bs

/-- accumulator of `collect_recursive`: max iteration, depends_on_self, missing heads -/
abbrev Coll := Nat × Bool × List (Nat × Nat)

-- fn collect_all_cycle_heads: fn collect_recursive
def collectRecursive (s : St) (me : Nat) (queryHeads : List Head) :
    Nat → Nat → List (Nat × Nat) → Except PanicClass Coll
  | 0, _, _ => .error .outOfFuel
  | f + 1, cur, missing =>
    if cur = me then .ok (0, true, missing)
    else
      match provisionalStatus s cur with
      | none => .error .internal
      | some (.poisoned _ _) => .error .propagated
      | some (.final _ _) => .error .internal
      | some (.provisional _ _ hs) =>
        foldE (fun (acc : Coll) (h : Head) =>
          let mx := max acc.1 h.iter
          if headsContains queryHeads h.key then Except.ok (mx, acc.2.1, acc.2.2)
          else if acc.2.2.contains (h.key, h.iter) then Except.ok (mx, acc.2.1, acc.2.2)
          else
            match collectRecursive s me queryHeads f h.key (acc.2.2 ++ [(h.key, h.iter)]) with
            | .error e => Except.error e
            | .ok (nm, nd, miss) => Except.ok (max mx nm, acc.2.1 || nd, miss))
          (0, false, missing) (live hs)

-- fn collect_all_cycle_heads: (max_iteration, depends_on_self, heads with the missing ones)
def collectAllCycleHeads (s : St) (heads : List Head) (me iteration : Nat) :
    Except PanicClass (Nat × Bool × List Head) :=
  match foldE (fun (acc : Coll) (h : Head) =>
      match collectRecursive s me heads (2 * s.memos.length + 2) h.key acc.2.2 with
      | .error e => Except.error e
      | .ok (nm, nd, miss) => Except.ok (max acc.1 nm, acc.2.1 || nd, miss))
      (iteration, false, []) (live heads) with
  | .error e => .error e
  | .ok (mx, dos, missing) =>
    match foldO (fun hs (p : Nat × Nat) => headsInsert hs p.1 p.2) heads missing with
    | none => .error .internal
    | some hs => .ok (mx, dos, hs)

-- fn outer_cycle: the outermost active query among the heads, else a head this thread has
-- claimed without running it (it is being verified)
def outerPeek : List Head → St → Option Nat × St
  | [], s => (none, s)
  | h :: rest, s =>
    let (pc, s1) := peekClaim s h.key
    match pc with
    | some false => (some h.key, s1)
    | _ => outerPeek rest s1

def outerCycle (s : St) (heads : List Head) (c : Nat) : Option Nat × St :=
  match s.stack.reverse.find? (fun fr => fr.key != c && headsContains heads fr.key) with
  | some fr => (some fr.key, s)
  | none => outerPeek ((live heads).filter (fun h => h.key != c)).reverse s

-- fn complete_cycle_query: flatten, pop; heads were taken before, so the completion is final
def completeCycleQuery (P : Prog) (s : St) (fr : Frame) (v iteration : Nat) : Memo × St :=
  (⟨some v, s.cur, fr.ca, fr.dur, flattenCycleDependencies P s fr.edges, [], iteration, true, false⟩,
   popQuery s)

-- src/zalsa_local.rs: fn set_iteration_count (on the memo of nested head `k`)
def setIterationCount (s : St) (k it : Nat) : St :=
  modMemo s k (fun m => { m with iter := it, heads := updateIterationCount m.heads k it })

/-- `PoisonProvisionalIfPanicking::drop` -/
def poison (c : Nat) (s : St) : St :=
  setMemo s c ⟨none, s.cur, 1, 3, [], [⟨c, 0, false⟩], 0, false, false⟩

def incr (it : Nat) (s : St) : Res Nat :=
  match IterationStamp.increment_iteration it with
  | some it' => .ok it'
  | none => .error ⟨.tooManyIterations, s⟩

/-- what `execute_maybe_iterate` hands back to `execute`: the completed revisions (as a memo
    verified now), how to release the claim, the state. -/
abbrev Completed := Memo × Mode × St

-- fn execute_maybe_iterate: the `loop` (+ try_complete_query, complete_cycle_participant,
-- try_complete_cycle_head).  `lastProv` = `last_provisional_memo_opt`, `optOld` = `opt_old_memo`.
def iterateLoop (P : Prog) (sub : Eng) (c : Nat) :
    Nat → Option Memo → Nat → Option Memo → St → Res Completed
  | 0, _, _, _, s => .error ⟨.outOfFuel, s⟩
  | fuel + 1, lastProv, iteration, optOld, s =>
    let s1 := seedFrame (pushQuery s c) (lastProv.or optOld)
    match onPanic popQuery (evalM sub.fetch (P.node c).body s1) with
    | .error p => .error p
    | .ok (v, s2) =>
      match s2.stack with
      | [] => .error ⟨.internal, s2⟩
      | fr :: _ =>
        -- try_complete_query
        if fr.heads.isEmpty then
          let it' : Res Nat :=
            if IterationStamp.is_initial_iteration iteration then .ok 0 else incr iteration (popQuery s2)
          match it' with
          | .error p => .error p
          | .ok it' =>
            .ok (⟨some v, s2.cur, fr.ca, fr.dur, fr.edges, [], it', true, false⟩, .default, popQuery s2)
        else
          match collectAllCycleHeads s2 fr.heads c iteration with
          | .error e => .error ⟨e, popQuery s2⟩
          | .ok (maxIter, dos, heads) =>
            let (outer, s3) := outerCycle s2 heads c
            if !dos then
              -- QueryExecutionOutcome::Participant
              match outer with
              | none => .error ⟨.internal, popQuery s3⟩
              | some o =>
                let v' := if isFallback P c then cycleInitial P c else v
                match incr iteration (popQuery s3) with
                | .error p => .error p
                | .ok it' =>
                  let (cq, s4) := completeCycleQuery P s3 fr v' it'
                  .ok ({ cq with final := false, heads := heads }, .transferTo o, s4)
            else
              -- QueryExecutionOutcome::CycleHead
              let cycleIteration := if outer.isNone then maxIter else iteration
              match (match lastProv with | some m => some m | none => memoOf s3 c) with
              | none => .error ⟨.internal, popQuery s3⟩
              | some lastMemo =>
                if lastProv.isNone && lastMemo.final then .error ⟨.internal, popQuery s3⟩ else
                match lastMemo.value with
                | none => .error ⟨.internal, popQuery s3⟩
                | some lastValue =>
                  let nv := if isFallback P c then cycleInitial P c else cycleFn P c lastValue v
                  let valueConverged := isFallback P c || nv == lastValue
                  -- try_complete_cycle_head
                  let (cq, s4) := completeCycleQuery P s3 fr nv iteration
                  let thisConverged := valueConverged && lastMemo.dur == cq.dur && lastMemo.ca == cq.ca
                  match outer with
                  | some o =>
                    .ok ({ cq with heads := heads, iter := cycleIteration, conv := thisConverged,
                                   final := false }, .transferTo o, s4)
                  | none =>
                    let others := (live heads).filter (fun h => h.key != c)
                    let converged := thisConverged && others.all (fun h =>
                      match memoOf s4 h.key with
                      | none => true
                      | some m => m.conv)
                    if converged then
                      let s5 := others.foldl (fun s h => modMemo s h.key (fun m => { m with final := true })) s4
                      .ok (cq, .default, s5)
                    else
                      match incr cycleIteration s4 with
                      | .error p => .error p
                      | .ok it' =>
                        let s5 := emit s4 (.iterate c (IterationStamp.iteration it'))
                        let s6 := others.foldl (fun s h => setIterationCount s h.key it') s5
                        let newMemo : Memo :=
                          { cq with heads := updateIterationCount heads c it', iter := it', final := false }
                        iterateLoop P sub c fuel (some newMemo) it' optOld (setMemo s6 c newMemo)

-- fn execute_maybe_iterate
def executeMaybeIterate (P : Prog) (sub : Eng) (c : Nat) (old : Option Memo) (s : St) : Res Completed :=
  let start : Res (Option Memo × Nat) :=
    match old with
    | some o =>
      if o.va = s.cur then
        -- fn previous_iteration
        if o.value.isNone then .error ⟨.propagated, s⟩
        else .ok (if headsContains o.cycleHeads c then some o else none, o.iter)
      else .ok (none, 0)
    | none => .ok (none, 0)
  match start with
  | .error p => .error p
  | .ok (lastProv, iteration) =>
    onPanic (poison c) (iterateLoop P sub c (MAX_ITERATIONS + 2) lastProv iteration old s)

-- src/function/backdate.rs: fn backdate_if_appropriate (`none` = backdate violation)
def backdateIfAppropriate (old : Memo) (cq : Memo) : Option Memo :=
  if cq.heads.isEmpty && old.final && cq.dur ≥ old.dur && old.value == cq.value then
    if old.ca > cq.ca && old.heads.isEmpty then none else some { cq with ca := old.ca }
  -- the changed_at of a memo that took part in a cycle never moves backwards
  else if !old.heads.isEmpty && old.ca > cq.ca then some { cq with ca := old.ca }
  else some cq

-- fn execute, first half: run the query function (`CycleRecoveryStrategy::Panic`: once;
-- otherwise execute_maybe_iterate); `mode0` = the release mode of the claim guard as claimed
def executeQuery (P : Prog) (sub : Eng) (c : Nat) (old : Option Memo) (mode0 : Mode) (s0 : St) :
    Res Completed :=
  match P.strat c with
  | .panic =>
    let s1 := seedFrame (pushQuery s0 c) old
    match onPanic popQuery (evalM sub.fetch (P.node c).body s1) with
    | .error p => .error p
    | .ok (v, s2) =>
      match s2.stack with
      | [] => .error ⟨.internal, s2⟩
      | fr :: _ =>
        .ok (⟨some v, s2.cur, fr.ca, fr.dur, fr.edges, fr.heads, 0, fr.heads.isEmpty, false⟩, mode0,
             popQuery s2)
  | _ => executeMaybeIterate P sub c old s0

-- src/zalsa_local.rs: fn discard_edges_if_never_change
def discardEdgesIfNeverChange (m : Memo) : Memo :=
  if m.dur ≥ 3 && m.heads.isEmpty then { m with edges := [] } else m

-- fn execute, second half: backdate, insert the memo, release the claim
def finishExecute (c : Nat) (old : Option Memo) (cq : Memo) (mode : Mode) (s1 : St) : Res St :=
  match (match old with | some o => backdateIfAppropriate o cq | none => some cq) with
  | none => .error ⟨.backdateViolation, s1⟩
  | some cq1 =>
    let s2 := setMemo s1 c (discardEdgesIfNeverChange cq1)
    match dropClaim s2 c mode with
    | none => .error ⟨.internal, releaseDefault s2 c⟩
    | some s3 => .ok s3

-- fn execute
def execute (P : Prog) (sub : Eng) (c : Nat) (old : Option Memo) (mode0 : Mode) (s : St) : Res St :=
  match executeQuery P sub c old mode0 (emit s (.exec c)) with
  | .error p => .error p
  | .ok (cq, mode, s1) => finishExecute c old cq mode s1

/-! ## Fetch (src/function/fetch.rs) and maybe_changed_after -/

-- fn fetch_cold_cycle
def fetchColdCycle (P : Prog) (c : Nat) (s : St) : Res St :=
  match P.strat c with
  | .panic => .error ⟨.cycle, s⟩
  | _ =>
    let fresh (it : Nat) : St :=
      setMemo s c ⟨some (cycleInitial P c), s.cur, 1, 3, [], [⟨c, it, false⟩], it, false, false⟩
    match memoOf s c with
    | none => .ok (fresh 0)
    | some m =>
      if m.value.isNone && !m.final && m.va = s.cur then .error ⟨.propagated, s⟩
      else if m.va = s.cur && m.value.isSome && headsContains m.heads c then
        .ok (setMemo s c { m with heads := removeAllExcept m.heads c })
      else .ok (fresh (if m.va = s.cur && m.value.isSome then m.iter else 0))

-- fn fetch_cold, after the claim: "check again to see if there's a hot value" (verify_memo)
def verifyOld (P : Prog) (sub : Eng) (c : Nat) (old : Option Memo) (s1 : St) : Res (Bool × St) :=
  match old with
  | some m => if m.value.isSome then verifyMemo P sub c m s1 else .ok (false, s1)
  | none => .ok (false, s1)

def fetchColdClaimed (P : Prog) (sub : Eng) (c : Nat) (mode0 : Mode) (s1 : St) : Res St :=
  let old := memoOf s1 c
  match verifyOld P sub c old s1 with
  | .error p => .error p
  | .ok (true, s2) =>
    match dropClaim s2 c mode0 with
    | none => .error ⟨.internal, s2⟩
    | some s3 => .ok s3
  | .ok (false, s2) => execute P sub c old mode0 s2

-- fn fetch_cold
def fetchCold (P : Prog) (sub : Eng) (c : Nat) (s : St) : Res St :=
  let (cl, s1) := tryClaim s c true
  match cl with
  | .cycle _ => fetchColdCycle P c s1
  | .claimed selfOnly =>
    onPanic (fun st => releaseDefault st c)
      (fetchColdClaimed P sub c (if selfOnly then .selfOnly else .default) s1)

-- fn fetch_hot
def fetchHot (s : St) (c : Nat) : Option St :=
  match memoOf s c with
  | some m =>
    let su := shallowVerifyMemo s m
    if m.value.isSome && su.yes && m.final then some (updateShallow s c su) else none
  | none => none

-- fn refresh_memo
def refreshMemo (P : Prog) (sub : Eng) (c : Nat) (s : St) : Res St :=
  match fetchHot s c with
  | some s1 => .ok s1
  | none => fetchCold P sub c s

-- fn fetch: refresh_memo, then report_tracked_read
def fetchStep (P : Prog) (sub : Eng) (c : Nat) (s : St) : Res (Nat × St) :=
  match refreshMemo P sub c s with
  | .error p => .error p
  | .ok s1 =>
    match memoOf s1 c with
    | none => .error ⟨.internal, s1⟩
    | some m =>
      match m.value with
      | none => .error ⟨.internal, s1⟩
      | some v =>
        match reportTrackedRead s1 c m with
        | .error p => .error p
        | .ok s2 => .ok (v, s2)

-- src/function/maybe_changed_after.rs: fn maybe_changed_after (+ _hot, _cold); `true` = changed
def mcaStep (P : Prog) (sub : Eng) (c rev : Nat) (s : St) : Res (Bool × St) :=
  match memoOf s c with
  | none => .ok (true, s)
  | some m =>
    let su := shallowVerifyMemo s m
    if su.yes && m.final then .ok (decide (m.ca > rev), updateShallow s c su)
    else
      let (cl, s1) := tryClaim s c false
      match cl with
      | .cycle _ =>
        -- fn maybe_changed_after_cold_cycle
        if P.strat c == .panic then .error ⟨.cycle, s1⟩ else .ok (true, s1)
      | .claimed _ =>
        onPanic (fun st => releaseDefault st c) (
          match verifyMemo P sub c m s1 with
          | .error p => .error p
          -- "always assume that a provisional value has changed" (a provisional memo accepted by
          -- validate_same_iteration carries the changed_at of the iteration so far);
          -- `may_be_provisional` is read AFTER `verify_memo`: lazy finalisation may just have
          -- set `verified_final`
          | .ok (true, s2) =>
            .ok (decide (m.ca > rev) || !((memoOf s2 c).getD m).final, releaseDefault s2 c)
          | .ok (false, s2) =>
            if m.final then
              if m.value.isNone then .ok (true, releaseDefault s2 c)
              else
                match execute P sub c (some m) .default s2 with
                | .error p => .error p
                | .ok s3 =>
                  match memoOf s3 c with
                  | none => .error ⟨.internal, s3⟩
                  | some m3 => .ok (decide (m3.ca > rev) || !m3.final, s3)
            else .ok (true, releaseDefault s2 c))

/-- the engine by structural recursion on the nesting depth of fetch / maybe_changed_after
    (every nested call holds a claim on another key, so `P.n + 1` levels suffice). -/
def eng (P : Prog) : Nat → Eng
  | 0 => ⟨fun _ s => .error ⟨.outOfFuel, s⟩, fun _ _ s => .error ⟨.outOfFuel, s⟩⟩
  | d + 1 => ⟨fetchStep P (eng P d), mcaStep P (eng P d)⟩

/-! ## Database level: requests and writes -/

/-- fresh database: revision R1, inputs created in R1. -/
def St.init (n : Nat) (inputs : List (Nat × Nat)) : St :=
  ⟨1, [1, 1, 1], inputs.map (fun p => ⟨p.1, 1, p.2⟩), List.replicate n none, [], [], [], []⟩

inductive Outcome where
  | value (v : Nat)
  | panic (c : PanicClass)
  deriving Repr, DecidableEq, Inhabited

/-- a top-level request (`evs` is the event log of this request, newest first). -/
def get (P : Prog) (s : St) (c : Nat) : Outcome × St :=
  match (eng P (P.n + 2)).fetch c { s with evs := [] } with
  | .ok (v, s') => (.value v, s')
  | .error p => (.panic p.cls, p.st)

-- src/input.rs: fn set_field after `new_revision`; src/runtime.rs: fn report_tracked_write
-- (as `Model/Core.lean: write`; a NEVER_CHANGE field only advances the revision)
def write (s : St) (i v : Nat) (nd : Option Nat) : St :=
  let cur' := s.cur + 1
  let x := s.inp.getD i ⟨0, 1, 0⟩
  if x.dur ≥ 3 then { s with cur := cur' }
  else
    { s with
      cur := cur'
      lch := s.lch.mapIdx (fun k r => if 1 ≤ k ∧ k ≤ x.dur then cur' else r)
      inp := s.inp.set i ⟨v, cur', (match nd with | some d => d | none => x.dur)⟩ }

-- src/storage.rs: fn synthetic_write
def synth (s : St) (d : Nat) : St :=
  let cur' := s.cur + 1
  if d ≥ 3 then { s with cur := cur' }
  else { s with cur := cur', lch := s.lch.mapIdx (fun k r => if 1 ≤ k ∧ k ≤ d then cur' else r) }

inductive Op where
  | get (q : Nat)
  | set (i v : Nat) (nd : Option Nat)
  | synth (d : Nat)
  deriving Repr, DecidableEq, Inhabited

def step (P : Prog) (s : St) : Op → St
  | .get q => (get P s q).2
  | .set i v nd => write s i v nd
  | .synth d => synth s d

/-- the answers of the requests of a history, in order. -/
def outputs (P : Prog) : St → List Op → List Outcome
  | _, [] => []
  | s, .get q :: ops => (get P s q).1 :: outputs P (get P s q).2 ops
  | s, .set i v nd :: ops => outputs P (write s i v nd) ops
  | s, .synth d :: ops => outputs P (synth s d) ops

/-! ## Reference: translation to `Model/Cycle.lean`, and the closed-table certificate -/

/-- the body language of `Model/Cycle.lean`: `ite i` there tests input `i` ≠ 0, so the low bit of
    input `i` becomes a shadow input (slot `2 i + 1`; the value itself is slot `2 i`), the same
    idea as in `checks/cycle_common.py: translate_case`; `gate` maps to the value-controlled gate
    of that language, `add` is outside it. -/
def toCycleExpr : Expr → Cycle.Expr
  | .const c => .const c
  | .input i => .input (2 * i)
  | .call j => .call j
  | .union a b => .union (toCycleExpr a) (toCycleExpr b)
  | .inter a b => .inter (toCycleExpr a) (toCycleExpr b)
  | .ite i a b => .ite (2 * i + 1) (toCycleExpr a) (toCycleExpr b)
  | .add _ _ => .const 0
  | .gate c a => .gate (toCycleExpr c) (toCycleExpr a)

def toCycle (P : Prog) : Cycle.Prog := ⟨P.nodes.map (fun nd => ⟨nd.strat, toCycleExpr nd.body⟩)⟩

/-- the environment of `Model/Cycle.lean` for input values `vals` (odd slots = low bits). -/
def envOfVals (vals : List Nat) : Nat → Nat :=
  fun k => if k % 2 = 0 then vals.getD (k / 2) 0 else vals.getD (k / 2) 0 % 2

/-- the environment of `Model/Cycle.lean` for the inputs `i`. -/
def envI (i : List Inp) : Nat → Nat := envOfVals (i.map (·.val))

/-- would `validate_provisional` finalise this memo now? -/
def lazilyFinal (s : St) (m : Memo) : Bool :=
  (live m.cycleHeads).all (fun h =>
    match provisionalStatus s h.key with
    | some (.final it va) => va == m.va && it == h.iter
    | _ => false)

/-- the value of the (effectively) finalised memo of node `j`, if there is one. -/
def finalVal (s : St) (j : Nat) : Option Nat :=
  match memoOf s j with
  | some m => if m.final || lazilyFinal s m then m.value else none
  | none => none

def finalEnv (s : St) : Nat → Nat := fun j => (finalVal s j).getD 0

/-- the nodes reachable from the nodes `R` in `k` steps of the call graph at the current inputs
    (gates decided by the finalised values). -/
def reachFrom (P : Prog) (s : St) : Nat → List Nat → List Nat
  | 0, R => R
  | k + 1, R =>
    reachFrom P s k (R.foldl (fun acc x =>
      (Cycle.callees (envI s.inp) (finalEnv s) (toCycleExpr (P.node x).body)).foldl
        (fun acc c => if acc.contains c then acc else acc ++ [c]) acc) R)

/-- node `x` of the certified set `R`: it is finalised, its callees (at the current inputs)
    lie in `R`, and its value is its body over the finalised values. -/
def closedAt (P : Prog) (s : St) (R : List Nat) (x : Nat) : Bool :=
  match finalVal s x with
  | none => false
  | some v =>
    (Cycle.callees (envI s.inp) (finalEnv s) (toCycleExpr (P.node x).body)).all
      (fun c => R.contains c) &&
    v == Cycle.evalExpr (envI s.inp) (finalEnv s) (toCycleExpr (P.node x).body)

/-- the finalised memos of the nodes `R` are closed under callees and solve the equations at
    the current inputs (a decidable predicate on a state). -/
def closedOn (P : Prog) (s : St) (R : List Nat) : Bool := R.all (closedAt P s R)

/-- the same for `cycle_result` programs: a node on a cycle of the call graph holds its
    fallback value, any other node its body over the finalised values. -/
def fbClosedAt (P : Prog) (s : St) (R : List Nat) (x : Nat) : Bool :=
  match finalVal s x with
  | none => false
  | some v =>
    (Cycle.callees (envI s.inp) (finalEnv s) (toCycleExpr (P.node x).body)).all
      (fun c => R.contains c) &&
    (if Cycle.onCycle (toCycle P) (envI s.inp) (finalEnv s) x
     then v == Cycle.fallbackValue (toCycle P) x
     else v == Cycle.evalExpr (envI s.inp) (finalEnv s) (toCycleExpr (P.node x).body))

def fbClosedOn (P : Prog) (s : St) (R : List Nat) : Bool := R.all (fbClosedAt P s R)

/-- certificate for an answer `v` of node `q` (what `svdriver cyclerev-cert` prints): the part of
    the memo table reachable from `q` is a closed solution that holds `v` for `q`. -/
def certB (P : Prog) (s : St) (q v : Nat) : Bool :=
  let R := reachFrom P s P.n [q]
  (if P.nodes.any (fun nd => match nd.strat with | .fallback _ => true | _ => false)
   then fbClosedOn P s R else closedOn P s R) && finalVal s q == some v

end SalsaVerif.Model.CycleRev
