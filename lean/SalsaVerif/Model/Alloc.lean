/-
  Page allocation model (C24, C23 slot publication).  Core Lean only.

  src/table.rs: `Table { pages : boxcar::Vec<Page>, non_full_pages : Mutex<HashMap<IngredientIndex, Vec<PageIndex>>> }`,
  `Page { ingredient, allocated : AtomicUsize, data }`, `PageView::allocate`, `fetch_or_push_page`,
  `take_non_full_page`, `record_unfilled_page`, `push_page`;
  src/zalsa_local.rs: `ZalsaLocal::most_recent_pages`, `allocate`, `allocate_cold`,
  `record_unfilled_pages`;  src/storage.rs: `Storage::clone` (fresh `ZalsaLocal`), `Storage::drop`.

  `PageView::allocate` is three separate steps of the LTS so that interleavings are explicit:
      load   `index = allocated.load(Acquire)`              (full page ⇒ `Err`, nothing happens)
      write  `entry.write(value(make_id(page, index)))`
      store  `allocated.store(index + 1, Release)`          (the id is handed out)
  Labels carry the values the implementation observed (page popped / pushed, `allocated` read and
  stored, slot written); a label is enabled only if the model agrees with them, so "the LTS
  accepts the trace" is the correspondence check.  Choices nothing constrains are inputs: the
  boxcar index of a pushed page (must be fresh and `< MAX_PAGES`, the `debug_assert!` of
  `PageIndex::new`) and the drain order of the `most_recent_pages` hash map on drop.
-/
import SalsaVerif.Gen.Ids

namespace SalsaVerif.Model.Alloc
open SalsaVerif.Gen.Ids

structure Page where
  ingredient : Nat
  allocated : Nat                 -- `AtomicUsize`: number of published slots
  slots : Nat → Option Nat        -- slot ↦ value written (`none` = uninitialised memory)

/-- program counter of a handle inside `PageView::allocate` -/
inductive Pc where
  | idle
  | loaded (page idx : Nat)             -- after the load of `allocated`
  | written (page idx v : Nat)          -- after the slot write, before the Release store
deriving DecidableEq, Repr

structure Handle where
  live : Bool
  mostRecent : List (Nat × Nat)   -- `most_recent_pages`: (ingredient, page)
  pc : Pc
deriving DecidableEq, Repr

def Handle.fresh : Handle := ⟨true, [], .idle⟩
def Handle.dead : Handle := ⟨false, [], .idle⟩

structure State where
  pages : Nat → Option Page       -- boxcar vector: page index ↦ page (`none` = not pushed yet)
  nonFull : List (Nat × Nat)      -- `non_full_pages`: (ingredient, page), head = most recently recorded
  handles : List Handle           -- every `ZalsaLocal` ever created, index = handle id
  handed : List (Id × Nat)        -- ids returned by `allocate` with the value stored, newest first

/-- `Storage::new`: one handle, no pages -/
def State.init : State := ⟨fun _ => none, [], [Handle.fresh], []⟩

def lookup : List (Nat × Nat) → Nat → Option Nat
  | [], _ => none
  | (k, v) :: rest, ing => if k = ing then some v else lookup rest ing

/-- `Vec::pop` on the ingredient's vector: remove the most recently recorded entry of `ing` -/
def removeFirst : List (Nat × Nat) → Nat → List (Nat × Nat)
  | [], _ => []
  | (k, v) :: rest, ing => if k = ing then rest else (k, v) :: removeFirst rest ing

def removeKey : List (Nat × Nat) → Nat → List (Nat × Nat)
  | [], _ => []
  | (k, v) :: rest, ing => if k = ing then removeKey rest ing else (k, v) :: removeKey rest ing

/-- `HashMap::insert` -/
def insertMR (mr : List (Nat × Nat)) (ing page : Nat) : List (Nat × Nat) :=
  (ing, page) :: removeKey mr ing

/-- number of entries of a page list that name page `q` -/
def cnt (q : Nat) : List (Nat × Nat) → Nat
  | [] => 0
  | (_, v) :: rest => (if v = q then 1 else 0) + cnt q rest

def getH (s : State) (h : Nat) : Handle := (s.handles[h]?).getD Handle.dead

def setH (s : State) (h : Nat) (hd : Handle) : State := { s with handles := s.handles.set h hd }

def setPage (s : State) (page : Nat) (p : Page) : State :=
  { s with pages := fun q => if q = page then some p else s.pages q }

-- src/table.rs: fn take_non_full_page
def takeNonFullPage (s : State) (ing : Nat) : Option Nat := lookup s.nonFull ing

/-- `record_unfilled_pages`: `most_recent_pages.drain().for_each(record_unfilled_page)`, the drain
    order (a hash-map iteration order) being the input `order` (list of ingredients). `none` if
    `order` does not enumerate the map. -/
def drain (nf : List (Nat × Nat)) (mr : List (Nat × Nat)) : List Nat → Option (List (Nat × Nat))
  | [] => if mr.isEmpty then some nf else none
  | ing :: rest =>
    match lookup mr ing with
    | some page => drain ((ing, page) :: nf) (removeKey mr ing) rest
    | none => none

inductive Label where
  | take (h ing page : Nat)          -- cold path: `fetch_or_push_page` found a non-full page
  | push (h ing page : Nat)          -- cold path: `push_page`; `page` = boxcar index
  | load (h page n : Nat)            -- `allocated.load` returned `n`
  | write (h page slot v : Nat)      -- slot initialised with `v`
  | store (h page n : Nat)           -- `allocated.store(n)`
  | release (h ing page : Nat)       -- one iteration of `record_unfilled_pages`' drain: `record_unfilled_page(ing, page)`
  | dropHandle (h : Nat) (order : List Nat)   -- the whole drain at once, then the handle is gone
  | cloneHandle (parent : Nat)
deriving DecidableEq, Repr

/-- is the label enabled? -/
def pre (s : State) : Label → Bool
  | .take h ing page =>
    let hd := getH s h
    hd.live && hd.pc == .idle && (lookup hd.mostRecent ing).isNone &&
      takeNonFullPage s ing == some page
  | .push h ing page =>
    let hd := getH s h
    hd.live && hd.pc == .idle && (s.pages page).isNone && decide (page < MAX_PAGES) &&
      (match lookup hd.mostRecent ing with
       | none => (takeNonFullPage s ing).isNone          -- `fetch_or_push_page` fell through
       | some q => match s.pages q with                   -- `allocate` on the cached page said `Err`
         | some p => decide (PAGE_LEN ≤ p.allocated)
         | none => false)
  | .load h page n =>
    let hd := getH s h
    hd.live && hd.pc == .idle &&
      (match s.pages page with
       | some p => lookup hd.mostRecent p.ingredient == some page && n == p.allocated
       | none => false)
  | .write h page slot _ =>
    let hd := getH s h
    hd.live && hd.pc == .loaded page slot
  | .store h page n =>
    let hd := getH s h
    hd.live && (match hd.pc with
      | .written page' idx _ => page' == page && n == idx + 1
      | _ => false)
  | .release h ing page =>
    let hd := getH s h
    hd.live && hd.pc == .idle && lookup hd.mostRecent ing == some page
  | .dropHandle h order =>
    let hd := getH s h
    hd.live && hd.pc == .idle && (drain s.nonFull hd.mostRecent order).isSome
  | .cloneHandle parent => (getH s parent).live

/-- effect of an enabled label -/
def apply (s : State) : Label → State
  | .take h ing page =>
    let hd := getH s h
    { setH s h { hd with mostRecent := insertMR hd.mostRecent ing page } with
      nonFull := removeFirst s.nonFull ing }
  | .push h ing page =>
    let hd := getH s h
    setPage (setH s h { hd with mostRecent := insertMR hd.mostRecent ing page }) page ⟨ing, 0, fun _ => none⟩
  | .load h page n =>
    -- `if index >= PAGE_LEN { return Err(value) }`
    if n < PAGE_LEN then setH s h { getH s h with pc := .loaded page n } else s
  | .write h page slot v =>
    match s.pages page with
    | some p =>
      setPage (setH s h { getH s h with pc := .written page slot v }) page
        { p with slots := fun i => if i = slot then some v else p.slots i }
    | none => s
  | .store h page n =>
    match s.pages page, (getH s h).pc with
    | some p, .written _ idx v =>
      { setPage (setH s h { getH s h with pc := .idle }) page { p with allocated := n } with
        handed := (make_id page idx, v) :: s.handed }
    | _, _ => s
  | .release h ing page =>
    let hd := getH s h
    { setH s h { hd with mostRecent := removeKey hd.mostRecent ing } with
      nonFull := (ing, page) :: s.nonFull }
  | .dropHandle h order =>
    let hd := getH s h
    match drain s.nonFull hd.mostRecent order with
    | some nf => { setH s h Handle.dead with nonFull := nf }
    | none => s
  | .cloneHandle _ => { s with handles := s.handles ++ [Handle.fresh] }

def step (s : State) (l : Label) : Option State := if pre s l then some (apply s l) else none

def run (s : State) : List Label → Option State
  | [] => some s
  | l :: ls => match step s l with
    | some s' => run s' ls
    | none => none

def Reachable (s : State) : Prop := ∃ ls, run State.init ls = some s

/-- what a reader of `Table::get` sees: `Page::get` asserts `slot < allocated` (Acquire load),
    then reads the slot -/
def readSlot (s : State) (page idx : Nat) : Option Nat :=
  match s.pages page with
  | some p => if idx < p.allocated then p.slots idx else none
  | none => none

/-- occurrences of page `q` in the handles' `most_recent_pages` -/
def occH (q : Nat) : List Handle → Nat
  | [] => 0
  | h :: hs => cnt q h.mostRecent + occH q hs

/-- occurrences of page `q` among `non_full_pages` and all `most_recent_pages` -/
def occ (s : State) (q : Nat) : Nat := cnt q s.nonFull + occH q s.handles

/-- every page named anywhere -/
def owned (s : State) : List Nat :=
  s.nonFull.map (·.2) ++ s.handles.flatMap fun h => h.mostRecent.map (·.2)

/-- Bool version of `c24_single_writer`: every page is in at most one of
    {some handle's mostRecent, nonFull}, and at most once there -/
def singleWriterOk (s : State) : Bool := (owned s).all fun q => decide (occ s q ≤ 1)

/-- why a label is not enabled (diagnostics for the driver only) -/
def why (s : State) : Label → String
  | .take h ing page =>
    let hd := getH s h
    if !hd.live then "dead-handle" else if hd.pc != .idle then "busy"
    else if (lookup hd.mostRecent ing).isSome then "has-page"
    else match takeNonFullPage s ing with
      | none => "no-non-full-page"
      | some q => if q = page then "?" else s!"expected-page {q}"
  | .push h ing page =>
    let hd := getH s h
    if !hd.live then "dead-handle" else if hd.pc != .idle then "busy"
    else if (s.pages page).isSome then "page-exists"
    else if !(decide (page < MAX_PAGES)) then "max-pages"
    else match lookup hd.mostRecent ing with
      | none => "non-full-page-available"
      | some _ => "cached-page-not-full"
  | .load h page n =>
    let hd := getH s h
    if !hd.live then "dead-handle" else if hd.pc != .idle then "busy"
    else match s.pages page with
      | none => "no-such-page"
      | some p => if lookup hd.mostRecent p.ingredient != some page then "not-my-page"
                  else if n != p.allocated then s!"expected-allocated {p.allocated}" else "?"
  | .write h _ _ _ =>
    let hd := getH s h
    if !hd.live then "dead-handle" else "not-loaded"
  | .store h _ _ =>
    let hd := getH s h
    if !hd.live then "dead-handle" else
    match hd.pc with
    | .written page idx _ => s!"expected-store {page} {idx + 1}"
    | _ => "not-written"
  | .release h ing _ =>
    let hd := getH s h
    if !hd.live then "dead-handle" else if hd.pc != .idle then "busy"
    else match lookup hd.mostRecent ing with
      | none => "no-cached-page"
      | some q => s!"expected-page {q}"
  | .dropHandle h _ =>
    let hd := getH s h
    if !hd.live then "dead-handle" else if hd.pc != .idle then "busy" else "bad-order"
  | .cloneHandle _ => "dead-handle"

end SalsaVerif.Model.Alloc
