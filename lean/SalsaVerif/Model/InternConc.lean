/-
  Several shards and several threads for the interner of Model/Intern.lean (src/interned.rs).

  `intern_id` does two things to shared state, in this order:
    1. `self.revision_queue.record(current_revision)` — atomic under the queue's own mutex
       (`record_cold`), reading/writing only the queue;
    2. everything else while holding the mutex of the shard chosen by the hash of the value
       (`internShard`): equal values hash to the same shard.  Inside it reads the queue
       (`is_primed`, `is_stale`) without the queue mutex.
  All threads run in the same revision `cur` (a new revision needs `&mut` access to the database).
  The interleaving LTS below has exactly these two atomic steps per call; that the mutexes make
  them atomic is the locks' contract (trusted).  Fresh table ids come from a global counter here
  (`zalsa_local.allocate` hands out some unused id; nothing depends on which).
  Core Lean only.
-/
import SalsaVerif.Model.Intern

namespace SalsaVerif.Model.Intern

structure Call where
  callerDur : Nat
  inQuery : Bool
  fields : Nat
deriving DecidableEq, Repr

/-- The ingredient with all its shards (`shards k` = shard number `k`). -/
structure Multi where
  revisions : Option Nat
  queue : RevisionQueue
  shards : Nat → Shard
  nextId : Nat

def Multi.new (revisions : Option Nat) : Multi :=
  ⟨revisions, RevisionQueue.new revisions, fun _ => Shard.empty, 0⟩

/-- atomic step 1: `if C::REVISIONS != IMMORTAL { self.revision_queue.record(cur) }` -/
def Multi.recordStep (m : Multi) (cur : Nat) : Option Multi :=
  match recordIfMortal m.revisions m.queue cur with
  | none => none
  | some q => some { m with queue := q }

/-- atomic step 2: the part of `intern_id` under the lock of shard `hash fields`. -/
def Multi.shardStep (hash : Nat → Nat) (m : Multi) (cur : Nat) (c : Call) :
    Option (Multi × Outcome) :=
  match internShard m.revisions m.queue cur c.callerDur c.inQuery c.fields m.nextId
      (m.shards (hash c.fields)) with
  | none => none
  | some r =>
    some ({ m with shards := fun k => if k = hash c.fields then r.1 else m.shards k,
                   nextId := if r.2.kind = .new then m.nextId + 1 else m.nextId }, r.2)

/-- src/interned.rs: fn intern_id, executed without interference. -/
def Multi.intern (hash : Nat → Nat) (m : Multi) (cur : Nat) (c : Call) : Option (Multi × Outcome) :=
  match m.recordStep cur with
  | none => none
  | some m1 => m1.shardStep hash cur c

/-- A sequential execution of a list of calls. -/
def Multi.internAll (hash : Nat → Nat) (cur : Nat) : Multi → List Call → Option (Multi × List Outcome)
  | m, [] => some (m, [])
  | m, c :: cs =>
    match m.intern hash cur c with
    | none => none
    | some r =>
      match Multi.internAll hash cur r.1 cs with
      | none => none
      | some r' => some (r'.1, r.2 :: r'.2)

structure Thread where
  /-- the calls still to be made, the head being the current one. -/
  todo : List Call
  /-- the current call has done its `record` step and is waiting for / holding the shard lock. -/
  recorded : Bool
  /-- what the finished calls returned, in program order. -/
  results : List Outcome

/-- ghost: one entry per shard step (the linearization point of a call). -/
structure LinEv where
  thread : Nat
  call : Call
  out : Outcome

structure Conc where
  m : Multi
  threads : Nat → Thread
  lin : List LinEv

/-- Thread `t` performs its next atomic step (`none`: not enabled, or panic). -/
def Conc.step (hash : Nat → Nat) (cur : Nat) (c : Conc) (t : Nat) : Option Conc :=
  match (c.threads t).todo with
  | [] => none
  | call :: rest =>
    if (c.threads t).recorded then
      match c.m.shardStep hash cur call with
      | none => none
      | some r =>
        some ⟨r.1,
              fun k => if k = t then ⟨rest, false, (c.threads t).results ++ [r.2]⟩ else c.threads k,
              c.lin ++ [⟨t, call, r.2⟩]⟩
    else
      match c.m.recordStep cur with
      | none => none
      | some m' =>
        some ⟨m', fun k => if k = t then { c.threads t with recorded := true } else c.threads k,
              c.lin⟩

/-- Run a schedule (the sequence of thread numbers taking a step). -/
def Conc.run (hash : Nat → Nat) (cur : Nat) : Conc → List Nat → Option Conc
  | c, [] => some c
  | c, t :: ts =>
    match c.step hash cur t with
    | none => none
    | some c' => Conc.run hash cur c' ts

end SalsaVerif.Model.Intern
