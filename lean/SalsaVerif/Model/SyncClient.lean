/-
  C16 client layer on top of Model/SyncExec.lean (sync table + wait-for graph + execution ghosts):
  reader threads that evaluate an ACYCLIC program of tracked functions concurrently, as
  `fetch` / `fetch_cold` / `execute` do (src/function/fetch.rs, execute.rs):

    request k        a thread with nothing to do starts a top-level request for key `k`
    hot              the requested key has a memo verified in this revision: take its value (fetch_hot)
    tryClaim         `try_claim(k)` + `Running::block_on`: Claimed (push an unstarted frame) or Block
                     (edge added, the thread sleeps).  A `Cycle` answer has no continuation in this
                     layer (no cycle handling): the step is then not enabled — `c16_no_cycle_answer`
                     proves that this never happens for ranked programs.
    recheckHit       after claiming, the re-check under the claim finds a memo: release, take the value
    execBegin        … finds none: start executing the function body (`WillExecute`)
    requestSub       the body requests its next sub-key `deps k [pc]`
    publish          all sub-values read: compute `f k vals`, insert the memo
    release          drop the claim (wakes the waiters), pop the frame, hand the value to the caller
    wake             a blocked thread's `block_on` consumes its wait result; the thread retries

  A program is static: `deps k` = the sub-keys the body of `k` reads (in order), `f k vals` = its result,
  `rank` witnesses acyclicity (`wf`: every sub-key has a strictly smaller rank).
  Core Lean only.
-/
import SalsaVerif.Model.SyncExec

namespace SalsaVerif.Model.SyncClient
open SalsaVerif.Model.SyncDG SalsaVerif.Model.SyncExec

structure Program where
  deps : Nat → List Nat
  rank : Nat → Nat
  f : Nat → List Nat → Nat

/-- Acyclic program: a body of rank `r` only requests keys of rank `< r`. -/
def Program.wf (p : Program) : Prop := ∀ k d, d ∈ p.deps k → p.rank d < p.rank k

/-- Sequential (single-threaded) evaluation, by recursion on the rank. -/
def evalF (p : Program) : Nat → Nat → Nat
  | 0, _ => 0
  | n + 1, k => p.f k ((p.deps k).map (evalF p n))

def eval (p : Program) (k : Nat) : Nat := evalF p (p.rank k + 1) k

/-- One claimed key of a thread: `started` = the body is running (after `execBegin`), `pc` sub-values
    have been read (`vals`), `done` = the memo has been published. -/
structure Frame where
  key : Nat
  pc : Nat
  vals : List Nat
  started : Bool
  done : Bool
  deriving DecidableEq, Repr

structure CState where
  x : XState
  /-- per thread: the keys it holds the claim of, most recent first -/
  stack : Nat → List Frame
  /-- per thread: the key it is currently trying to obtain the value of -/
  want : Nat → Option Nat
  /-- per thread: the key of its current / last top-level request (ghost, for `c16_values`) -/
  asked : Nat → Option Nat
  /-- per thread: the value returned by its last finished top-level request -/
  result : Nat → Option Nat
  /-- the memo table: value stored by `publish` -/
  val : Nat → Nat

def cinit : CState :=
  { x := xinit, stack := fun _ => [], want := fun _ => none, asked := fun _ => none,
    result := fun _ => none, val := fun _ => 0 }

inductive COp
  | request (t k : Nat)
  | hot (t : Nat)
  | tryClaim (t : Nat)
  | recheckHit (t : Nat)
  | execBegin (t : Nat)
  | requestSub (t : Nat)
  | publish (t : Nat)
  | release (t : Nat)
  | wake (t : Nat)
  deriving DecidableEq, Repr

/-- Hand value `v` to thread `t`: to the frame on top of its stack, or as the result of its
    top-level request. -/
def deliver (c : CState) (t v : Nat) : CState :=
  match c.stack t with
  | [] => { c with want := upd c.want t none, result := upd c.result t (some v) }
  | fr :: rest =>
    { c with want := upd c.want t none,
             stack := upd c.stack t ({ fr with pc := fr.pc + 1, vals := fr.vals ++ [v] } :: rest) }

def withX (c : CState) (x : XState) : CState := { c with x := x }

def cstep (p : Program) (c : CState) : COp → Option CState
  | .request t k =>
    if idle c.x.base t && (c.want t).isNone && (c.stack t).isEmpty then
      some { c with want := upd c.want t (some k), asked := upd c.asked t (some k),
                    result := upd c.result t none }
    else none
  | .hot t =>
    match c.want t with
    | none => none
    | some k => if idle c.x.base t && c.x.memo k then some (deliver c t (c.val k)) else none
  | .tryClaim t =>
    match c.want t with
    | none => none
    | some k =>
      match stepA c.x.base (.claim t k true true) with
      | some (b, .claim .claimed _) =>
        some { c with x := { c.x with base := b }, want := upd c.want t none,
                      stack := upd c.stack t ({ key := k, pc := 0, vals := [], started := false, done := false } :: c.stack t) }
      | some (b, .claim (.running _) true) => some { c with x := { c.x with base := b } }
      | _ => none
  | .recheckHit t =>
    match c.stack t with
    | [] => none
    | fr :: rest =>
      if !fr.started && c.x.memo fr.key && (c.want t).isNone then
        match xstep c.x (.proto (.release t fr.key .completed)) with
        | none => none
        | some x' => some (deliver { c with x := x', stack := upd c.stack t rest } t (c.val fr.key))
      else none
  | .execBegin t =>
    match c.stack t with
    | [] => none
    | fr :: rest =>
      if !fr.started && (c.want t).isNone then
        match xstep c.x (.execBegin t fr.key) with
        | none => none
        | some x' => some { c with x := x', stack := upd c.stack t ({ fr with started := true } :: rest) }
      else none
  | .requestSub t =>
    match c.stack t with
    | [] => none
    | fr :: _ =>
      if idle c.x.base t && fr.started && !fr.done && (c.want t).isNone then
        match (p.deps fr.key)[fr.pc]? with
        | none => none
        | some d => some { c with want := upd c.want t (some d) }
      else none
  | .publish t =>
    match c.stack t with
    | [] => none
    | fr :: rest =>
      if idle c.x.base t && fr.started && !fr.done && (c.want t).isNone
          && decide ((p.deps fr.key).length ≤ fr.pc) then
        match xstep c.x (.publish t fr.key) with
        | none => none
        | some x' =>
          some { c with x := x', val := upd c.val fr.key (p.f fr.key fr.vals),
                        stack := upd c.stack t ({ fr with done := true } :: rest) }
      else none
  | .release t =>
    match c.stack t with
    | [] => none
    | fr :: rest =>
      if fr.done && (c.want t).isNone then
        match xstep c.x (.proto (.release t fr.key .completed)) with
        | none => none
        | some x' => some (deliver { c with x := x', stack := upd c.stack t rest } t (c.val fr.key))
      else none
  | .wake t =>
    match xstep c.x (.proto (.wake t)) with
    | none => none
    | some x' => some { c with x := x' }

def crun (p : Program) : CState → List COp → Option CState
  | c, [] => some c
  | c, op :: ops =>
    match cstep p c op with
    | none => none
    | some c' => crun p c' ops

/-- Thread `t` still has something to do. -/
def active (c : CState) (t : Nat) : Prop := (c.want t).isSome ∨ c.stack t ≠ []

/-- The keys thread `t` holds the claim of. -/
def held (c : CState) (t : Nat) : List Nat := (c.stack t).map (·.key)

end SalsaVerif.Model.SyncClient
