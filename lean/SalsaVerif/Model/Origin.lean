/-
  Hand model of `OriginAndExtra` (src/zalsa_local.rs): how a list of query edges plus optional
  extra revision data is stored (packed 8-byte edges or wide 12-byte edges, chosen by the
  incremental packed→wide switch of `allocate_derived_with_header`), decoded again
  (`origin`, `inputs`, `outputs`, `iter_outputs`), cleared (`clear_edges`) and extended
  (`get_or_insert_extra`), and the persisted (serde) form.  The bit-level encoders come from
  `Gen/Edge.lean`, which is regenerated from the Rust source on every run.
  Core Lean only (no Mathlib) so that the driver links as an executable.
-/
import SalsaVerif.Gen.Edge

namespace SalsaVerif.Model.Origin
open SalsaVerif.Gen.Edge

/-- Extra revision data is opaque to the encoder; the harness marks it with two observable
    fields and the number of tracked-struct ids. -/
structure Extra where
  converged : Bool
  stamp : Nat
  nids : Nat
deriving DecidableEq, Repr

def Extra.empty : Extra := ⟨false, 0, 0⟩

/-- `SliceWithHeaderBuilder`: capacity fixed at allocation, `push` asserts room, `finish` asserts
    that everything was initialised. `none` models the assertion failure (panic). -/
structure Builder (α : Type) where
  length : Nat
  items : List α

def Builder.allocate {α} (length : Nat) : Builder α := ⟨length, []⟩

def Builder.push {α} (b : Builder α) (x : α) : Option (Builder α) :=
  if b.items.length < b.length then some { b with items := b.items ++ [x] } else none

def Builder.extend {α} : Builder α → List α → Option (Builder α)
  | b, [] => some b
  | b, x :: xs => match b.push x with
    | some b' => Builder.extend b' xs
    | none => none

def Builder.finish {α} (b : Builder α) : Option (List α) :=
  if b.items.length = b.length then some b.items else none

inductive EdgeSlice where
  | packed (es : List PackedQueryEdge)
  | wide (es : List QueryEdge)
deriving Repr

/-- the loop of `allocate_derived_with_header`: push packed edges; at the first edge that does not
    fit, allocate a wide slice, copy the unpacked prefix, push the edge and the rest. -/
def allocLoop (length : Nat) : List QueryEdge → Builder PackedQueryEdge → Option (Nat × EdgeSlice)
  | [], packed => (packed.finish).map fun es => (QueryEdgeLayout_Packed, .packed es)
  | e :: rest, packed =>
    match PackedQueryEdge.new e with
    | some p => match packed.push p with
      | some packed' => allocLoop length rest packed'
      | none => none
    | none =>
      let wide : Builder QueryEdge := Builder.allocate length
      match wide.extend (packed.items.map PackedQueryEdge.edge) with
      | none => none
      | some w1 => match w1.push e with
        | none => none
        | some w2 => match w2.extend rest with
          | none => none
          | some w3 => (w3.finish).map fun es => (QueryEdgeLayout_Wide, .wide es)

def allocateDerived (es : List QueryEdge) : Option (Nat × EdgeSlice × Nat) :=
  if es.length < 2^32 then
    (allocLoop es.length es (Builder.allocate es.length)).map fun r => (r.1, r.2, es.length)
  else none

inductive Payload where
  | index (id : Id)                                   -- direct assigned origin
  | boxed (extra : Extra) (id : Id)                   -- `Box<AssignedOriginAndExtra>`
  | slice (extra : Option Extra) (s : EdgeSlice)      -- `SliceWithHeader<H, E>`
deriving Repr

structure Stored where
  tag : Nat
  payload : Payload
  metadata : Nat
deriving Repr

def tagOf (extra : Option Extra) (origin : Nat) : Nat :=
  match extra with
  | some _ => OriginAndExtraTag.with_extra origin
  | none => OriginAndExtraTag.without_extra origin

/-- `new_derived_with_kind` (kind = `DerivedOriginKind` discriminant) -/
def newDerived (kind : Nat) (es : List QueryEdge) (extra : Option Extra) : Option Stored :=
  (allocateDerived es).map fun (layout, slice, metadata) =>
    { tag := tagOf extra (QueryOriginTag.derived kind layout)
      payload := .slice extra slice
      metadata := metadata }

def assigned (key : DatabaseKeyIndex) (extra : Option Extra) : Stored :=
  match extra with
  | none => { tag := OriginAndExtraTag.without_extra QueryOriginTag.assigned
              payload := .index (DatabaseKeyIndex.key_index0 key)
              metadata := IngredientIndex.as_u32 (DatabaseKeyIndex.ingredient_index0 key) }
  | some x => { tag := OriginAndExtraTag.with_extra QueryOriginTag.assigned
                payload := .boxed x (DatabaseKeyIndex.key_index0 key)
                metadata := IngredientIndex.as_u32 (DatabaseKeyIndex.ingredient_index0 key) }

/-- `QueryOriginRef` -/
inductive OriginRef where
  | assigned (key : DatabaseKeyIndex)
  | derived (kind : Nat) (s : EdgeSlice)
  | invalid
deriving Repr

/-- `OriginAndExtra::origin`: interpretation of the payload is driven by the tag alone. -/
def Stored.origin (o : Stored) : OriginRef :=
  let tag := OriginAndExtraTag.origin o.tag
  let kind := tag &&& QueryOriginTag.KIND_MASK
  if kind = QueryOriginKind_Assigned then
    match o.payload with
    | .index id => if OriginAndExtraTag.layout o.tag = OriginAndExtraLayout_WithoutExtra
                   then .assigned (DatabaseKeyIndex.new o.metadata id) else .invalid
    | .boxed _ id => if OriginAndExtraTag.layout o.tag = OriginAndExtraLayout_WithExtra
                     then .assigned (DatabaseKeyIndex.new o.metadata id) else .invalid
    | .slice _ _ => .invalid
  else if kind = QueryOriginKind_Derived ∨ kind = QueryOriginKind_DerivedUntracked then
    match o.payload with
    | .slice x (.packed es) =>
      if QueryOriginTag.layout tag = QueryEdgeLayout_Packed ∧
         (x.isSome ↔ OriginAndExtraTag.layout o.tag = OriginAndExtraLayout_WithExtra) ∧ es.length = o.metadata
      then .derived kind (.packed es) else .invalid
    | .slice x (.wide es) =>
      if QueryOriginTag.layout tag = QueryEdgeLayout_Wide ∧
         (x.isSome ↔ OriginAndExtraTag.layout o.tag = OriginAndExtraLayout_WithExtra) ∧ es.length = o.metadata
      then .derived kind (.wide es) else .invalid
    | _ => .invalid
  else .invalid

def Stored.extra (o : Stored) : Option Extra :=
  if OriginAndExtraTag.layout o.tag = OriginAndExtraLayout_WithExtra then
    match o.payload with
    | .boxed x _ => some x
    | .slice x _ => x
    | .index _ => none
  else none

/-- `QueryEdges::iter` -/
def EdgeSlice.iter : EdgeSlice → List QueryEdge
  | .packed es => es.map PackedQueryEdge.edge
  | .wide es => es

/-- `QueryEdges::iter_outputs`: packed slices cannot contain outputs, so they are skipped. -/
def EdgeSlice.iterOutputs : EdgeSlice → List QueryEdge
  | .packed _ => []
  | .wide es => es.filter fun e => QueryEdge.kind e = QueryEdgeKind_Output

def OriginRef.edges : OriginRef → List QueryEdge
  | .derived _ s => s.iter
  | _ => []

def OriginRef.inputs (r : OriginRef) : List DatabaseKeyIndex :=
  r.edges.filterMap fun e => if QueryEdge.kind e = QueryEdgeKind_Input then some (QueryEdge.key e) else none

def OriginRef.outputs : OriginRef → List DatabaseKeyIndex
  | .derived _ s => s.iterOutputs.map QueryEdge.key
  | _ => []

/-- `clear_edges` (non-persistence builds): no-op on an empty origin, otherwise rebuilt with no
    edges, keeping the extra data (the old extra is `mem::replace`d by an empty one first). -/
def Stored.clearEdges (o : Stored) : Option Stored :=
  if o.metadata = 0 then some o else
  let kind := (OriginAndExtraTag.origin o.tag) &&& QueryOriginTag.KIND_MASK
  if kind = QueryOriginKind_Assigned then none      -- panic!("assigned query origins have no edges")
  else newDerived kind [] o.extra

/-- `get_or_insert_extra` -/
def Stored.getOrInsertExtra (o : Stored) : Option Stored :=
  if OriginAndExtraTag.layout o.tag = OriginAndExtraLayout_WithoutExtra then
    match o.origin with
    | .assigned key => some (assigned key (some Extra.empty))
    | .derived kind s => newDerived kind s.iter (some Extra.empty)
    | .invalid => none
  else some o

/-- persisted form: `QueryEdge` serialises as `raw_key` (tag bit kept in the ingredient), and
    deserialises field by field. -/
def serEdge (e : QueryEdge) : DatabaseKeyIndex := DatabaseKeyIndex.new e.ingredient (QueryEdge.id e)
def deEdge (k : DatabaseKeyIndex) : QueryEdge :=
  { index := Id.index0 (DatabaseKeyIndex.key_index0 k)
    generation := Id.generation0 (DatabaseKeyIndex.key_index0 k)
    ingredient := DatabaseKeyIndex.ingredient_index0 k }

def persistRoundtrip (kind : Nat) (es : List QueryEdge) : Option Stored :=
  newDerived kind ((es.map serEdge).map deEdge) none

/-- a well-formed key as the public API can produce it -/
def ValidKey (k : DatabaseKeyIndex) : Prop :=
  k.ingredient_index ≤ IngredientIndex.MAX_INDEX ∧ 1 ≤ k.key_index.index ∧
  k.key_index.index ≤ Id.MAX_U32 ∧ k.key_index.generation < 2^32

/-- edges as the public constructors produce them -/
inductive ValidEdge : QueryEdge → Prop
  | input (k : DatabaseKeyIndex) : ValidKey k → ValidEdge (QueryEdge.input k)
  | output (k : DatabaseKeyIndex) : ValidKey k → ValidEdge (QueryEdge.output k)

end SalsaVerif.Model.Origin
