/-
  Engine model L1 `Core3`, stage S3 (DESIGN.md §3): stage S2 (Model/Core.lean) plus
    (i)   `noeq` functions (`values_equal` is constantly false: never backdated),
    (ii)  untracked reads of cells (`report_untracked_read`: frame untracked, durability LOW,
          changed_at := current revision; a `DerivedUntracked` memo never deep-verifies and is
          never evicted); cells are part of the environment and change without a revision bump,
    (iii) the `lru` function with the LRU policy of Model/Lru.lean: `record_use` in `fetch` after
          the memo is obtained, eviction at every revision bump and on `evict`, value `none`
          after eviction (edges and stamps kept); `fetch` of an evicted memo executes without
          verifying; `maybe_changed_after` of an evicted memo still verifies, and answers
          "changed" WITHOUT executing when verification fails.
  All `lru`-kind queries are keys of ONE salsa function and share one `Lru`.

  Ghost data: `Memo.gval` (the value of the last execution, kept across eviction), `Memo.deepAt`,
  `Obs.val`, unrecorded `Obs`, `State.wlog`, `State.trace`.  Core Lean only.
-/
import SalsaVerif.Model.Lru

namespace SalsaVerif.Model.Core3
open SalsaVerif.Model.Lru

inductive Dep where
  | inp (i : Nat)
  | qry (q : Nat)
  | cell (c : Nat)
deriving DecidableEq, Repr

inductive Body where
  | ret (v : Nat)
  | read (d : Dep) (k : Nat → Body)

inductive Kind where
  | plain
  | noeq
  | lru
deriving DecidableEq, Repr

/-- a program: bodies and the salsa function (kind) each query is a key of -/
structure Prog where
  body : Nat → Body
  kind : Nat → Kind

structure Obs where
  dep : Dep
  val : Nat
  recd : Bool
deriving DecidableEq, Repr

inductive Ev where
  | exec (q : Nat)
  | valid (q : Nat)
deriving DecidableEq, Repr

-- src/function/memo.rs: struct Memo / MemoHeader / QueryRevisions
structure Memo where
  /-- `None` after LRU eviction -/
  value : Option Nat
  /-- ghost: the value of the last execution -/
  gval : Nat
  va : Nat
  ca : Nat
  dur : Nat
  /-- origin is `DerivedUntracked` -/
  untracked : Bool
  /-- ghost -/
  deepAt : Nat
  obs : List Obs
deriving Repr

structure Inp where
  val : Nat
  ca : Nat
  dur : Nat
deriving Repr

structure State where
  cur : Nat
  lch : Nat → Nat
  inp : Nat → Inp
  /-- untracked state outside salsa -/
  cells : Nat → Nat
  memos : Nat → Option Memo
  /-- the eviction policy of the `lru` function -/
  lru : Lru
  wlog : List (Nat × Nat)
  trace : List Ev

-- src/runtime.rs: fn last_changed_revision
def lc (s : State) (d : Nat) : Nat := if d = 0 then s.cur else s.lch d

def setMemo (s : State) (q : Nat) (m : Memo) : State :=
  { s with memos := fun q' => if q' = q then some m else s.memos q' }

def emit (s : State) (e : Ev) : State := { s with trace := s.trace ++ [e] }

structure Res where
  val : Nat
  ca : Nat
  dur : Nat
deriving Repr

-- src/active_query.rs: struct ActiveQuery
structure Frame where
  ca : Nat
  dur : Nat
  untracked : Bool
  obs : List Obs

-- src/active_query.rs: fn add_read / add_read_simple
def Frame.push (f : Frame) (d : Dep) (r : Res) : Frame :=
  { f with ca := max f.ca r.ca, dur := min f.dur r.dur,
           obs := f.obs ++ [⟨d, r.val, decide (r.dur ≠ 3)⟩] }

-- src/active_query.rs: fn add_untracked_read (changed_at := current revision, durability := MIN)
def Frame.pushCell (f : Frame) (cur c v : Nat) : Frame :=
  { ca := cur, dur := 0, untracked := true, obs := f.obs ++ [⟨.cell c, v, false⟩] }

abbrev FetchFn := State → Nat → State × Res
abbrev McaFn := State → Nat → Nat → State × Bool

/-- one read of a body; returns the state, the value read and the updated frame -/
def readDep (fe : FetchFn) (s : State) (f : Frame) : Dep → State × Nat × Frame
  | .inp i => (s, (s.inp i).val, f.push (.inp i) ⟨(s.inp i).val, (s.inp i).ca, (s.inp i).dur⟩)
  | .qry q => let r := fe s q; (r.1, r.2.val, f.push (.qry q) r.2)
  | .cell c => (s, s.cells c, f.pushCell s.cur c (s.cells c))

-- src/function/execute.rs: fn execute_query
def runBody (fe : FetchFn) : Body → State → Frame → State × Frame × Nat
  | .ret v, s, f => (s, f, v)
  | .read d k, s, f =>
    let r := readDep fe s f d
    runBody fe (k r.2.1) r.1 r.2.2

/-- `backdate_if_appropriate` applies: not `no_eq`, old value present and equal, durability not lower -/
def canBackdate (kd : Kind) (o : Memo) (v : Nat) (f : Frame) : Bool :=
  decide (kd ≠ .noeq) && decide (o.value = some v) && decide (o.dur ≤ f.dur)

-- src/function/backdate.rs: fn backdate_if_appropriate
def backdateCa (kd : Kind) (old : Option Memo) (v : Nat) (f : Frame) : Nat :=
  match old with
  | some o => if canBackdate kd o v f then o.ca else f.ca
  | none => f.ca

def frame0 : Frame := { ca := 1, dur := 3, untracked := false, obs := [] }

/-- passes the shallow test (`shallow_verify_memo` ≠ No) -/
def sokB (s : State) (m : Memo) : Bool := decide (m.va = s.cur) || decide (lc s m.dur ≤ m.va)

/-- ghost: a re-execution of a memo that still passes the shallow test keeps its `deepAt` -/
def deepAtOf (s : State) (old : Option Memo) : Nat :=
  match old with
  | some o => if sokB s o then o.deepAt else s.cur
  | none => s.cur

def newMemo (v cur ca : Nat) (f : Frame) (deepAt : Nat) : Memo :=
  { value := some v, gval := v, va := cur, ca := ca, dur := f.dur, untracked := f.untracked,
    deepAt := deepAt, obs := f.obs }

-- src/function/execute.rs: fn execute
def execute (fe : FetchFn) (P : Prog) (s : State) (q : Nat) (old : Option Memo) : State × Res :=
  let r := runBody fe (P.body q) (emit s (.exec q)) frame0
  let ca := backdateCa (P.kind q) old r.2.2 r.2.1
  (setMemo r.1 q (newMemo r.2.2 r.1.cur ca r.2.1 (deepAtOf r.1 old)), ⟨r.2.2, ca, r.2.1.dur⟩)

def depChanged (mc : McaFn) (s : State) (d : Dep) (rev : Nat) : State × Bool :=
  match d with
  | .inp i => (s, decide ((s.inp i).ca > rev))
  | .qry q => mc s q rev
  | .cell _ => (s, true)          -- never a recorded edge

-- src/function/maybe_changed_after.rs: fn deep_verify_edges
def deepEdges (mc : McaFn) : List Obs → State → Nat → State × Bool
  | [], s, _ => (s, true)
  | o :: os, s, rev =>
    if o.recd then
      let r := depChanged mc s o.dep rev
      if r.2 then (r.1, false) else deepEdges mc os r.1 rev
    else deepEdges mc os s rev

def markVerified (s : State) (q : Nat) (m : Memo) : State :=
  setMemo (emit s (.valid q)) q { m with va := s.cur }

def markDeepVerified (s : State) (q : Nat) (m : Memo) : State :=
  setMemo (emit s (.valid q)) q { m with va := s.cur, deepAt := s.cur }

/-- `deep_verify_memo`: `DerivedUntracked` → changed, `Derived` → walk the edges -/
def deepVerify (mc : McaFn) (s : State) (m : Memo) : State × Bool :=
  if m.untracked then (s, false) else deepEdges mc m.obs s m.va

-- src/function/fetch.rs: fn refresh_memo (fetch_hot / fetch_cold)
def refreshStep (fe : FetchFn) (mc : McaFn) (P : Prog) (s : State) (q : Nat) : State × Res :=
  match s.memos q with
  | none => execute fe P s q none
  | some m =>
    match m.value with
    | none => execute fe P s q (some m)        -- evicted: no verification at all
    | some v =>
      if m.va = s.cur then (s, ⟨v, m.ca, m.dur⟩)
      else if lc s m.dur ≤ m.va then (markVerified s q m, ⟨v, m.ca, m.dur⟩)
      else
        let r := deepVerify mc s m
        if r.2 then (markDeepVerified r.1 q m, ⟨v, m.ca, m.dur⟩)
        else execute fe P r.1 q (some m)

-- src/function/fetch.rs: fn fetch — `eviction.record_use(id)` after the memo is obtained
def recordUseFor (P : Prog) (s : State) (q : Nat) : State :=
  if P.kind q = .lru then { s with lru := recordUse s.lru q } else s

def fetchStep (fe : FetchFn) (mc : McaFn) (P : Prog) (s : State) (q : Nat) : State × Res :=
  let r := refreshStep fe mc P s q
  (recordUseFor P r.1 q, r.2)

-- src/function/maybe_changed_after.rs: fn maybe_changed_after (+ _hot, _cold)
def mcaStep (fe : FetchFn) (mc : McaFn) (P : Prog) (s : State) (q : Nat) (rev : Nat) : State × Bool :=
  match s.memos q with
  | none => (s, true)
  | some m =>
    if m.va = s.cur then (s, decide (m.ca > rev))
    else if lc s m.dur ≤ m.va then (markVerified s q m, decide (m.ca > rev))
    else
      let r := deepVerify mc s m
      if r.2 then (markDeepVerified r.1 q m, decide (m.ca > rev))
      else
        match m.value with
        | none => (r.1, true)                  -- evicted: "changed" without executing
        | some _ =>
          let x := execute fe P r.1 q (some m)
          -- the recomputed value is cached: the eviction policy is told about it
          -- (`self.eviction.record_use` after the re-execution in maybe_changed_after_cold)
          (recordUseFor P x.1 q, decide (x.2.ca > rev))

def eng (P : Prog) : Nat → FetchFn × McaFn
  | 0 => (fun s _ => (s, ⟨0, 0, 0⟩), fun s _ _ => (s, true))
  | r + 1 =>
    let sub := eng P r
    (fun s q => if q < r then sub.1 s q else if q = r then fetchStep sub.1 sub.2 P s q else (s, ⟨0, 0, 0⟩),
     fun s q rev => if q < r then sub.2 s q rev else if q = r then mcaStep sub.1 sub.2 P s q rev else (s, true))

def fetch (P : Prog) (s : State) (q : Nat) : State × Res := (eng P (q + 1)).1 s q

/-! ### eviction -/

-- src/function/memo.rs: fn evict_value_from_memo_for (`can_evict_value`: origin is `Derived`)
def evictValue (s : State) (q : Nat) : State :=
  match s.memos q with
  | some m => if m.untracked then s else setMemo s q { m with value := none }
  | none => s

-- src/function.rs: fn reset_for_new_revision
def evictLru (s : State) : State :=
  let r := forEachEvicted s.lru
  r.2.foldl evictValue { s with lru := r.1 }

-- src/function.rs: fn set_capacity (through `zalsa_mut`, no revision bump)
def lruCap (s : State) (n : Nat) : State := { s with lru := setCapacity s.lru n }

/-! ### writes (each runs `new_revision`, hence the eviction, first) -/

def bumpRev (s : State) : State :=
  evictLru { s with cur := s.cur + 1, wlog := (s.cur + 1, 0) :: s.wlog }

def write (s : State) (i : Nat) (v : Nat) (nd : Option Nat) : State :=
  let s1 := bumpRev s
  let x := s1.inp i
  if x.dur ≥ 3 then s1
  else
    { s1 with
      lch := fun k => if k ≤ x.dur then s1.cur else s1.lch k
      inp := fun j => if j = i then ⟨v, s1.cur, (match nd with | some d => d | none => x.dur)⟩ else s1.inp j
      wlog := (s1.cur, x.dur) :: s1.wlog }

def writePanics (s : State) (i : Nat) : Bool := decide ((s.inp i).dur ≥ 3)

def synth (s : State) (d : Nat) : State :=
  let s1 := bumpRev s
  if d ≥ 3 then s1
  else { s1 with lch := fun k => if k ≤ d then s1.cur else s1.lch k, wlog := (s1.cur, d) :: s1.wlog }

def synthPanics (d : Nat) : Bool := decide (d ≥ 3)

/-- a cell changes outside salsa: no revision bump -/
def setCell (s : State) (c v : Nat) : State :=
  { s with cells := fun j => if j = c then v else s.cells j }

/-! ### histories.  A cell change is only meaningful together with a following new revision
    (C04), so the history language pairs them: `cellSynth c v d` = `cell c v; synth d`,
    `cellSet c v i w nd` = `cell c v; set i w nd`. -/

inductive Op where
  | get (q : Nat)
  | set (i : Nat) (v : Nat) (nd : Option Nat)
  | synth (d : Nat)
  | cellSynth (c v d : Nat)
  | cellSet (c v i w : Nat) (nd : Option Nat)
  | lruCap (n : Nat)
  | evict
deriving Repr

def step (P : Prog) (s : State) : Op → State
  | .get q => (fetch P s q).1
  | .set i v nd => write s i v nd
  | .synth d => synth s d
  | .cellSynth c v d => synth (setCell s c v) d
  | .cellSet c v i w nd => write (setCell s c v) i w nd
  | .lruCap n => lruCap s n
  | .evict => evictLru s

/-- fresh database; `cap` is the capacity the `lru` function is declared with -/
def init (inp : Nat → Inp) (cells : Nat → Nat) (cap : Nat) : State :=
  { cur := 1, lch := fun _ => 1, inp := fun i => ⟨(inp i).val, 1, (inp i).dur⟩, cells := cells,
    memos := fun _ => none, lru := Lru.new cap, wlog := [], trace := [] }

def run (P : Prog) (inp : Nat → Inp) (cells : Nat → Nat) (cap : Nat) (ops : List Op) : State :=
  ops.foldl (step P) (init inp cells cap)

def outputs (P : Prog) : State → List Op → List Nat
  | _, [] => []
  | s, .get q :: ops => (fetch P s q).2.val :: outputs P (fetch P s q).1 ops
  | s, op :: ops => outputs P (step P s op) ops

/-! ### reference semantics -/

def evalB (sem : Dep → Nat) : Body → Nat
  | .ret v => v
  | .read d k => evalB sem (k (sem d))

def semAt (P : Prog) (inp : Nat → Inp) (cells : Nat → Nat) : Nat → Nat → Nat
  | 0, _ => 0
  | r + 1, q =>
    if q < r then semAt P inp cells r q
    else if q = r then
      evalB (fun d => match d with
        | .inp i => (inp i).val
        | .qry q' => semAt P inp cells r q'
        | .cell c => cells c) (P.body q)
    else 0

def sem (P : Prog) (inp : Nat → Inp) (cells : Nat → Nat) (q : Nat) : Nat := semAt P inp cells (q + 1) q

/-! ### line-protocol programs -/

inductive Expr where
  | const (n : Nat)
  | inp (k : Nat)
  | qry (j : Nat)
  | cell (c : Nat)
  | add (a b : Expr)
  | min (a b : Expr)
  | max (a b : Expr)
  | ite (c a b : Expr)
deriving Repr

def compile : Expr → (Nat → Body) → Body
  | .const n, k => k n
  | .inp i, k => .read (.inp i) k
  | .qry j, k => .read (.qry j) k
  | .cell c, k => .read (.cell c) k
  | .add a b, k => compile a fun x => compile b fun y => k ((x + y) % 4)
  | .min a b, k => compile a fun x => compile b fun y => k (Nat.min x y)
  | .max a b, k => compile a fun x => compile b fun y => k (Nat.max x y)
  | .ite c a b, k => compile c fun x => if x % 2 = 1 then compile a k else compile b k

def Expr.callsBelow (r : Nat) : Expr → Bool
  | .const _ => true
  | .inp _ => true
  | .qry j => decide (j < r)
  | .cell _ => true
  | .add a b => a.callsBelow r && b.callsBelow r
  | .min a b => a.callsBelow r && b.callsBelow r
  | .max a b => a.callsBelow r && b.callsBelow r
  | .ite c a b => c.callsBelow r && a.callsBelow r && b.callsBelow r

def progOf (es : List (Kind × Expr)) : Prog :=
  { body := fun q => match es[q]? with
      | some e => compile e.2 .ret
      | none => .ret 0
    kind := fun q => match es[q]? with
      | some e => e.1
      | none => .plain }

def wfList : Nat → List (Kind × Expr) → Bool
  | _, [] => true
  | r, e :: es => e.2.callsBelow r && wfList (r + 1) es

end SalsaVerif.Model.Core3
