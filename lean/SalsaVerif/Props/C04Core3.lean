/-
  C04 — untracked readers re-execute every revision: the dependents are reused.

  Model: SalsaVerif/Model/Core3.lean (stage S3).  Invariant `InvE` (Proofs/Core3Evict*.lean); event
  trace facts: Proofs/Core3Just*.lean.  The other C04 theorems are in Props/C04.lean
  (`c04_reexec_fetch` / `c04_reexec_mca`: the untracked query itself IS executed in every new
  revision in which it is reached).

  PROVED (all well-formed programs, `lru` kinds and evictions included, every state satisfying
  `InvE`, hence every reachable state):
    c04_dependents_reused (+ `_reachable`): an untracked query `u` that is not `no_eq` and whose
      recomputation over the current inputs and cells yields the value it already has; a direct
      dependent `d` whose memo holds a value, is fully tracked, has seen `u`'s last change
      (`changed_at(u) ≤ verified_at(d)`) and whose OTHER recorded edges are shielded (unchanged).
      Then no fetch executes `d`, and a request of a stale `d` validates it (`valid d`).
    c04_dependents_reused_chain: and so on along chains of readers: a reader `e` of a query `d`
      that is not executed (`d` not `no_eq`, value present, stamp seen by `e`), other edges of `e`
      shielded, is not executed either.
-/
import SalsaVerif.Model.Core3
import SalsaVerif.Proofs.Core3JustReuse
import SalsaVerif.Props.C03Core3

namespace SalsaVerif.Props.C04Core3
open SalsaVerif.Model.Core3 SalsaVerif.Proofs.Core3
open SalsaVerif.Proofs.Core3E (InvE)
open SalsaVerif.Props.C03Core3 (Shielded3)

/-- **Dependents of an untracked query are reused when it recomputes an equal value.** -/
theorem c04_dependents_reused {P : Prog} (hP : Wf P) (s : State) (hI : InvE P s) (k u d : Nat)
    (mu md : Memo)
    (hmu : s.memos u = some mu) (hun : mu.untracked = true) (hk : P.kind u ≠ .noeq)
    (heq : sem P s.inp s.cells u = mu.gval)
    (hmd : s.memos d = some md) (hdv : md.value ≠ none) (hdu : md.untracked = false)
    (hseen : mu.ca ≤ md.va)
    (hother : ∀ o, o ∈ md.obs → o.recd = true → o.dep ≠ .qry u →
      Shielded3 P s (fetch P s k).1 md.va o.dep) :
    ∃ new, (fetch P s k).1.trace = s.trace ++ new ∧ .exec d ∉ new ∧
      (k = d → md.va ≠ s.cur → .valid d ∈ new) := by
  have muok := hI.memo u mu hmu
  have huv : mu.value ≠ none := by
    intro hn
    have := muok.evt hn
    rw [hun] at this; cases this
  have hsame := Proofs.Core3E.value_after_fetch hP s hI k u mu hmu huv heq
  apply C03Core3.c03_core3_backdate_shields hP s hI k d md hmd hdv hdu
  intro o ho hr
  by_cases hd : o.dep = .qry u
  · rw [hd]
    refine ⟨hk, mu, hmu, hseen, huv, ?_⟩
    intro mu' hmu'
    exact ⟨hsame mu' hmu', by rw [muok.g6 hun]; exact Nat.zero_le _⟩
  · exact hother o ho hr hd

/-- the same over histories: any fetch after any history of requests, writes, cell changes,
    capacity changes and evictions -/
theorem c04_dependents_reused_reachable {P : Prog} (hP : Wf P) (inp : Nat → Inp) (cells : Nat → Nat)
    (cap : Nat) (ops : List Op) (k u d : Nat) (mu md : Memo)
    (hmu : (run P inp cells cap ops).memos u = some mu) (hun : mu.untracked = true) (hk : P.kind u ≠ .noeq)
    (heq : sem P (run P inp cells cap ops).inp (run P inp cells cap ops).cells u = mu.gval)
    (hmd : (run P inp cells cap ops).memos d = some md) (hdv : md.value ≠ none) (hdu : md.untracked = false)
    (hseen : mu.ca ≤ md.va)
    (hother : ∀ o, o ∈ md.obs → o.recd = true → o.dep ≠ .qry u →
      Shielded3 P (run P inp cells cap ops) (fetch P (run P inp cells cap ops) k).1 md.va o.dep) :
    ∃ new, (fetch P (run P inp cells cap ops) k).1.trace = (run P inp cells cap ops).trace ++ new ∧
      .exec d ∉ new ∧ (k = d → md.va ≠ (run P inp cells cap ops).cur → .valid d ∈ new) :=
  c04_dependents_reused hP _ (Proofs.Core3E.run_inv hP inp cells cap ops) k u d mu md hmu hun hk heq hmd hdv hdu
    hseen hother

/-- **Chains of readers.**  `d` is not executed by the fetch (e.g. by `c04_dependents_reused`), is
    not `no_eq`, holds a value, and its reader `e` has seen its stamp; the other recorded edges of
    `e` are shielded.  Then `e` is not executed either, and a request of a stale `e` validates it. -/
theorem c04_dependents_reused_chain {P : Prog} (hP : Wf P) (s : State) (hI : InvE P s) (k d e : Nat)
    (md me : Memo)
    (hmd : s.memos d = some md) (hk : P.kind d ≠ .noeq) (hdv : md.value ≠ none)
    (hnod : ∃ new, (fetch P s k).1.trace = s.trace ++ new ∧ .exec d ∉ new)
    (hme : s.memos e = some me) (hev : me.value ≠ none) (heu : me.untracked = false)
    (hseen : md.ca ≤ me.va)
    (hother : ∀ o, o ∈ me.obs → o.recd = true → o.dep ≠ .qry d →
      Shielded3 P s (fetch P s k).1 me.va o.dep) :
    ∃ new, (fetch P s k).1.trace = s.trace ++ new ∧ .exec e ∉ new ∧
      (k = e → me.va ≠ s.cur → .valid e ∈ new) := by
  obtain ⟨new, hn, hno⟩ := hnod
  have hshd := C03Core3.c03_core3_no_exec_shields hP s hI k d me.va md hmd hk hdv hseen (by
    intro new2 h2
    have : new2 = new := List.append_cancel_left (h2.symm.trans hn)
    rw [this]; exact hno)
  apply C03Core3.c03_core3_backdate_shields hP s hI k e me hme hev heu
  intro o ho hr
  by_cases hd : o.dep = .qry d
  · rw [hd]; exact hshd
  · exact hother o ho hr hd

/-! ### Non-vacuity: q0 = (u0 + i0) mod 4 (untracked), q1 = (q0 + i1) mod 4 (direct dependent with
    another edge), q2 = q1 (reader of the dependent).  After `get 2; synth LOW` everything is stale;
    the cell did not change. -/

def exProg : List (Kind × Expr) :=
  [(.plain, .add (.cell 0) (.inp 0)), (.plain, .add (.qry 0) (.inp 1)), (.plain, .qry 1)]
def exInp : Nat → Inp := fun _ => ⟨1, 1, 2⟩
def exS : State := run (progOf exProg) exInp (fun _ => 0) 2 [.get 2, .synth 0]

example : wfList 0 exProg = true := by decide

/-- the events of `get 2`: q0 is executed (untracked, `c04_reexec_mca`), q1 and q2 are validated -/
example : (fetch (progOf exProg) exS 2).1.trace.drop 3 = [.exec 0, .valid 1, .valid 2] := by decide

theorem exS_memo0 : exS.memos 0 =
    some ⟨some 1, 1, 1, 1, 0, true, 1, [⟨.cell 0, 0, false⟩, ⟨.inp 0, 1, true⟩]⟩ := rfl
theorem exS_memo1 : exS.memos 1 =
    some ⟨some 2, 2, 1, 1, 0, false, 1, [⟨.qry 0, 1, true⟩, ⟨.inp 1, 1, true⟩]⟩ := rfl
theorem exS_memo2 : exS.memos 2 = some ⟨some 2, 2, 1, 1, 0, false, 1, [⟨.qry 1, 2, true⟩]⟩ := rfl

/-- the hypotheses of `c04_dependents_reused` hold for u = 0, d = 1 and the request k = 2 … -/
theorem ex_direct : ∃ new, (fetch (progOf exProg) exS 2).1.trace = exS.trace ++ new ∧ .exec 1 ∉ new ∧
    ((2 : Nat) = 1 → (1 : Nat) ≠ exS.cur → .valid 1 ∈ new) := by
  refine c04_dependents_reused (wf_progOf exProg (by decide)) exS
    (Proofs.Core3E.run_inv (wf_progOf exProg (by decide)) _ _ _ _) 2 0 1 _ _ exS_memo0 rfl (by decide) (by decide)
    exS_memo1 (by simp) rfl (Nat.le_refl _) ?_
  intro o ho _ hne
  have h : o = ⟨.qry 0, 1, true⟩ ∨ o = ⟨.inp 1, 1, true⟩ := by simpa using ho
  rcases h with h | h
  · subst h; exact absurd rfl hne
  · subst h
    show (exS.inp 1).ca ≤ 1
    decide

/-- … and those of `c04_dependents_reused_chain` for d = 1, e = 2 -/
example : ∃ new, (fetch (progOf exProg) exS 2).1.trace = exS.trace ++ new ∧ .exec 2 ∉ new ∧
    ((2 : Nat) = 2 → (1 : Nat) ≠ exS.cur → .valid 2 ∈ new) := by
  obtain ⟨new, hn, hno, _⟩ := ex_direct
  refine c04_dependents_reused_chain (wf_progOf exProg (by decide)) exS
    (Proofs.Core3E.run_inv (wf_progOf exProg (by decide)) _ _ _ _) 2 1 2 _ _ exS_memo1 (by decide) (by simp)
    ⟨new, hn, hno⟩ exS_memo2 (by simp) rfl (Nat.le_refl _) ?_
  intro o ho _ hne
  have h : o = ⟨.qry 1, 2, true⟩ := by simpa using ho
  subst h; exact absurd rfl hne

/-- contrast: when the cell DID change the value of q0, its dependents are executed -/
example : (run (progOf exProg) exInp (fun _ => 0) 2 [.get 2, .cellSynth 0 1 0, .get 2]).trace.drop 3 =
    [.exec 0, .exec 1, .exec 2] := by decide

end SalsaVerif.Props.C04Core3
