/-
  GenLogicProvisional (part of GenLogic) — when a PROVISIONAL memo may be declared final.

  `Gen/LogicCycle.lean` (regenerated from /repo on every run) now also contains the two comparisons
  of the `ProvisionalStatus::Final` arm of `validate_provisional`
  (src/function/maybe_changed_after.rs); the rest of the function — the loop over the cycle heads,
  `return false` for a missing / provisional / poisoned head, `verified_final.store(true)` only
  after the loop — is pinned verbatim as its skeleton.

  PROVED: the revision-aware cycle model `Model/CycleRev.validateProvisional` accepts a memo iff
  every live head is final and passes NEITHER generated rejection test, i.e. the head was verified
  in exactly the revision in which the memo was verified and finished in exactly the iteration the
  memo read.  A provisional value abandoned by a cancellation or panic in revision R therefore
  cannot be declared final against a head (re)verified in a later revision (C20: "no value
  computed for the old revision is returned in the new one", C14, C12).  Relaxing the revision
  test to `<` (seeded change C20-3, and C14-2 before it) changes the generated definition and breaks
  `genlogic_validate_provisional_head`.
-/
import SalsaVerif.Gen.LogicCycle
import SalsaVerif.Model.CycleRev

namespace SalsaVerif.Props.GenLogic.Provisional
open SalsaVerif.Gen.LogicCycle
open SalsaVerif.Model.CycleRev

/-- the model's test of one final head = "neither generated rejection applies" -/
theorem genlogic_validate_provisional_head (memoVa recordedIter it va : Nat) :
    (va == memoVa && it == recordedIter) =
      (!final_head_other_revision ⟨va, it, memoVa, recordedIter⟩ &&
       !final_head_other_iteration ⟨va, it, memoVa, recordedIter⟩) := by
  simp only [final_head_other_revision, final_head_other_iteration]
  by_cases h1 : va = memoVa <;> by_cases h2 : it = recordedIter <;> simp [h1, h2]

/-- the model's answer, as written in the model -/
theorem validateProvisional_fst (s : St) (c : Nat) (m : Memo) :
    (validateProvisional s c m).1 =
      (live m.cycleHeads).all (fun h =>
        match provisionalStatus s h.key with
        | some (.final it va) => va == m.va && it == h.iter
        | _ => false) := by
  unfold validateProvisional
  dsimp only
  split
  · rename_i h; exact h.symm
  · rename_i h; exact (Bool.eq_false_iff.mpr h).symm

/-- `validateProvisional` written with the generated tests -/
theorem genlogic_validate_provisional (s : St) (c : Nat) (m : Memo) :
    (validateProvisional s c m).1 =
      (live m.cycleHeads).all (fun h =>
        match provisionalStatus s h.key with
        | some (.final it va) =>
          !final_head_other_revision ⟨va, it, m.va, h.iter⟩ && !final_head_other_iteration ⟨va, it, m.va, h.iter⟩
        | _ => false) := by
  rw [validateProvisional_fst]
  congr 1
  funext h
  split <;> simp_all [genlogic_validate_provisional_head]

/-- the state changes (the memo becomes final) only when the answer is `true` -/
theorem genlogic_validate_provisional_false_keeps (s : St) (c : Nat) (m : Memo)
    (h : (validateProvisional s c m).1 = false) : (validateProvisional s c m).2 = s := by
  unfold validateProvisional at h ⊢
  dsimp only at h ⊢
  split
  · rename_i hok; rw [if_pos hok] at h; cases h
  · rfl

/-- a head verified in a LATER revision than the memo never validates it -/
theorem genlogic_validate_provisional_later_head_rejected (memoVa recordedIter it va : Nat) (h : memoVa < va) :
    (!final_head_other_revision ⟨va, it, memoVa, recordedIter⟩ &&
     !final_head_other_iteration ⟨va, it, memoVa, recordedIter⟩) = false := by
  rw [← genlogic_validate_provisional_head]
  have : va ≠ memoVa := by omega
  simp [this]

/-- non-vacuity: same revision and iteration is accepted, a later revision is not -/
example : (!final_head_other_revision ⟨4, 1, 4, 1⟩ && !final_head_other_iteration ⟨4, 1, 4, 1⟩) = true := by decide
example : (!final_head_other_revision ⟨5, 1, 4, 1⟩ && !final_head_other_iteration ⟨5, 1, 4, 1⟩) = false := by decide

end SalsaVerif.Props.GenLogic.Provisional
