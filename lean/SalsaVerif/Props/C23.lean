/-
  C23 — memory safety / reference validity (PARTIAL BY NATURE, see DESIGN §C23 Limits).
  What is logic is modelled and proved here:
    (a) `make_id` / `split_id` bit packing (Gen/Ids.lean, generated from src/table.rs, src/id.rs),
    (b) the memo deferral protocol (Model/Life.lean),
    (c) the `SliceWithHeaderBuilder` discipline (Model/Origin.lean `Builder`, `allocLoop`),
    (d) page slot publication order (Model/Alloc.lean).
  Raw-pointer arithmetic, provenance, the `transmute` lifetime extension and data races are
  runtime facts no Lean model exhibits; nothing below speaks about them.

  NOT YET PROVED: nothing of the planned list is missing; the packed→wide switch "copies the
  initialised prefix" is covered only as far as lengths go (`c23_builder_bounds`); that the copied
  *contents* decode to the same edges is C25 (`Props/C25`).
-/
import SalsaVerif.Proofs.IdsRoundtrip
import SalsaVerif.Proofs.LifeLemmas
import SalsaVerif.Proofs.BuilderLemmas
import SalsaVerif.Proofs.AllocLemmas

namespace SalsaVerif.Props.C23
open SalsaVerif.Gen.Ids

/-- `split_id (make_id p s) = (p, s)` for `s < PAGE_LEN`, `p < MAX_PAGES`; `make_id` is injective
    there; its raw index satisfies `Id::from_index`'s `debug_assert!(index < MAX_U32)`, the stored
    `NonZeroU32` is non-zero, and the generation is 0. -/
theorem c23_ids_roundtrip (p s : Nat) (hp : p < MAX_PAGES) (hs : s < PAGE_LEN) :
    split_id (make_id p s) = (p, s) ∧
    Id.index0 (make_id p s) < Id.MAX_U32 ∧
    1 ≤ (make_id p s).index ∧ (make_id p s).index ≤ Id.MAX_U32 ∧
    (make_id p s).generation = 0 ∧
    (∀ p' s', p' < MAX_PAGES → s' < PAGE_LEN → make_id p s = make_id p' s' → p = p' ∧ s = s') :=
  ⟨SalsaVerif.Proofs.IdsRoundtrip.split_id_make_id p s hp hs,
   SalsaVerif.Proofs.IdsRoundtrip.make_id_lt p s hp hs,
   (SalsaVerif.Proofs.IdsRoundtrip.make_id_index_range p s hp hs).1,
   (SalsaVerif.Proofs.IdsRoundtrip.make_id_index_range p s hp hs).2,
   rfl,
   fun p' s' hp' hs' h => SalsaVerif.Proofs.IdsRoundtrip.make_id_injective p s p' s' hp hs hp' hs' h⟩

-- the last slot of the last page: the largest id the table can produce is `MAX_U32 - 1`
example : MAX_PAGES - 1 < MAX_PAGES ∧ PAGE_LEN - 1 < PAGE_LEN ∧
    Id.index0 (make_id (MAX_PAGES - 1) (PAGE_LEN - 1)) = Id.MAX_U32 - 1 ∧
    split_id (make_id (MAX_PAGES - 1) (PAGE_LEN - 1)) = (33554429, 127) := by decide

section Life
open SalsaVerif.Model.Life SalsaVerif.Proofs.LifeLemmas

/-- in every reachable state every outstanding reference was handed out in the current revision
    and targets an allocation that is Live or Deferred — never Freed.  (Key facts inside the
    invariant: a replaced memo is deferred, not freed; deferred memos are freed only by
    `new_revision`, which needs `&mut`, i.e. no outstanding reference; `clear_memos` frees
    immediately but runs only on a slot not accessed in the current revision, and every
    referenced Live memo belongs to a slot accessed in the current revision.) -/
theorem c23_no_uaf_model (s : State) (hr : Reachable s) :
    ∀ r, r ∈ s.refs → r.rev = s.cur ∧
      (stateOf s r.target = some .live ∨ stateOf s r.target = some .deferred) := by
  have hinv := linv_reachable s hr
  intro r hmem
  obtain ⟨hrev, hwhere, _⟩ := hinv.refsOk r hmem
  refine ⟨hrev, ?_⟩
  have hnd := hinv.nodup
  unfold allAllocs at hnd
  obtain ⟨hnd1, _, hdisj⟩ := List.nodup_append.1 hnd
  obtain ⟨_, _, hdisj1⟩ := List.nodup_append.1 hnd1
  have hnf : r.target ∉ s.frees := by
    intro hf
    rcases hwhere with h | h
    · exact hdisj _ (List.mem_append_left _ h) _ hf rfl
    · exact hdisj _ (List.mem_append_right _ h) _ hf rfl
  unfold stateOf
  rw [if_neg hnf]
  rcases hwhere with h | h
  · left
    have : r.target ∉ s.deferred := fun hd => hdisj1 _ h _ hd rfl
    rw [if_neg this, if_pos h]
  · right
    rw [if_pos h]

-- a reference to a memo that has since been replaced (Deferred) and one to its replacement (Live)
example : ∃ s, Reachable s ∧ s.refs = [⟨1, 1⟩, ⟨0, 1⟩] ∧
    stateOf s 0 = some .deferred ∧ stateOf s 1 = some .live :=
  ⟨_, ⟨[.publish 5 0, .publish 5 0], rfl⟩, rfl, by decide, by decide⟩

/-- no allocation is freed twice: the log of all frees never contains an allocation twice, and a
    freed allocation is neither installed in a table nor in `deleted_entries` any more (so no
    later step can free it again). -/
theorem c23_free_once (s : State) (hr : Reachable s) :
    s.frees.Nodup ∧
    (∀ o, o ∈ s.frees → stateOf s o = some .freed ∧ o ∉ vals s.table ∧ o ∉ s.deferred) ∧
    (allAllocs s).Nodup ∧ (∀ o, o ∈ allAllocs s ↔ o < s.next) := by
  have hinv := linv_reachable s hr
  have hnd := hinv.nodup
  unfold allAllocs at hnd
  obtain ⟨_, hnf, hdisj⟩ := List.nodup_append.1 hnd
  refine ⟨hnf, ?_, hinv.nodup, hinv.range⟩
  intro o ho
  refine ⟨by unfold stateOf; rw [if_pos ho], ?_, ?_⟩
  · intro h; exact hdisj _ (List.mem_append_left _ h) _ ho rfl
  · intro h; exact hdisj _ (List.mem_append_right _ h) _ ho rfl

-- frees by `clear_memos` (1, of slot 6) and by `new_revision` (0, deferred), each logged once;
-- 3 is deferred (replaced in the current revision), 2 and 4 are live
example : ∃ s, Reachable s ∧ s.frees = [0, 1] ∧ s.cur = 3 ∧ stateOf s 2 = some .live ∧
    stateOf s 3 = some .deferred ∧ stateOf s 4 = some .live :=
  ⟨_, ⟨[.publish 5 0, .publish 6 0, .dropRef 0, .dropRef 0, .newRevision, .clearMemos 6,
        .publish 5 0, .dropRef 0, .newRevision, .publish 5 1, .publish 5 1, .dropRef 0, .dropRef 0,
        .clearMemos 7], rfl⟩, by decide, rfl, by decide, by decide, by decide⟩

/-- dropping the database frees every allocation ever made (nothing leaks, nothing is freed
    twice), and no step is possible afterwards. -/
theorem c23_drop_frees_all (s s' : State) (hr : Reachable s) (hd : step s .dropDb = some s') :
    (∀ o, o < s'.next → stateOf s' o = some .freed) ∧ s'.frees.Nodup ∧
    s'.table = [] ∧ s'.deferred = [] ∧ s'.next = s.next ∧ (∀ l, step s' l = none) := by
  have hinv := linv_reachable s hr
  have hinv' := linv_step s s' _ hinv hd
  unfold step at hd
  split at hd
  case isFalse => cases hd
  case isTrue hpre =>
  simp only [Option.some.injEq] at hd
  simp only [pre, Bool.and_eq_true, List.isEmpty_iff] at hpre
  have htable : s'.table = [] := by rw [← hd]; rfl
  have hdef : s'.deferred = [] := by rw [← hd]; rfl
  have hrefs : s'.refs = [] := by rw [← hd]; exact hpre.2
  have hdropped : s'.dropped = true := by rw [← hd]; rfl
  have hnd := hinv'.nodup
  refine ⟨?_, ?_, htable, hdef, by rw [← hd]; rfl, ?_⟩
  · intro o ho
    have hmem := (hinv'.range o).2 ho
    unfold allAllocs at hmem
    rw [htable, hdef] at hmem
    simp only [vals, List.map_nil, List.nil_append] at hmem
    unfold stateOf
    rw [if_pos hmem]
  · unfold allAllocs at hnd
    exact (List.nodup_append.1 hnd).2.1
  · intro l
    unfold step
    have : pre s' l = false := by
      cases l <;> simp [pre, hdropped, hrefs]
    rw [this]; rfl

example : ∃ s s', Reachable s ∧ step s .dropDb = some s' ∧ s.next = 3 ∧ s.frees = [] ∧ s'.frees = [2, 1, 0] :=
  ⟨_, _, ⟨[.publish 5 0, .publish 6 0, .publish 5 0, .dropRef 0, .dropRef 0, .dropRef 0], rfl⟩, rfl, rfl, rfl,
    by decide⟩

end Life

section Builder
open SalsaVerif.Gen.Edge SalsaVerif.Model.Origin SalsaVerif.Proofs.BuilderLemmas

/-- `SliceWithHeaderBuilder`: `initialized ≤ length` always; `push` trips its assertion exactly
    when the slice is full; `finish` succeeds exactly when everything is initialised; and the loop
    of `allocate_derived_with_header` (including the packed→wide switch, which re-pushes the
    initialised prefix into a fresh builder of the same capacity) never trips an assertion for
    `es.length < 2^32`, and yields a slice of exactly `es.length` edges. -/
theorem c23_builder_bounds :
    (∀ {α : Type} (b b' : Builder α) (x : α), b.items.length ≤ b.length → b.push x = some b' →
      b'.items.length ≤ b'.length ∧ b'.length = b.length ∧ b'.items = b.items ++ [x]) ∧
    (∀ {α : Type} (b : Builder α) (x : α), b.push x = none ↔ ¬ b.items.length < b.length) ∧
    (∀ {α : Type} (b b' : Builder α) (xs : List α), b.items.length ≤ b.length → b.extend xs = some b' →
      b'.items.length ≤ b'.length) ∧
    (∀ {α : Type} (b : Builder α) (l : List α), b.finish = some l ↔ (b.items.length = b.length ∧ l = b.items)) ∧
    (∀ es : List QueryEdge, es.length < 2^32 →
      ∃ layout slice, allocateDerived es = some (layout, slice, es.length) ∧
        (match slice with
         | .packed ps => ps.length = es.length
         | .wide ws => ws.length = es.length)) := by
  refine ⟨?_, ?_, ?_, ?_, ?_⟩
  · intro α b b' x _ h
    obtain ⟨hlt, hl, hi⟩ := push_cases b b' x h
    refine ⟨?_, hl, hi⟩
    rw [hi, hl]; simp only [List.length_append, List.length_cons, List.length_nil]; omega
  · intro α b x
    unfold Builder.push
    split <;> simp [*]
  · intro α b b' xs
    induction xs generalizing b with
    | nil => intro h he; simp only [Builder.extend, Option.some.injEq] at he; subst he; exact h
    | cons x xs ih =>
      intro h he
      simp only [Builder.extend] at he
      split at he
      · next b1 hb1 =>
        have := push_cases b b1 x hb1
        exact ih b1 (by rw [this.2.2, this.2.1]; simp only [List.length_append, List.length_cons, List.length_nil]; omega) he
      · cases he
  · intro α b l
    unfold Builder.finish
    split
    · next h => simp only [Option.some.injEq]; exact ⟨fun e => ⟨h, e.symm⟩, fun e => e.2.symm⟩
    · next h => constructor
                · intro e; cases e
                · intro e; exact absurd e.1 h
  · intro es hlen
    obtain ⟨layout, slice, h, hl⟩ := allocLoop_some es es.length (Builder.allocate es.length) rfl
      (by simp [Builder.allocate])
    exact ⟨layout, slice, by simp [allocateDerived, hlen, h], hl⟩

-- an empty edge list and a one-edge list both go through the loop without a failed assertion
example : (allocateDerived []).isSome = true ∧
    (allocateDerived [QueryEdge.input (DatabaseKeyIndex.new 3 (Id.from_index 5))]).isSome = true := by
  constructor
  · rfl
  · obtain ⟨_, _, h, _⟩ := c23_builder_bounds.2.2.2.2 [QueryEdge.input (DatabaseKeyIndex.new 3 (Id.from_index 5))] (by decide)
    rw [h]; rfl

end Builder

section Slot
open SalsaVerif.Model.Alloc SalsaVerif.Proofs.AllocLemmas

/-- page slot publication: `allocated` is bumped (`store`) only by a handle that has already
    written the slot — in the state before the store the slot holds the value but is invisible
    (`idx = allocated`), after it a reader sees exactly that value; and the write itself changes
    nothing a reader can see (it goes to the first unpublished slot). -/
theorem c23_slot_init_before_publish (s s' : Model.Alloc.State) (hr : Model.Alloc.Reachable s) :
    (∀ h page n, Model.Alloc.step s (.store h page n) = some s' →
      ∃ idx v, n = idx + 1 ∧ (getH s h).pc = .written page idx v ∧
        (∃ p, s.pages page = some p ∧ p.slots idx = some v ∧ p.allocated = idx) ∧
        readSlot s page idx = none ∧ readSlot s' page idx = some v ∧
        s'.handed = (make_id page idx, v) :: s.handed) ∧
    (∀ h page slot v, Model.Alloc.step s (.write h page slot v) = some s' →
      readSlot s page slot = none ∧ ∀ q i, readSlot s' q i = readSlot s q i) :=
  ⟨fun h page n hs => store_after_write s s' (ainv_reachable s hr) h page n hs,
   fun h page slot v hs => write_invisible s s' (ainv_reachable s hr) h page slot v hs⟩

example : ∃ s s', Model.Alloc.Reachable s ∧ Model.Alloc.step s (.store 0 0 1) = some s' ∧
    readSlot s 0 0 = none ∧ readSlot s' 0 0 = some 41 :=
  ⟨_, _, ⟨[.push 0 7 0, .load 0 0 0, .write 0 0 0 41], rfl⟩, rfl, rfl, rfl⟩

end Slot

end SalsaVerif.Props.C23
