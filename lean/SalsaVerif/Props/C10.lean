/-
  C10 — specified results.  Theorems about `Model/CoreSpec.lean` (tied to real salsa through
  `svdriver corespec` ⇄ `vh seq`, see Drive/CoreSpec.lean).

  Part (a): step-level theorems that follow from the model functions.
  Part (b): the integrated claim (see the end of the file for what is proved and what is not).
-/
import SalsaVerif.Proofs.CoreSpecFresh
import SalsaVerif.Proofs.CoreSpecCompile
import SalsaVerif.Proofs.CoreSpecExamples
import SalsaVerif.Proofs.CoreSpecRevWitness
import SalsaVerif.Proofs.CoreSpecRevFinal
import SalsaVerif.Proofs.CoreSpecRevCompile

namespace SalsaVerif.Props.C10
open SalsaVerif.Model.CoreSpec SalsaVerif.Proofs.CoreSpec

/-! ## (a) step-level theorems -/

/-- After the creator `c` (executing, struct created: `f.ts.isSome`) specified `spec(struct) := v`
    — and no computed value for the key is already verified in this revision, nor was the key
    specified earlier in this execution — a request `spec(struct)` returns `v`, runs no function
    body (no event at all is appended: in particular no `Xspec`), and the memo is `Assigned` by `c`
    and verified in the current revision; the creator's frame records the output edge. -/
theorem c10_returns_specified (SB : Nat → Nat → Body) (s : State) (f : Frame) (c v : Nat)
    (hown : f.ts.isSome = true)
    (hnc : ∀ o, s.smemos c = some o → o.va = s.cur → o.origin.isSome = true ∧ f.hasOut c = false) :
    (fetchSpec SB (specifyAndRecord s (some c) f c v).1 c).2.val = ⟨v, none⟩ ∧
    (fetchSpec SB (specifyAndRecord s (some c) f c v).1 c).1.trace = s.trace ∧
    (∃ m, (fetchSpec SB (specifyAndRecord s (some c) f c v).1 c).1.smemos c = some m ∧
        m.origin = some c ∧ m.va = s.cur ∧ m.value = ⟨v, none⟩) ∧
    (specifyAndRecord s (some c) f c v).2.hasOut c = true := by
  rw [specify_installs s f c v hown hnc]
  obtain ⟨h1, h2, h3, _, h5⟩ := installAssigned_facts s f c v
  rw [fetchSpec_hit SB _ c _ h1 (by simp [assignedMemo, h2])]
  refine ⟨rfl, by simp [h3], ⟨_, by simpa using h1, rfl, rfl, rfl⟩, ?_⟩
  rw [h5]; exact addOut_hasOut f c v

/-- The same inside the creator's body: `specify(t, v); spec(t)` continues with `v`, and nothing
    is emitted in between. -/
theorem c10_returns_specified_in_body (fe : FetchFn) (SB : Nat → Nat → Body) (s : State) (f : Frame)
    (c v : Nat) (k : Val → Body) (hown : f.ts.isSome = true) (hslot : (s.slots c).isSome = true)
    (hnc : ∀ o, s.smemos c = some o → o.va = s.cur → o.origin.isSome = true ∧ f.hasOut c = false) :
    ∃ s' f', runBody fe (fetchSpec SB) (some c) (.specify c v (.read (.spec c) k)) s f =
        runBody fe (fetchSpec SB) (some c) (k ⟨v, none⟩) s' f' ∧
      s'.trace = s.trace ∧ s'.cur = s.cur := by
  simp only [runBody]
  rw [specify_installs s f c v hown hnc]
  obtain ⟨h1, h2, h3, h4, _⟩ := installAssigned_facts s f c v
  have hs : ∃ sl, (installAssigned s f c v).1.slots c = some sl := by
    rw [h4]; cases h : s.slots c with
    | none => rw [h] at hslot; cases hslot
    | some sl => exact ⟨sl, rfl⟩
  obtain ⟨sl, hsl⟩ := hs
  simp only [readDep, hsl]
  rw [fetchSpec_hit SB _ c _ h1 (by simp [assignedMemo, h2])]
  exact ⟨_, _, rfl, by simp [h3], by simp [h2]⟩

/-- A value the function computed for the key earlier in this revision is kept: `specify` is a
    no-op (no memo is replaced, no output edge is recorded) and requests keep returning it. -/
theorem c10_computed_wins (SB : Nat → Nat → Body) (s : State) (f : Frame) (c v : Nat) (o : Memo)
    (hown : f.ts.isSome = true)
    (hm : s.smemos c = some o) (hva : o.va = s.cur) (hd : o.origin = none) :
    specifyAndRecord s (some c) f c v = (s, f) ∧
    (fetchSpec SB s c).2.val = o.value ∧ (fetchSpec SB s c).1.trace = s.trace := by
  refine ⟨specify_computed_wins s f c v o hown hm hva hd, ?_, ?_⟩
  · rw [fetchSpec_hit SB s c o hm hva]; rfl
  · rw [fetchSpec_hit SB s c o hm hva]; simp

/-- A creator memo that is found green — by the durability shortcut (`update_shallow` ⇒
    `mark_outputs_as_verified`) or by a deep verification that walks all its edges
    (`mark_validated_output` on output edges) — leaves every `Assigned` memo it owns and has an
    output edge for verified in the current revision.  `mc` is the `maybe_changed_after` used for
    the callees; the side condition holds for the engine itself (next theorem). -/
theorem c10_green_creator_validates (fe : FetchFn) (mc : McaFn) (P : Prog) (s : State) (q c : Nat)
    (m : Memo) (hm : s.memos q = some m) (hne : m.va ≠ s.cur)
    (hmc : RelM (KeepsGood q c) mc)
    (hout : ∃ o, o ∈ m.obs ∧ o.recd = true ∧ o.out = true ∧ o.dep = .spec c)
    (hgreen : lc s m.dur ≤ m.va ∨ (deepEdges mc P.spec q m.obs s m.va).2 = true) :
    OutGood q c (fetchStep fe mc P s q).1 := by
  unfold fetchStep
  simp only [hm, hne, if_false]
  by_cases hsh : lc s m.dur ≤ m.va
  · simp only [hsh, if_true]
    exact markOutputsVerified_good q c m.obs _ hout
  · simp only [hsh, if_false]
    have hd : (deepEdges mc P.spec q m.obs s m.va).2 = true := by
      rcases hgreen with h | h
      · exact absurd h hsh
      · exact h
    simp only [hd, if_true]
    have := deepEdges_good P.spec q c hmc m.obs s m.va (Or.inr hout) hd
    intro sm hsm horg
    exact this sm (by simpa [markDeepVerified] using hsm) horg

/-- … for the engine: a request of creator `q` that verifies its memo validates its outputs. -/
theorem c10_green_creator_validates_engine (P : Prog) (s : State) (q c : Nat)
    (m : Memo) (hm : s.memos q = some m) (hne : m.va ≠ s.cur)
    (hout : ∃ o, o ∈ m.obs ∧ o.recd = true ∧ o.out = true ∧ o.dep = .spec c)
    (hgreen : lc s m.dur ≤ m.va ∨ (deepEdges (eng P q).2 P.spec q m.obs s m.va).2 = true) :
    OutGood q c (fetch P s q).1 := by
  have : fetch P s q = fetchStep (eng P q).1 (eng P q).2 P s q := by
    simp [fetch, eng]
  rw [this]
  exact c10_green_creator_validates _ _ P s q c m hm hne (eng_rel (primRel_keepsGood q c) P q).2 hout hgreen

/-- Specifying a struct that the executing query did not create in this execution panics (and
    nothing else happens: no memo is written, no edge is recorded). -/
theorem c10_foreign_panics (s : State) (self : Option Nat) (f : Frame) (c v : Nat)
    (h : self ≠ some c ∨ f.ts.isSome = false) (hp : s.panic = none) :
    (specifyAndRecord s self f c v).1.panic = some .specifyForeign ∧
    (specifyAndRecord s self f c v).1.smemos = s.smemos ∧
    (specifyAndRecord s self f c v).2 = f := by
  rw [specify_foreign s self f c v h]
  exact ⟨fail_panic_none hp, by simp, rfl⟩

/-- … and the panic is the result of the request: a query whose body specifies before it has
    created any struct ends in `panic specifyForeign`. -/
theorem c10_foreign_panics_request (P : Prog) (s : State) (q c v : Nat) (k : Body)
    (hbody : P.node q = .specify c v k) (hmemo : s.memos q = none) (hp : s.panic = none) :
    stepGet P s q = .error .specifyForeign := by
  have hf : fetch P s q = fetchStep (eng P q).1 (eng P q).2 P s q := by simp [fetch, eng]
  have h1 : (getOp P s q).1.panic = some .specifyForeign := by
    unfold getOp
    apply observe_rel primRel_sticky
    rw [hf]
    unfold fetchStep
    simp only [hmemo]
    unfold execute
    apply installNode_rel primRel_sticky
    rw [hbody]
    simp only [runBody]
    apply runBody_rel primRel_sticky.toPrimRel0 (eng_rel primRel_sticky P q).1
      (relF_fetchSpec primRel_sticky P.spec)
    rw [specify_foreign _ _ _ _ _ (Or.inr rfl)]
    exact fail_panic_none (by simpa using hp)
  unfold stepGet
  simp only [h1]

/-- Specifying the same key twice in one execution panics. -/
theorem c10_twice_panics (s : State) (f : Frame) (c v : Nat) (o : Memo) (k : Nat)
    (hown : f.ts.isSome = true) (hm : s.smemos c = some o) (hva : o.va = s.cur) (hd : o.origin = some k)
    (hout : f.hasOut c = true) (hp : s.panic = none) :
    (specifyAndRecord s (some c) f c v).1.panic = some .specifyTwice ∧
    (specifyAndRecord s (some c) f c v).1.smemos = s.smemos := by
  rw [specify_twice s f c v o k hown hm hva hd hout]
  exact ⟨fail_panic_none hp, by simp⟩

/-- … as the result of a request: `t = Ts::new(..); specify(t, v1); specify(t, v2)` in a query
    that has no struct yet ends in `panic specifyTwice`. -/
theorem c10_twice_panics_request (P : Prog) (s : State) (q idk v0 v1 v2 : Nat) (k : Body)
    (hbody : P.node q = .create idk v0 fun _ => .specify q v1 (.specify q v2 k))
    (hmemo : s.memos q = none) (hp : s.panic = none) :
    stepGet P s q = .error .specifyTwice := by
  have hf : fetch P s q = fetchStep (eng P q).1 (eng P q).2 P s q := by simp [fetch, eng]
  have h1 : (getOp P s q).1.panic = some .specifyTwice := by
    unfold getOp
    apply observe_rel primRel_sticky
    rw [hf]
    unfold fetchStep
    simp only [hmemo]
    unfold execute
    apply installNode_rel primRel_sticky
    rw [hbody]
    simp only [runBody, createStep, oldSeed, frame0, Option.isSome_none, Bool.false_eq_true, if_false]
    apply runBody_rel primRel_sticky.toPrimRel0 (eng_rel primRel_sticky P q).1
      (relF_fetchSpec primRel_sticky P.spec)
    -- the struct is freshly allocated: its memo table is empty
    have hns : (newStruct (emit s (.exec q)) q
        { ca := 1, dur := 3, obs := [], seed := none, ts := none } idk v0).1.smemos q = none := by
      simp [newStruct]
    have hnp : (newStruct (emit s (.exec q)) q
        { ca := 1, dur := 3, obs := [], seed := none, ts := none } idk v0).1.panic = none := by
      simp [newStruct, hp]
    generalize (newStruct (emit s (.exec q)) q
        { ca := 1, dur := 3, obs := [], seed := none, ts := none } idk v0) = r at hns hnp
    -- first specify installs an `Assigned` memo …
    rw [specify_installs r.1 _ q v1 rfl (by intro o ho; rw [hns] at ho; cases ho)]
    obtain ⟨i1, i2, _, _, i5⟩ := installAssigned_facts r.1
      { ca := 1, dur := 3, obs := [], seed := none, ts := some r.2 } q v1
    -- … the second one finds it
    rw [specify_twice _ _ q v2 _ q (by rw [i5, addOut_ts]; rfl) i1 (by simp [assignedMemo, i2]) rfl
      (by rw [i5]; exact addOut_hasOut _ _ _)]
    apply fail_panic_none
    simp [installAssigned, backdate, hns, failIf_false, hnp]
  unfold stepGet
  simp only [h1]

/-- A stale `Assigned` memo (not verified in this revision, not covered by the durability
    shortcut) is "changed": the request runs the function body (`Xspec` is the one event appended),
    the new memo is `Derived`. -/
theorem c10_assigned_stale_is_changed (SB : Nat → Nat → Body) (s : State) (c : Nat) (m : Memo) (k : Nat)
    (hm : s.smemos c = some m) (ho : m.origin = some k) (hv : m.va ≠ s.cur) (hd : ¬ lc s m.dur ≤ m.va) :
    fetchSpec SB s c = executeSpec SB (touchMemos s c) c (some m) ∧
    (fetchSpec SB s c).1.trace = s.trace ++ [.execS c (genOf s c)] ∧
    (∃ m', (fetchSpec SB s c).1.smemos c = some m' ∧ m'.origin = none) ∧
    (∀ rev, mcaSpec SB s c rev = ((fetchSpec SB s c).1, decide ((fetchSpec SB s c).2.ca > rev))) := by
  have h := fetchSpec_assigned_stale SB s c m k hm ho hv hd
  refine ⟨h, ?_, ?_, ?_⟩
  · rw [h, executeSpec_trace]; simp [touchMemos_genOf]
  · rw [h]; exact executeSpec_memo SB _ c _
  · intro rev
    unfold mcaSpec
    have h2 : (touchMemos s c).smemos c = some m := by simp [hm]
    simp only [h2]
    have h3 : fetchSpec SB (touchMemos s c) c = fetchSpec SB s c := by
      unfold fetchSpec; rw [touchMemos_idem]
    rw [h3]

/-- The repaired `backdate_if_appropriate`: a computed value that replaces a specified one keeps
    the old `changed_at` only if it equals the specified value (and the durability did not drop);
    otherwise its `changed_at` is the current revision — whatever the stamps of the body's inputs.
    No backdate-violation is reported on this path. -/
theorem c10_source_switch_stamp (o : Memo) (k : Nat) (v : Val) (fca fdur cur : Nat)
    (ho : o.origin = some k) :
    backdate (some o) false v none fca fdur cur =
      (if o.dur ≤ fdur ∧ o.value = v ∧ o.hgen = none then o.ca else cur, false) := by
  simp [backdate, ho]

/-- When the creator re-executes without specifying (it still creates the struct), `diff_outputs`
    only reports the stale key: the specified memo is left as it is (and is "changed" when asked,
    by `c10_assigned_stale_is_changed`). -/
theorem c10_stale_key_left_alone (s : State) (q : Nat) (old : Memo) (f : Frame) (g : Nat)
    (hkeep : ¬ (old.ts.isSome ∧ f.ts.isNone)) :
    (diffOutputs s q old f g).smemos = s.smemos ∧ (diffOutputs s q old f g).slots = s.slots := by
  unfold diffOutputs
  simp only [hkeep, if_false]
  split <;> simp

/-- When the creator no longer creates the struct, the struct and its `spec` memo are deleted. -/
theorem c10_dropped_struct_is_discarded (s : State) (q : Nat) (old : Memo) (f : Frame) (g : Nat)
    (hdrop : old.ts.isSome ∧ f.ts.isNone) (sl : Slot) (hsl : s.slots q = some sl) :
    (diffOutputs s q old f g).smemos q = none ∧ (diffOutputs s q old f g).slots q = none := by
  unfold diffOutputs
  simp only [hdrop, and_self, if_true]
  have h1 : (deleteEntity s q).smemos q = none ∧ (deleteEntity s q).slots q = none := by
    unfold deleteEntity
    simp only [hsl]
    constructor
    · split
      · simp
      · rename_i h; simpa using h
    · simp
  split <;> simp [h1]

/-! ### non-vacuity of part (a): concrete programs run on the model (kernel evaluation)

  `PA` (Proofs/CoreSpecExamples.lean): creator `q0 = + (mk c0 i0 i1 c3) i2` (struct Ts(0, i0);
  specifies 3 when i1 is odd; then reads i2), reader `q1 = sp q0`; body of `spec` = `i3`;
  inputs `inpA`: i1 = 1, i3 = 2, others 0, all LOW. -/


/-- `c10_returns_specified`: the reader gets the specified 3; the only events are the two
    executions — no `Xspec`. -/
example : outputs PA (init inpA) [.get 1] = [⟨3, none⟩] ∧
    (run PA inpA [.get 1]).trace = [.exec 1, .exec 0] := by decide

/-- `c10_green_creator_validates` (deep): after a write to `i2` (read by the creator after the
    `specify`) … the creator's verification validates the output (`Vspec`), then it re-executes. -/
example : (run PA inpA [.get 1, .set 2 1 none, .get 1]).trace =
    [.exec 1, .exec 0, .validS 0 0, .exec 0, .exec 1] := by decide

/-- … and when an unrelated input is written the creator is green: `Vspec`, `V0`, `V1`. -/
example : (run PA inpA [.get 1, .set 3 1 none, .get 1]).trace =
    [.exec 1, .exec 0, .validS 0 0, .valid 0, .valid 1] := by decide

/-- `c10_green_creator_validates` (shallow): all inputs HIGH, a LOW synthetic write: the creator is
    verified by its durability (`V0`) and validates its output (`Vspec`). -/
example : (run PA (fun i => ⟨(inpA i).val, 1, 2⟩) [.get 1, .synth 0, .get 0]).trace =
    [.exec 1, .exec 0, .valid 0, .validS 0 0] := by decide

/-- `c10_assigned_stale_is_changed` + the 3-revision history of the property: flag = 0: the reader
    gets the body's value 2; flag := 1: the specified 3; flag := 0 again: the body's value 2 —
    the stale `Assigned` memo is "changed", the body runs (`Xspec`), the stale key is reported. -/
example : outputs PA (init inpA) [.set 1 0 none, .get 1, .set 1 1 none, .get 1, .set 1 0 none, .get 1] =
      [⟨2, none⟩, ⟨3, none⟩, ⟨2, none⟩] ∧
    (run PA inpA [.set 1 0 none, .get 1, .set 1 1 none, .get 1, .set 1 0 none, .get 1]).trace =
      [.exec 1, .exec 0, .execS 0 0,
       .exec 0, .exec 1,
       .exec 0, .staleS 0 0 0, .execS 0 0, .exec 1] ∧
    (run PA inpA [.set 1 0 none, .get 1, .set 1 1 none, .get 1, .set 1 0 none, .get 1]).panic = none := by
  decide

/-- the same history against the reference semantics -/
example : refOutputs PA (fun i => ((inpA i).val, 0))
      [.set 1 0 none, .get 1, .set 1 1 none, .get 1, .set 1 0 none, .get 1] =
    [⟨2, none⟩, ⟨3, none⟩, ⟨2, none⟩] := by decide

/-! `PB` (Proofs/CoreSpecExamples.lean): Body-level programs for the panics and for "computed wins"
  (the line-protocol language cannot express them: `mk` creates and specifies in one step):
  node 0 creates a struct; node 1 reads node 0 and specifies a foreign struct; node 2 creates and
  specifies twice; node 3 creates, asks `spec` of its own struct, specifies 9, asks again;
  body of `spec` = tracked field + 1. -/
/-- `c10_foreign_panics` -/
example : panicOf (stepGet PB (init fun _ => ⟨0, 1, 0⟩) 1) = some .specifyForeign := by decide
/-- `c10_twice_panics` -/
example : panicOf (stepGet PB (init fun _ => ⟨0, 1, 0⟩) 2) = some .specifyTwice := by decide
/-- `c10_computed_wins`: the body's value 2 (= 1 + 1) is kept, `specify(9)` is ignored: 22 -/
example : outputs PB (init fun _ => ⟨0, 1, 0⟩) [.get 3] = [⟨22, some 3⟩] ∧
    sem PB (fun _ => ⟨0, 1, 0⟩) 3 = ⟨22, some 3⟩ := by decide

/-! ## (b) the integrated claim

  Reference semantics (`Model/CoreSpec.lean`): `sem P inp q` is the from-scratch value of node `q`;
  `spec(struct of c)` means the value the creator's from-scratch run specifies, else the body of
  `spec` on the struct's fields (a value the creator computed itself before specifying is kept).

  PROVED — the multi-revision statement, under the well-formedness `Wf2` (`c10_sound`, at the end
  of the file):

    theorem c10_sound (P : Prog) (idOf : Nat → Nat) (hP : Wf2 P idOf) (inp : Nat → Inp) (ops : List Op)
        (hnp : (run P inp ops).panic = none) :
        outputs P (init inp) ops = refOutputs P (fun i => ((inp i).val, (inp i).dur)) ops

  for histories `ops` with arbitrary `set` (with or without a change of durability) / `synth`
  between the requests: every request of a panic-free history returns the from-scratch value
  under the inputs current at that moment.  This gives the property for later revisions
  (`c10_sound_request`: the per-request form), order independence across revisions
  (`c10_order_independent_rev`: the right-hand side does not mention the requests made before),
  and "a creator that stops specifying": `spec(struct)` then means the body of `spec` on the
  struct's fields again (`c10_stops_specifying` + the instance on `PA` below it).
  The proof (Proofs/CoreSpecRev*.lean) is an invariant `Inv` (Proofs/CoreSpecRevInv.lean) over the
  states at entry and exit of every nested request — observer clauses for the four kinds of
  dependencies (inputs, node memos, the tracked field of a struct, `spec` on a struct), the tie
  between a creator's memo and its struct / `Assigned` memo (replay of the recorded reads),
  `Busy` creators (read-locked struct while the memo is being validated) — and: a memo that passes
  the shallow test in a state that satisfies `Inv` holds the from-scratch value
  (Proofs/CoreSpecRevFresh.lean); the engine preserves `Inv` (Proofs/CoreSpecRevTop.lean from the
  pieces FSpec / Shallow / ExecOk / Deep6; writes: CoreSpecRevBump.lean).

  What remains a HYPOTHESIS: `hnp` — the history does not panic in the model (`specifyForeign`,
  `specifyTwice`, `secondStruct`, `staleHandle`, `deleteLocked`, `backdateViolation`,
  `validateNotAssigned`); a panicking request is answered `panic:…` by both sides of the tie and
  the state after it is not part of the model.  And the well-formedness:

  `Wf2 P idOf` (Proofs/CoreSpecRevWf.lean) strengthens `Wf` (the well-formedness of the
  one-revision theorem: calls go to smaller queries, a query never reads its own struct) by three
  conditions.  Each one excludes a history on which the MODEL returns a value that is not the
  from-scratch value, so none can be dropped:
    1. `specify` directly after `create`: whatever decides whether (and what) the creator
       specifies is read BEFORE the struct is created.  Witness `c10_never_change_witness` (the
       model-level twin of known finding kf3, which real salsa reproduces): the struct and the
       computed `spec` memo are NEVER_CHANGE, the reader records no edge, and keeps the computed
       value when the creator starts specifying.  The line-protocol language satisfies the
       condition by construction (`mk c<id> v f s` evaluates `v`, `f`, `s`, then creates and
       specifies in one step).
    2. handle discipline (assumption A1 of the model): fields / identity / `spec` of the struct of
       `c` are read only after a value carrying the handle `c` was received from a query read of
       the same execution.  Witness `c10_unreceived_handle_witness` (not expressible in real salsa
       nor in the line protocol, where handles only come from values).
    3. one identity per creator: every `create` of node `r` uses the identity `idOf r`.  Witness
       `c10_identity_change_witness`: line protocol
           prog 2 1 / q 0 plain ? i0 mk c1 c0 c0 c0 mk c0 c0 c0 c0 / q 1 plain tk q0
           get 1; set 0 1 k; get 1
       the model answers 0 to the second request, the reference semantics 1 — and real salsa 1
       (a changed identity field hashes to a new id): here the MODEL, not the implementation,
       deviates: it fixes one struct per creator and `update` keeps the identity field.
  For the line-protocol language the Boolean check `wfCheck2 (idOfList es) 0 es` (= the old check
  `wfOwnFree` plus `Expr.idsOk`) implies `Wf2` (`c10_wf2_of_check`).

  ALSO PROVED (earlier, kept): the statement for the histories of ONE revision under the weaker
  `Wf` — any number of requests in any order on a fresh database, no write in between
  (`c10_sound_partial`, `c10_order_independent`; the Boolean check `wfOwnFree` implies `Wf`:
  `c10_wf_of_check`).  It does not need conditions 1–3 (in one revision every memo that is found is
  verified), so it also covers programs with several identities per creator.

  Evidence beside the proofs: the executable model agrees with real salsa on values AND events
  (see the report), and `sem` agrees with real salsa's values on every request of the same cases
  (`svdriver corespec`, op `ref`).
-/

/-- Soundness within one revision: on a fresh database every sequence of requests that does not
    panic returns the from-scratch values. -/
theorem c10_sound_partial (P : Prog) (hP : Wf P) (inp : Nat → Inp) (qs : List Nat)
    (hnp : (run P inp (gets qs)).panic = none) :
    outputs P (init inp) (gets qs) = qs.map (sem P inp) := by
  have h := outputs_gets hP (init inp).inp qs (init inp) (allJ_init P inp) hnp
  rw [h, sem_congr P (a := (init inp).inp) (b := inp) (fun _ => rfl)]

/-- Order independence (within a revision): the value a request returns is a function of the
    query alone — whichever requests (creator first, `spec` first, …) were made before. -/
theorem c10_order_independent (P : Prog) (hP : Wf P) (inp : Nat → Inp) :
    ∃ f : Nat → Val, ∀ qs, (run P inp (gets qs)).panic = none → outputs P (init inp) (gets qs) = qs.map f :=
  ⟨sem P inp, fun qs h => c10_sound_partial P hP inp qs h⟩

/-- programs of the line-protocol language that pass the Boolean check are well-formed -/
theorem c10_wf_of_check (es : List Expr) (sb : SExpr) (h : wfOwnFree 0 es = true) : Wf (progOf es sb) :=
  wf_progOf es sb h

/-- non-vacuity: `PA` is well-formed, both request orders run without panic and agree -/
example : Wf PA := c10_wf_of_check esA (.inp 3) (by decide)
example : (run PA inpA (gets [0, 1])).panic = none ∧ (run PA inpA (gets [1, 0])).panic = none ∧
    outputs PA (init inpA) (gets [0, 1]) = [⟨0, some 0⟩, ⟨3, none⟩] ∧
    outputs PA (init inpA) (gets [1, 0]) = [⟨3, none⟩, ⟨0, some 0⟩] := by decide

/-! ### why `Wf` alone is not enough for histories with writes: three witnesses

  The first two are Body-level programs, the third (`c10_identity_change_witness`) is a program of
  the line-protocol language.  All three programs satisfy `Wf` (the well-formedness of the one-revision theorem), run without panic,
  and the MODEL returns a value that is not the from-scratch value after a write. -/

theorem wf_PW1 : Wf PW1 := by
  refine ⟨?_, fun _ _ => WfS.ret 2⟩
  intro q
  match q with
  | 0 =>
    refine WfB.create _ _ _ (WfB.inp _ _ ?_)
    intro n
    dsimp only
    split
    · exact WfB.specify _ _ _ (WfB.ret _ (by intro c h; cases h; exact Nat.le_refl _))
    · exact WfB.ret _ (by intro c h; cases h; exact Nat.le_refl _)
  | 1 =>
    refine WfB.qry 0 _ (by decide) ?_
    intro v hv
    cases hh : v.h with
    | none => simp only; exact WfB.ret _ (by intro c h; cases h)
    | some c =>
      simp only
      have := hv c hh
      exact WfB.spec c _ (by omega) (fun n => WfB.ret _ (by intro c h; cases h))
  | n + 2 => exact WfB.ret _ (by intro c h; cases h)

theorem wf_PW2 : Wf PW2 := by
  refine ⟨?_, fun _ _ => WfS.read 1 _ (fun n => WfS.ret n)⟩
  intro q
  match q with
  | 0 =>
    refine WfB.inp _ _ ?_
    intro n
    refine WfB.create _ _ _ ?_
    dsimp only
    split
    · exact WfB.specify _ _ _ (WfB.ret _ (by intro c h; cases h; exact Nat.le_refl _))
    · exact WfB.ret _ (by intro c h; cases h; exact Nat.le_refl _)
  | 1 => exact WfB.spec 0 _ (by decide) (fun n => WfB.ret _ (by intro c h; cases h))
  | n + 2 => exact WfB.ret _ (by intro c h; cases h)

/-- The model-level twin of the recorded known finding kf3 (`specify-over-never-change-computed`,
    /verif/corpus/C10/kf3-specify-over-never-change.ops, which real salsa reproduces: 2 instead
    of 3).  `PW1` (Proofs/CoreSpecRevWitness.lean): the creator makes its struct BEFORE reading the
    flag input, so the struct and the computed `spec` memo are NEVER_CHANGE and the reader records
    no edge on `spec`; when the creator starts specifying 3 in the next revision the reader keeps
    the computed 2.  The full property is FALSE of both model and implementation at this point;
    the well-formedness `Wf2` of `c10_sound` (`specify` directly after `create`, all reads the
    decision depends on before the `create`) excludes exactly it. -/
theorem c10_never_change_witness :
    Wf PW1 ∧ (run PW1 inpW [.get 1, .set 0 1 none, .get 1]).panic = none ∧
    outputs PW1 (init inpW) [.get 1, .set 0 1 none, .get 1] = [⟨2, none⟩, ⟨2, none⟩] ∧
    refOutputs PW1 (fun i => ((inpW i).val, (inpW i).dur)) [.get 1, .set 0 1 none, .get 1] =
      [⟨2, none⟩, ⟨3, none⟩] :=
  ⟨wf_PW1, by decide⟩

/-- A reader that names a struct without having received its handle from a query (`PW2`: node 1
    reads `spec(struct of 0)` directly; violates assumption A1 of the model, not expressible in
    real salsa or in the line protocol): it has no edge to the creator, so when the creator starts
    specifying, the computed value is re-validated and returned.  `Wf2` excludes it (handles are
    used only after they were received). -/
theorem c10_unreceived_handle_witness :
    Wf PW2 ∧ (run PW2 inpW [.get 0, .get 1, .set 0 1 none, .get 1]).panic = none ∧
    outputs PW2 (init inpW) [.get 0, .get 1, .set 0 1 none, .get 1] =
      [⟨1, some 0⟩, ⟨0, none⟩, ⟨0, none⟩] ∧
    refOutputs PW2 (fun i => ((inpW i).val, (inpW i).dur)) [.get 0, .get 1, .set 0 1 none, .get 1] =
      [⟨1, some 0⟩, ⟨0, none⟩, ⟨3, none⟩] :=
  ⟨wf_PW2, by decide⟩

/-- The third witness (one identity per creator).  Line protocol
      `prog 2 1 / q 0 plain ? i0 mk c1 c0 c0 c0 mk c0 c0 c0 c0 / q 1 plain tk q0`,
      `get 1; set 0 1 k; get 1`:
    the creator picks the identity of its struct by an input.  The program passes the OLD check
    `wfOwnFree` (so it is `Wf`, `c10_wf_of_check`), fails `wfCheck2`, runs without panic; the MODEL
    keeps the identity field of the struct it updates (0), the reference semantics — and real
    salsa, where a changed identity field hashes to a new id — return the new identity 1. -/
theorem c10_identity_change_witness :
    wfOwnFree 0 [.ite (.inp 0) (.mk 1 (.const 0) (.const 0) (.const 0)) (.mk 0 (.const 0) (.const 0) (.const 0)),
                 .tk (.qry 0)] = true ∧
    wfCheck2 (idOfList [.ite (.inp 0) (.mk 1 (.const 0) (.const 0) (.const 0)) (.mk 0 (.const 0) (.const 0) (.const 0)),
                 .tk (.qry 0)]) 0
      [.ite (.inp 0) (.mk 1 (.const 0) (.const 0) (.const 0)) (.mk 0 (.const 0) (.const 0) (.const 0)),
       .tk (.qry 0)] = false ∧
    (run (progOf [.ite (.inp 0) (.mk 1 (.const 0) (.const 0) (.const 0)) (.mk 0 (.const 0) (.const 0) (.const 0)),
                  .tk (.qry 0)] (.const 0)) inpW [.get 1, .set 0 1 none, .get 1]).panic = none ∧
    outputs (progOf [.ite (.inp 0) (.mk 1 (.const 0) (.const 0) (.const 0)) (.mk 0 (.const 0) (.const 0) (.const 0)),
                  .tk (.qry 0)] (.const 0)) (init inpW) [.get 1, .set 0 1 none, .get 1] =
      [⟨0, none⟩, ⟨0, none⟩] ∧
    refOutputs (progOf [.ite (.inp 0) (.mk 1 (.const 0) (.const 0) (.const 0)) (.mk 0 (.const 0) (.const 0) (.const 0)),
                  .tk (.qry 0)] (.const 0)) (fun i => ((inpW i).val, (inpW i).dur))
        [.get 1, .set 0 1 none, .get 1] =
      [⟨0, none⟩, ⟨1, none⟩] := by decide

/-- … and no identity function makes it pass: the two `mk` of the creator differ in the identity -/
theorem c10_identity_change_rejected (idOf : Nat → Nat) :
    wfCheck2 idOf 0 [.ite (.inp 0) (.mk 1 (.const 0) (.const 0) (.const 0)) (.mk 0 (.const 0) (.const 0) (.const 0)),
                     .tk (.qry 0)] = false := by
  simp [wfCheck2, Expr.idsOk, Expr.callsBelow, Expr.ownFree]
  omega

/-! ### the integrated claim for histories with writes (multi-revision soundness) -/

/-- SOUNDNESS across revisions.  For a program that is well-formed (`Wf2`), every request of a
    panic-free history — requests, input writes (with or without a change of durability),
    synthetic writes, in any order — on a fresh database returns the from-scratch value of the
    reference semantics under the inputs current at that moment: in particular the value the
    creator's from-scratch run specifies for `spec(struct)`, else the body of `spec`. -/
theorem c10_sound (P : Prog) (idOf : Nat → Nat) (hP : Wf2 P idOf) (inp : Nat → Inp) (ops : List Op)
    (hnp : (run P inp ops).panic = none) :
    outputs P (init inp) ops = refOutputs P (fun i => ((inp i).val, (inp i).dur)) ops :=
  rev_sound hP inp ops hnp

/-- programs of the line-protocol language that pass the Boolean check `wfCheck2` (the old check
    `wfOwnFree` plus: every `mk` of query `r` uses the identity `idOfList es r`) are `Wf2` -/
theorem c10_wf2_of_check (es : List Expr) (sb : SExpr) (h : wfCheck2 (idOfList es) 0 es = true) :
    Wf2 (progOf es sb) (idOfList es) :=
  wf2_progOf_list es sb h

/-- non-vacuity of `c10_sound` / `c10_wf2_of_check`: `PA` passes the check; the 3-revision history
    of the property (flag 0 / 1 / 0) runs without panic; model = reference = [2, 3, 2] -/
example : Wf2 PA (idOfList esA) := c10_wf2_of_check esA (.inp 3) (by decide)
example : (run PA inpA [.set 1 0 none, .get 1, .set 1 1 none, .get 1, .set 1 0 none, .get 1]).panic = none := by
  decide
example : outputs PA (init inpA) [.set 1 0 none, .get 1, .set 1 1 none, .get 1, .set 1 0 none, .get 1] =
      [⟨2, none⟩, ⟨3, none⟩, ⟨2, none⟩] ∧
    refOutputs PA (fun i => ((inpA i).val, (inpA i).dur))
      [.set 1 0 none, .get 1, .set 1 1 none, .get 1, .set 1 0 none, .get 1] = [⟨2, none⟩, ⟨3, none⟩, ⟨2, none⟩] := by
  decide
/-- … and `c10_sound` applied to it -/
example : outputs PA (init inpA) [.set 1 0 none, .get 1, .set 1 1 none, .get 1, .set 1 0 none, .get 1] =
    refOutputs PA (fun i => ((inpA i).val, (inpA i).dur))
      [.set 1 0 none, .get 1, .set 1 1 none, .get 1, .set 1 0 none, .get 1] :=
  c10_sound PA (idOfList esA) (c10_wf2_of_check esA (.inp 3) (by decide)) inpA _ (by decide)

/-- The per-request form: after ANY panic-free history, a request that does not panic returns the
    from-scratch value under the current inputs. -/
theorem c10_sound_request (P : Prog) (idOf : Nat → Nat) (hP : Wf2 P idOf) (inp : Nat → Inp) (ops : List Op)
    (q : Nat) (hnp : (run P inp ops).panic = none) (hq : (getOp P (run P inp ops) q).1.panic = none) :
    (getOp P (run P inp ops) q).2 = sem P (run P inp ops).inp q :=
  rev_request hP inp ops q hnp hq

/-- non-vacuity: a request of the reader after the 3-revision history -/
example : (getOp PA (run PA inpA [.set 1 0 none, .get 1, .set 1 1 none, .get 1, .set 1 0 none, .get 1]) 1).1.panic
    = none := by decide

/-- Order independence across revisions: two histories with the same writes (`writesOf`: the `set`
    and `synth` operations in order) — whatever requests were made in between, creator first or
    `spec` first, in whichever revisions — leave the database in a state where a request returns
    the same value. -/
theorem c10_order_independent_rev (P : Prog) (idOf : Nat → Nat) (hP : Wf2 P idOf) (inp : Nat → Inp)
    (ops1 ops2 : List Op) (q : Nat) (hw : writesOf ops1 = writesOf ops2)
    (h1 : (run P inp ops1).panic = none) (h2 : (run P inp ops2).panic = none)
    (hq1 : (getOp P (run P inp ops1) q).1.panic = none) (hq2 : (getOp P (run P inp ops2) q).1.panic = none) :
    (getOp P (run P inp ops1) q).2 = (getOp P (run P inp ops2) q).2 :=
  rev_request_congr hP inp ops1 ops2 q hw h1 h2 hq1 hq2

/-- non-vacuity: the reader asked in every revision vs. only the creator asked once: same writes,
    both histories and both final requests run without panic (and return 2) -/
example : writesOf [.set 1 0 none, .get 1, .set 1 1 none, .get 1, .set 1 0 none, .get 1] =
    writesOf [.set 1 0 none, .set 1 1 none, .get 0, .set 1 0 none] := rfl
example : (run PA inpA [.set 1 0 none, .set 1 1 none, .get 0, .set 1 0 none]).panic = none ∧
    (getOp PA (run PA inpA [.set 1 0 none, .set 1 1 none, .get 0, .set 1 0 none]) 1).1.panic = none ∧
    (getOp PA (run PA inpA [.set 1 0 none, .set 1 1 none, .get 0, .set 1 0 none]) 1).2 = ⟨2, none⟩ ∧
    (getOp PA (run PA inpA [.set 1 0 none, .get 1, .set 1 1 none, .get 1, .set 1 0 none, .get 1]) 1).2 = ⟨2, none⟩ := by
  decide

/-- A creator that stops specifying: when, under the current inputs, the creator's from-scratch
    run creates the struct `(k, v)` and does not specify, the meaning of `spec(struct)` — which by
    `c10_sound` / `c10_sound_request` is what every panic-free request gets, however often the
    creator specified in earlier revisions — is the body of `spec` on the struct's fields. -/
theorem c10_stops_specifying (P : Prog) (env : Nat → Inp) (c k v : Nat)
    (hsp : (semRes P env c).sp = none) (hts : (semRes P env c).ts = some (k, v)) :
    semSpec P env c = specBodyVal P env k v := by
  simp only [semSpec, specVal, hsp, hts]

/-- the instance on `PA`: after flag 0 / 1 / 0 the creator creates `(0, 0)` and does not specify;
    `spec(struct)` = the body's value `i3 = 2`, and that is what the reader (`q1 = sp q0`) is
    answered: the creator's re-execution left the stale `Assigned` memo alone, the request found it
    "changed" and ran the body (the events are in the example of part (a)) -/
example : (semRes PA (run PA inpA [.set 1 0 none, .get 1, .set 1 1 none, .get 1, .set 1 0 none, .get 1]).inp 0).sp = none ∧
    (semRes PA (run PA inpA [.set 1 0 none, .get 1, .set 1 1 none, .get 1, .set 1 0 none, .get 1]).inp 0).ts = some (0, 0) ∧
    specBodyVal PA (run PA inpA [.set 1 0 none, .get 1, .set 1 1 none, .get 1, .set 1 0 none, .get 1]).inp 0 0 = ⟨2, none⟩ ∧
    sem PA (run PA inpA [.set 1 0 none, .get 1, .set 1 1 none, .get 1, .set 1 0 none, .get 1]).inp 1 = ⟨2, none⟩ := by
  decide

end SalsaVerif.Props.C10
