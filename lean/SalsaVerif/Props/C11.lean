/-
  C11 — accumulated values.

  "For any history, `f::accumulated::<A>(db, k)` returns exactly the values pushed during the
  current-revision semantics of f(k) and of every tracked function it transitively calls, each
  called function contributing its values once, in depth-first execution order; the result is the
  same whether the involved memos were reused, shallowly or deeply verified, backdated, or
  recomputed."

  Model: SalsaVerif/Model/CoreAcc.lean = the stage-S2 engine `Core` (src/function/{fetch,
  maybe_changed_after,execute,backdate,memo}.rs, src/runtime.rs, src/input.rs,
  src/active_query.rs) + accumulators (src/function/accumulated.rs, src/accumulator.rs,
  src/accumulator/accumulated_map.rs, the accumulator parts of `add_read`,
  `deep_verify_edges`, `unchanged_for_memo`, `report_tracked_read`,
  `discard_edges_if_never_change`).  One accumulator type; plain memoised functions over inputs with
  dynamic dependencies and arbitrary durabilities (no eviction, no untracked reads, no cycles:
  fixpoint cycles with accumulators are rejected by salsa).  Tied to the implementation by exact
  comparison of values, accumulated lists and event streams (`svdriver coreacc` ⇄ `vh seq`).

  Programs `P : Nat → Body` are arbitrary well-formed (`Wf`: query `q` calls only queries `< q`)
  resumption programs whose nodes are database reads and `push v`; histories `ops : List Op` are
  arbitrary lists of `get q`, `acc q` (= `q::accumulated`), `set i v (some d | none)` and `synth d`
  with arbitrary durabilities.  `run P inp ops` is the state after the history from a fresh
  database with inputs `inp`.  `refAcc P inp q` is the reference: preorder of the from-scratch call
  tree over the input values `inp` — own pushes (in push order) first, then the callees in
  first-call order, every function contributing at its first visit only; it has no memos, no
  revisions, no flags.

  `Wf P` is a `Prop` over functions; for line-protocol programs (`progOf es`) it follows from the
  decidable check `wfList 0 es = true` (`c11_equals_fresh_prog`).

  `accumulatedBy` is the search written by structural recursion on the call rank; `accLoop` /
  `accumulatedByStack` is the explicit-stack `while let Some(k) = stack.pop()` loop of
  accumulated.rs with fuel, and `c11_stack_agrees` shows that with enough fuel it returns the same
  state (hence the same events) and the same list.

  All statements of DESIGN.md §C11 are proved for this model.  NOT YET PROVED: nothing of C11 for
  stage S2; the lift to the stage-S3/S4 engine (eviction, `no_eq`, untracked reads, tracked structs,
  specify, interning) is not done.
-/
import SalsaVerif.Model.CoreAcc
import SalsaVerif.Proofs.CoreAccRef
import SalsaVerif.Proofs.CoreAccStack

namespace SalsaVerif.Props.C11
open SalsaVerif.Model.CoreAcc SalsaVerif.Proofs.CoreAcc

/-! ### example used for the non-vacuity checks

  q0 = pu i2                      depth 3, reads only the HIGH input i2
  q1 = min 0 (q0 + pu i1)         depth 2, pushes i1, its value is always 0 (⇒ backdated)
  q2 = if i0 odd then pu 1 + q1   depth 1, push and call under an input-controlled branch
       else 2
  q3 = q2 + q1                    depth 0, calls q1 a second time (visited set) -/
def exProg : List Expr :=
  [ .pu (.inp 2),
    .min (.const 0) (.add (.qry 0) (.pu (.inp 1))),
    .ite (.inp 0) (.add (.pu (.const 1)) (.qry 1)) (.const 2),
    .add (.qry 2) (.qry 1) ]
def exInp : Nat → Inp := fun i => if i = 0 then ⟨1, 1, 0⟩ else if i = 1 then ⟨5, 1, 0⟩ else ⟨7, 1, 2⟩

/-- the events of one `accumulated` request on the state reached by `ops` -/
def exEvents (ops : List Op) (q : Nat) : List Ev :=
  (accumulatedBy (progOf exProg) { run (progOf exProg) exInp ops with trace := [] } q).1.trace

example : wfList 0 exProg = true := by decide

/-! ### the flag clause -/

/-- **`accumulated_inputs = Empty` is sound.**  In a state satisfying the engine invariant, if the
    memo of `q` passes the shallow test (in particular: is verified in the current revision) and
    its `accumulated_inputs` flag is `Empty`, then no key reachable from `q` through recorded edges
    has accumulated values (so skipping the sub-graph loses nothing) — and each of them passes the
    shallow test and has an `Empty` flag itself. -/
theorem c11_flag_sound {P : Nat → Body} {s : State} (hI : Inv P s) (q : Nat) (m : Memo)
    (hm : s.memos q = some m) (hv : m.va = s.cur ∨ lc s m.dur ≤ m.va) (hf : m.accIn = false)
    (k : Nat) (hk : EdgeReach s q k) :
    ∃ mk, s.memos k = some mk ∧ mk.acc = [] ∧ mk.accIn = false ∧ (mk.va = s.cur ∨ lc s mk.dur ≤ mk.va) := by
  obtain ⟨mk, a, b, c, d⟩ := flag_sound hI hk.reach m hm hv hf
  exact ⟨mk, a, c, d, b⟩

/-- the same for every key reachable through reads, recorded or not (unrecorded reads are of
    NEVER_CHANGE dependencies without accumulated values) -/
theorem c11_flag_sound_reads {P : Nat → Body} {s : State} (hI : Inv P s) (q : Nat) (m : Memo)
    (hm : s.memos q = some m) (hv : m.va = s.cur ∨ lc s m.dur ≤ m.va) (hf : m.accIn = false)
    (k : Nat) (hk : Reach s q k) :
    ∃ mk, s.memos k = some mk ∧ mk.acc = [] ∧ mk.accIn = false := by
  obtain ⟨mk, a, _, c, d⟩ := flag_sound hI hk m hm hv hf
  exact ⟨mk, a, c, d⟩

/-- … and on every reachable state (the invariant holds after every history). -/
theorem c11_flag_sound_history {P : Nat → Body} (hP : Wf P) (inp : Nat → Inp) (ops : List Op)
    (q : Nat) (m : Memo) (hm : (run P inp ops).memos q = some m) (hv : m.va = (run P inp ops).cur)
    (hf : m.accIn = false) (k : Nat) (hk : EdgeReach (run P inp ops) q k) :
    ∃ mk, (run P inp ops).memos k = some mk ∧ mk.acc = [] :=
  let ⟨mk, a, b, _⟩ := c11_flag_sound (run_inv hP inp ops) q m hm (Or.inl hv) hf k hk
  ⟨mk, a, b⟩

/-- an unrecorded read is of a dependency without accumulated values and with an `Empty` flag
    (`add_read` records the edge to a NEVER_CHANGE dependency when it has any) -/
theorem c11_unrecorded_no_acc {P : Nat → Body} (hP : Wf P) (inp : Nat → Inp) (ops : List Op)
    (q : Nat) (m : Memo) (hm : (run P inp ops).memos q = some m) (o : Obs) (ho : o ∈ m.obs)
    (hr : o.recd = false) (k : Nat) (hd : o.dep = .qry k) :
    ∃ mk, (run P inp ops).memos k = some mk ∧ mk.acc = [] ∧ mk.accIn = false := by
  have ok := (run_inv hP inp ops).memo q m hm
  obtain ⟨_, mk, hmk, _⟩ := ok.i5 o k ho hd
  have := ok.a3 o ho hr mk.res (by rw [hd]; simp [depInfo, hmk])
  exact ⟨mk, hmk, hasAcc_false.mp this.1, this.2⟩

-- the hypotheses are satisfiable: with i0 even, q2 = 2 neither pushes nor calls an accumulating
-- function; after `acc 3` its memo is verified now with an `Empty` flag, while q3's flag is `Any`
example : ∃ m, (run (progOf exProg) exInp [.set 0 2 none, .acc 3]).memos 2 = some m ∧
    m.va = (run (progOf exProg) exInp [.set 0 2 none, .acc 3]).cur ∧ m.accIn = false :=
  ⟨_, rfl, by decide, by decide⟩
example : ∃ m, (run (progOf exProg) exInp [.set 0 2 none, .acc 3]).memos 3 = some m ∧ m.accIn = true :=
  ⟨_, rfl, by decide⟩

/-! ### `accumulated` = the from-scratch preorder -/

/-- **C11.**  After any history, `accumulated_by` returns the reference preorder over the current
    input values: the values pushed by the from-scratch evaluation of `q` and of every function it
    transitively calls, each function once (first visit), own pushes first, callees in
    first-call order. -/
theorem c11_equals_fresh {P : Nat → Body} (hP : Wf P) (inp : Nat → Inp) (ops : List Op) (q : Nat) :
    (accumulatedBy P (run P inp ops) q).2 = refAcc P (run P inp ops).inp q :=
  (accumulatedBy_sound hP _ q (run_inv hP inp ops)).2.1

/-- The same for every `acc` (and `get`) inside the history: the list of answers equals the
    answers of the from-scratch oracle `refOutputs`, which keeps only value and durability per
    input (the durability decides whether a write is rejected). -/
theorem c11_equals_fresh_history {P : Nat → Body} (hP : Wf P) (inp : Nat → Inp) (ops : List Op) :
    outputs P (init inp) ops = refOutputs P (envOf inp) ops := by
  rw [outputs_ref hP ops (init inp) (init_inv P inp)]
  rfl

/-- Line-protocol programs: the hypothesis is the decidable check `wfList 0 es`. -/
theorem c11_equals_fresh_prog (es : List Expr) (h : wfList 0 es = true) (inp : Nat → Inp) (ops : List Op) :
    outputs (progOf es) (init inp) ops = refOutputs (progOf es) (envOf inp) ops :=
  c11_equals_fresh_history (wf_progOf es h) inp ops

/-- **The explicit stack.**  The loop of accumulated.rs (`accLoop`: pop, visited test,
    `refresh_memo`, extend the output, push the recorded edges so that the first one is popped first)
    terminates after finitely many pops and then returns exactly the state (events included) and
    the list of `accumulatedBy`. -/
theorem c11_stack_agrees {P : Nat → Body} (hP : Wf P) (inp : Nat → Inp) (ops : List Op) (q : Nat) :
    ∃ n, ∀ fuel, n ≤ fuel →
      accumulatedByStack P fuel (run P inp ops) q = some (accumulatedBy P (run P inp ops) q) :=
  accumulatedByStack_eq hP _ q (run_inv hP inp ops)

/-- hence the explicit-stack search returns the reference preorder too -/
theorem c11_equals_fresh_stack {P : Nat → Body} (hP : Wf P) (inp : Nat → Inp) (ops : List Op) (q : Nat) :
    ∃ n, ∀ fuel, n ≤ fuel →
      (accumulatedByStack P fuel (run P inp ops) q).map (·.2) = some (refAcc P (run P inp ops).inp q) := by
  obtain ⟨n, h⟩ := c11_stack_agrees hP inp ops q
  refine ⟨n, fun fuel hf => ?_⟩
  rw [h fuel hf, Option.map_some, c11_equals_fresh hP]

/-- **Independence of the memo state.**  Two histories (of the same program) that end with the
    same input values give the same accumulated list, whatever happened to the memos on the way
    (reused, shallowly or deeply verified, backdated, recomputed, never computed). -/
theorem c11_history_independent {P : Nat → Body} (hP : Wf P) (inp inp' : Nat → Inp) (ops ops' : List Op)
    (h : ∀ i, ((run P inp ops).inp i).val = ((run P inp' ops').inp i).val) (q : Nat) :
    (accumulatedBy P (run P inp ops) q).2 = (accumulatedBy P (run P inp' ops') q).2 := by
  rw [c11_equals_fresh hP, c11_equals_fresh hP]
  exact refAcc_ext P _ _ h q

/-- `accumulated` is a read: it changes neither the revision nor any input (nor `last_changed`),
    and asking twice gives the same list. -/
theorem c11_acc_is_read {P : Nat → Body} (hP : Wf P) (inp : Nat → Inp) (ops : List Op) (q : Nat) :
    (accumulatedBy P (run P inp ops) q).1.cur = (run P inp ops).cur ∧
    (accumulatedBy P (run P inp ops) q).1.inp = (run P inp ops).inp ∧
    (accumulatedBy P (run P inp ops) q).1.lch = (run P inp ops).lch ∧
    (accumulatedBy P (accumulatedBy P (run P inp ops) q).1 q).2 = (accumulatedBy P (run P inp ops) q).2 := by
  obtain ⟨a1, a2, a3, a4, a5⟩ := accumulatedBy_sound hP _ q (run_inv hP inp ops)
  refine ⟨a3, a4, a5, ?_⟩
  rw [(accumulatedBy_sound hP _ q a1).2.1, a4, a2]

/-- **The values are still sound** (C02 for the engine with accumulators): after any history,
    including `accumulated` requests, every request returns the from-scratch value. -/
theorem c11_values_still_sound {P : Nat → Body} (hP : Wf P) (inp : Nat → Inp) (ops : List Op) (q : Nat) :
    (fetch P (run P inp ops) q).2.val = sem P (run P inp ops).inp q :=
  c02_s2 hP inp ops q

/-- and the durability shortcut stays sound: a memo that passes the shallow test holds the
    from-scratch value and the from-scratch pushes -/
theorem c11_shortcut_sound {P : Nat → Body} (hP : Wf P) (inp : Nat → Inp) (ops : List Op)
    (q : Nat) (m : Memo) (hm : (run P inp ops).memos q = some m)
    (hs : lc (run P inp ops) m.dur ≤ m.va) :
    m.value = sem P (run P inp ops).inp q ∧ m.acc = pushesOf P (run P inp ops).inp q :=
  ⟨fresh_of_sok hP (run_inv hP inp ops) q m hm (Or.inr hs),
   acc_of_sok hP (run_inv hP inp ops) hm (Or.inr hs)⟩

/-! ### non-vacuity: pushes at depth 1–3 under an input-controlled branch; an accumulating function
    is backdated, another is only shallow-verified -/

-- fresh database: everything executes; q1 is reached through q2 first, and contributes once
example : (accumulatedBy (progOf exProg) (run (progOf exProg) exInp []) 3).2 = [1, 5, 7] := by decide
example : exEvents [] 3 = [.exec 3, .exec 2, .exec 1, .exec 0] := by decide

-- after the LOW write `i1 := 6`: q0 (HIGH) is only shallow-verified, q1 re-executes, pushes 6 instead
-- of 5 and is BACKDATED (its value 0 did not change), so q2 and q3 are deep-verified and reused —
-- and the accumulated list is the fresh one
example : (accumulatedBy (progOf exProg) (run (progOf exProg) exInp [.acc 3, .set 1 6 none]) 3).2 = [1, 6, 7] := by
  decide
example : exEvents [.acc 3, .set 1 6 none] 3 = [.valid 0, .exec 1, .valid 2, .valid 3] := by decide
example : ∃ m, (run (progOf exProg) exInp [.acc 3, .set 1 6 none, .acc 3]).memos 1 = some m ∧
    m.va = 2 ∧ m.ca = 1 ∧ m.acc = [6] :=
  ⟨_, rfl, by decide, by decide, by decide⟩
example : refAcc (progOf exProg) (run (progOf exProg) exInp [.acc 3, .set 1 6 none]).inp 3 = [1, 6, 7] := by decide

-- the branch flips (`i0 := 2`): q2 no longer pushes nor calls q1; q1 is now reached from q3
example : outputs (progOf exProg) (init exInp)
    [.acc 3, .set 1 6 none, .acc 3, .set 0 2 none, .acc 3, .get 3, .acc 1]
    = [.acc [1, 5, 7], .acc [1, 6, 7], .acc [6, 7], .val 2, .acc [6, 7]] := by decide

-- the explicit-stack loop on the same state: 7 pops (q3, q2, i0, q1, q0 [flag `Empty`: its edge i2 is
-- not pushed], i1, q1 again [visited: skipped]) and the final test of the empty stack; with less fuel `none`
example : (accumulatedByStack (progOf exProg) 8 (run (progOf exProg) exInp [.acc 3, .set 1 6 none]) 3).map (·.2)
    = some [1, 6, 7] := by decide
example : accumulatedByStack (progOf exProg) 7 (run (progOf exProg) exInp [.acc 3, .set 1 6 none]) 3 = none := by
  decide

-- `accumulated` directly after a write of the HIGH input: the search itself refreshes the memos
example : (accumulatedBy (progOf exProg) (run (progOf exProg) exInp [.acc 3, .set 2 4 none]) 3).2 = [1, 5, 4] := by
  decide

-- two different histories with the same final input values (hypothesis of `c11_history_independent`):
-- in the first q1 is executed before the write and backdated after it, in the second it is executed once
example : ∀ i, ((run (progOf exProg) exInp [.acc 3, .set 1 6 none]).inp i).val =
    ((run (progOf exProg) exInp [.set 1 6 none, .get 3]).inp i).val := by
  have hP := wf_progOf exProg (by decide)
  have e1 := (accumulatedBy_sound hP (init exInp) 3 (init_inv _ _)).2.2.2.1
  have hI1 : Inv (progOf exProg) (write (init exInp) 1 6 none) := by
    obtain ⟨b, hb⟩ := write_bump (init exInp) 1 6 none; exact bump_inv hb (init_inv _ _)
  have e2 := (fetch_sound hP (write (init exInp) 1 6 none) 3 hI1).2.2.2
  have hd : ¬ ((init exInp).inp 1).dur ≥ 3 := by decide
  intro i
  simp only [run, List.foldl_cons, List.foldl_nil, step]
  rw [e2]
  simp only [write, e1, hd, if_false]
  by_cases h : i = 1 <;> simp [h]

end SalsaVerif.Props.C11
