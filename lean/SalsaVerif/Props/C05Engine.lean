/-
  C05 (engine part) — LRU eviction inside the engine.  (The policy alone is Props/C05.lean.)

  Model: SalsaVerif/Model/Core3.lean: `evictValue` = `evict_value_from_memo_for`, `evictLru` =
  `reset_for_new_revision` (runs at every revision bump and on `evict`), `recordUseFor` =
  `eviction.record_use(id)` in `fetch`, `mcaStep` = `maybe_changed_after` (an evicted memo that
  fails verification answers "changed" without executing).

  PROVED (any state, any program — no invariant needed): `c05_keeps_edges`,
  `c05_no_exec_in_mca`, `c05_evict_frame`.

  PROVED (stage S3b: the engine invariant with evicted values, Proofs/Core3Evict*.lean — the
  invariant `InvE` does not mention the LRU policy: ANY tracked value may disappear at any time;
  clauses: observer clause `iv` (value kept or a relevant write below the stamp), KA/KB with the
  semantic `deepAt`, M4):
    c05_sound       : Wf P → ∀ inp cells cap ops q,
        (fetch P (run P inp cells cap ops) q).2.val = sem P (run …).inp (run …).cells q
      (every request returns the from-scratch value, for programs WITH `lru` kinds, histories with
      `lruCap` / `evict`; = `c01_s3`)
    c05_transparent : Wf P → ∀ inp cells cap ops,
        outputs P (init inp cells cap) ops = outputs P (init inp cells cap) (dropLru ops)
      where `dropLru` erases `lruCap` / `evict`; `c05_transparent_cap`: the declared capacity does
      not matter either; `c05_transparent_inv`: from any two states satisfying the invariant with
      the same inputs, cells and revision.
  `c05_bound` was false on the unchanged tree (DESIGN.md §C05); with the repair of
  `maybe_changed_after_cold` (`record_use` after the re-execution, mirrored in `mcaStep`) it is
  PROVED below for histories that never set the capacity to 0 (`c05_cover`, `c05_bound`).
  PROVED ELSEWHERE (Props/C05Bound.lean) for ALL histories, capacity-0 phases included: the same
  with `Cached` restricted to the ghost set of keys requested since the capacity last became
  non-zero (`c05_cover_req`, `c05_bound_req`); the unrestricted bound is false across such a phase
  (`c05_bound_unrestricted_false`).
  Kept from the earlier stage: `c05_transparent_noLru_partial` (programs without `lru` kinds, S3a
  invariant).
-/
import SalsaVerif.Model.Core3
import SalsaVerif.Proofs.Core3Top
import SalsaVerif.Proofs.Core3Trace
import SalsaVerif.Proofs.Core3Lru
import SalsaVerif.Proofs.Core3EvictSound

namespace SalsaVerif.Props.C05Engine
open SalsaVerif.Model.Core3 SalsaVerif.Proofs.Core3

/-- **Eviction only clears the value.**  After `reset_for_new_revision` every memo is still there
    with the same `verified_at`, `changed_at`, durability, origin and edges; the value is either
    kept or — only for a fully tracked memo — `none`. -/
theorem c05_keeps_edges (s : State) (q : Nat) (m : Memo) (hm : s.memos q = some m) :
    (evictLru s).memos q = some m ∨
    (m.untracked = false ∧ (evictLru s).memos q = some { m with value := none }) :=
  evictLru_memos s q m hm

/-- a single eviction callback -/
theorem c05_evictValue (s : State) (q : Nat) (m : Memo) (hm : s.memos q = some m) (hu : m.untracked = false) :
    (evictValue s q).memos q = some { m with value := none } := by
  simp [evictValue, hm, hu, setMemo]

/-- eviction touches nothing else: revision, `last_changed`, inputs, cells, events -/
theorem c05_evict_frame (s : State) :
    (evictLru s).cur = s.cur ∧ (evictLru s).inp = s.inp ∧ (evictLru s).cells = s.cells ∧
    (evictLru s).lch = s.lch ∧ (evictLru s).trace = s.trace := by
  have h : ∀ (l : List Nat) (t : State), (l.foldl evictValue t).cur = t.cur ∧ (l.foldl evictValue t).inp = t.inp ∧
      (l.foldl evictValue t).cells = t.cells ∧ (l.foldl evictValue t).lch = t.lch ∧
      (l.foldl evictValue t).trace = t.trace := by
    intro l
    induction l with
    | nil => intro t; exact ⟨rfl, rfl, rfl, rfl, rfl⟩
    | cons a rest ih =>
      intro t
      obtain ⟨a1, a2, a3, a4, a5, _⟩ := evictValue_other t a
      obtain ⟨b1, b2, b3, b4, b5⟩ := ih (evictValue t a)
      exact ⟨b1.trans a1, b2.trans a2, b3.trans a3, b4.trans a4, b5.trans a5⟩
  exact h _ _

/-- **`maybe_changed_after` never executes an evicted memo**: whatever it does (hot hit, shallow or
    deep verification of the edges — which may execute dependencies — or the answer "changed"),
    `exec q` is not among the events. -/
theorem c05_no_exec_in_mca (P : Prog) (s : State) (q rev : Nat) (m : Memo) (hm : s.memos q = some m)
    (hv : m.value = none) :
    ∃ new, ((eng P (q + 1)).2 s q rev).1.trace = s.trace ++ new ∧ .exec q ∉ new :=
  mca_evicted_no_exec P s q rev m hm hv

/-- erase the LRU operations of a history -/
def dropLru : List Op → List Op
  | [] => []
  | .lruCap _ :: ops => dropLru ops
  | .evict :: ops => dropLru ops
  | op :: ops => op :: dropLru ops

/-- **Transparency, for programs without `lru` kinds**: the answers of a history equal the answers
    of the history with the LRU operations erased. -/
theorem c05_transparent_noLru_partial {P : Prog} (hP : Wf P) (hK : NoLru P) :
    ∀ (ops : List Op) (s t : State), Inv P s → Inv P t → s.inp = t.inp → s.cells = t.cells →
      s.cur = t.cur → outputs P s ops = outputs P t (dropLru ops) := by
  intro ops
  induction ops with
  | nil => intro s t _ _ _ _ _; rfl
  | cons op rest ih =>
    intro s t hs ht hi hc hr
    have hw : ∀ (s t : State) i v nd, s.lru.set = [] → t.lru.set = [] → s.inp = t.inp → s.cur = t.cur →
        (write s i v nd).inp = (write t i v nd).inp ∧ (write s i v nd).cur = (write t i v nd).cur ∧
        (write s i v nd).cells = s.cells ∧ (write t i v nd).cells = t.cells := by
      intro s t i v nd h1 h2 hi hr
      simp only [write, bumpRev_eq s h1, bumpRev_eq t h2, hi, hr]
      split <;> exact ⟨rfl, rfl, rfl, rfl⟩
    have hsy : ∀ (s t : State) d, s.lru.set = [] → t.lru.set = [] → s.inp = t.inp → s.cur = t.cur →
        (synth s d).inp = (synth t d).inp ∧ (synth s d).cur = (synth t d).cur ∧
        (synth s d).cells = s.cells ∧ (synth t d).cells = t.cells := by
      intro s t d h1 h2 hi hr
      simp only [synth, bumpRev_eq s h1, bumpRev_eq t h2, hr]
      split <;> exact ⟨hi, rfl, rfl, rfl⟩
    cases op with
    | get q =>
      obtain ⟨a1, a2, a3, a4, a5⟩ := fetch_sound hP hK s q hs
      obtain ⟨b1, b2, b3, b4, b5⟩ := fetch_sound hP hK t q ht
      simp only [outputs, dropLru]
      rw [a2, b2, hi, hc, ih _ _ a1 b1 (by rw [a4, b4, hi]) (by rw [a5, b5, hc]) (by rw [a3, b3, hr])]
    | lruCap n =>
      simp only [outputs, dropLru]
      exact ih _ _ (step_inv hP hK s (.lruCap n) hs) ht hi hc hr
    | evict =>
      simp only [outputs, dropLru]
      obtain ⟨e1, e2, e3, _⟩ := c05_evict_frame s
      exact ih _ _ (step_inv hP hK s .evict hs) ht (by simp only [step]; rw [e2]; exact hi)
        (by simp only [step]; rw [e3]; exact hc) (by simp only [step]; rw [e1]; exact hr)
    | set i v nd =>
      simp only [outputs, dropLru]
      obtain ⟨w1, w2, w3, w4⟩ := hw s t i v nd hs.lruempty ht.lruempty hi hr
      exact ih _ _ (step_inv hP hK s (.set i v nd) hs) (step_inv hP hK t (.set i v nd) ht) w1
        (by simp only [step]; rw [w3, w4]; exact hc) w2
    | synth d =>
      simp only [outputs, dropLru]
      obtain ⟨w1, w2, w3, w4⟩ := hsy s t d hs.lruempty ht.lruempty hi hr
      exact ih _ _ (step_inv hP hK s (.synth d) hs) (step_inv hP hK t (.synth d) ht) w1
        (by simp only [step]; rw [w3, w4]; exact hc) w2
    | cellSynth c v d =>
      simp only [outputs, dropLru]
      obtain ⟨w1, w2, w3, w4⟩ := hsy (setCell s c v) (setCell t c v) d hs.lruempty ht.lruempty hi hr
      exact ih _ _ (step_inv hP hK s (.cellSynth c v d) hs) (step_inv hP hK t (.cellSynth c v d) ht) w1
        (by simp only [step]; rw [w3, w4]; simp [setCell, hc]) w2
    | cellSet c v i w nd =>
      simp only [outputs, dropLru]
      obtain ⟨w1, w2, w3, w4⟩ := hw (setCell s c v) (setCell t c v) i w nd hs.lruempty ht.lruempty hi hr
      exact ih _ _ (step_inv hP hK s (.cellSet c v i w nd) hs) (step_inv hP hK t (.cellSet c v i w nd) ht) w1
        (by simp only [step]; rw [w3, w4]; simp [setCell, hc]) w2

/-- **Soundness with eviction**: for every well-formed program — `lru` kinds included — after any
    history of requests, writes, cell changes, capacity changes and evictions, every request returns
    the from-scratch value over the current inputs and cells. -/
theorem c05_sound {P : Prog} (hP : Wf P) (inp : Nat → Inp) (cells : Nat → Nat) (cap : Nat) (ops : List Op)
    (q : Nat) :
    (fetch P (run P inp cells cap ops) q).2.val =
      sem P (run P inp cells cap ops).inp (run P inp cells cap ops).cells q :=
  Proofs.Core3E.c01_s3 hP inp cells cap ops q

/-- transparency from any two states that satisfy the engine invariant and agree on inputs, cells
    and the revision (their memos, evicted values and LRU sets may differ arbitrarily) -/
theorem c05_transparent_inv {P : Prog} (hP : Wf P) :
    ∀ (ops : List Op) (s t : State), Proofs.Core3E.InvE P s → Proofs.Core3E.InvE P t → s.inp = t.inp →
      s.cells = t.cells → s.cur = t.cur → outputs P s ops = outputs P t (dropLru ops) := by
  intro ops
  induction ops with
  | nil => intro s t _ _ _ _ _; rfl
  | cons op rest ih =>
    intro s t hs ht hi hc hr
    have hstep : ∀ op', (∀ q, op' ≠ .get q) → (∀ n, op' ≠ .lruCap n) → op' ≠ .evict →
        outputs P (step P s op') rest = outputs P (step P t op') (dropLru rest) := by
      intro op' h1 h2 h3
      obtain ⟨e1, e2, e3⟩ := Proofs.Core3E.step_env P s t op' h1 hi hc hr ⟨h2, h3⟩
      exact ih _ _ (Proofs.Core3E.step_inv hP s op' hs) (Proofs.Core3E.step_inv hP t op' ht) e1 e2 e3
    cases op with
    | get q =>
      obtain ⟨a1, a2, a3, a4, a5⟩ := Proofs.Core3E.fetch_sound hP s q hs
      obtain ⟨b1, b2, b3, b4, b5⟩ := Proofs.Core3E.fetch_sound hP t q ht
      simp only [outputs, dropLru]
      rw [a2, b2, hi, hc, ih _ _ a1 b1 (by rw [a4, b4, hi]) (by rw [a5, b5, hc]) (by rw [a3, b3, hr])]
    | lruCap n =>
      simp only [outputs, dropLru]
      obtain ⟨e1, e2, e3⟩ := (Proofs.Core3E.lru_env P s).1 n
      exact ih _ _ (Proofs.Core3E.step_inv hP s (.lruCap n) hs) ht (e1.trans hi) (e2.trans hc) (e3.trans hr)
    | evict =>
      simp only [outputs, dropLru]
      obtain ⟨e1, e2, e3⟩ := (Proofs.Core3E.lru_env P s).2
      exact ih _ _ (Proofs.Core3E.step_inv hP s .evict hs) ht (e1.trans hi) (e2.trans hc) (e3.trans hr)
    | set i v nd =>
      simp only [outputs, dropLru]
      exact hstep (.set i v nd) (by intro q h; cases h) (by intro n h; cases h) (by intro h; cases h)
    | synth d =>
      simp only [outputs, dropLru]
      exact hstep (.synth d) (by intro q h; cases h) (by intro n h; cases h) (by intro h; cases h)
    | cellSynth c v d =>
      simp only [outputs, dropLru]
      exact hstep (.cellSynth c v d) (by intro q h; cases h) (by intro n h; cases h) (by intro h; cases h)
    | cellSet c v i w nd =>
      simp only [outputs, dropLru]
      exact hstep (.cellSet c v i w nd) (by intro q h; cases h) (by intro n h; cases h) (by intro h; cases h)

/-- **Transparency**: the answers of a history equal the answers of the history with the LRU
    operations (`lruCap`, `evict`) erased — for every well-formed program, `lru` kinds included. -/
theorem c05_transparent {P : Prog} (hP : Wf P) (inp : Nat → Inp) (cells : Nat → Nat) (cap : Nat)
    (ops : List Op) :
    outputs P (init inp cells cap) ops = outputs P (init inp cells cap) (dropLru ops) :=
  c05_transparent_inv hP ops _ _ (Proofs.Core3E.init_inv P inp cells cap) (Proofs.Core3E.init_inv P inp cells cap)
    rfl rfl rfl

/-- the declared capacity does not matter either -/
theorem c05_transparent_cap {P : Prog} (hP : Wf P) (inp : Nat → Inp) (cells : Nat → Nat) (cap cap' : Nat)
    (ops : List Op) :
    outputs P (init inp cells cap) ops = outputs P (init inp cells cap') (dropLru ops) :=
  c05_transparent_inv hP ops _ _ (Proofs.Core3E.init_inv P inp cells cap) (Proofs.Core3E.init_inv P inp cells cap')
    rfl rfl rfl

/-- line-protocol programs: decidable hypothesis -/
theorem c05_transparent_prog (es : List (Kind × Expr)) (h : wfList 0 es = true) (inp : Nat → Inp)
    (cells : Nat → Nat) (cap : Nat) (ops : List Op) :
    outputs (progOf es) (init inp cells cap) ops = outputs (progOf es) (init inp cells cap) (dropLru ops) :=
  c05_transparent (wf_progOf es h) inp cells cap ops

/-- **Every evictable cached value is in the LRU set.**  From a fresh database whose `lru`
    function has a non-zero capacity, after any history that never sets the capacity to 0
    (`ops.all capOk`, decidable): every `lru`-kind memo that holds a value and is fully tracked is
    a member of the LRU set (and the capacity is still non-zero).  No well-formedness needed. -/
theorem c05_cover (P : Prog) (inp : Nat → Inp) (cells : Nat → Nat) (cap : Nat) (hcap : cap ≠ 0)
    (ops : List Op) (hops : ops.all capOk = true) (q : Nat) (m : Memo)
    (hk : P.kind q = .lru) (hm : (run P inp cells cap ops).memos q = some m)
    (hv : m.value ≠ none) (hu : m.untracked = false) :
    q ∈ (run P inp cells cap ops).lru.set ∧ (run P inp cells cap ops).lru.capacity ≠ 0 := by
  obtain ⟨h1, h2⟩ := linv_run (P := P) inp cells cap hcap ops hops
  exact ⟨h2 q (by simp) ⟨hk, m, hm, hv, hu⟩, h1⟩

/-- **The bound.**  Right after `evict` or a revision bump (`set`, `synth`, … — every bump runs the
    eviction), any duplicate-free list of keys holding an evictable cached value has at most
    `capacity` elements. -/
theorem c05_bound (P : Prog) (inp : Nat → Inp) (cells : Nat → Nat) (cap : Nat) (hcap : cap ≠ 0)
    (ops : List Op) (hops : ops.all capOk = true) (keys : List Nat) (hnd : keys.Nodup)
    (hkeys : ∀ q, q ∈ keys → Cached P (evictLru (run P inp cells cap ops)) q) :
    keys.length ≤ (evictLru (run P inp cells cap ops)).lru.capacity := by
  have h := linv_run (P := P) inp cells cap hcap ops hops
  obtain ⟨a, b, c⟩ := lb_evictLru h.1 h.2
  rw [b]
  exact Nat.le_trans (nodup_subset_length keys _ hnd (fun q hq => a q (by simp) (hkeys q hq))) c

/-! ### Non-vacuity: q0, q1, q2 of kind `lru` (capacity 2), q3 = q0 (plain reader) -/

def exProg : List (Kind × Expr) :=
  [(.lru, .min (.inp 0) (.const 1)), (.lru, .add (.inp 0) (.const 1)), (.lru, .const 3), (.plain, .qry 0)]
def exInp : Nat → Inp := fun _ => ⟨2, 1, 0⟩

/-- three uses with capacity 2: the revision bump evicts the least recently used q0; its edges and
    stamps stay -/
example : ((run (progOf exProg) exInp (fun _ => 0) 2 [.get 3, .get 1, .get 2, .set 0 3 none]).memos 0).map
    (fun m => (m.value, m.va, m.ca, m.dur, m.obs)) = some (none, 1, 1, 0, [⟨.inp 0, 2, true⟩]) := by decide

/-- `get 3` afterwards: `maybe_changed_after(q0)` answers "changed" without `exec 0`, so q3 is
    executed first and q0 is executed by q3's `fetch` — the C03 boundary of DESIGN.md -/
example : (run (progOf exProg) exInp (fun _ => 0) 2 [.get 3, .get 1, .get 2, .set 0 3 none, .get 3]).trace.drop 4
    = [.exec 3, .exec 0] := by decide

-- hypotheses of `c05_cover` / `c05_bound` on that history (capacity 2, never set to 0); after the
-- bump exactly q1 and q2 are cached, both in the set
example : [Op.get 3, .get 1, .get 2, .set 0 3 none].all capOk = true := by decide
example : (run (progOf exProg) exInp (fun _ => 0) 2 [.get 3, .get 1, .get 2, .set 0 3 none]).lru.set = [1, 2] := by
  decide

-- hypotheses of `c05_sound` / `c05_transparent` on the same program (all three base queries are
-- `lru` kinds); a history with a capacity change, an explicit eviction in the middle of a revision
-- and revision bumps that evict; the answers with and without the LRU operations
example : wfList 0 exProg = true := by decide
def exOps : List Op :=
  [.get 3, .get 1, .get 2, .evict, .get 3, .lruCap 1, .set 0 3 none, .get 3, .get 1, .evict, .get 1, .get 2]
example : outputs (progOf exProg) (init exInp (fun _ => 0) 2) exOps = [1, 3, 3, 1, 1, 0, 0, 3] := by decide
example : outputs (progOf exProg) (init exInp (fun _ => 0) 2) (dropLru exOps) = [1, 3, 3, 1, 1, 0, 0, 3] := by
  decide
-- the evictions are real: after `evict` with capacity 1 only one value is left
example : ((run (progOf exProg) exInp (fun _ => 0) 2 [.get 3, .get 1, .get 2, .lruCap 1, .evict]).memos 0).map
    (·.value) = some none := by decide
-- and an evicted memo that is verified in the current revision is re-executed by the next request
-- (the case in which a memo that passes the shallow test is executed again)
example : (run (progOf exProg) exInp (fun _ => 0) 2 [.get 0, .get 1, .lruCap 1, .evict, .get 0]).trace =
    [.exec 0, .exec 1, .exec 0] := by decide

end SalsaVerif.Props.C05Engine
