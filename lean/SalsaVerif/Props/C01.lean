/-
  C01 — incremental = from-scratch.

  FULL STATEMENT (DESIGN.md §C01), the obligation this file works towards:

    c01_run_sound : Wf P → ∀ ops, ∀ (get q) ∈ ops answered v in run P ops,
                      v = eval P (envAfter ops-prefix) q

  for the whole engine: functions of 0–3 arguments over inputs, tracked structs (identity and
  tracked fields), interned values, `specify`, `no_eq` functions, untracked reads, LRU-evicted
  values, accumulators, with requests in any order.

  PROVED HERE (`c01_run_sound_partial`, stage S2 of DESIGN.md §3): the statement for the fragment
  modelled by SalsaVerif/Model/Core.lean — memoised *plain* functions (one `Nat` key = the query
  index) over input fields, with dynamic dependencies (the reads of a body depend on the values
  read), any call order, any history of requests, input writes with arbitrary durabilities
  (including NEVER_CHANGE and its rejected writes) and synthetic writes.  The oracle
  `refOutputs` is the from-scratch semantics: it has no memo table and no revisions.

  NOT YET PROVED (what the fragment omits): tracked structs, interning, `specify` (stage S4);
  `no_eq`, untracked reads, LRU eviction (stage S3, see Props/C04.lean, Props/C05Engine.lean when
  present); multi-argument keys (a key is a single `Nat` here); accumulators; cycles (C12–C15).
-/
import SalsaVerif.Model.Core
import SalsaVerif.Proofs.CoreRef

namespace SalsaVerif.Props.C01
open SalsaVerif.Model.Core SalsaVerif.Proofs.Core

/-- **Incremental = from-scratch (stage S2 fragment).**  For every well-formed program, all initial
    inputs and EVERY history, the list of answers of the `get` operations equals the list computed
    by the from-scratch oracle on the inputs as they are at each `get`. -/
theorem c01_run_sound_partial {P : Nat → Body} (hP : Wf P) (inp : Nat → Inp) (ops : List Op) :
    outputs P (init inp) ops = refOutputs P (envOf inp) ops := by
  rw [outputs_ref hP ops (init inp) (init_inv P inp)]
  rfl

/-- pointwise form: the request after any history returns `sem` of the current inputs, the memo
    table is left in a state satisfying the invariant, and inputs / revision are untouched -/
theorem c01_fetch_sound_partial {P : Nat → Body} (hP : Wf P) (inp : Nat → Inp) (ops : List Op) (q : Nat) :
    (fetch P (run P inp ops) q).2.val = sem P (run P inp ops).inp q ∧
    (fetch P (run P inp ops) q).1.inp = (run P inp ops).inp ∧
    (fetch P (run P inp ops) q).1.cur = (run P inp ops).cur :=
  have h := fetch_sound hP _ q (run_inv hP inp ops)
  ⟨h.2.1, h.2.2.2, h.2.2.1⟩

/-- for line-protocol programs the hypothesis is the decidable check `wfList 0 es = true` -/
theorem c01_run_sound_prog_partial (es : List Expr) (h : wfList 0 es = true) (inp : Nat → Inp)
    (ops : List Op) : outputs (progOf es) (init inp) ops = refOutputs (progOf es) (envOf inp) ops :=
  c01_run_sound_partial (wf_progOf es h) inp ops

/-! ### Non-vacuity: a 5-query program and an 8-op history with a backdate and a durability shortcut

    q0 = min i0 1      q1 = q0 + 1      q2 = i1 (HIGH)      q3 = q2 + 1
    q4 = if q1 odd then i2 else q3                      i0 = 2 (LOW), i1 = 1 (HIGH), i2 = 5 (LOW) -/

def exProg : List Expr :=
  [.min (.inp 0) (.const 1), .add (.qry 0) (.const 1), .inp 1, .add (.qry 2) (.const 1),
   .ite (.qry 1) (.inp 2) (.qry 3)]

def exInp : Nat → Inp := fun i => if i = 0 then ⟨2, 1, 0⟩ else if i = 1 then ⟨1, 1, 2⟩ else ⟨5, 1, 0⟩

def exOps : List Op :=
  [.get 4, .set 0 3 none, .get 4, .set 2 6 none, .get 3, .get 4, .set 1 2 (some 2), .get 4]

example : wfList 0 exProg = true := by decide

example : outputs (progOf exProg) (init exInp) exOps = [2, 2, 2, 2, 3] := by decide

/-- The events of the history.  `set 0 3`: q0 re-executes (`exec 0`), returns the same value and is
    **backdated**, so its reader q1 is only validated (`valid 1`); q3 (durability HIGH) is validated
    by the **durability shortcut** without walking to q2 (no event for q2 until the HIGH write). -/
example : (run (progOf exProg) exInp exOps).trace =
    [.exec 4, .exec 1, .exec 0, .exec 3, .exec 2,            -- get 4 (cold)
     .exec 0, .valid 1, .valid 3, .valid 4,                  -- get 4 after i0 := 3
     .valid 3,                                               -- get 3 after i2 := 6 (shortcut)
     .valid 0, .valid 1, .valid 4,                           -- get 4
     .valid 0, .valid 1, .exec 2, .exec 3, .exec 4] := by    -- get 4 after the HIGH write i1 := 2
  decide

end SalsaVerif.Props.C01
