/-
  C25 — stored dependency edges round-trip exactly.

  The bit-level encoders are *generated* from /repo (Gen/Edge.lean); the storage layer
  (`OriginAndExtra`) is the hand model `Model/Origin.lean`, tied to the implementation by the
  `edges` correspondence run. All statements quantify over every edge list and every 32-bit
  ingredient / index / generation value (as `Nat` with range hypotheses), not over samples.
-/
import SalsaVerif.Proofs.Origin

namespace SalsaVerif.Props.C25
open SalsaVerif.Gen.Edge SalsaVerif.Model.Origin SalsaVerif.Proofs.Edge SalsaVerif.Proofs.Origin

/-- compact encoding is lossless whenever it applies -/
theorem c25_packed_roundtrip (e : QueryEdge) (p : PackedQueryEdge)
    (h : PackedQueryEdge.new e = some p) : PackedQueryEdge.edge p = e := edge_new h

/-- the compact encoding applies exactly inside its limits (12-bit ingredient, 20-bit generation) -/
theorem c25_packed_iff (e : QueryEdge) :
    (PackedQueryEdge.new e).isSome = true ↔ e.ingredient ≤ 0xFFF ∧ e.generation ≤ 0xFFFFF :=
  new_some_iff e

/-- an output edge is never stored in the compact form (so `iter_outputs` may skip packed slices) -/
theorem c25_output_never_packed (k : DatabaseKeyIndex) (h : ValidKey k) :
    PackedQueryEdge.new (QueryEdge.output k) = none := (valid_output_fields h).2.2

/-- key and kind of an edge are those it was built from -/
theorem c25_kind_key_input (k : DatabaseKeyIndex) (h : ValidKey k) :
    QueryEdge.key (QueryEdge.input k) = k ∧ QueryEdge.kind (QueryEdge.input k) = QueryEdgeKind_Input :=
  valid_input_fields h

theorem c25_kind_key_output (k : DatabaseKeyIndex) (h : ValidKey k) :
    QueryEdge.key (QueryEdge.output k) = k ∧ QueryEdge.kind (QueryEdge.output k) = QueryEdgeKind_Output :=
  ⟨(valid_output_fields h).1, (valid_output_fields h).2.1⟩

private theorem kind_derived_ok (kind lay : Nat) (x : Option Extra)
    (hk : kind = DerivedOriginKind_Derived ∨ kind = DerivedOriginKind_DerivedUntracked)
    (hl : lay = QueryEdgeLayout_Packed ∨ lay = QueryEdgeLayout_Wide) :
    let t := tagOf x (QueryOriginTag.derived kind lay)
    (OriginAndExtraTag.origin t) &&& QueryOriginTag.KIND_MASK = kind ∧
    QueryOriginTag.layout (OriginAndExtraTag.origin t) = lay ∧
    (x.isSome ↔ OriginAndExtraTag.layout t = OriginAndExtraLayout_WithExtra) ∧
    (x.isNone ↔ OriginAndExtraTag.layout t = OriginAndExtraLayout_WithoutExtra) := by
  rcases hk with rfl | rfl <;> rcases hl with rfl | rfl <;> cases x <;>
    simp only [tagOf, Option.isSome, Option.isNone] <;> decide

/-- **Round trip**: for every edge list (shorter than 2^32) and any extra data, building a derived
    origin never trips an assertion and decodes to exactly the same edges, in the same order, with
    the same origin kind and the same extra data. -/
theorem c25_origin_roundtrip (kind : Nat)
    (hk : kind = DerivedOriginKind_Derived ∨ kind = DerivedOriginKind_DerivedUntracked)
    (es : List QueryEdge) (x : Option Extra) (hlen : es.length < 2^32) :
    ∃ o s, newDerived kind es x = some o ∧ o.origin = .derived kind s ∧ s.iter = es ∧ o.extra = x ∧
      o.metadata = es.length := by
  obtain ⟨lay, sl, h1, h2, h3⟩ := allocLoop_spec es.length es (Builder.allocate es.length) rfl
    (by simp [Builder.allocate])
  have hl : lay = QueryEdgeLayout_Packed ∨ lay = QueryEdgeLayout_Wide := by
    rcases h3 with ⟨a, _⟩ | ⟨a, _⟩ <;> simp [a]
  obtain ⟨t1, t2, t3, t4⟩ := kind_derived_ok kind lay x hk hl
  refine ⟨⟨tagOf x (QueryOriginTag.derived kind lay), .slice x sl, es.length⟩, sl,
    by simp [newDerived, allocateDerived, hlen, h1], ?_, by simpa [Builder.allocate] using h2, ?_, rfl⟩
  · have hkA : kind ≠ QueryOriginKind_Assigned := by rcases hk with rfl | rfl <;> decide
    have hkD : kind = QueryOriginKind_Derived ∨ kind = QueryOriginKind_DerivedUntracked := by
      rcases hk with rfl | rfl <;> decide
    rcases h3 with ⟨a, ⟨ps, rfl, hps⟩, _⟩ | ⟨a, ⟨ws, rfl, hws⟩, _⟩
    · subst a; simp [Stored.origin, t1, t2, t3, hkA, hkD, hps]
    · subst a; simp [Stored.origin, t1, t2, t3, hkA, hkD, hws]
  · cases x with
    | none => simp [Stored.extra, Option.isSome] at t3 ⊢; try (intro h; exact absurd h (by simpa using t3))
    | some v => simp [Stored.extra, t3.mp rfl]

/-- **Layout**: the compact layout is chosen iff every edge fits it. -/
theorem c25_layout_spec (kind : Nat) (es : List QueryEdge) (x : Option Extra) (o : Stored)
    (h : newDerived kind es x = some o) :
    (∃ ps, o.payload = .slice x (.packed ps)) ↔ ∀ e, e ∈ es → (PackedQueryEdge.new e).isSome = true := by
  obtain ⟨lay, sl, h1, _, h3⟩ := allocLoop_spec es.length es (Builder.allocate es.length) rfl
    (by simp [Builder.allocate])
  simp only [newDerived, allocateDerived] at h
  split at h
  · simp only [h1, Option.map_some, Option.some.injEq] at h
    subst h
    rcases h3 with ⟨_, ⟨ps, rfl, _⟩, hall⟩ | ⟨_, ⟨ws, rfl, _⟩, e, he, hn⟩
    · exact ⟨fun _ => hall, fun _ => ⟨ps, rfl⟩⟩
    · constructor
      · rintro ⟨ps, hps⟩; simp at hps
      · intro hall; have := hall e he; simp [hn] at this
  · simp at h

/-- **Partition**: the input view and the output view split the edges by kind, each in order. -/
theorem c25_partition (r : OriginRef) :
    r.inputs = (r.edges.filter fun e => QueryEdge.kind e = QueryEdgeKind_Input).map QueryEdge.key := by
  simp only [OriginRef.inputs]
  induction r.edges with
  | nil => rfl
  | cons e es ih => by_cases h : QueryEdge.kind e = QueryEdgeKind_Input <;> simp [h, ih]

/-- the output view equals the output-kind edges in order, for edges built by the public
    constructors (it relies on outputs never being packed) -/
theorem c25_outputs_view (kind : Nat)
    (hk : kind = DerivedOriginKind_Derived ∨ kind = DerivedOriginKind_DerivedUntracked)
    (es : List QueryEdge) (x : Option Extra) (hlen : es.length < 2^32)
    (hv : ∀ e, e ∈ es → ValidEdge e) (o : Stored) (h : newDerived kind es x = some o) :
    o.origin.outputs = (es.filter fun e => QueryEdge.kind e = QueryEdgeKind_Output).map QueryEdge.key := by
  obtain ⟨o', s, h1, h2, h3, _, _⟩ := c25_origin_roundtrip kind hk es x hlen
  rw [h] at h1; cases h1
  rw [h2]; simp only [OriginRef.outputs]
  cases s with
  | wide ws => simp only [EdgeSlice.iter] at h3; subst h3; simp [EdgeSlice.iterOutputs]
  | packed ps =>
    -- every edge is packable, hence none is an output
    have hall := (c25_layout_spec kind es x o h).mp (by
      simp only [newDerived, allocateDerived, hlen, if_true] at h
      obtain ⟨lay, sl, a1, _, _⟩ := allocLoop_spec es.length es (Builder.allocate es.length) rfl (by simp [Builder.allocate])
      simp only [a1, Option.map_some, Option.some.injEq] at h
      subst h
      simp only [Stored.origin] at h2
      split at h2
      · simp at h2
      · split at h2
        · cases sl with
          | packed qs => exact ⟨qs, rfl⟩
          | wide ws => simp only at h2; split at h2 <;> simp at h2
        · simp at h2)
    have : es.filter (fun e => QueryEdge.kind e = QueryEdgeKind_Output) = [] := by
      rw [List.filter_eq_nil_iff]
      intro e he
      have hp := hall e he
      cases hv e he with
      | input k hk' => simp [(valid_input_fields hk').2, QueryEdgeKind_Input, QueryEdgeKind_Output]
      | output k hk' => simp [(valid_output_fields hk').2.2] at hp
    simp [EdgeSlice.iterOutputs, this]

/-- **Clearing edges keeps the extra data** and the origin kind, and leaves no edges. -/
theorem c25_clear_keeps_extra (kind : Nat)
    (hk : kind = DerivedOriginKind_Derived ∨ kind = DerivedOriginKind_DerivedUntracked)
    (es : List QueryEdge) (x : Option Extra) (hlen : es.length < 2^32) (o : Stored)
    (h : newDerived kind es x = some o) :
    ∃ o' s, o.clearEdges = some o' ∧ o'.origin = .derived kind s ∧ s.iter = [] ∧ o'.extra = x := by
  obtain ⟨o1, s1, h1, h2, h3, h4, h5⟩ := c25_origin_roundtrip kind hk es x hlen
  rw [h] at h1; cases h1
  by_cases hz : o.metadata = 0
  · refine ⟨o, s1, by simp [Stored.clearEdges, hz], h2, ?_, h4⟩
    rw [h3]; exact List.length_eq_zero_iff.mp (by omega)
  · obtain ⟨o2, s2, g1, g2, g3, g4, _⟩ := c25_origin_roundtrip kind hk [] x (by simp)
    have hkind : (OriginAndExtraTag.origin o.tag) &&& QueryOriginTag.KIND_MASK = kind := by
      simp only [newDerived] at h
      cases ha : allocateDerived es with
      | none => simp [ha] at h
      | some r =>
        obtain ⟨lay, sl, md⟩ := r
        simp only [ha, Option.map_some, Option.some.injEq] at h
        subst h
        have hl : lay = QueryEdgeLayout_Packed ∨ lay = QueryEdgeLayout_Wide := by
          simp only [allocateDerived, hlen, if_true] at ha
          obtain ⟨lay', sl', a1, _, a3⟩ := allocLoop_spec es.length es (Builder.allocate es.length) rfl (by simp [Builder.allocate])
          simp only [a1, Option.map_some, Option.some.injEq, Prod.mk.injEq] at ha
          obtain ⟨rfl, _, _⟩ := ha
          rcases a3 with ⟨a, _⟩ | ⟨a, _⟩ <;> simp [a]
        exact (kind_derived_ok kind lay x hk hl).1
    have hkA : kind ≠ QueryOriginKind_Assigned := by rcases hk with rfl | rfl <;> decide
    exact ⟨o2, s2, by simp [Stored.clearEdges, hz, hkind, hkA, h4, g1], g2, g3, g4⟩

/-- **Persisted form**: serialising every edge and deserialising it yields the same edge. -/
theorem c25_serde_roundtrip (e : QueryEdge) (hv : ValidEdge e) : deEdge (serEdge e) = e := by
  have hmx : Id.MAX_U32 = 4294967040 := by decide
  have key : ∀ (i g ing : Nat), i < 4294967040 →
      deEdge (serEdge ⟨i, g, ing⟩) = ⟨i, g, ing⟩ := by
    intro i g ing hi
    have hidx : ((i + 1) % 2^32 + 2^32 - 1) % 2^32 = i := by omega
    simp only [deEdge, serEdge, QueryEdge.id, DatabaseKeyIndex.new, DatabaseKeyIndex.key_index0,
      DatabaseKeyIndex.ingredient_index0, Id.index0, Id.generation0, Id.from_index, Id.with_generation, hidx]
  cases hv with
  | input k hk =>
    obtain ⟨hi, h1, hm, hg⟩ := hk
    rw [hmx] at hm
    exact key _ _ _ (by simp only [DatabaseKeyIndex.key_index0, Id.index0]; omega)
  | output k hk =>
    obtain ⟨hi, h1, hm, hg⟩ := hk
    rw [hmx] at hm
    exact key _ _ _ (by simp only [DatabaseKeyIndex.key_index0, Id.index0]; omega)

/-- persisted origins deserialize to the same edges -/
theorem c25_persist_roundtrip (kind : Nat)
    (hk : kind = DerivedOriginKind_Derived ∨ kind = DerivedOriginKind_DerivedUntracked)
    (es : List QueryEdge) (hlen : es.length < 2^32) (hv : ∀ e, e ∈ es → ValidEdge e) :
    ∃ o s, persistRoundtrip kind es = some o ∧ o.origin = .derived kind s ∧ s.iter = es := by
  have hmap : (es.map serEdge).map deEdge = es := by
    rw [List.map_map]
    conv => rhs; rw [← List.map_id es]
    apply List.map_congr_left
    intro e he; exact c25_serde_roundtrip e (hv e he)
  obtain ⟨o, s, h1, h2, h3, _, _⟩ := c25_origin_roundtrip kind hk es none hlen
  exact ⟨o, s, by simp [persistRoundtrip, hmap, h1], h2, h3⟩

/-- `Id` ↔ `u64` bits -/
theorem c25_id_bits_roundtrip (id : Id) (hi : id.index < 2^32) (hg : id.generation < 2^32) :
    Id.from_bits_unchecked (Id.as_bits id) = id := by
  have hs : (id.generation <<< 32) % 2^64 = id.generation <<< 32 :=
    Nat.mod_eq_of_lt (SalsaVerif.Bits.shl_lt (n := 64) (k := 32) (by simpa using hg) (by omega))
  obtain ⟨i, g⟩ := id
  simp only at hi hg hs
  simp only [Id.from_bits_unchecked, Id.as_bits, hs]
  rw [SalsaVerif.Bits.or_shl_shr _ _ _ hi, SalsaVerif.Bits.or_shl_eq_add _ _ _ hi]
  have h1 : (g * 2^32 + i) % 2^32 = i := by omega
  have h2 : g % 2^32 = g := by omega
  rw [h1, h2]

/-! non-vacuity: concrete edges at the limits of the compact encoding -/
example : ValidKey ⟨⟨128, 0xFFFFF⟩, 0xFFF⟩ := by unfold ValidKey; decide
example : (PackedQueryEdge.new (QueryEdge.input ⟨⟨128, 0xFFFFF⟩, 0xFFF⟩)).isSome = true := by decide
example : PackedQueryEdge.new (QueryEdge.input ⟨⟨128, 0x100000⟩, 0xFFF⟩) = none := by decide
example : PackedQueryEdge.new (QueryEdge.input ⟨⟨128, 5⟩, 0x1000⟩) = none := by decide
example : (newDerived DerivedOriginKind_Derived
    [QueryEdge.input ⟨⟨1, 0⟩, 1⟩, QueryEdge.output ⟨⟨2, 7⟩, 9⟩, QueryEdge.input ⟨⟨3, 0x100000⟩, 2⟩]
    (some ⟨true, 513, 0⟩)).isSome = true := by decide

end SalsaVerif.Props.C25
