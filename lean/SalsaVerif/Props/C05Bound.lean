/-
  C05 (engine part) — the capacity bound for ALL histories, across phases in which the LRU is
  disabled (capacity 0).  The restricted theorems `c05_cover` / `c05_bound` (histories that never
  set the capacity to 0) stay in Props/C05Engine.lean.

  Model: SalsaVerif/Model/Core3.lean (`recordUseFor` = `eviction.record_use`, a no-op while the
  capacity is 0; `lruCap 0` = `set_capacity(0)` clears the LRU set; `evictLru` =
  `reset_for_new_revision`), with the repair of `maybe_changed_after_cold` mirrored in `mcaStep`.

  Values cached while the capacity is 0 are not members of the LRU set, and they are kept when the
  capacity becomes non-zero again: the bound over ALL cached keys is false
  (`c05_bound_unrestricted_false`).  What holds is the bound over the keys REQUESTED SINCE THE
  CAPACITY LAST BECAME NON-ZERO.  That set is ghost state: `runReq` runs a history and carries it
  along — it is reset while the capacity is 0 and otherwise collects the members of the LRU set
  (a key becomes a member exactly when `record_use` accepts it: the key of a `fetch`, directly
  requested or read by a query, or a key re-executed by `maybe_changed_after`).

  PROVED (any program — no well-formedness needed —, ALL histories):
    c05_cover_req  : capacity ≠ 0 → every requested-since-enabled key that holds an evictable value
                     is in the LRU set;
    c05_bound_req  : right after `evict` or a revision bump, any duplicate-free list of
                     requested-since-enabled keys holding an evictable value has at most `capacity`
                     elements (capacity ≠ 0; with capacity 0 the LRU is disabled: no bound);
    c05_requested_get / c05_requested_disabled / c05_requested_sub: what the ghost set contains.
  Proofs: SalsaVerif/Proofs/Core3JustLru.lean (structural; the cover of a fixed key set `G` is kept
  by every engine step, eviction and bump while the capacity is non-zero).
-/
import SalsaVerif.Model.Core3
import SalsaVerif.Proofs.Core3JustLru

namespace SalsaVerif.Props.C05Bound
open SalsaVerif.Model.Core3 SalsaVerif.Proofs.Core3

/-- one operation on (state, ghost set of keys requested since the capacity last became non-zero) -/
def reqStep (P : Prog) (sg : State × List Nat) (op : Op) : State × List Nat :=
  (step P sg.1 op,
   if (step P sg.1 op).lru.capacity = 0 then [] else sg.2 ++ (step P sg.1 op).lru.set)

def runReq (P : Prog) (inp : Nat → Inp) (cells : Nat → Nat) (cap : Nat) (ops : List Op) : State × List Nat :=
  ops.foldl (reqStep P) (init inp cells cap, [])

theorem foldl_req_state (P : Prog) : ∀ (ops : List Op) (sg : State × List Nat),
    (ops.foldl (reqStep P) sg).1 = ops.foldl (step P) sg.1 := by
  intro ops
  induction ops with
  | nil => intro sg; rfl
  | cons op rest ih => intro sg; simp only [List.foldl_cons]; rw [ih]; rfl

/-- the ghost run computes the same state as `run` -/
theorem runReq_state (P : Prog) (inp cells cap) (ops : List Op) :
    (runReq P inp cells cap ops).1 = run P inp cells cap ops :=
  foldl_req_state P ops _

/-- the keys requested since the capacity last became non-zero -/
def requested (P : Prog) (inp : Nat → Inp) (cells : Nat → Nat) (cap : Nat) (ops : List Op) : List Nat :=
  (runReq P inp cells cap ops).2

/-- ghost invariant: no requested keys while disabled; otherwise the requested keys are covered -/
def ReqInv (P : Prog) (sg : State × List Nat) : Prop :=
  (sg.1.lru.capacity = 0 → sg.2 = []) ∧ (sg.1.lru.capacity ≠ 0 → LBG P (· ∈ sg.2) sg.1)

theorem reqInv_step (P : Prog) (sg : State × List Nat) (op : Op) (h : ReqInv P sg) : ReqInv P (reqStep P sg op) := by
  unfold reqStep ReqInv
  by_cases ht : (step P sg.1 op).lru.capacity = 0
  · rw [if_pos ht]
    exact ⟨fun _ => rfl, fun hne => absurd ht hne⟩
  · rw [if_neg ht]
    refine ⟨fun h0 => absurd h0 ht, fun _ => ?_⟩
    intro q _ hg hc
    rcases List.mem_append.mp hg with hg | hg
    · by_cases hs : sg.1.lru.capacity = 0
      · rw [h.1 hs] at hg; simp at hg
      · exact lbG_step (G := (· ∈ sg.2)) op hs ht (h.2 hs) q (by simp) hg hc
    · exact hg

theorem reqInv_run (P : Prog) (inp cells cap) (ops : List Op) : ReqInv P (runReq P inp cells cap ops) := by
  have h0 : ReqInv P (init inp cells cap, []) := by
    refine ⟨fun _ => rfl, fun _ => ?_⟩
    intro q _ hg _
    simp at hg
  have : ∀ (ops : List Op) (sg : State × List Nat), ReqInv P sg → ReqInv P (ops.foldl (reqStep P) sg) := by
    intro ops
    induction ops with
    | nil => intro sg h; exact h
    | cons op rest ih => intro sg h; exact ih _ (reqInv_step P sg op h)
  exact this ops _ h0

/-- **Every requested-since-enabled evictable cached value is in the LRU set** — after ANY history. -/
theorem c05_cover_req (P : Prog) (inp : Nat → Inp) (cells : Nat → Nat) (cap : Nat) (ops : List Op)
    (hcap : (run P inp cells cap ops).lru.capacity ≠ 0) (q : Nat)
    (hreq : q ∈ requested P inp cells cap ops) (hc : Cached P (run P inp cells cap ops) q) :
    q ∈ (run P inp cells cap ops).lru.set := by
  have h := reqInv_run P inp cells cap ops
  rw [← runReq_state] at hcap hc ⊢
  exact h.2 hcap q (by simp) hreq hc

/-- **The bound, for all histories.**  Right after `evict` or a revision bump (every bump runs the
    eviction), with a non-zero capacity: any duplicate-free list of keys that were requested since
    the capacity last became non-zero and hold an evictable cached value has at most `capacity`
    elements. -/
theorem c05_bound_req (P : Prog) (inp : Nat → Inp) (cells : Nat → Nat) (cap : Nat) (ops : List Op)
    (hcap : (run P inp cells cap ops).lru.capacity ≠ 0) (keys : List Nat) (hnd : keys.Nodup)
    (hkeys : ∀ q, q ∈ keys → q ∈ requested P inp cells cap ops ∧
      Cached P (evictLru (run P inp cells cap ops)) q) :
    keys.length ≤ (evictLru (run P inp cells cap ops)).lru.capacity := by
  have h := reqInv_run P inp cells cap ops
  rw [← runReq_state] at hcap hkeys ⊢
  obtain ⟨a, b, c⟩ := lbG_evictLru hcap (h.2 hcap)
  rw [b]
  exact Nat.le_trans
    (nodup_subset_length keys _ hnd (fun q hq => a q (by simp) (hkeys q hq).1 (hkeys q hq).2)) c

/-! ### what the ghost set contains -/

theorem runReq_snoc (P : Prog) (inp cells cap) (ops : List Op) (op : Op) :
    runReq P inp cells cap (ops ++ [op]) = reqStep P (runReq P inp cells cap ops) op := by
  simp [runReq, List.foldl_append]

/-- a request of an `lru`-kind key while the capacity is non-zero puts it into the ghost set -/
theorem c05_requested_get (P : Prog) (inp cells cap) (ops : List Op) (q : Nat) (hk : P.kind q = .lru)
    (hcap : (run P inp cells cap ops).lru.capacity ≠ 0) :
    q ∈ requested P inp cells cap (ops ++ [.get q]) := by
  unfold requested
  rw [runReq_snoc]
  simp only [reqStep, runReq_state, step]
  have hc' : (fetch P (run P inp cells cap ops) q).1.lru.capacity ≠ 0 := by
    rw [(fetch_l P _ q).1.cap]; exact hcap
  simp only [hc', if_false]
  exact List.mem_append.mpr (Or.inr (fetch_mem_set P _ q hk hcap))

/-- while the capacity is 0 the ghost set is empty (`lruCap 0`, or declared capacity 0) -/
theorem c05_requested_disabled (P : Prog) (inp cells cap) (ops : List Op)
    (hcap : (run P inp cells cap ops).lru.capacity = 0) : requested P inp cells cap ops = [] := by
  have h := reqInv_run P inp cells cap ops
  rw [← runReq_state] at hcap
  exact h.1 hcap

/-- the members of the LRU set are requested keys (capacity non-zero) -/
theorem c05_requested_sub (P : Prog) (inp cells cap) (ops : List Op) (op : Op)
    (hcap : (run P inp cells cap (ops ++ [op])).lru.capacity ≠ 0) (q : Nat)
    (hq : q ∈ (run P inp cells cap (ops ++ [op])).lru.set) : q ∈ requested P inp cells cap (ops ++ [op]) := by
  unfold requested
  have e : run P inp cells cap (ops ++ [op]) = step P (run P inp cells cap ops) op := by
    simp [run, List.foldl_append]
  rw [runReq_snoc]
  simp only [reqStep, runReq_state]
  rw [e] at hcap hq
  simp only [hcap, if_false]
  exact List.mem_append.mpr (Or.inr hq)

/-! ### Non-vacuity: q0, q1, q2 of kind `lru`, q3 = q0 (plain reader) -/

def exProg : List (Kind × Expr) :=
  [(.lru, .min (.inp 0) (.const 1)), (.lru, .add (.inp 0) (.const 1)), (.lru, .const 3), (.plain, .qry 0)]
def exInp : Nat → Inp := fun _ => ⟨2, 1, 0⟩

/-- the history: disable the LRU, cache three values, enable with capacity 1, request q1, evict -/
def exOps : List Op := [.lruCap 0, .get 0, .get 1, .get 2, .lruCap 1, .get 1, .get 2]

/-- **The unrestricted bound is false across a capacity-0 phase**: after the eviction three `lru`
    keys still hold an evictable value although the capacity is 1 — q0 was cached while the LRU
    was disabled and has not been requested since. -/
theorem c05_bound_unrestricted_false :
    (evictLru (run (progOf exProg) exInp (fun _ => 0) 2 exOps)).lru.capacity = 1 ∧
    [0, 2].Nodup ∧
    (∀ q, q ∈ [0, 2] → (progOf exProg).kind q = .lru ∧
      ∃ m, (evictLru (run (progOf exProg) exInp (fun _ => 0) 2 exOps)).memos q = some m ∧
        m.value ≠ none ∧ m.untracked = false) ∧
    ¬ [0, 2].length ≤ (evictLru (run (progOf exProg) exInp (fun _ => 0) 2 exOps)).lru.capacity := by
  refine ⟨by decide, by decide, ?_, by decide⟩
  intro q hq
  have h : q = 0 ∨ q = 2 := by simpa using hq
  rcases h with h | h
  · subst h; exact ⟨by decide, _, rfl, by decide, rfl⟩
  · subst h; exact ⟨by decide, _, rfl, by decide, rfl⟩

-- the ghost set of that history: q1 and q2 were requested since the LRU was enabled, q0 was not
example : requested (progOf exProg) exInp (fun _ => 0) 2 exOps = [1, 1, 2] := by decide
-- hypotheses of `c05_bound_req`: capacity 1 ≠ 0; after the eviction the requested key q2 is cached
-- (q1 was evicted), and the bound 1 ≤ 1 is tight
example : (run (progOf exProg) exInp (fun _ => 0) 2 exOps).lru.capacity ≠ 0 := by decide
example : (evictLru (run (progOf exProg) exInp (fun _ => 0) 2 exOps)).lru.set = [2] := by decide
example : ((evictLru (run (progOf exProg) exInp (fun _ => 0) 2 exOps)).memos 1).map (·.value) = some none := by
  decide
example : 2 ∈ requested (progOf exProg) exInp (fun _ => 0) 2 exOps ∧
    Cached (progOf exProg) (evictLru (run (progOf exProg) exInp (fun _ => 0) 2 exOps)) 2 :=
  ⟨by decide, by decide, _, rfl, by decide, rfl⟩
-- `c05_cover_req` on the same history before the eviction: q1, q2 requested, cached, in the set
example : (run (progOf exProg) exInp (fun _ => 0) 2 exOps).lru.set = [1, 2] := by decide
-- a later request of q0 brings it under the policy again
example : requested (progOf exProg) exInp (fun _ => 0) 2 (exOps ++ [.get 3]) = [1, 1, 2, 1, 2, 0] := by decide

end SalsaVerif.Props.C05Bound
