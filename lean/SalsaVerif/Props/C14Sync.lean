/-
  C14 (threaded part) — cycles through a function without recovery, entered through WAITING threads:
  the claim that would close the wait cycle is answered `Cycle` (the caller then panics with a cycle
  error) instead of blocking, and when the panicking owner releases its claim every waiter receives
  `Panicked` (⇒ `Cancelled::PropagatedPanic`), so nobody hangs and no lock or edge is left behind.
  The single-threaded part (query stack, poisoning, later results) is Props/C14.lean.
  Model: Model/SyncDG.lean; theorems are corollaries of Props/C19.lean, by induction over arbitrary
  finite op sequences from `init` (any number of threads and keys).

  NOT YET PROVED: `c14_waiters_released` / `c14_panicking_release_enabled` for keys that are transfer
  targets (dependents of keys transferred to the released key) — see the NOT YET PROVED block of
  Props/C19.lean (W6 full); `c14_cycle_reported` for keys in the `Transferred` state.
-/
import SalsaVerif.Props.C19

namespace SalsaVerif.Props.C14Sync
open SalsaVerif.Model.SyncDG SalsaVerif.Proofs.SyncDG

/-- In every reachable state (any ops, including transfers): if key `k` is owned by thread `other`
    and `other` is the caller or transitively waits for the caller, `try_claim` answers `Cycle`,
    adds no edge and changes neither dependents nor results — nobody is blocked. -/
theorem c14_cycle_reported (ops : List Op) (s : State) (h : run init ops = some s)
    (me other k : Nat) (re blk : Bool) (st : SyncState)
    (hk : s.sync k = some st) (ho : st.owner = .thread other) (hi : idle s me = true)
    (hdep : other = me ∨ Path s.edges other me) :
    ∃ s', stepA s (.claim me k re blk) = some (s', .claim (.cycle false) false) ∧
      s'.edges = s.edges ∧ s'.qdeps = s.qdeps ∧ s'.results = s.results :=
  C19.c19_cycle_reported ops s h me other k re blk st hk ho hi hdep

/-- When the owner of `k` unwinds with a panic (`release_panicking` ⇒ `WaitResult::Panicked`), the
    sync entry is removed, the dependents list of `k` is empty afterwards, and every former dependent
    has received exactly `Panicked` and has lost its edge.  (Transfer-free protocol.) -/
theorem c14_waiters_released (ops : List Op) (s : State) (hb : basicOps ops = true)
    (h : run init ops = some s) (t k : Nat) (s' : State)
    (hs : step s (.release t k .panicked) = some s') :
    s'.sync k = none ∧ s'.qdeps k = [] ∧
    ∀ u, u ∈ s.qdeps k → s'.results u = some .panicked ∧ s'.edges u = none :=
  (C19.w6_no_lost_wakeup_partial ops s hb h).2.1 t k .panicked s' hs

/-- The panicking release itself cannot fail (no `expect("not blocked")`), so the unwinding thread
    never double-panics inside `ClaimGuard::drop`. -/
theorem c14_panicking_release_enabled (ops : List Op) (s : State) (hb : basicOps ops = true)
    (h : run init ops = some s) (t k : Nat) (hi : idle s t = true) (ho : ownedBy s k t = true) :
    (step s (.release t k .panicked)).isSome = true :=
  C19.c19_release_enabled_partial ops s hb h t k .panicked hi ho

/-- After the panicking release the wait-for graph is still well formed (W1, W2, W5), i.e. the
    database stays usable for later requests. -/
theorem c14_state_ok (ops : List Op) (s : State) (h : run init ops = some s) (t k : Nat) (s' : State)
    (hs : step s (.release t k .panicked) = some s') :
    (∀ x, ¬ Path s'.edges x x) ∧ (∀ x, (s'.results x).isSome → s'.edges x = none) ∧
    (∀ x, (s'.edges x).isSome ↔ ∃ k', x ∈ s'.qdeps k') := by
  have hr : run init (ops ++ [.release t k .panicked]) = some s' := by
    have : ∀ (l : List Op) (a : State), run a l = some s → run a (l ++ [.release t k .panicked]) = some s' := by
      intro l
      induction l with
      | nil => intro a ha; simp only [run, Option.some.injEq] at ha; subst ha; simp [run, hs]
      | cons op l ih =>
        intro a ha
        simp only [List.cons_append]
        unfold run at ha ⊢
        cases h1 : step a op with
        | none => simp [h1] at ha
        | some a1 => simp only [h1] at ha ⊢; exact ih a1 ha
    exact this ops init h
  exact ⟨C19.w2_acyclic _ s' hr, (C19.w5_exactly_once _ s' hr).1,
    fun x => (C19.w1_blocked_iff _ s' hr x).1⟩

/-- Non-vacuity: t0 owns k1, t1 owns k2 and waits for k1; t0 asking for k2 would close the cycle and
    is answered `Cycle`; t0 then unwinds: its panicking release gives t1 `Panicked`; t1 wakes and
    unwinds too, releasing k2. -/
def cycleOps : List Op :=
  [.claim 0 1 true true, .claim 1 2 true true, .claim 1 1 true true]

example : basicOps cycleOps = true ∧
    ((run init cycleOps).map fun s => ((stepA s (.claim 0 2 true true)).map (·.2), s.edges 1)) =
    some (some (.claim (.cycle false) false), some 0) := by decide
example : ((run init (cycleOps ++ [.release 0 1 .panicked])).map fun s =>
    (s.results 1, s.edges 1, s.qdeps 1, (s.sync 1).isSome)) =
    some (some .panicked, none, [], false) := by decide
example : (run init (cycleOps ++ [.release 0 1 .panicked, .wake 1, .release 1 2 .panicked])).isSome = true := by
  decide

end SalsaVerif.Props.C14Sync
