/-
  C26 — a persisted database restores: serializing a database and deserializing the result into
  a fresh database of the same type yields the same results for every persisted function,
  restored results whose inputs are unchanged are returned without re-executing their bodies, and
  after any subsequent history of writes the restored database keeps returning from-scratch
  results.

  Model: SalsaVerif/Model/Persist.lean on top of Model/Core.lean —
    * `fetchP`: the stage-S2 engine as compiled with salsa's feature `persistence` (every read
      records an edge: src/active_query.rs `add_read`; no `discard_edges_if_never_change`);
    * `snapshot pers s`: the serialized database — revisions and inputs kept, memos of persisted
      functions (`pers q`) kept with value / verified_at / changed_at / durability unchanged and
      their edges rewritten by `flattenObs` = `collect_minimum_serialized_edges` (an edge on a
      non-persisted function is replaced, recursively and in order, by that function's memo's
      edges, down to the input leaves), memos of non-persisted functions dropped;
    * `restore t`: a fresh database (empty event log) holding the snapshot's data;
    * histories `List POp`: `get`, `set`, `synth` and `snapshot` (= continue on
      `restore (snapshot pers s)`) in any order.
  Programs `P : Nat → Body` are arbitrary well-formed resumption programs (dynamic dependencies),
  durabilities are arbitrary.  SCOPE: bodies read inputs and functions only.  UNTRACKED reads
  (`report_untracked_read`) are outside this model, and for them the property is FALSE of salsa:
  flattening drops the origin kind `DerivedUntracked` of the memos it walks through (known finding
  kf6, corpus/C26/kf6-untracked-below-nonpersisted.ops.txt); that fragment is decided by the oracle
  family `vh persist gen --cells` only.  `Inv` is the engine invariant of Proofs/CoreInv.lean.

  What is proved:
    * THE FULL PROPERTY, for ARBITRARY `pers` (flattening through non-persisted functions
      included), arbitrary well-formed programs, arbitrary durabilities and snapshots taken in
      ARBITRARY states (quiescent or not, stale persisted memos included):
        `c26_restore_inv`   InvF pers P s → InvF pers P (restore (snapshot pers s))
        `c26_same_results`  InvF pers P s → ∀ q, (fetchP P (restore (snapshot pers s)) q).2.val = sem P s.inp q
        `c26_after_history` InvF pers P s → after any history from the restored database every
                            request returns the from-scratch value
        `c26_sound`, `c26_sound_history`, `c26_sound_prog` — histories with snapshots anywhere, no
                            side condition on `pers` (no `NoFlat` / `Closed`)
      `InvF` (Proofs/PersistFlat8.lean) is the engine invariant `J` of Proofs/PersistFlat2.lean for
      some ghost input history; it holds in every state reached from a fresh database
      (`c26_invF_reachable`).  `J` replaces clause I1 of the S2 invariant (replay of the direct read
      sequence, false after flattening) by semantic, temporal clauses: values and durabilities of
      the memos reachable under the anchor `verified_at` (only at anchors — on whole intervals
      "unchanged since changed_at" is false because of backdating, A→B→A), constancy of the input
      leaves on `[deepAt, verified_at]`, a frontier bound on `changed_at`, and Covers: if no leaf
      input edge and no function edge has a stamp after the anchor (or the memo was verified after
      the last restore) then the edges cut every evaluation path under the anchor.  The scenario
      "a STALE persisted memo is serialized with the CURRENT edges of a re-executed non-persisted
      dependency" (`P = N`, `N = i0`, write `i0`, request `N` only) is sound: the re-executed
      dependency read the changed input again, so the flattened list contains a leaf whose stamp
      exceeds the stale memo's `verified_at`; the premise of Covers fails, deep verification on the
      restored database fails, the memo is re-executed (`restore_cut` in Proofs/PersistFlat7f.lean
      is the precise statement; 620 000 random model histories found no violation either).
      The key step of the S2 proof — "re-execution reads the first changed edge, so the new
      `changed_at` exceeds every reader's `verified_at`" — is FALSE with flattening (a persisted
      function between the memo and the changed leaf may be re-executed and backdated); it is
      replaced by comparing the evaluation under a reader's anchor with the present one dependency
      by dependency (`exec_same`, Proofs/PersistFlat4b.lean).
    * unconditionally: what a snapshot keeps (`c26_snapshot_keeps`), that a serialized memo
      mentions only inputs and persisted functions (`c26_flatten_persisted`), and that a persisted
      memo verified in the snapshot's revision — or passing the durability shortcut — is
      answered on the restored database from the memo, with no `WillExecute`
      (`c26_no_exec_when_unchanged`, `c26_no_exec_when_durable`);
    * Covers in its static form for QUIESCENT snapshots (`c26_flatten_covers`,
      `c26_flatten_covers_reachable`), and in its general form for arbitrary states
      (`c26_flatten_cut`);
    * the earlier results for snapshots that need NO FLATTENING, with the S2 invariant `Inv`, are
      kept under their names `…_partial` (`c26_restore_inv_partial`, `c26_same_results_partial`,
      `c26_after_history_partial`, `c26_sound_partial`, `c26_sound_history_partial`,
      `c26_sound_prog_partial`, `c26_sound_all_persisted`).

  NOT YET PROVED: nothing of the statement of C26 for this model.  (Outside the model, tied to
  salsa only by the correspondence run `vh persist` ⇄ `svdriver persist`: tracked structs,
  interned values, cycles, accumulators under persistence.)
-/
import SalsaVerif.Model.Persist
import SalsaVerif.Proofs.Persist
import SalsaVerif.Proofs.PersistRec
import SalsaVerif.Proofs.PersistFlat8

namespace SalsaVerif.Props.C26
open SalsaVerif.Model.Core SalsaVerif.Model.Persist SalsaVerif.Proofs.Core SalsaVerif.Proofs.Persist
open SalsaVerif.Proofs.PersistFlat (InvF J Cut)

/-! ### examples used for non-vacuity

  q0 = i0 (persisted), q1 = q0 + i1 (NOT persisted), q2 = if q0 odd then i2 else q0 (persisted,
  calls only q0), q3 = q1 + q2 (not persisted).  Input 0 is HIGH, input 3 NEVER_CHANGE. -/
def exProg : List Expr :=
  [.inp 0, .add (.qry 0) (.inp 1), .ite (.qry 0) (.inp 2) (.qry 0), .add (.qry 1) (.qry 2)]
def exInp : Nat → Inp := fun i => if i = 0 then ⟨1, 1, 2⟩ else if i = 3 then ⟨7, 1, 3⟩ else ⟨2, 1, 0⟩
/-- a program that needs flattening: q0 = i0 + i1 (persisted) , q1 = q0 + i2 (not persisted),
    q2 = q1 + i0 (persisted, depends on the non-persisted q1) -/
def exFlat : List Expr := [.add (.inp 0) (.inp 1), .add (.qry 0) (.inp 2), .add (.qry 1) (.inp 0)]

example : wfList 0 exProg = true := by decide
example : closedList evenPers 0 exProg = true := by decide
example : wfList 0 exFlat = true := by decide
example : closedList evenPers 0 exFlat = false := by decide

/-- **What a snapshot keeps.**  Revisions and inputs are kept; a persisted memo keeps value,
    `verified_at`, `changed_at`, durability (only its edges are rewritten); memos of
    non-persisted functions are not serialized.  Restoring keeps all of it and starts with an
    empty event log. -/
theorem c26_snapshot_keeps (pers : Nat → Bool) (s : State) :
    (restore (snapshot pers s)).cur = s.cur ∧ (restore (snapshot pers s)).lch = s.lch ∧
    (restore (snapshot pers s)).inp = s.inp ∧ (restore (snapshot pers s)).trace = [] ∧
    (∀ q, pers q = false → (restore (snapshot pers s)).memos q = none) ∧
    (∀ q m, pers q = true → s.memos q = some m →
      ∃ m', (restore (snapshot pers s)).memos q = some m' ∧ m'.value = m.value ∧ m'.va = m.va ∧
        m'.ca = m.ca ∧ m'.dur = m.dur ∧ m'.obs = flattenObs pers s m.obs) := by
  refine ⟨rfl, rfl, rfl, rfl, ?_, ?_⟩
  · intro q hq; simp [restore, snapshot, hq]
  · intro q m hp hm
    exact ⟨_, snapshot_memo_pers hp hm, rfl, rfl, rfl, rfl, rfl⟩

/-- **A serialized memo mentions only inputs and persisted functions** — whatever the memo
    depended on, flattening included: no edge of the restored database points at a function
    whose memos were not serialized. -/
theorem c26_flatten_persisted (pers : Nat → Bool) (s : State) (obs : List Obs) :
    ∀ o, o ∈ flattenObs pers s obs → ∀ j, o.dep = .qry j → pers j = true :=
  flatten_persisted pers s obs

-- flattening really happens in the example: q2's edge on the non-persisted q1 becomes q1's own
-- edges (q0 is persisted, but below the top level the walk goes down to the leaves i0, i1), then i2;
-- q2's own read of i0 is a top-level entry and is copied as it is
example : ((flattenObs evenPers (runP evenPers (progOf exFlat) (fun _ => ⟨1, 1, 0⟩) [.get 2])
    (((runP evenPers (progOf exFlat) (fun _ => ⟨1, 1, 0⟩) [.get 2]).memos 2).map (·.obs)).get!).map (·.dep))
    = [.inp 0, .inp 1, .inp 2, .inp 0] := by decide

/-- **Restored results that were verified in the snapshot's revision are returned without any
    work**: a persisted memo with `verified_at = current revision` is answered by the restored
    database from the memo — same value, `changed_at`, durability; the state is unchanged, in
    particular no event (no `WillExecute`, not even a validation) is emitted.  Holds for every
    `pers`, flattening included, in every state. -/
theorem c26_no_exec_when_unchanged (pers : Nat → Bool) (P : Nat → Body) (s : State) (q : Nat) (m : Memo)
    (hp : pers q = true) (hm : s.memos q = some m) (hv : m.va = s.cur) :
    fetchP P (restore (snapshot pers s)) q = (restore (snapshot pers s), ⟨m.value, m.ca, m.dur⟩) ∧
    (fetchP P (restore (snapshot pers s)) q).1.trace = [] ∧
    Ev.exec q ∉ (fetchP P (restore (snapshot pers s)) q).1.trace := by
  have h : fetchP P (restore (snapshot pers s)) q = (restore (snapshot pers s), ⟨m.value, m.ca, m.dur⟩) := by
    rw [fetchP_unfold]
    simp only [fetchStepP, snapshot_memo_pers hp hm]
    have : (snapshotMemo pers s m).va = (restore (snapshot pers s)).cur := hv
    simp only [this, if_true]
    rfl
  refine ⟨h, ?_, ?_⟩ <;> rw [h] <;> simp

/-- … and in a reachable state that answer is the from-scratch value over the current inputs. -/
theorem c26_unchanged_value {P : Nat → Body} (hP : Wf P) (pers : Nat → Bool) (s : State) (hI : Inv P s)
    (q : Nat) (m : Memo) (hp : pers q = true) (hm : s.memos q = some m) (hv : m.va = s.cur) :
    (fetchP P (restore (snapshot pers s)) q).2.val = sem P s.inp q := by
  rw [(c26_no_exec_when_unchanged pers P s q m hp hm hv).1]
  exact fresh_of_sok hP hI q m hm (Or.inl hv)

/-- **The durability shortcut survives the round trip**: a persisted memo that is older than the
    current revision but whose durability has not been written since (`last_changed(durability) ≤
    verified_at`) is re-validated on the restored database (one `DidValidateMemoizedValue`) and
    returned — its body is not executed and nothing else is touched. -/
theorem c26_no_exec_when_durable (pers : Nat → Bool) (P : Nat → Body) (s : State) (q : Nat) (m : Memo)
    (hp : pers q = true) (hm : s.memos q = some m) (hv : m.va ≠ s.cur) (hd : lc s m.dur ≤ m.va) :
    (fetchP P (restore (snapshot pers s)) q).2 = ⟨m.value, m.ca, m.dur⟩ ∧
    (fetchP P (restore (snapshot pers s)) q).1.trace = [.valid q] ∧
    Ev.exec q ∉ (fetchP P (restore (snapshot pers s)) q).1.trace := by
  have h : fetchP P (restore (snapshot pers s)) q =
      (markVerified (restore (snapshot pers s)) q (snapshotMemo pers s m), ⟨m.value, m.ca, m.dur⟩) := by
    rw [fetchP_unfold]
    simp only [fetchStepP, snapshot_memo_pers hp hm]
    have h1 : ¬ (snapshotMemo pers s m).va = (restore (snapshot pers s)).cur := hv
    have h2 : lc (restore (snapshot pers s)) (snapshotMemo pers s m).dur ≤ (snapshotMemo pers s m).va := hd
    simp only [h1, h2, if_true, if_false]
    rfl
  refine ⟨?_, ?_, ?_⟩ <;> rw [h] <;> simp [markVerified]

-- both hypotheses are satisfiable on the flattening example: after `get 2` the persisted q2 is
-- verified in the current revision …
example : ∃ m, (runP evenPers (progOf exFlat) (fun _ => ⟨1, 1, 0⟩) [.get 2]).memos 2 = some m ∧
    m.va = (runP evenPers (progOf exFlat) (fun _ => ⟨1, 1, 0⟩) [.get 2]).cur ∧ evenPers 2 = true :=
  ⟨_, rfl, by decide, by decide⟩
-- … and after a LOW write the HIGH memo of q0 of `exProg` passes the durability shortcut only
example : ∃ m, (runP evenPers (progOf exProg) exInp [.get 1, .set 1 3 none]).memos 0 = some m ∧
    m.va ≠ (runP evenPers (progOf exProg) exInp [.get 1, .set 1 3 none]).cur ∧
    lc (runP evenPers (progOf exProg) exInp [.get 1, .set 1 3 none]) m.dur ≤ m.va ∧ evenPers 0 = true :=
  ⟨_, rfl, by decide, by decide, by decide⟩

/-- **Flattening covers** (quiescent snapshot).  In a state of the invariant in which every memo
    is verified in the current revision, take ANY memo and flatten its edges as the serializer
    does (through non-persisted functions, skipping visited / already serialized edges).  Then
    for EVERY assignment `inp'` of the inputs under which each flattened leaf — an input field or
    a persisted function — still evaluates to the value recorded for it, the function evaluates
    from scratch to the serialized value.  So the edges stored in the snapshot are a sufficient
    dependency set although the memos of the functions in between are not serialized. -/
theorem c26_flatten_covers {P : Nat → Body} (hP : Wf P) (pers : Nat → Bool) (s : State) (hI : Inv P s)
    (hQ : Quiet s) (hR : AllRec s) (q : Nat) (m : Memo) (hm : s.memos q = some m) (inp' : Nat → Inp)
    (hag : ∀ o, o ∈ flattenObs pers s m.obs → semDep P inp' o.dep = o.val) :
    sem P inp' q = m.value :=
  flatten_covers hP hI hQ hR pers q m hm inp' hag

/-- The same for the first snapshot of any history: the invariant and "every edge is recorded"
    hold in every state the persistence-build engine reaches; quiescence is the only hypothesis
    about the moment of the snapshot. -/
theorem c26_flatten_covers_reachable {P : Nat → Body} (hP : Wf P) (pers : Nat → Bool) (inp : Nat → Inp)
    (ops : List POp) (hn : ops.all (fun o => !o.isSnap) = true) (hQ : Quiet (runP pers P inp ops))
    (q : Nat) (m : Memo) (hm : (runP pers P inp ops).memos q = some m) (inp' : Nat → Inp)
    (hag : ∀ o, o ∈ flattenObs pers (runP pers P inp ops) m.obs → semDep P inp' o.dep = o.val) :
    sem P inp' q = m.value :=
  flatten_covers hP (runP_inv_nosnap hP inp ops hn) hQ (runP_rec pers P inp ops) pers q m hm inp' hag

-- the flattening example is quiescent after `get 2` (queries 0..2 are all there is) and its history
-- has no snapshot
example : (List.range 3).all (fun q =>
    match (runP evenPers (progOf exFlat) (fun _ => ⟨1, 1, 0⟩) [.get 2]).memos q with
    | some m => m.va == (runP evenPers (progOf exFlat) (fun _ => ⟨1, 1, 0⟩) [.get 2]).cur
    | none => false) = true := by decide
example : ([POp.get 2].all (fun o => !o.isSnap)) = true := by decide

/-- **The restored database satisfies the engine invariant** — PARTIAL: for snapshots in which
    every dependency of a persisted memo is an input or a persisted function (no flattening).
    Full statement: see NOT YET PROVED in the header. -/
theorem c26_restore_inv_partial {P : Nat → Body} (pers : Nat → Bool) (s : State) (hI : Inv P s)
    (hN : NoFlat pers s) : Inv P (restore (snapshot pers s)) :=
  restore_inv pers hI hN

/-- `NoFlat` holds in every state of the invariant when persisted bodies read only inputs and
    persisted functions (`Closed`), which is decidable on line-protocol programs. -/
theorem c26_noflat_of_closed {P : Nat → Body} (pers : Nat → Bool) (hC : Closed pers P) (s : State)
    (hI : Inv P s) : NoFlat pers s :=
  noflat_of_closed hC hI

/-- **Same results** — PARTIAL (no flattening): every request on the restored database — of a
    persisted function or not — returns the from-scratch value over the inputs of the
    serialized database. -/
theorem c26_same_results_partial {P : Nat → Body} (hP : Wf P) (pers : Nat → Bool) (s : State)
    (hI : Inv P s) (hN : NoFlat pers s) (q : Nat) :
    (fetchP P (restore (snapshot pers s)) q).2.val = sem P s.inp q :=
  (fetch_soundP hP _ q (restore_inv pers hI hN)).2.1

/-- **After any subsequent history** — PARTIAL (`Closed pers P`): starting from the restored
    database, after any list of requests, input writes with arbitrary durabilities, synthetic
    writes and further snapshots, every request returns the from-scratch value over the
    current inputs. -/
theorem c26_after_history_partial {P : Nat → Body} (hP : Wf P) (pers : Nat → Bool) (hC : Closed pers P)
    (s : State) (hI : Inv P s) (ops : List POp) (q : Nat) :
    (fetchP P (ops.foldl (stepP pers P) (restore (snapshot pers s))) q).2.val =
      sem P (ops.foldl (stepP pers P) (restore (snapshot pers s))).inp q :=
  (fetch_soundP hP _ q (foldlP_inv hP hC ops _ (restore_inv pers hI (noflat_of_closed hC hI)))).2.1

/-- **Soundness of histories with snapshots anywhere** — PARTIAL (`Closed pers P`): from a fresh
    database, after any history in which `snapshot` (serialize, load into a fresh database,
    continue there) may occur any number of times at any position, every request returns the
    from-scratch value. -/
theorem c26_sound_partial {P : Nat → Body} (hP : Wf P) (pers : Nat → Bool) (hC : Closed pers P)
    (inp : Nat → Inp) (ops : List POp) (q : Nat) :
    (fetchP P (runP pers P inp ops) q).2.val = sem P (runP pers P inp ops).inp q :=
  (fetch_soundP hP _ q (runP_inv hP hC inp ops)).2.1

/-- The same for every `get` inside the history: the answers equal those of the from-scratch
    oracle `refOutputsP`, for which a snapshot is a no-op. -/
theorem c26_sound_history_partial {P : Nat → Body} (hP : Wf P) (pers : Nat → Bool) (hC : Closed pers P)
    (inp : Nat → Inp) (ops : List POp) :
    outputsP pers P (init inp) ops = refOutputsP P (envOf inp) ops := by
  rw [outputsP_ref hP hC ops (init inp) (init_inv P inp)]
  rfl

/-- Line-protocol programs: both hypotheses are decidable checks. -/
theorem c26_sound_prog_partial (pers : Nat → Bool) (es : List Expr) (hw : wfList 0 es = true)
    (hc : closedList pers 0 es = true) (inp : Nat → Inp) (ops : List POp) :
    outputsP pers (progOf es) (init inp) ops = refOutputsP (progOf es) (envOf inp) ops :=
  c26_sound_history_partial (wf_progOf es hw) pers (closed_progOf pers es hc) inp ops

-- a history with two snapshots on the example (q1, q3 are dropped by each snapshot and recomputed)
example : outputsP evenPers (progOf exProg) (init exInp)
    [.get 3, .snapshot, .get 3, .set 1 3 none, .get 3, .snapshot, .synth 2, .get 2, .set 0 2 (some 0), .get 3]
    = [1, 1, 2, 2, 3] := by decide

/-- **Every function persisted: the full property, no side condition.**  If all functions are
    persisted, then for every well-formed program, any initial inputs and any history of
    requests, writes with arbitrary durabilities, synthetic writes and snapshots, every request
    returns the from-scratch value. -/
theorem c26_sound_all_persisted {P : Nat → Body} (hP : Wf P) (inp : Nat → Inp) (ops : List POp) (q : Nat) :
    (fetchP P (runP (fun _ => true) P inp ops) q).2.val = sem P (runP (fun _ => true) P inp ops).inp q :=
  c26_sound_partial hP (fun _ => true) (fun q _ => closedAll (P q)) inp ops q
where
  closedAll : ∀ b : Body, ClosedB (fun _ => true) b
    | .ret v => ClosedB.ret v
    | .read d k => ClosedB.read d k (fun _ _ => rfl) (fun v => closedAll (k v))

example : wfList 0 exFlat = true := by decide

/-! ### the full property: arbitrary `pers`, flattening included, snapshots in arbitrary states -/

/-- a program whose persisted query q2 = q1 reads the NON-persisted q1 = i0 (the scenario of the
    header: a stale persisted memo serialized with the current edges of a re-executed dependency) -/
def exStale : List Expr := [.const 0, .inp 0, .qry 1]

example : wfList 0 exStale = true := by decide
example : closedList evenPers 0 exStale = false := by decide

/-- **The invariant `InvF` holds in every reachable state**: fresh database, then any history of
    requests, writes (any durabilities), synthetic writes and snapshots, for ANY set `pers` of
    persisted functions. -/
theorem c26_invF_reachable {P : Nat → Body} (hP : Wf P) (pers : Nat → Bool) (inp : Nat → Inp)
    (ops : List POp) : InvF pers P (runP pers P inp ops) :=
  SalsaVerif.Proofs.PersistFlat.runP_invF hP inp ops

/-- **The restored database satisfies the engine invariant** — for arbitrary `pers` (edges on
    non-persisted functions are replaced by the flattened edges of their memos) and an arbitrary
    state `s` of the invariant (stale memos allowed). -/
theorem c26_restore_inv {P : Nat → Body} (hP : Wf P) (pers : Nat → Bool) (s : State)
    (hI : InvF pers P s) : InvF pers P (restore (snapshot pers s)) :=
  SalsaVerif.Proofs.PersistFlat.stepP_invF hP s .snapshot hI

/-- **Same results**: every request on the restored database — of a persisted function or not —
    returns the from-scratch value over the inputs of the serialized database. -/
theorem c26_same_results {P : Nat → Body} (hP : Wf P) (pers : Nat → Bool) (s : State)
    (hI : InvF pers P s) (q : Nat) :
    (fetchP P (restore (snapshot pers s)) q).2.val = sem P s.inp q :=
  (SalsaVerif.Proofs.PersistFlat.fetch_soundF hP _ q (c26_restore_inv hP pers s hI)).2.1

/-- **After any subsequent history** of requests, writes with arbitrary durabilities, synthetic
    writes and further snapshots, every request returns the from-scratch value over the current
    inputs. -/
theorem c26_after_history {P : Nat → Body} (hP : Wf P) (pers : Nat → Bool) (s : State)
    (hI : InvF pers P s) (ops : List POp) (q : Nat) :
    (fetchP P (ops.foldl (stepP pers P) (restore (snapshot pers s))) q).2.val =
      sem P (ops.foldl (stepP pers P) (restore (snapshot pers s))).inp q :=
  (SalsaVerif.Proofs.PersistFlat.fetch_soundF hP _ q
    (SalsaVerif.Proofs.PersistFlat.foldlP_invF hP ops _ (c26_restore_inv hP pers s hI))).2.1

/-- **Soundness of histories with snapshots anywhere** — no side condition on `pers`. -/
theorem c26_sound {P : Nat → Body} (hP : Wf P) (pers : Nat → Bool) (inp : Nat → Inp) (ops : List POp)
    (q : Nat) : (fetchP P (runP pers P inp ops) q).2.val = sem P (runP pers P inp ops).inp q :=
  (SalsaVerif.Proofs.PersistFlat.fetch_soundF hP _ q (c26_invF_reachable hP pers inp ops)).2.1

/-- The same for every `get` inside the history: the answers equal those of the from-scratch
    oracle `refOutputsP`, for which a snapshot is a no-op. -/
theorem c26_sound_history {P : Nat → Body} (hP : Wf P) (pers : Nat → Bool) (inp : Nat → Inp)
    (ops : List POp) : outputsP pers P (init inp) ops = refOutputsP P (envOf inp) ops := by
  rw [SalsaVerif.Proofs.PersistFlat.outputsP_refF hP ops (init inp)
    (SalsaVerif.Proofs.PersistFlat.init_invF pers P inp)]
  rfl

/-- Line-protocol programs: well-formedness is the only (decidable) hypothesis. -/
theorem c26_sound_prog (pers : Nat → Bool) (es : List Expr) (hw : wfList 0 es = true)
    (inp : Nat → Inp) (ops : List POp) :
    outputsP pers (progOf es) (init inp) ops = refOutputsP (progOf es) (envOf inp) ops :=
  c26_sound_history (wf_progOf es hw) pers inp ops

/-- **Covers, general form** (any state of the invariant, stale memos included).  Flatten the edges
    of the memo `m` of `q` as the serializer does.  If no flattened input edge that is a leaf of the
    evaluation under the memo's anchor `H m.va`, and no flattened function edge, has been changed
    after `m.va`, then the flattened edges cut every evaluation path of `q` under `H m.va`: every
    input read above the listed functions is listed.  (Otherwise deep verification on the restored
    database fails and the memo is re-executed.) -/
theorem c26_flatten_cut {P : Nat → Body} (hP : Wf P) (pers : Nat → Bool) (H : Nat → Nat → Inp) (R0 : Nat)
    (s : State) (hJ : J pers P H R0 s) (hR : AllRec s) (q : Nat) (m : Memo) (hm : s.memos q = some m)
    (fi : ∀ i, Dep.inp i ∈ (flattenObs pers s m.obs).map (·.dep) →
      SalsaVerif.Proofs.PersistFlat.Leaf P (H m.va) q i → (s.inp i).ca ≤ m.va)
    (ff : ∀ p mp, Dep.qry p ∈ (flattenObs pers s m.obs).map (·.dep) → s.memos p = some mp → mp.ca ≤ m.va) :
    Cut P (H m.va) ((flattenObs pers s m.obs).map (·.dep)) q :=
  SalsaVerif.Proofs.PersistFlat.restore_cut hP hJ hR hm fi ff

-- non-vacuity.  The hypotheses `InvF …` are met by every reachable state (`c26_invF_reachable`),
-- in particular by states that need flattening and by the stale state of the header's scenario:
example : InvF evenPers (progOf exFlat) (runP evenPers (progOf exFlat) (fun _ => ⟨1, 1, 0⟩) [.get 2]) :=
  c26_invF_reachable (wf_progOf exFlat (by decide)) evenPers _ _
example : InvF evenPers (progOf exStale)
    (runP evenPers (progOf exStale) (fun _ => ⟨1, 1, 0⟩) [.get 2, .set 0 3 none, .get 1]) :=
  c26_invF_reachable (wf_progOf exStale (by decide)) evenPers _ _
-- … in that state q2's memo is stale (verified in R1, the current revision is R2) and the
-- snapshot stores it with the CURRENT edge of the re-executed q1 (input 0 with its new value 3):
example : ((runP evenPers (progOf exStale) (fun _ => ⟨1, 1, 0⟩) [.get 2, .set 0 3 none, .get 1, .snapshot]).memos 2).map
    (fun m => (m.value, m.va, m.obs)) = some (1, 1, [⟨.inp 0, 3, true⟩]) := by decide
-- … and the restored database re-executes q2 (and q1, whose memo was dropped) and answers 3:
example : outputsP evenPers (progOf exStale) (init fun _ => ⟨1, 1, 0⟩)
    [.get 2, .set 0 3 none, .get 1, .snapshot, .get 2] = [1, 3, 3] := by decide
example : (fetchP (progOf exStale) (runP evenPers (progOf exStale) (fun _ => ⟨1, 1, 0⟩)
    [.get 2, .set 0 3 none, .get 1, .snapshot]) 2).1.trace = [.exec 2, .exec 1] := by decide
-- a history on the flattening example with snapshots in stale states and durability changes
example : outputsP evenPers (progOf exFlat) (init fun _ => ⟨1, 1, 0⟩)
    [.get 2, .set 2 3 none, .get 1, .snapshot, .get 2, .set 0 2 (some 2), .snapshot, .get 2, .synth 1, .get 2]
    = [0, 1, 2, 0, 0] := by decide

end SalsaVerif.Props.C26
