/-
  C03 — re-execution only when justified, for the S3 engine.

  Model: SalsaVerif/Model/Core3.lean (stage S3 = S2 + `no_eq` kinds + untracked cells + `lru` kinds
  with value eviction) with the event trace: `exec q` = `WillExecute`, `valid q` =
  `DidValidateMemoizedValue`.  Invariant: `InvE` (Proofs/Core3Evict*.lean); every reachable state
  satisfies it (`_reachable` variants quantify over histories with `lruCap` / `evict` / cell
  operations).  Proofs: SalsaVerif/Proofs/Core3JustTr.lean, Core3JustRun.lean, Core3JustTop.lean.

  PROVED (all well-formed programs, every state satisfying `InvE`):
    c03_core3_exec_justified (+ `_reachable`, `_prog`): every `exec q` of a `fetch` is `Justified3`:
        no memo ∨ value evicted ∨ previous execution untracked (and stale) ∨
        (memo stale, shallow test failed, some recorded edge answered "changed" at `verified_at`).
      "Answered changed" is `EdgeCh` (one-level characterisation: `edgeChanged3_iff`): an input
      written since; a query whose memo after its own refresh has `changed_at > rev` (for a `no_eq`
      callee every re-execution installs the recomputed stamp: `c03_core3_noeq_never_backdated`);
      or the answer that `maybe_changed_after` gives WITHOUT executing for a callee that is stale,
      evicted and fails its own verification.
    c03_core3_mca_justified: the same for a direct `maybe_changed_after`, plus: the answer "changed"
      is an `EdgeCh`.
    c03_core3_change_means_exec: nothing changes silently.
    c03_core3_backdate_keeps_stamp, c03_core3_backdate_shields, c03_core3_no_exec_shields:
      backdating shields readers (`no_eq` callees and evicted values excepted).
    c03_strict_false: the LRU boundary (DESIGN.md §C03): a concrete history in which a caller
      re-executes although its only callee returns the value it had before, is not `no_eq` and is
      not less durable — the callee's value had been evicted and its verification failed.  The
      disjunct of `Justified3` that applies is the fourth, through `EdgeCh.evicted`
      (`c03_strict_witness_disjunct`); the property text lists "value evicted" as a justification,
      so this is the deliberate boundary, not a violation.

  NOT YET PROVED: tracked structs, interning, specify (stage S4).
-/
import SalsaVerif.Model.Core3
import SalsaVerif.Proofs.Core3Top
import SalsaVerif.Proofs.Core3JustTop
import SalsaVerif.Proofs.Core3EvictSound

namespace SalsaVerif.Props.C03Core3
open SalsaVerif.Model.Core3 SalsaVerif.Proofs.Core3
open SalsaVerif.Proofs.Core3E (InvE EdgeCh Just3 Tr3 TrOK fetch_tr3 mca_tr3)

/-- `EdgeCh s s' rev d` (Proofs/Core3JustTr.lean), one level unfolded: the recorded edge `d`
    answered "changed since `rev`" between `s` and `s'`. -/
theorem edgeChanged3_iff (s s' : State) (rev : Nat) (d : Dep) :
    EdgeCh s s' rev d ↔
      match d with
      | .inp i => rev < (s'.inp i).ca
      | .qry q =>
        (∃ m', s'.memos q = some m' ∧ m'.va = s'.cur ∧ rev < m'.ca) ∨
        (∃ m o, s.memos q = some m ∧ m.value = none ∧ m.va < s.cur ∧ m.va < lc s m.dur ∧
          o ∈ m.obs ∧ o.recd = true ∧ EdgeCh s s' m.va o.dep)
      | .cell _ => False := by
  constructor
  · intro h
    cases h with
    | inp h => exact h
    | stamp hm hv hlt => exact Or.inl ⟨_, hm, hv, hlt⟩
    | evicted hm hval hv hl ho hr hc => exact Or.inr ⟨_, _, hm, hval, hv, hl, ho, hr, hc⟩
  · intro h
    cases d with
    | inp i => exact .inp h
    | qry q =>
      rcases h with ⟨m', hm, hv, hlt⟩ | ⟨m, o, hm, hval, hv, hl, ho, hr, hc⟩
      · exact .stamp hm hv hlt
      · exact .evicted hm hval hv hl ho hr hc
    | cell c => exact h.elim

/-- `exec q` during a fetch that leads from `s` to `s'` is justified. -/
def Justified3 (s s' : State) (q : Nat) : Prop :=
  s.memos q = none ∨
  ∃ m, s.memos q = some m ∧
    (m.value = none ∨
     (m.untracked = true ∧ m.va < s.cur) ∨
     (m.va < s.cur ∧ m.va < lc s m.dur ∧ ∃ o, o ∈ m.obs ∧ o.recd = true ∧ EdgeCh s s' m.va o.dep))

theorem justified3_of {P : Prog} {s s' : State} {q : Nat} (hI : InvE P s) (h : Just3 s s' q) :
    Justified3 s s' q := by
  rcases h with hn | ⟨m, hm, hv | ⟨hv, hl, hu | hx⟩⟩
  · exact Or.inl hn
  · exact Or.inr ⟨m, hm, Or.inl hv⟩
  · exact Or.inr ⟨m, hm, Or.inr (Or.inl ⟨hu, Nat.lt_of_le_of_ne (hI.memo q m hm).va_cur hv⟩)⟩
  · exact Or.inr ⟨m, hm, Or.inr (Or.inr ⟨Nat.lt_of_le_of_ne (hI.memo q m hm).va_cur hv, Nat.lt_of_not_le hl, hx⟩)⟩

/-- **Every execution is justified** (S3 engine). -/
theorem c03_core3_exec_justified {P : Prog} (hP : Wf P) (s : State) (hI : InvE P s) (k : Nat) :
    ∃ new, (fetch P s k).1.trace = s.trace ++ new ∧
      ∀ q, .exec q ∈ new → Justified3 s (fetch P s k).1 q := by
  obtain ⟨new, e, ok⟩ := fetch_tr3 hP s k hI
  exact ⟨new, e, fun q hq => justified3_of hI (ok.just q hq)⟩

/-- the same over histories: any fetch after any history of requests, writes, cell changes,
    capacity changes and evictions -/
theorem c03_core3_exec_justified_reachable {P : Prog} (hP : Wf P) (inp : Nat → Inp) (cells : Nat → Nat)
    (cap : Nat) (ops : List Op) (k : Nat) :
    ∃ new, (fetch P (run P inp cells cap ops) k).1.trace = (run P inp cells cap ops).trace ++ new ∧
      ∀ q, .exec q ∈ new → Justified3 (run P inp cells cap ops) (fetch P (run P inp cells cap ops) k).1 q :=
  c03_core3_exec_justified hP _ (Proofs.Core3E.run_inv hP inp cells cap ops) k

/-- line-protocol programs: decidable hypothesis -/
theorem c03_core3_exec_justified_prog (es : List (Kind × Expr)) (h : wfList 0 es = true) (inp : Nat → Inp)
    (cells : Nat → Nat) (cap : Nat) (ops : List Op) (k : Nat) :
    ∃ new, (fetch (progOf es) (run (progOf es) inp cells cap ops) k).1.trace =
        (run (progOf es) inp cells cap ops).trace ++ new ∧
      ∀ q, .exec q ∈ new →
        Justified3 (run (progOf es) inp cells cap ops) (fetch (progOf es) (run (progOf es) inp cells cap ops) k).1 q :=
  c03_core3_exec_justified_reachable (wf_progOf es h) inp cells cap ops k

/-- **`maybe_changed_after` asked directly**: its executions are justified as well, and the answer
    "changed" is an `EdgeCh` read off the state it returns. -/
theorem c03_core3_mca_justified {P : Prog} (hP : Wf P) (s : State) (hI : InvE P s) (q rev : Nat)
    (hex : ∃ m, s.memos q = some m) :
    ∃ new, ((eng P (q + 1)).2 s q rev).1.trace = s.trace ++ new ∧
      (∀ p, .exec p ∈ new → Justified3 s ((eng P (q + 1)).2 s q rev).1 p) ∧
      (((eng P (q + 1)).2 s q rev).2 = true →
        EdgeCh ((eng P (q + 1)).2 s q rev).1 ((eng P (q + 1)).2 s q rev).1 rev (.qry q)) := by
  obtain ⟨⟨new, e, ok⟩, hc⟩ := mca_tr3 hP s q rev hI hex
  exact ⟨new, e, fun p hp => justified3_of hI (ok.just p hp), hc⟩

/-- a `no_eq` function is never backdated: a re-execution installs the recomputed stamp -/
theorem c03_core3_noeq_never_backdated (old : Option Memo) (v : Nat) (f : Frame) :
    backdateCa .noeq old v f = f.ca := by
  cases old <;> simp [backdateCa, canBackdate]

/-- Conversely nothing changes silently: a memo whose value, ghost value, `changed_at`, durability,
    origin or reads differ after the fetch was executed; a memo that is new was executed; a stale
    memo that is verified afterwards was validated or executed. -/
theorem c03_core3_change_means_exec {P : Prog} (hP : Wf P) (s : State) (hI : InvE P s) (k : Nat) :
    ∃ new, (fetch P s k).1.trace = s.trace ++ new ∧
      (∀ q m m', s.memos q = some m → (fetch P s k).1.memos q = some m' → .exec q ∉ new →
        m'.value = m.value ∧ m'.gval = m.gval ∧ m'.ca = m.ca ∧ m'.dur = m.dur ∧ m'.obs = m.obs ∧
        m'.untracked = m.untracked) ∧
      (∀ q m', s.memos q = none → (fetch P s k).1.memos q = some m' → .exec q ∈ new) ∧
      (∀ q m m', s.memos q = some m → m.va ≠ s.cur → (fetch P s k).1.memos q = some m' →
        m'.va = s.cur → .valid q ∈ new ∨ .exec q ∈ new) := by
  obtain ⟨new, e, ok⟩ := fetch_tr3 hP s k hI
  exact ⟨new, e, ok.nochg, ok.fresh, ok.ver⟩

/-! ### Backdating shields readers -/

/-- **Backdating.**  Whatever a fetch does to the memo of `q` (nothing, validation, re-execution):
    if `q` is not `no_eq`, its value was present, and afterwards the value is equal and the
    durability is not lower, `changed_at` is unchanged. -/
theorem c03_core3_backdate_keeps_stamp {P : Prog} (hP : Wf P) (s : State) (hI : InvE P s) (k q : Nat)
    (m m' : Memo) (hm : s.memos q = some m) (hm' : (fetch P s k).1.memos q = some m')
    (hk : P.kind q ≠ .noeq) (hval : m.value ≠ none) (hv : m'.value = m.value) (hd : m.dur ≤ m'.dur) :
    m'.ca = m.ca := by
  obtain ⟨_, _, ok⟩ := fetch_tr3 hP s k hI
  exact ok.bd q m m' hm hm' hk hval hv hd

/-- A recorded edge of a reader with `verified_at = rva` is shielded: an input not written since
    `rva`; or a query that is not `no_eq`, whose memo holds a value the reader has seen
    (`changed_at ≤ rva`) and whose memo after the fetch — re-executed or not — has an equal value and
    a durability that is not lower. -/
def Shielded3 (P : Prog) (s s' : State) (rva : Nat) : Dep → Prop
  | .inp i => (s.inp i).ca ≤ rva
  | .qry q' => P.kind q' ≠ .noeq ∧ ∃ mq, s.memos q' = some mq ∧ mq.ca ≤ rva ∧ mq.value ≠ none ∧
      ∀ mq', s'.memos q' = some mq' → mq'.value = mq.value ∧ mq.dur ≤ mq'.dur
  | .cell _ => True

/-- **Backdating shields a reader.**  If the memo of `r` holds a value, is fully tracked and every
    recorded edge of it is shielded, the fetch does not execute `r`; and when `r` itself is
    requested and stale it gets `valid r`. -/
theorem c03_core3_backdate_shields {P : Prog} (hP : Wf P) (s : State) (hI : InvE P s) (k r : Nat)
    (mr : Memo) (hmr : s.memos r = some mr) (hval : mr.value ≠ none) (hu : mr.untracked = false)
    (hsh : ∀ o, o ∈ mr.obs → o.recd = true → Shielded3 P s (fetch P s k).1 mr.va o.dep) :
    ∃ new, (fetch P s k).1.trace = s.trace ++ new ∧ .exec r ∉ new ∧
      (k = r → mr.va ≠ s.cur → .valid r ∈ new) := by
  obtain ⟨new, e, ok⟩ := fetch_tr3 hP s k hI
  have hno : .exec r ∉ new := by
    intro hx
    rcases ok.just r hx with hn | ⟨m, hm, hv | ⟨_, _, hun | ⟨o, ho, hr, hc⟩⟩⟩
    · rw [hmr] at hn; cases hn
    · rw [hmr] at hm; cases hm; exact hval hv
    · rw [hmr] at hm; cases hm; rw [hu] at hun; cases hun
    · rw [hmr] at hm; cases hm
      have sh := hsh o ho hr
      have hc' := (edgeChanged3_iff _ _ _ _).mp hc
      cases hd : o.dep with
      | cell c => rw [hd] at hc'; exact hc'
      | inp i =>
        rw [hd] at hc' sh
        have hlt : mr.va < ((fetch P s k).1.inp i).ca := hc'
        have h1 : (s.inp i).ca ≤ mr.va := sh
        rw [ok.stab.inp] at hlt
        exact absurd h1 (Nat.not_le.mpr hlt)
      | qry q' =>
        rw [hd] at hc' sh
        obtain ⟨hk, mq, hmq, hle, hvq, hsame⟩ := sh
        rcases hc' with ⟨m', hm', _, hlt⟩ | ⟨m0, _, hm0, hv0, _⟩
        · obtain ⟨hv, hdur⟩ := hsame _ hm'
          have := ok.bd _ mq _ hmq hm' hk hvq hv hdur
          omega
        · rw [hm0] at hmq; cases hmq
          exact hvq hv0
  refine ⟨new, e, hno, ?_⟩
  intro hk hst
  subst hk
  obtain ⟨_, _, _, m, h4, h5, _⟩ := (Proofs.Core3E.eng_ok hP (k + 1)).1.ok s k (Nat.lt_succ_self k) hI
  rcases ok.ver k mr m hmr hst h4 h5 with h | h
  · exact h
  · exact absurd h hno

/-- **A query that is not executed shields its own readers**: if `d` (not `no_eq`, value present,
    stamp seen by the reader) is not executed by the fetch, the edge to `d` is shielded — so
    `c03_core3_backdate_shields` applies along chains of readers. -/
theorem c03_core3_no_exec_shields {P : Prog} (hP : Wf P) (s : State) (hI : InvE P s) (k d rva : Nat)
    (md : Memo) (hmd : s.memos d = some md) (hk : P.kind d ≠ .noeq) (hval : md.value ≠ none)
    (hseen : md.ca ≤ rva)
    (hno : ∀ new, (fetch P s k).1.trace = s.trace ++ new → .exec d ∉ new) :
    Shielded3 P s (fetch P s k).1 rva (.qry d) := by
  obtain ⟨new, e, ok⟩ := fetch_tr3 hP s k hI
  refine ⟨hk, md, hmd, hseen, hval, ?_⟩
  intro md' hmd'
  have := ok.nochg d md md' hmd hmd' (hno new e)
  exact ⟨this.1, by rw [this.2.2.2.1]; exact Nat.le_refl _⟩

/-! ### The LRU boundary: `c03_strict_false`

    q0 = min(i0, 1) (`lru`), q1 = q0 (plain caller, its only read), q2 = 3 (`lru`); the `lru`
    function has capacity 1.  History: `get 1; get 2; set 0 3`.  The revision bump evicts the value
    of q0 (least recently used).  q0's value is 1 before and after the write (i0: 2 → 3). -/

def wProg : List (Kind × Expr) :=
  [(.lru, .min (.inp 0) (.const 1)), (.plain, .qry 0), (.lru, .const 3)]
def wInp : Nat → Inp := fun _ => ⟨2, 1, 0⟩
def wOps : List Op := [.get 1, .get 2, .set 0 3 none]
/-- the state before the request … -/
def wS : State := run (progOf wProg) wInp (fun _ => 0) 1 wOps
/-- … and after `get 1` -/
def wS' : State := (fetch (progOf wProg) wS 1).1

/-- The STRICT reading of the property's list for a query edge: the callee's last computed value
    differs from the one it had before, or it is `no_eq`, or it got less durable. -/
def EdgeStrict (P : Prog) (s s' : State) (rev : Nat) : Dep → Prop
  | .inp i => rev < (s'.inp i).ca
  | .qry q' => ∃ m0 m1, s.memos q' = some m0 ∧ s'.memos q' = some m1 ∧
      (m1.gval ≠ m0.gval ∨ P.kind q' = .noeq ∨ m1.dur < m0.dur)
  | .cell _ => False

def JustifiedStrict (P : Prog) (s s' : State) (q : Nat) : Prop :=
  s.memos q = none ∨
  ∃ m, s.memos q = some m ∧
    (m.value = none ∨ m.untracked = true ∨
     ∃ o, o ∈ m.obs ∧ o.recd = true ∧ EdgeStrict P s s' m.va o.dep)

theorem wS_memo0 : wS.memos 0 = some ⟨none, 1, 1, 1, 0, false, 1, [⟨.inp 0, 2, true⟩]⟩ := rfl
theorem wS_memo1 : wS.memos 1 = some ⟨some 1, 1, 1, 1, 0, false, 1, [⟨.qry 0, 1, true⟩]⟩ := rfl
theorem wS'_memo0 : wS'.memos 0 = some ⟨some 1, 1, 2, 2, 0, false, 2, [⟨.inp 0, 3, true⟩]⟩ := rfl

/-- **The strict statement is false** (the deliberate LRU boundary): on a well-formed program and a
    reachable state, `get 1` executes the caller q1 (then q0) although q1's memo holds a value, is
    fully tracked, and its only recorded edge — the callee q0 — is not `no_eq`, is not less durable
    and returns the value it had before.  With capacity 2 (no eviction) the same history validates
    q1 instead (`c03_strict_control`). -/
theorem c03_strict_false :
    wfList 0 wProg = true ∧ wS'.trace = wS.trace ++ [.exec 1, .exec 0] ∧
    ¬ JustifiedStrict (progOf wProg) wS wS' 1 := by
  refine ⟨by decide, by decide, ?_⟩
  rintro (hn | ⟨m, hm, hv | hu | ⟨o, ho, _, hc⟩⟩)
  · rw [wS_memo1] at hn; cases hn
  · rw [wS_memo1] at hm; cases hm; cases hv
  · rw [wS_memo1] at hm; cases hm; cases hu
  · rw [wS_memo1] at hm; cases hm
    have : o = ⟨.qry 0, 1, true⟩ := by simpa using ho
    subst this
    obtain ⟨m0, m1, h0, h1, hx⟩ := hc
    rw [wS_memo0] at h0; cases h0
    rw [wS'_memo0] at h1; cases h1
    rcases hx with h | h | h
    · exact h rfl
    · exact absurd h (by decide)
    · exact absurd h (by decide)

/-- **Which disjunct applies**: the fourth one of `Justified3` — q1's memo is stale, fails the
    shallow test, and its recorded edge q0 answered "changed" by `EdgeCh.evicted`: q0's memo was
    stale, its value evicted, and ITS recorded edge i0 was written since (`EdgeCh.inp`), so
    `maybe_changed_after(q0)` answered "changed" without executing q0.  (Afterwards q1's execution
    requests q0, which is executed; an evicted value cannot be compared, hence not backdated, so
    `EdgeCh.stamp` holds post hoc as well: `c03_strict_witness_stamp`.) -/
theorem c03_strict_witness_disjunct :
    ∃ m, wS.memos 1 = some m ∧ m.value ≠ none ∧ m.untracked = false ∧ m.va < wS.cur ∧ m.va < lc wS m.dur ∧
      ∃ o, o ∈ m.obs ∧ o.recd = true ∧ o.dep = .qry 0 ∧
        ∃ m0 o0, wS.memos 0 = some m0 ∧ m0.value = none ∧ m0.va < wS.cur ∧ m0.va < lc wS m0.dur ∧
          o0 ∈ m0.obs ∧ o0.recd = true ∧ o0.dep = .inp 0 ∧ m0.va < (wS'.inp 0).ca ∧
          EdgeCh wS wS' m.va o.dep :=
  ⟨_, wS_memo1, by simp, rfl, by decide, by decide, ⟨.qry 0, 1, true⟩, by simp, rfl, rfl,
   _, ⟨.inp 0, 2, true⟩, wS_memo0, rfl, by decide, by decide, by simp, rfl, rfl, by decide,
   .evicted (o := ⟨.inp 0, 2, true⟩) wS_memo0 rfl (by decide) (by decide) (by simp) rfl (.inp (by decide))⟩

theorem c03_strict_witness_justified : Justified3 wS wS' 1 := by
  obtain ⟨m, hm, _, _, h1, h2, o, ho, hr, _, _, _, _, _, _, _, _, _, _, _, hc⟩ := c03_strict_witness_disjunct
  exact Or.inr ⟨m, hm, Or.inr (Or.inr ⟨h1, h2, o, ho, hr, hc⟩)⟩

theorem c03_strict_witness_stamp : EdgeCh wS wS' 1 (.qry 0) :=
  .stamp wS'_memo0 (by decide) (by decide)

/-- control: with capacity 2 nothing is evicted; the same history executes q0 (its input changed),
    backdates it and validates the caller -/
theorem c03_strict_control :
    (run (progOf wProg) wInp (fun _ => 0) 2 (wOps ++ [.get 1])).trace.drop 3 = [.exec 0, .valid 1] := by decide

/-- the boundary does not need a changed input VALUE: writing the value i0 already has gives the
    same events (a write always advances the input's stamp) -/
example : (run (progOf wProg) wInp (fun _ => 0) 1 [.get 1, .get 2, .set 0 2 none, .get 1]).trace.drop 3 =
    [.exec 1, .exec 0] := by decide

/-! ### Non-vacuity -/

-- `c03_core3_exec_justified_prog`: `wProg` is well-formed (`c03_strict_false`), the history `wOps`
-- contains an eviction, and the fetch executes two queries: q1 by the fourth disjunct
-- (`c03_strict_witness_justified`), q0 by the second (its value is evicted)
example : Justified3 wS wS' 0 := Or.inr ⟨_, wS_memo0, Or.inl rfl⟩

-- second disjunct with a memo that is verified in the CURRENT revision: an explicit `evict`
example : (run (progOf wProg) wInp (fun _ => 0) 1 [.get 0, .get 2, .evict, .get 0]).trace = [.exec 0, .exec 2, .exec 0] := by
  decide

/-- q0 = (u0 + i0) mod 4 (untracked), q1 = q0 (reader), q2 = min(i0, 1) (`no_eq`), q3 = q2 (reader) -/
def exProg : List (Kind × Expr) :=
  [(.plain, .add (.cell 0) (.inp 0)), (.plain, .qry 0), (.noeq, .min (.inp 0) (.const 1)), (.plain, .qry 2)]
def exInp : Nat → Inp := fun _ => ⟨2, 1, 0⟩

example : wfList 0 exProg = true := by decide

-- third disjunct: in a new revision the untracked q0 is executed (the cell changed: its value
-- changes, so its reader q1 is executed through `EdgeCh.stamp`)
example : (run (progOf exProg) exInp (fun _ => 0) 0 [.get 1, .cellSynth 0 1 0, .get 1]).trace.drop 2 =
    [.exec 0, .exec 1] := by decide
example : ∃ m, (run (progOf exProg) exInp (fun _ => 0) 0 [.get 1, .cellSynth 0 1 0]).memos 0 = some m ∧
    m.untracked = true ∧ m.va < (run (progOf exProg) exInp (fun _ => 0) 0 [.get 1, .cellSynth 0 1 0]).cur :=
  ⟨_, rfl, rfl, by decide⟩

-- a `no_eq` callee: i0: 2 → 3 leaves min(i0, 1) = 1, but q2 is never backdated, so its reader q3
-- is executed (`EdgeCh.stamp`); the plain twin `wProg` with capacity 2 validates instead
-- (`c03_strict_control`)
example : (run (progOf exProg) exInp (fun _ => 0) 0 [.get 3, .set 0 3 none, .get 3]).trace.drop 2 =
    [.exec 2, .exec 3] := by decide

-- hypotheses of `c03_core3_backdate_shields` for the reader r = 1 of `wProg` with capacity 2: its
-- memo holds a value, is tracked, and its one recorded edge q0 is shielded (q0 is `lru`, not
-- `no_eq`; value present; after the fetch the value is equal, the durability the same)
def cS : State := run (progOf wProg) wInp (fun _ => 0) 2 wOps
example : ∃ mr, cS.memos 1 = some mr ∧ mr.value ≠ none ∧ mr.untracked = false ∧ mr.va ≠ cS.cur ∧
    ∀ o, o ∈ mr.obs → o.recd = true → Shielded3 (progOf wProg) cS (fetch (progOf wProg) cS 1).1 mr.va o.dep := by
  refine ⟨⟨some 1, 1, 1, 1, 0, false, 1, [⟨.qry 0, 1, true⟩]⟩, rfl, by simp, rfl, by decide, ?_⟩
  intro o ho _
  have : o = ⟨.qry 0, 1, true⟩ := by simpa using ho
  subst this
  refine ⟨by decide, ⟨some 1, 1, 1, 1, 0, false, 1, [⟨.inp 0, 2, true⟩]⟩, rfl, Nat.le_refl _, by simp, ?_⟩
  intro mq' h
  have h' : some (⟨some 1, 1, 2, 1, 0, false, 2, [⟨.inp 0, 3, true⟩]⟩ : Memo) = some mq' := h
  cases h'
  exact ⟨rfl, Nat.le_refl _⟩

end SalsaVerif.Props.C03Core3
