/-
  C08 — interning is canonical within a revision, across queries and threads.

  Model: SalsaVerif/Model/Intern.lean (src/interned.rs).  Single shard: histories of
  `Op = newRev | intern dur inQuery fields | mca id gen | addMemo id` from `Sys.init revisions`
  (`Reachable rev s`); `stepSys`/`runSys` return `none` when a step panics.  Several shards and
  threads: Model/InternConc.lean (`Conc`), used by `c08_linearizable`.

  Carried invariant (SalsaVerif/Proofs/Intern.lean, `ShardInv`): the key map is a bijection
  between the live field values and the slots, the LRU list contains exactly the reusable slots
  (minus leaked ones at the maximal generation), without duplicates.

  NOT YET PROVED: nothing of the C08 list is missing.  Trusted, not modelled: that the shard
  mutex really makes the shard part of `intern_id` atomic, and that `record` is atomic under
  the queue mutex (`c08_linearizable` is about the interleaving LTS built from these two atomic
  steps per call).
-/
import SalsaVerif.Model.Intern
import SalsaVerif.Model.InternConc
import SalsaVerif.Proofs.InternHist
import SalsaVerif.Proofs.InternConc

namespace SalsaVerif.Props.C08
open SalsaVerif.Model.Intern SalsaVerif.Proofs.Intern

/-- `intern` never panics in a reachable state (none of the three modelled panics — empty
    queue index, dangling LRU/key-map entry, "interned value in LRU so must be in key_map" — is
    reachable), and the reachable states satisfy the carried invariant. -/
theorem c08_total (rev : Option Nat) (hrev : rev ≠ some 0) (s : Sys) (hr : Reachable rev s)
    (d : Nat) (inq : Bool) (x : Nat) :
    (∃ s' o, stepSys s (.intern d inq x) = some (s', .interned o)) ∧
    ShardInv s.it.revisions s.it.shard :=
  ⟨intern_total (inv_of_reachable hrev hr) d inq x, (inv_of_reachable hrev hr).shard⟩

/-- Two `intern` calls with equal fields within one revision — whatever else happens in between
    (other interns, validations, from any query or none) — return the same id and generation;
    the second one is a hit. -/
theorem c08_same (rev : Option Nat) (hrev : rev ≠ some 0) (s s1 s2 s3 : Sys)
    (hr : Reachable rev s) (x d1 d2 : Nat) (q1 q2 : Bool) (o1 : Outcome) (r : Ret)
    (ops : List Op) (log : List Ev)
    (h1 : stepSys s (.intern d1 q1 x) = some (s1, .interned o1))
    (hops : ∀ op ∈ ops, op ≠ .newRev) (h2 : runSys s1 ops = some (s2, log))
    (h3 : stepSys s2 (.intern d2 q2 x) = some (s3, r)) :
    r = .interned ⟨.hit, o1.id, o1.generation⟩ := by
  have inv := inv_of_reachable hrev hr
  have inv1 := inv_step inv h1
  have inv2 := inv_run inv1 h2
  obtain ⟨v, hv, hf, hg, _⟩ := protected_run inv1 (protected_of_intern inv h1) hops h2
  rw [← hg]
  exact intern_hit_of_slot inv2 hv hf h3

example :
    (runSys (Sys.init (some 1))
      [.newRev, .intern 0 true 5, .intern 0 true 6, .mca 0 0, .intern 2 true 5, .intern 0 false 5]).map
        (fun r => r.2.map (·.ret)) =
      some [.unit, .interned ⟨.new, 0, 0⟩, .interned ⟨.new, 1, 0⟩, .verified false,
            .interned ⟨.hit, 0, 0⟩, .interned ⟨.hit, 0, 0⟩] := by decide

/-- Unequal fields get different ids: within one revision (dynamic form), and in every reachable
    state two different slots hold different values (static form: the key map is injective). -/
theorem c08_distinct (rev : Option Nat) (hrev : rev ≠ some 0) (s : Sys) (hr : Reachable rev s) :
    (∀ (s1 s2 s3 : Sys) (x y d1 d2 : Nat) (q1 q2 : Bool) (o1 o2 : Outcome) (ops : List Op)
        (log : List Ev),
      stepSys s (.intern d1 q1 x) = some (s1, .interned o1) →
      (∀ op ∈ ops, op ≠ .newRev) → runSys s1 ops = some (s2, log) →
      stepSys s2 (.intern d2 q2 y) = some (s3, .interned o2) →
      x ≠ y → o1.id ≠ o2.id) ∧
    (∀ i j v w, s.it.shard.slot? i = some v → s.it.shard.slot? j = some w →
      v.fields = w.fields → i = j) := by
  have inv := inv_of_reachable hrev hr
  refine ⟨?_, fun i j v w hv hw hf => fields_injective inv.shard hv hw hf⟩
  intro s1 s2 s3 x y d1 d2 q1 q2 o1 o2 ops log h1 hops h2 h3 hxy hid
  have inv1 := inv_step inv h1
  have inv2 := inv_run inv1 h2
  have hp2 := protected_run inv1 (protected_of_intern inv h1) hops h2
  obtain ⟨v, hv, hf, _⟩ := protected_step inv2 hp2 (by intro e; cases e) h3
  obtain ⟨w, hw, hwf, _⟩ := protected_of_intern inv2 h3
  rw [hid, hw] at hv
  injection hv with hv
  subst hv
  exact hxy (hf.symm.trans hwf)

/-- Reading back the returned id yields the interned fields (at the returned generation). -/
theorem c08_readback (rev : Option Nat) (hrev : rev ≠ some 0) (s s' : Sys) (hr : Reachable rev s)
    (d : Nat) (inq : Bool) (x : Nat) (o : Outcome)
    (h : stepSys s (.intern d inq x) = some (s', .interned o)) :
    ∃ v, s'.it.shard.slot? o.id = some v ∧ v.fields = x ∧ v.generation = o.generation := by
  obtain ⟨v, hv, hf, hg, _⟩ := protected_of_intern (inv_of_reachable hrev hr) h
  exact ⟨v, hv, hf, hg⟩

/-- A value that is never stale — at no point of the history would the reuse scan of an `intern`
    consider its `last_interned_at` stale (`neverStale`, an executable check) — keeps its id: the
    slot keeps value and generation and every `intern` of the value along the history is a hit
    returning that id.  Having been interned or validated in the current revision is sufficient
    for not being stale now. -/
theorem c08_keeps_identity (rev : Option Nat) (hrev : rev ≠ some 0) (s : Sys)
    (hr : Reachable rev s) (i : Nat) (v : Slot) (hv : s.it.shard.slot? i = some v) :
    (∀ (ops : List Op) (s' : Sys) (log : List Ev), neverStale i s ops = true →
      runSys s ops = some (s', log) →
      (∃ v', s'.it.shard.slot? i = some v' ∧ v'.fields = v.fields ∧
        v'.generation = v.generation) ∧
      (∀ e ∈ log, ∀ d inq, e.op = .intern d inq v.fields →
        e.ret = .interned ⟨.hit, i, v.generation⟩)) ∧
    (s.cur ≤ v.lastInternedAt → notStaleNow s i = true) := by
  have inv := inv_of_reachable hrev hr
  refine ⟨fun ops s' log hns h => kept_run inv hv hns h, ?_⟩
  intro hle
  unfold notStaleNow
  rw [hv]
  cases hq : recordIfMortal s.it.revisions s.it.queue s.cur with
  | none => rfl
  | some q' =>
    simp only
    rw [notStale_of_touched inv hle q' hq]
    rfl

/-- revisions = 2, value 7 interned in every used revision, values 8, 9, 10 come and go. -/
example :
    neverStale 0 (Sys.init (some 2))
      [.intern 0 true 7, .intern 0 true 8, .newRev, .intern 0 true 7, .intern 0 true 9, .newRev,
       .newRev, .intern 0 true 7, .intern 0 true 10, .newRev, .intern 0 true 11, .intern 0 true 7]
      = true ∧
    (runSys (Sys.init (some 2))
      [.intern 0 true 7, .intern 0 true 8, .newRev, .intern 0 true 7, .intern 0 true 9, .newRev,
       .newRev, .intern 0 true 7, .intern 0 true 10, .newRev, .intern 0 true 11,
       .intern 0 true 7]).map (fun r => (r.2.map (·.ret)).getLast?) =
      some (some (.interned ⟨.hit, 0, 0⟩)) := by decide

open SalsaVerif.Proofs.InternConc in
/-- Linearizability in the interleaving LTS of Model/InternConc.lean (per call: one atomic
    `record` step on the queue, then one atomic step on the shard selected by `hash fields` — so
    equal values always meet in the same shard).  For every schedule that starts and ends with
    no call in flight: executing the calls one after the other, each without interference
    (`Multi.intern`), in the order of their shard steps (`c'.lin`) yields exactly the final
    ingredient state of the concurrent run and exactly the outcomes the calls got; and the
    linearization respects every thread's program order.  With a constant hash the sequential
    `Multi.intern` is the single-shard `Interner.intern` of C08/C09. -/
theorem c08_linearizable (hash : Nat → Nat) (cur : Nat) (c c' : Conc) (sched : List Nat)
    (hlin : c.lin = []) (h0 : ∀ t, (c.threads t).recorded = false)
    (hrun : c.run hash cur sched = some c')
    (hq : ∀ t, (c'.threads t).recorded = false) :
    Multi.internAll hash cur c.m (c'.lin.map (·.call)) = some (c'.m, c'.lin.map (·.out)) ∧
    (∀ t, (c.threads t).todo =
        ((c'.lin.filter (fun e => e.thread == t)).map (·.call)) ++ (c'.threads t).todo ∧
      (c'.threads t).results =
        (c.threads t).results ++ (c'.lin.filter (fun e => e.thread == t)).map (·.out)) ∧
    (∀ (s : Interner) (d : Nat) (q : Bool) (x : Nat),
      (Multi.intern (fun _ => 0) ⟨s.revisions, s.queue, fun _ => s.shard, s.nextId⟩ cur
          ⟨d, q, x⟩).map (fun r => (r.1.revisions, r.1.queue, r.1.shards 0, r.1.nextId, r.2)) =
        (s.intern cur d q x).map (fun r => (r.1.revisions, r.1.queue, r.1.shard, r.1.nextId, r.2))) := by
  have sim := sim_run hash cur c c c' sched (sim_init hash cur c hlin h0) hrun
  refine ⟨?_, fun t => ⟨sim.todo t, sim.results t⟩, ?_⟩
  · obtain ⟨S, hall, hrev, hsh, hnid, hqq⟩ := sim.seq
    have hqe : S.queue = c'.m.queue := by
      rcases hqq with e | ⟨⟨t, ht⟩, _⟩
      · exact e
      · rw [hq t] at ht; cases ht
    rw [hall, multi_eq hrev hqe hsh hnid]
  · intro s d q x
    unfold Multi.intern Multi.recordStep Interner.intern
    simp only
    cases recordIfMortal s.revisions s.queue cur with
    | none => rfl
    | some q1 =>
      simp only
      unfold Multi.shardStep
      simp only
      cases internShard s.revisions q1 cur d q x s.nextId s.shard with
      | none => rfl
      | some r => simp

/-- Two threads intern the same value 5 (and a third value 6) under an interleaved schedule:
    one allocation, one hit — the same id for both. -/
example :
    ((Conc.run (fun x => x % 2) 1
        ⟨Multi.new (some 1),
         fun t => if t = 0 then ⟨[⟨0, true, 5⟩, ⟨0, true, 6⟩], false, []⟩
                  else if t = 1 then ⟨[⟨0, true, 5⟩], false, []⟩ else ⟨[], false, []⟩, []⟩
        [0, 1, 1, 0, 0, 0]).map
      (fun c => ((c.threads 0).results, (c.threads 1).results, c.lin.map (·.thread)))) =
      some ([⟨.hit, 0, 0⟩, ⟨.new, 1, 0⟩], [⟨.new, 0, 0⟩], [1, 0, 0]) := by decide

end SalsaVerif.Props.C08
