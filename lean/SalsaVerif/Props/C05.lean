/-
  C05 — LRU policy: bounded, evicts least recently used, transparent when disabled.

  Model: SalsaVerif/Model/Lru.lean (src/function/eviction/lru.rs).  All theorems quantify over
  an arbitrary initial capacity `c` and an arbitrary history `ops : List Op`
  (`use id | setCap n | evict`) applied to `Lru.new c`.

  Specification vocabulary (SalsaVerif/Proofs/Lru.lean):
    `events l ops`      the observable log: `used id` (an accepted `record_use`), `evicted id`
                        (the eviction callback ran), `cleared` (capacity set to 0);
    `usedSince evs`     the ids of the accepted uses since the last `cleared`, oldest first — i.e.
                        the uses made while the capacity was continuously non-zero;
    `dedupLast us`      the distinct ids of `us` ordered by their last occurrence (least recently
                        used first);
    `Live evs id`       there is a `used id` event after which the log contains neither
                        `evicted id` nor `cleared`.

  NOT YET PROVED (belongs to the engine model, not to the policy; not in this file):
    c05_transparent, c05_keeps_edges, c05_no_exec_in_mca, c05_bound (see DESIGN.md §C05; the
    full `c05_bound` is known to be false on the unchanged tree).
-/
import SalsaVerif.Model.Lru
import SalsaVerif.Proofs.Lru

namespace SalsaVerif.Props.C05
open SalsaVerif.Model.Lru SalsaVerif.Proofs.Lru

/-- The set never contains duplicates. -/
theorem lru_nodup (c : Nat) (ops : List Op) : (run (Lru.new c) ops).set.Nodup :=
  (inv_run c ops).nodup

example : (run (Lru.new 2) [.use 1, .use 2, .use 1, .use 3, .evict, .use 2]).set = [1, 3, 2] := by
  decide

/-- After `for_each_evicted` the set holds at most `capacity` ids: for *any* state with a
    non-zero capacity, and for every reachable state unconditionally (capacity 0 ⇒ set empty). -/
theorem lru_bound :
    (∀ l : Lru, l.capacity ≠ 0 → (forEachEvicted l).1.set.length ≤ l.capacity) ∧
    (∀ (c : Nat) (ops : List Op),
      (forEachEvicted (run (Lru.new c) ops)).1.set.length ≤ (run (Lru.new c) ops).capacity) := by
  have h1 : ∀ l : Lru, l.capacity ≠ 0 → (forEachEvicted l).1.set.length ≤ l.capacity := by
    intro l h
    rw [forEachEvicted_eq l h]
    simp only [List.length_drop]
    omega
  refine ⟨h1, ?_⟩
  intro c ops
  by_cases h : (run (Lru.new c) ops).capacity = 0
  · rw [forEachEvicted_cap0 _ h, (inv_run c ops).cap0 h]
    simp
  · exact h1 _ h

example : (forEachEvicted ⟨2, [5, 6, 7, 8]⟩).1.set = [7, 8] := by decide

/-- Eviction removes exactly the first `len − cap` ids of the set, in least-recent-first order;
    the survivors are the `k` most recently used distinct ids among those used while the capacity
    was continuously non-zero, where `k` is the number of survivors; and `k = cap` (so: exactly the
    `cap` most recently used) whenever the set had reached the capacity. -/
theorem lru_evicts_least_recent (c : Nat) (ops : List Op) :
    let l := run (Lru.new c) ops
    let r := forEachEvicted l
    let mru := dedupLast (usedSince (events (Lru.new c) ops))
    r.2 = l.set.take (l.set.length - l.capacity) ∧
    r.1.set = l.set.drop (l.set.length - l.capacity) ∧
    l.set = r.2 ++ r.1.set ∧
    r.1.set = mru.drop (mru.length - r.1.set.length) ∧
    (l.capacity ≤ l.set.length → r.1.set = mru.drop (mru.length - l.capacity)) := by
  intro l r mru
  have inv := inv_run c ops
  have hsuf : r.1.set <:+ mru := by
    by_cases h : l.capacity = 0
    · show (forEachEvicted l).1.set <:+ mru
      rw [forEachEvicted_cap0 l h]; exact inv.suffix
    · show (forEachEvicted l).1.set <:+ mru
      rw [forEachEvicted_eq l h]
      exact List.IsSuffix.trans (List.drop_suffix _ _) inv.suffix
  by_cases h : l.capacity = 0
  · have hs : l.set = [] := inv.cap0 h
    have hr : r = (l, []) := forEachEvicted_cap0 l h
    refine ⟨?_, ?_, ?_, suffix_eq_drop _ _ hsuf, ?_⟩
    · rw [hr, hs]; simp
    · rw [hr, hs]; simp
    · rw [hr, hs]; simp
    · intro _
      rw [hr, hs, h]; simp
  · have hr : r = ({ l with set := l.set.drop (l.set.length - l.capacity) },
        l.set.take (l.set.length - l.capacity)) := forEachEvicted_eq l h
    refine ⟨?_, ?_, ?_, suffix_eq_drop _ _ hsuf, ?_⟩
    · rw [hr]
    · rw [hr]
    · rw [hr]; exact (List.take_append_drop _ _).symm
    · intro hle
      have hlen : r.1.set.length = l.capacity := by
        rw [hr]; simp only [List.length_drop]; omega
      have := suffix_eq_drop _ _ hsuf
      rw [hlen] at this
      exact this

/-- capacity 2, uses 1 2 3 1 4: the set is `[2,3,1,4]`-minus-nothing = `[2, 3, 1, 4]`, eviction
    pops `2, 3` and keeps `[1, 4]` = the 2 most recently used distinct ids. -/
example :
    forEachEvicted (run (Lru.new 2) [.use 1, .use 2, .use 3, .use 1, .use 4]) = (⟨2, [1, 4]⟩, [2, 3]) ∧
    dedupLast (usedSince (events (Lru.new 2) [.use 1, .use 2, .use 3, .use 1, .use 4])) = [2, 3, 1, 4] := by
  decide

/-- The survivors need not be `cap` many after the capacity was raised (earlier evictions are not
    undone): capacity 1, uses 1 2, evict, capacity 5, evict ⇒ `[2]`, although `1` was used too. -/
example :
    (forEachEvicted (run (Lru.new 1) [.use 1, .use 2, .evict, .setCap 5])).1.set = [2] := by decide

/-- Capacity 0 (LRU disabled): `record_use` and `for_each_evicted` are identities (on any state),
    `set_capacity(0)` empties the set, and in every reachable state with capacity 0 the set is
    empty. -/
theorem lru_cap0 :
    (∀ (l : Lru) (id : Nat), l.capacity = 0 → recordUse l id = l) ∧
    (∀ l : Lru, l.capacity = 0 → forEachEvicted l = (l, [])) ∧
    (∀ l : Lru, setCapacity l 0 = ⟨0, []⟩) ∧
    (∀ (c : Nat) (ops : List Op), (run (Lru.new c) ops).capacity = 0 →
      (run (Lru.new c) ops).set = []) := by
  refine ⟨?_, forEachEvicted_cap0, ?_, fun c ops => (inv_run c ops).cap0⟩
  · intro l id h
    simp [recordUse, h]
  · intro l
    simp [setCapacity]

example : run (Lru.new 3) [.use 1, .use 2, .setCap 0, .use 7, .evict] = ⟨0, []⟩ := by decide

/-- An id is in the set iff it was used (while the capacity was non-zero) and since that use it
    was neither evicted nor cleared away by a capacity of 0. -/
theorem lru_member_iff_used (c : Nat) (ops : List Op) (id : Nat) :
    id ∈ (run (Lru.new c) ops).set ↔
      ∃ pre post, events (Lru.new c) ops = pre ++ Event.used id :: post ∧
        Event.evicted id ∉ post ∧ Event.cleared ∉ post :=
  (inv_run c ops).mem id

example :
    events (Lru.new 1) [.use 1, .use 2, .evict, .use 1, .setCap 0, .setCap 2, .use 3] =
      [.used 1, .used 2, .evicted 1, .used 1, .cleared, .used 3] ∧
    (run (Lru.new 1) [.use 1, .use 2, .evict, .use 1, .setCap 0, .setCap 2, .use 3]).set = [3] := by
  decide

end SalsaVerif.Props.C05
