/-
  C06 — tracked struct identities survive re-execution; dropped structs are discarded.
  Model: `SalsaVerif/Model/Structs.lean`; helper lemmas + invariants: `SalsaVerif/Proofs/Structs.lean`
  (which also holds the tracked-struct lemmas `c07s_*` for C07).

  Theorems (all fully proved, axioms: propext / Quot.sound / Classical.choice at most):
    c06_disamb_order            disambiguators are 0,1,2,… per (ingredient, hash) in creation order
    c06_distinct, c06_distinct_step
                                invariant of every reachable multi-creator world: live handles ↔ live
                                slots of the same generation, pairwise distinct slots (within and
                                across creators), idmap injective, Live ∩ Free = ∅, free list
                                duplicate-free, free ⇔ deleted (up to generation-exhausted leaks)
    c06_dropped                 a struct that is not re-created is stale ⇒ deleted, memos cleared,
                                on its ingredient's free list, not in the new memo
    c06_delete_panics_iff       exact characterisation of the results of `delete_entity`
    c06_same_id                 re-creation under the same identity returns the same (slot, gen)
    c06_memos_kept              … and keeps generation, memo table, equal fields' revisions
    c06_same_id_hyps_reachable  the consistency hypotheses of the two hold in every reachable state
    c06_same_id_hyps_post       … and again after an execution; created ⊆ new memo
    c06_same_id_rerun           two consecutive executions: k-th creation of a key ↦ same id
    c06_world_exec              `runExecution` = the world's `begin; new…; finish` without interleaving
    c06_driver_inv              the Bool invariant `winvB` that `svdriver structs` evaluates after every replayed
                                hook-trace line of real salsa (`inv=ok`) is exactly the world invariant `WInv`

  NOT YET PROVED: nothing of the C06 list is missing.  Scope limits of the MODEL (not modelled, hence
  no theorem): (1) `seed_iteration` (fixpoint iterations mark the previous iteration's ids active and
  pre-seed the disambiguator map); (2) the recursive `remove_outputs` cascade inside `clear_memos`
  is approximated by the separate world op `discard` (sequential instead of nested order);
  (3) free-slot choice is FIFO per ingredient (`SegQueue` single-threaded); no `choose` variant —
  the invariants in `c06_distinct` do not depend on the order, `c06_same_id` never allocates;
  (4) single-threaded: `updated_at` is modelled as a value protocol, not as an atomic.
-/
import SalsaVerif.Proofs.Structs
import SalsaVerif.Proofs.StructsExamples
import SalsaVerif.Proofs.StructsInv

namespace SalsaVerif.Props.C06
open SalsaVerif.Model.Structs
open SalsaVerif.Proofs.Structs

/-! ### c06_disamb_order -/

/-- Disambiguators are handed out 0,1,2,… per (ingredient, hash) in creation order, independent of
    creations with other keys: in an execution (frame seeded from ANY previous active list, so the
    disambiguator map starts empty) the `j`-th creation is registered under the identity
    (ingredient, hash, number of EARLIER creations with the same (ingredient, hash)). -/
theorem c06_disamb_order (hash : Nat → Nat) (cur : Nat) (prev : List (Identity × Id))
    (cs : List Creation) (s : State) (out : ExecOut)
    (h : runExecution hash cur prev cs s = .ok out) :
    out.created.length = cs.length ∧
    ∀ j c, cs[j]? = some c → ∃ id, out.created[j]? = some
      ((⟨c.ingr, hash c.fields.idv, countKey hash (keyOf hash c) (cs.take j)⟩ : Identity), id) := by
  unfold runExecution at h
  split at h
  · cases h
  · rename_i f1 s1 rs hrun
    split at h
    · cases h
    · simp only [Except.ok.injEq] at h
      subst h
      refine ⟨runCreations_length hrun, ?_⟩
      intro j c hc
      obtain ⟨id, hid⟩ := runCreations_disamb hrun j c hc
      refine ⟨id, ?_⟩
      rw [hid]
      simp [Frame.seed, DisambiguatorMap.get]

/-- non-vacuity: hashes collide (1 and 11), two ingredients; the creations with key (0,1) get
    0,1,2 although creations with other keys are interleaved. -/
example :
    (runExecution (fun x => x % 10) 1 []
        [⟨0, 1, 0, ⟨1, [5]⟩⟩, ⟨0, 1, 0, ⟨2, [6]⟩⟩, ⟨0, 1, 0, ⟨11, [7]⟩⟩, ⟨0, 1, 1, ⟨1, [8]⟩⟩,
         ⟨0, 1, 0, ⟨1, [9]⟩⟩] State.empty).toOption.map (fun out => out.created.map (fun p => p.1))
      = some [⟨0, 1, 0⟩, ⟨0, 2, 0⟩, ⟨0, 1, 1⟩, ⟨1, 1, 0⟩, ⟨0, 1, 2⟩] := by decide

/-! ### c06_distinct -/

/-- The invariant `WInv` (Proofs/Structs.lean) holds in the empty world and is preserved by every
    op of the multi-creator op language (`spawn`, `begin`, `new`, `finish`, `discard`, `read`,
    `addMemo`) that does not panic. -/
theorem c06_distinct_step (hash : Nat → Nat) (w w' : World) (op : Op) (hI : WInv w)
    (h : step hash w op = .ok w') : WInv w' := step_inv hI h

/-- In every state reachable from the empty world:
    (1) every handle held by a creator (in its memo or in its running frame, active or not yet
        re-created) denotes a live slot (`updatedAt ≠ none`) of the handle's generation;
    (2) all these handles have pairwise distinct slot indices, (3) in particular handles of
        different creators never share a slot, (4) entries of an identity map with different
        identities have different slots (idmap injective), (5) same for a memo's id list;
    (6) every free-list entry denotes a deleted slot (`updatedAt = none`, no memos) of the entry's
        generation, (7) the free list has no duplicate slots, (8) Live ∩ Free = ∅. -/
theorem c06_distinct (hash : Nat → Nat) (ops : List Op) (w : World)
    (h : runOps hash World.empty ops = .ok w) :
    (∀ c, c ∈ w.ctxs → ∀ id, id ∈ ctxIds c → Owns w.st id) ∧
    (ownedIdxs w).Nodup ∧
    (∀ (q1 q2 : Nat) c1 c2 n, w.ctxs[q1]? = some c1 → w.ctxs[q2]? = some c2 → q1 ≠ q2 →
        n ∈ ctxIdxs c1 → n ∉ ctxIdxs c2) ∧
    (∀ (q : Nat) f e1 e2, w.ctxs[q]? = some (Ctx.running f) → e1 ∈ f.idmap → e2 ∈ f.idmap →
        e1.identity ≠ e2.identity → e1.id.idx ≠ e2.id.idx) ∧
    (∀ (q : Nat) a x y, w.ctxs[q]? = some (Ctx.idle a) → x ∈ a → y ∈ a → x.1 ≠ y.1 → x.2.idx ≠ y.2.idx) ∧
    FreeOK w.st ∧
    (freeIdxs w.st.free).Nodup ∧
    (∀ c, c ∈ w.ctxs → ∀ id, id ∈ ctxIds c → id.idx ∉ freeIdxs w.st.free) ∧
    (∀ (k : Nat) (v : Slot), w.st.slots[k]? = some v → v.updatedAt = none →
        (∃ g, (g, (⟨k, v.gen⟩ : Id)) ∈ w.st.free) ∨ GEN_MAX ≤ v.gen) := by
  have hI : WInv w := runOps_inv winv_empty h
  refine ⟨hI.owns, hI.distinct, ?_, ?_, ?_, hI.freeOK, hI.freeNodup, ?_,
    runOps_deadOnFree winv_empty deadOnFree_empty h⟩
  · intro q1 q2 c1 c2 n h1 h2 hne hn
    exact winv_cross hI h1 h2 hne hn
  · intro q f e1 e2 hq he1 he2 hne hc
    have hnd : (idxs f.idmap).Nodup := ctx_nodup hI hq
    exact hne (congrArg Entry.identity
      (nodup_map_inj (f := fun e : Entry => e.id.idx) hnd he1 he2 hc))
  · intro q a x y hq hx hy hne hc
    have hnd : (pairIdxs a).Nodup := ctx_nodup hI hq
    exact hne (congrArg Prod.fst
      (nodup_map_inj (f := fun x : Identity × Id => x.2.idx) hnd hx hy hc))
  · intro c hc id hid
    exact winv_not_free hI hc hid


example :
    (runOps (fun x => x % 10) World.empty c06DistinctOps).toOption.map (fun w => w.ctxs)
      = some [Ctx.idle [], Ctx.idle [(⟨7, 3, 0⟩, ⟨1, 1⟩)]] ∧
    (runOps (fun x => x % 10) World.empty c06DistinctOps).toOption.map (fun w => w.st.free)
      = some [(7, ⟨0, 0⟩), (7, ⟨2, 0⟩)] ∧
    (runOps (fun x => x % 10) World.empty c06DistinctOps).toOption.map
        (fun w => w.st.slots.map (fun v => (v.gen, v.updatedAt)))
      = some [(0, none), (1, some 2), (0, none)] ∧
    (runOps (fun x => x % 10) World.empty c06DistinctOps).toOption.map
        (fun w => w.st.slots.map (fun v => v.memos))
      = some [[], [⟨43, 1⟩], []] := by decide

/-! ### c06_dropped -/

/-- A struct of the previous execution that is not re-created is discarded by the diff after the
    re-execution (given that no panic result occurred): if the previous memo records `id` for
    identity `I` (`find` in the seeded identity map) and no creation of this execution is
    registered under `I`, then `(I, id)` is among the stale structs handed to `delete_entity`,
    `id` is on the free list of its ingredient, its slot is deleted (`updatedAt = none`) with an
    empty memo table, and the new memo's active list has no entry for `I`.
    (That no ACTIVE handle points to the slot either follows from `c06_distinct`.) -/
theorem c06_dropped (hash : Nat → Nat) (cur : Nat) (prev : List (Identity × Id))
    (cs : List Creation) (s : State) (out : ExecOut)
    (h : runExecution hash cur prev cs s = .ok out) (I : Identity) (id : Id)
    (hprev : IdentityMap.find (Frame.seed prev).idmap I = some id)
    (hnot : ∀ r, r ∈ out.created → r.1 ≠ I) :
    (I, id) ∈ out.stale ∧ (I.ingr, id) ∈ out.state.free ∧
    (∃ v, out.state.slots[id.idx]? = some v ∧ v.updatedAt = none ∧ v.memos = []) ∧
    (∀ x, x ∈ out.active → x.1 ≠ I) := by
  obtain ⟨f1, s1, hrun, hdel, hact, hst⟩ := runExecution_cases h
  obtain ⟨e, he, heI, heid⟩ := find_some_mem hprev
  have hinact : ∀ e', e' ∈ (Frame.seed prev).idmap → e'.identity = e.identity → e'.active = false := by
    intro e' he' _
    rcases mem_seed he' with h1 | ⟨_, h1⟩
    · simp at h1
    · exact h1
  obtain ⟨he1, hin1⟩ := runCreations_keeps hrun he (by rw [heI]; exact hnot) hinact
  have hstale : (I, id) ∈ (IdentityMap.drain f1.idmap).2 :=
    mem_drain_stale.mpr ⟨e, he1, hin1 e he1 rfl, by rw [← heI, ← heid]; rfl⟩
  refine ⟨hst ▸ hstale, ?_, deleteAll_dead hdel hstale, ?_⟩
  · rw [deleteAll_free hdel]
    exact List.mem_append_right _ (List.mem_map.mpr ⟨(I, id), hstale, rfl⟩)
  · intro x hx hxI
    rw [hact] at hx
    obtain ⟨e', he', ha', hp'⟩ := mem_drain_active.mp hx
    have : e'.identity = e.identity := by rw [heI, ← hxI, ← hp']; rfl
    rw [hin1 e' he' this] at ha'
    cases ha'

/-- `delete_entity` panics exactly when the slot is write-locked/deleted (`updatedAt = none`) or
    was created/updated/read in the current revision (`updatedAt = some cur`); `badId` is the
    model's answer to an index outside the table.  In all other cases it succeeds. -/
theorem c06_delete_panics_iff (s : State) (cur g : Nat) (id : Id) (p : Panic) :
    deleteEntity s cur g id = .error p ↔
      (s.slots[id.idx]? = none ∧ p = .badId) ∨
      (∃ v, s.slots[id.idx]? = some v ∧ v.updatedAt = none ∧ p = .deleteWriteLocked) ∨
      (∃ v, s.slots[id.idx]? = some v ∧ v.updatedAt = some cur ∧ p = .deleteReadLocked) :=
  deleteEntity_error_iff


example :
    IdentityMap.find (Frame.seed c06DroppedPrev).idmap ⟨7, 1, 1⟩ = some ⟨2, 0⟩ ∧
    (runExecution (fun x => x % 10) 2 c06DroppedPrev
        [⟨0, 2, 7, ⟨1, [5]⟩⟩, ⟨0, 2, 7, ⟨2, [8]⟩⟩] c06DroppedState).toOption.map
        (fun out => (out.created, out.stale))
      = some ([(⟨7, 1, 0⟩, ⟨0, 0⟩), (⟨7, 2, 0⟩, ⟨1, 0⟩)], [(⟨7, 1, 1⟩, ⟨2, 0⟩)]) := by decide

/-- non-vacuity for `c06_delete_panics_iff`: all three error classes and the success case. -/
example :
    deleteEntity c06DroppedState 1 7 ⟨0, 0⟩ = .error .deleteReadLocked ∧
    deleteEntity c06DroppedState 2 7 ⟨5, 0⟩ = .error .badId ∧
    (deleteEntity c06DroppedState 2 7 ⟨2, 0⟩).toOption.map (fun s => s.free) = some [(7, ⟨2, 0⟩)] ∧
    ((deleteEntity c06DroppedState 2 7 ⟨2, 0⟩).toOption.map
        (fun s => (deleteEntity s 2 7 ⟨2, 0⟩).toOption.isNone)) = some true :=
  ⟨rfl, rfl, by decide, by decide⟩

/-! ### c06_same_id, c06_memos_kept -/

/-- Re-execution re-creates a struct under its old id.
    Setting: the frame is seeded from the previous memo's id list `prev`; the state is consistent
    with that memo (`hF hN hown hnd hhash`: exactly what `c06_distinct` guarantees in every
    reachable state, plus "the recorded identity hash is the hash of the stored identity value").
    The `j`-th creation `c` is the `k`-th creation with key (ingredient, hash idv) of this execution
    (`k = countKey …`, cf. `c06_disamb_order`); the previous memo recorded `id` for
    (ingredient, hash, k); its slot `v` was last touched in `r` with `r = cur` (already validated
    or read in this revision) or a generation to spare (`id.gen < GEN_MAX`).  Absent a hash
    collision between the stored and the new identity value (`hinj`: `hash` injective on the two
    values involved), the creation returns the same (slot, generation) and it is part of the new
    memo's active list. -/
theorem c06_same_id (hash : Nat → Nat) (cur : Nat) (prev : List (Identity × Id))
    (cs : List Creation) (s : State) (out : ExecOut)
    (h : runExecution hash cur prev cs s = .ok out)
    (hF : FreeOK s) (hN : FreeNodup s) (hown : ∀ x, x ∈ prev → Owns s x.2)
    (hnd : (pairIdxs prev).Nodup) (hhash : ∀ x, x ∈ prev → HashAt hash s x)
    (j : Nat) (c : Creation) (id : Id) (v : Slot) (r : Nat) (hc : cs[j]? = some c)
    (hfind : IdentityMap.find (Frame.seed prev).idmap
      ⟨c.ingr, hash c.fields.idv, countKey hash (keyOf hash c) (cs.take j)⟩ = some id)
    (hv : s.slots[id.idx]? = some v) (hu : v.updatedAt = some r)
    (hgen : r = cur ∨ id.gen < GEN_MAX)
    (hinj : hash v.fields.idv = hash c.fields.idv → v.fields.idv = c.fields.idv) :
    out.created[j]? = some
      ((⟨c.ingr, hash c.fields.idv, countKey hash (keyOf hash c) (cs.take j)⟩ : Identity), id) ∧
    ((⟨c.ingr, hash c.fields.idv, countKey hash (keyOf hash c) (cs.take j)⟩ : Identity), id)
      ∈ out.active := by
  obtain ⟨_, hdis⟩ := c06_disamb_order hash cur prev cs s out h
  obtain ⟨idj, hidj⟩ := hdis j c hc
  obtain ⟨v', hv', hh⟩ := hhash _ (find_seed_mem hfind)
  rw [hv] at hv'; cases hv'
  obtain ⟨h1, h2, _⟩ := runExecution_same_id h hF hN hown hnd hc hidj hfind hv hu hgen (hinj hh)
  exact ⟨by rw [hidj, h1], h2⟩

/-- In the situation of `c06_same_id` the slot keeps its generation and its memo table; it is
    stamped with the current revision.  If it was already touched in this revision (`r = cur`)
    it is not modified at all (fields untouched); otherwise it holds the new fields and the
    creator's durability, and the revision of every tracked field is kept where the value is
    equal and set to the creator's `changed_at` where it differs — unless the creator's durability
    dropped below the struct's, in which case all field revisions are reset to `changed_at`. -/
theorem c06_memos_kept (hash : Nat → Nat) (cur : Nat) (prev : List (Identity × Id))
    (cs : List Creation) (s : State) (out : ExecOut)
    (h : runExecution hash cur prev cs s = .ok out)
    (hF : FreeOK s) (hN : FreeNodup s) (hown : ∀ x, x ∈ prev → Owns s x.2)
    (hnd : (pairIdxs prev).Nodup) (hhash : ∀ x, x ∈ prev → HashAt hash s x)
    (j : Nat) (c : Creation) (id : Id) (v : Slot) (r : Nat) (hc : cs[j]? = some c)
    (hfind : IdentityMap.find (Frame.seed prev).idmap
      ⟨c.ingr, hash c.fields.idv, countKey hash (keyOf hash c) (cs.take j)⟩ = some id)
    (hv : s.slots[id.idx]? = some v) (hu : v.updatedAt = some r)
    (hgen : r = cur ∨ id.gen < GEN_MAX)
    (hinj : hash v.fields.idv = hash c.fields.idv → v.fields.idv = c.fields.idv) :
    ∃ v', out.state.slots[id.idx]? = some v' ∧
      v'.memos = v.memos ∧ v'.gen = v.gen ∧ v'.updatedAt = some cur ∧
      (r = cur → v' = v) ∧
      (r ≠ cur → v'.fields = c.fields ∧ v'.dur = c.dur ∧
        (c.dur < v.dur → v'.revs = newRevisions c.changedAt c.fields) ∧
        (¬ c.dur < v.dur → ∀ (i rv o n : Nat), v.revs[i]? = some rv →
          v.fields.tracked[i]? = some o → c.fields.tracked[i]? = some n →
          v'.revs[i]? = some (if o = n then rv else c.changedAt))) := by
  obtain ⟨_, hdis⟩ := c06_disamb_order hash cur prev cs s out h
  obtain ⟨idj, hidj⟩ := hdis j c hc
  obtain ⟨v0, hv0, hh⟩ := hhash _ (find_seed_mem hfind)
  rw [hv] at hv0; cases hv0
  obtain ⟨_, _, h3⟩ := runExecution_same_id h hF hN hown hnd hc hidj hfind hv hu hgen (hinj hh)
  by_cases hrc : r = cur
  · rw [if_pos hrc] at h3
    exact ⟨v, h3, rfl, rfl, by rw [hu, hrc], fun _ => rfl, fun hne => absurd hrc hne⟩
  · rw [if_neg hrc] at h3
    obtain ⟨m1, m2, m3, m4, m5, m6, m7⟩ :=
      updatedValue_same (v := v) (cur := cur) (dur := c.dur) (ca := c.changedAt) (id := id)
        (fields := c.fields) (hinj hh)
    exact ⟨_, h3, m1, m2, m3, fun hc' => absurd hc' hrc, fun _ => ⟨m4, m5, m6, m7⟩⟩


example :
    FreeOK c06SameState ∧ FreeNodup c06SameState ∧ (∀ x, x ∈ c06SamePrev → Owns c06SameState x.2) ∧
    (pairIdxs c06SamePrev).Nodup ∧ (∀ x, x ∈ c06SamePrev → HashAt (fun x => x % 10) c06SameState x) ∧
    IdentityMap.find (Frame.seed c06SamePrev).idmap
      ⟨7, 11 % 10, countKey (fun x => x % 10) (7, 11 % 10) (c06SameCs.take 2)⟩ = some ⟨2, 0⟩ ∧
    (runExecution (fun x => x % 10) 2 c06SamePrev c06SameCs c06SameState).toOption.map
        (fun out => out.created)
      = some [(⟨7, 2, 0⟩, ⟨1, 0⟩), (⟨7, 1, 0⟩, ⟨0, 0⟩), (⟨7, 1, 1⟩, ⟨2, 0⟩)] ∧
    (runExecution (fun x => x % 10) 2 c06SamePrev c06SameCs c06SameState).toOption.map
        (fun out => out.state.slots.map (fun v => (v.memos, v.revs)))
      = some [([], [1, 2]), ([⟨41, 0⟩], [1]), ([⟨42, 0⟩], [2, 1])] := by decide

/-- The consistency hypotheses of `c06_same_id` / `c06_memos_kept` hold in EVERY state reachable
    from the empty world, for the memo of every idle creator (whatever other creators, reads, memo
    insertions and discards happened in between). -/
theorem c06_same_id_hyps_reachable (hash : Nat → Nat) (ops : List Op) (w : World)
    (h : runOps hash World.empty ops = .ok w) (q : Nat) (prev : List (Identity × Id))
    (hq : w.ctxs[q]? = some (Ctx.idle prev)) :
    FreeOK w.st ∧ FreeNodup w.st ∧ (∀ x, x ∈ prev → Owns w.st x.2) ∧ (pairIdxs prev).Nodup ∧
    (∀ x, x ∈ prev → HashAt hash w.st x) := by
  have hI : WInv w := runOps_inv winv_empty h
  have hH : WHash hash w := runOps_hash winv_empty (whash_empty hash) h
  refine ⟨hI.freeOK, hI.freeNodup, ?_, ctx_nodup hI hq, ?_⟩
  · intro x hx
    exact ctx_owns hI hq x.2 (by simp only [ctxIds, List.mem_map]; exact ⟨x, hx, rfl⟩)
  · intro x hx
    exact hH _ (List.mem_of_getElem? hq) x hx

/-- … and they hold again after an execution for the new memo (so executions can be chained);
    moreover every struct created by the execution is in the new memo's id list under the identity
    it was registered with, and the next execution's seeded identity map finds it. -/
theorem c06_same_id_hyps_post (hash : Nat → Nat) (cur : Nat) (prev : List (Identity × Id))
    (cs : List Creation) (s : State) (out : ExecOut)
    (h : runExecution hash cur prev cs s = .ok out)
    (hF : FreeOK s) (hN : FreeNodup s) (hown : ∀ x, x ∈ prev → Owns s x.2)
    (hnd : (pairIdxs prev).Nodup) (hhash : ∀ x, x ∈ prev → HashAt hash s x) :
    (FreeOK out.state ∧ FreeNodup out.state ∧ (∀ x, x ∈ out.active → Owns out.state x.2) ∧
      (pairIdxs out.active).Nodup ∧ (∀ x, x ∈ out.active → HashAt hash out.state x)) ∧
    (∀ x, x ∈ out.created → x ∈ out.active ∧
      IdentityMap.find (Frame.seed out.active).idmap x.1 = some x.2) :=
  ⟨runExecution_post h hF hN hown hnd hhash, (runExecution_created_active h hF hN hown hnd).2⟩

/-- Two consecutive executions of the creator (the literal reading of C06): the second execution
    is seeded from the first one's id list, in the state the first one left.  If the `j2`-th
    creation of the second execution has the same (ingredient, identity hash) as the `j1`-th of
    the first and both are the `k`-th creation of that key in their execution, the generation is
    not exhausted, and the identity value stored in the slot does not collide with the new one,
    then it gets the same identity AND the same (slot, generation). -/
theorem c06_same_id_rerun (hash : Nat → Nat) (cur1 cur2 : Nat) (prev : List (Identity × Id))
    (cs1 cs2 : List Creation) (s : State) (out1 out2 : ExecOut)
    (h1 : runExecution hash cur1 prev cs1 s = .ok out1)
    (h2 : runExecution hash cur2 out1.active cs2 out1.state = .ok out2)
    (hF : FreeOK s) (hN : FreeNodup s) (hown : ∀ x, x ∈ prev → Owns s x.2)
    (hnd : (pairIdxs prev).Nodup) (hhash : ∀ x, x ∈ prev → HashAt hash s x)
    (j1 j2 : Nat) (c1 c2 : Creation) (hc1 : cs1[j1]? = some c1) (hc2 : cs2[j2]? = some c2)
    (hkey : keyOf hash c1 = keyOf hash c2)
    (hcount : countKey hash (keyOf hash c1) (cs1.take j1)
      = countKey hash (keyOf hash c2) (cs2.take j2))
    (I : Identity) (id : Id) (hcr : out1.created[j1]? = some (I, id)) (hgen : id.gen < GEN_MAX)
    (hinj : ∀ v, out1.state.slots[id.idx]? = some v →
      hash v.fields.idv = hash c2.fields.idv → v.fields.idv = c2.fields.idv) :
    out2.created[j2]? = some (I, id) := by
  obtain ⟨⟨pF, pN, pown, pnd, phash⟩, pcr⟩ := c06_same_id_hyps_post hash cur1 prev cs1 s out1 h1
    hF hN hown hnd hhash
  obtain ⟨hmem, hfind⟩ := pcr (I, id) (List.mem_of_getElem? hcr)
  obtain ⟨_, hdis⟩ := c06_disamb_order hash cur1 prev cs1 s out1 h1
  obtain ⟨id', hid'⟩ := hdis j1 c1 hc1
  rw [hcr] at hid'
  simp only [Option.some.injEq, Prod.mk.injEq] at hid'
  obtain ⟨hI, _⟩ := hid'
  have hkey' : c1.ingr = c2.ingr ∧ hash c1.fields.idv = hash c2.fields.idv := by
    simpa [keyOf] using hkey
  have hI2 : I = ⟨c2.ingr, hash c2.fields.idv,
      countKey hash (keyOf hash c2) (cs2.take j2)⟩ := by
    rw [hI, hkey'.1, hkey'.2, hcount]
  obtain ⟨v, hv, hlive, _⟩ := pown (I, id) hmem
  obtain ⟨r, hr⟩ := Option.ne_none_iff_exists'.mp hlive
  have := c06_same_id hash cur2 out1.active cs2 out1.state out2 h2 pF pN pown pnd phash j2 c2 id
    v r hc2 (hI2 ▸ hfind) hv hr (Or.inr hgen) (hinj v hv)
  rw [this.1, hI2]


example :
    keyOf (fun x => x % 10) ⟨1, 1, 7, ⟨11, [6]⟩⟩ = keyOf (fun x => x % 10) ⟨1, 2, 7, ⟨11, [9]⟩⟩ ∧
    countKey (fun x => x % 10) (7, 1) (c06RerunCs1.take 1)
      = countKey (fun x => x % 10) (7, 1) (c06RerunCs2.take 2) ∧
    ((runExecution (fun x => x % 10) 1 [] c06RerunCs1 State.empty).toOption.bind fun o1 =>
      (runExecution (fun x => x % 10) 2 o1.active c06RerunCs2 o1.state).toOption.map fun o2 =>
        (o1.created[1]?, o2.created[2]?, (o1.state.slots[1]?).map (fun v => v.fields.idv)))
      = some (some (⟨7, 1, 1⟩, ⟨1, 0⟩), some (⟨7, 1, 1⟩, ⟨1, 0⟩), some 11) := by decide

/-! ### link between the two levels -/

/-- `runExecution` is exactly the world's `begin q; new q …; finish q` run without interleaving, so
    the `runExecution` theorems above apply to every execution of the op language that is not
    interleaved with other ops, and (by `c06_same_id_hyps_reachable`) from every reachable state. -/
theorem c06_world_exec (hash : Nat → Nat) (cur q : Nat) (prev : List (Identity × Id))
    (cs : List Creation) (w : World) (out : ExecOut)
    (hq : w.ctxs[q]? = some (Ctx.idle prev))
    (h : runExecution hash cur prev cs w.st = .ok out) :
    runOps hash w (Op.begin q :: (cs.map (newOp q cur) ++ [Op.finish q cur]))
      = .ok ⟨out.state, w.ctxs.set q (Ctx.idle out.active)⟩ := world_exec hq h

example :
    (runOps (fun x => x % 10) ⟨State.empty, [Ctx.idle []]⟩
        (Op.begin 0 :: (c06RerunCs1.map (newOp 0 1) ++ [Op.finish 0 1]))).toOption.map
        (fun w => w.ctxs)
      = (runExecution (fun x => x % 10) 1 [] c06RerunCs1 State.empty).toOption.map
        (fun o => [Ctx.idle o.active]) := by decide

/-! ### the invariant evaluated on replayed implementation traces -/

/-- `svdriver structs` (Drive/Structs.lean) replays hook traces of real salsa through the model and
    prints `inv=ok` after a line iff `winvB` holds of the replayed world; that is exactly the
    invariant `WInv` of `c06_distinct` (`winvFailures` names the violated components otherwise). -/
theorem c06_driver_inv (w : World) : winvB w = true ↔ WInv w := winvB_iff w

example :
    ((runOps (fun x => x % 10) ⟨State.empty, [Ctx.idle []]⟩
        (Op.begin 0 :: (c06RerunCs1.map (newOp 0 1) ++ [Op.finish 0 1]))).toOption.map winvB)
      = some true := by decide

end SalsaVerif.Props.C06
