/-
  C04 — untracked readers re-execute every revision.

  Model: SalsaVerif/Model/Core3.lean (stage S3: `report_untracked_read` = `Frame.pushCell`,
  `deep_verify_memo` on `DerivedUntracked` = `deepVerify`, eviction exemption = `evictValue`).
  A cell is state outside salsa: it changes without a revision bump.  The property only speaks
  about cell changes that are followed by a new revision, so the history language pairs them:
  `cellSynth c v d` = `cell c v; synth d`, `cellSet c v i w nd` = `cell c v; set i w nd`.

  PROVED: `c04_reexec_fetch`, `c04_reexec_mca` (any state, any program), `c04_not_evicted` (any
  state); for ALL well-formed programs, `lru` kinds and evictions included (stage S3b,
  Proofs/Core3Evict*.lean): `c04_results`, `c04_never_shallow_lru`.
  Kept from the earlier stage (hypothesis `NoLru P`, S3a invariant): `c04_never_shallow`,
  `c04_results_partial`, `c04_results_prog_partial`.

  PROVED ELSEWHERE (Props/C04Core3.lean, all well-formed programs, invariant `InvE`):
    c04_dependents_reused (equal value ⇒ backdated ⇒ no `exec` for readers, `valid` instead;
                          direct dependents and chains of readers; a concrete history also below).
-/
import SalsaVerif.Model.Core3
import SalsaVerif.Proofs.Core3Top
import SalsaVerif.Proofs.Core3Trace
import SalsaVerif.Proofs.Core3EvictSound

namespace SalsaVerif.Props.C04
open SalsaVerif.Model.Core3 SalsaVerif.Proofs.Core3

/-- **An untracked memo from an earlier revision is re-executed by the `fetch` that reaches it**:
    `exec q` is the first event.  (Untracked memos have durability LOW — `c04_never_shallow` —
    which is the hypothesis `m.dur = 0`; then the shallow test needs `verified_at = cur`.) -/
theorem c04_reexec_fetch (P : Prog) (s : State) (q : Nat) (m : Memo) (hm : s.memos q = some m)
    (hu : m.untracked = true) (hd : m.dur = 0) (hv : m.va < s.cur) :
    ∃ new, (fetch P s q).1.trace = s.trace ++ .exec q :: new := by
  apply fetch_untracked_exec P s q m hm hu (Nat.ne_of_lt hv)
  simp only [hd, lc, if_true]; omega

/-- the same for `maybe_changed_after` reaching it (its value is present: `c04_not_evicted`) -/
theorem c04_reexec_mca (P : Prog) (s : State) (q rev : Nat) (m : Memo) (v : Nat) (hm : s.memos q = some m)
    (hval : m.value = some v) (hu : m.untracked = true) (hd : m.dur = 0) (hv : m.va < s.cur) :
    ∃ new, ((eng P (q + 1)).2 s q rev).1.trace = s.trace ++ .exec q :: new := by
  apply mca_untracked_exec P s q rev m v hm hval hu (Nat.ne_of_lt hv)
  simp only [hd, lc, if_true]; omega

/-- **The value of an untracked memo is never evicted**: `reset_for_new_revision` / `evict` leave
    the memo exactly as it is (any state, any LRU contents). -/
theorem c04_not_evicted (s : State) (q : Nat) (m : Memo) (hm : s.memos q = some m)
    (hu : m.untracked = true) : (evictLru s).memos q = some m := by
  rcases evictLru_memos s q m hm with h | ⟨hf, _⟩
  · exact h
  · rw [hu] at hf; cases hf

/-- **Untracked ⇒ durability LOW, value present**, in every reachable state; hence the durability
    shortcut can never apply to it: the shallow test passes only with `verified_at = cur`. -/
theorem c04_never_shallow {P : Prog} (hP : Wf P) (hK : NoLru P) (inp : Nat → Inp) (cells : Nat → Nat)
    (cap : Nat) (ops : List Op) (q : Nat) (m : Memo)
    (hm : (run P inp cells cap ops).memos q = some m) (hu : m.untracked = true) :
    m.dur = 0 ∧ m.value = some m.gval ∧
    (lc (run P inp cells cap ops) m.dur ≤ m.va → m.va = (run P inp cells cap ops).cur) := by
  have hI := run_inv hP hK inp cells cap ops
  have ok := hI.memo q m hm
  exact ⟨ok.g6 hu, ok.hasval, fun h => sok_low hI ok (ok.g6 hu) (Or.inr h)⟩

/-- **Results with cell writes** (programs without `lru` kinds): after any history of requests,
    input writes, synthetic writes and cell changes followed by a new revision, every request
    returns the from-scratch value over the current inputs and cells. -/
theorem c04_results_partial {P : Prog} (hP : Wf P) (hK : NoLru P) (inp : Nat → Inp) (cells : Nat → Nat)
    (cap : Nat) (ops : List Op) (q : Nat) :
    (fetch P (run P inp cells cap ops) q).2.val =
      sem P (run P inp cells cap ops).inp (run P inp cells cap ops).cells q :=
  c01_s3a hP hK inp cells cap ops q

/-- line-protocol programs: decidable hypotheses -/
theorem c04_results_prog_partial (es : List (Kind × Expr)) (h : wfList 0 es = true)
    (hk : es.all (fun e => e.1 != .lru) = true) (inp : Nat → Inp) (cells : Nat → Nat) (cap : Nat)
    (ops : List Op) (q : Nat) :
    (fetch (progOf es) (run (progOf es) inp cells cap ops) q).2.val =
      sem (progOf es) (run (progOf es) inp cells cap ops).inp (run (progOf es) inp cells cap ops).cells q :=
  c04_results_partial (wf_progOf es h) (noLru_progOf es hk) inp cells cap ops q

/-- **Results with cell writes, all programs**: for every well-formed program (`lru` kinds
    included), after any history of requests, input writes, synthetic writes, cell changes followed
    by a new revision, capacity changes and evictions, every request returns the from-scratch value
    over the current inputs and cells. -/
theorem c04_results {P : Prog} (hP : Wf P) (inp : Nat → Inp) (cells : Nat → Nat)
    (cap : Nat) (ops : List Op) (q : Nat) :
    (fetch P (run P inp cells cap ops) q).2.val =
      sem P (run P inp cells cap ops).inp (run P inp cells cap ops).cells q :=
  Proofs.Core3E.c01_s3 hP inp cells cap ops q

/-- line-protocol programs: decidable hypothesis -/
theorem c04_results_prog (es : List (Kind × Expr)) (h : wfList 0 es = true) (inp : Nat → Inp)
    (cells : Nat → Nat) (cap : Nat) (ops : List Op) (q : Nat) :
    (fetch (progOf es) (run (progOf es) inp cells cap ops) q).2.val =
      sem (progOf es) (run (progOf es) inp cells cap ops).inp (run (progOf es) inp cells cap ops).cells q :=
  c04_results (wf_progOf es h) inp cells cap ops q

/-- **Untracked ⇒ durability LOW, value present** in every reachable state of every well-formed
    program (`lru` kinds included: an untracked memo is never evicted); hence the durability shortcut
    can never apply to it: the shallow test passes only with `verified_at = cur`. -/
theorem c04_never_shallow_lru {P : Prog} (hP : Wf P) (inp : Nat → Inp) (cells : Nat → Nat)
    (cap : Nat) (ops : List Op) (q : Nat) (m : Memo)
    (hm : (run P inp cells cap ops).memos q = some m) (hu : m.untracked = true) :
    m.dur = 0 ∧ m.value = some m.gval ∧
    (lc (run P inp cells cap ops) m.dur ≤ m.va → m.va = (run P inp cells cap ops).cur) := by
  have hI := Proofs.Core3E.run_inv hP inp cells cap ops
  have ok := hI.memo q m hm
  refine ⟨ok.g6 hu, ?_, fun h => Proofs.Core3E.sok_low hI ok (ok.g6 hu) (Or.inr h)⟩
  cases hv : m.value with
  | none => have := ok.evt hv; rw [hu] at this; cases this
  | some v => rw [ok.valg v hv]

/-! ### Non-vacuity: q0 = (u0 + i0) mod 4 (untracked), q1 = q0 (reader), q2 = i0 (`no_eq`) -/

def exProg : List (Kind × Expr) :=
  [(.plain, .add (.cell 0) (.inp 0)), (.plain, .qry 0), (.noeq, .inp 0)]
def exInp : Nat → Inp := fun _ => ⟨1, 1, 2⟩
def exCells : Nat → Nat := fun _ => 0

example : wfList 0 exProg = true := by decide
example : exProg.all (fun e => e.1 != .lru) = true := by decide

-- after `get 1; cell 0 := 2; synth LOW` the memo of q0 is untracked, LOW and stale
example : ∃ m, (run (progOf exProg) exInp exCells 2 [.get 1, .cellSynth 0 2 0]).memos 0 = some m ∧
    m.untracked = true ∧ m.dur = 0 ∧ m.va < (run (progOf exProg) exInp exCells 2 [.get 1, .cellSynth 0 2 0]).cur :=
  ⟨_, rfl, rfl, rfl, by decide⟩

/-- the events: q0 re-executes in every new revision; when the cell did not change its value is
    equal, it is backdated and its reader q1 is only validated (`c04_dependents_reused`) -/
example : (run (progOf exProg) exInp exCells 2 [.get 1, .cellSynth 0 2 0, .get 1, .synth 0, .get 1]).trace =
    [.exec 1, .exec 0, .exec 0, .exec 1, .exec 0, .valid 1] := by decide

example : outputs (progOf exProg) (init exInp exCells 2) [.get 1, .cellSynth 0 2 0, .get 1, .synth 0, .get 1]
    = [1, 3, 3] := by decide

/-! ### Non-vacuity with `lru` kinds: q0 = (u0 + i0) mod 4 (untracked, `lru`), q1 = q0 (`lru`),
    q2 = min(q1, 1) (`lru`), q3 = q2 (plain) -/

def exProgL : List (Kind × Expr) :=
  [(.lru, .add (.cell 0) (.inp 0)), (.lru, .qry 0), (.lru, .min (.qry 1) (.const 1)), (.plain, .qry 2)]

example : wfList 0 exProgL = true := by decide

-- capacity 1: the bumps and `evict` evict tracked values (q1 here), never the untracked q0
example : ((run (progOf exProgL) exInp exCells 1 [.get 3, .cellSynth 0 2 0]).memos 1).map (·.value) = some none := by
  decide
example : ∃ m, (run (progOf exProgL) exInp exCells 1 [.get 3, .cellSynth 0 2 0, .evict]).memos 0 = some m ∧
    m.untracked = true ∧ m.value = some m.gval := ⟨_, rfl, rfl, rfl⟩

example : outputs (progOf exProgL) (init exInp exCells 1)
    [.get 3, .cellSynth 0 2 0, .get 3, .evict, .get 1, .cellSet 0 3 0 2 none, .get 3, .get 0] = [1, 1, 3, 1, 1] := by
  decide

end SalsaVerif.Props.C04
