/-
  C15 (revision-aware) — non-converging fixpoint iteration ends in a bounded panic.

  Model: `SalsaVerif.Model.CycleRev` (see `Props/C12Rev.lean`); it includes the non-monotone
  `add` of the diverging programs of `vh seq --profile cycle` (flavour 3), on which it agrees
  with salsa byte for byte (answers, panic classes, every `WillIterateCycle` event).

  PROVED
  * `c15rev_iterations_bounded`: for EVERY program (any strategies, `add` and `gate` included), every
    state and every request, every `WillIterateCycle` event of the request announces an
    iteration ≤ MAX_ITERATIONS = 200 — what the C15 oracle checks on salsa's event stream.
    (`IterationStamp.increment_iteration` is the function translated from src/cycle.rs.)
  * `c15rev_diverging_example` (kernel evaluation): a self-incrementing counter panics with
    `too many cycle iterations` after announcing iteration 200; the next request of the same
    revision meets the poisoned memo (`PropagatedPanic`); after a write that cuts the cycle the
    same request answers.

  NOT PROVED: that the model's own fuel (`outOfFuel`) is never exhausted (never observed in
  > 8 M generated requests; the loop fuel is MAX_ITERATIONS + 2 and every iteration increments
  the stamp, the depth fuel is n + 2 and every level holds a claim on another query).
-/
import SalsaVerif.Proofs.CycleRevEv2
import SalsaVerif.Proofs.CycleRevRef

namespace SalsaVerif.Props.C15Rev
open SalsaVerif.Model
open SalsaVerif.Model.CycleRev
open SalsaVerif.Proofs.CycleRev
open SalsaVerif.Gen.Stamp

/-- **bounded iteration**, all programs, all states. -/
theorem c15rev_iterations_bounded (P : Prog) (s : St) (c : Nat) :
    ∀ q k, Ev.iterate q k ∈ (CycleRev.get P s c).2.evs → k ≤ 200 :=
  get_iterate_bounded P s c

example : MAX_ITERATIONS = 200 := rfl

/-- `q0 = if i0 odd then (q0 + 1) % 4 else 0` (fix): the counter never converges. -/
def counterP : Prog := ⟨[⟨.fixpoint false, .ite 0 (.add (.call 0) (.const 1)) (.const 0)⟩]⟩

set_option maxRecDepth 1000000 in
/-- diverge, stay poisoned within the revision, recover after the write. -/
theorem c15rev_diverging_example :
    outputs counterP (St.init 1 [(1, 0)]) [.get 0, .get 0, .set 0 2 none, .get 0]
      = [.panic .tooManyIterations, .panic .propagated, .value 0] ∧
    Ev.iterate 0 200 ∈ (CycleRev.get counterP (St.init 1 [(1, 0)]) 0).2.evs := by
  decide

end SalsaVerif.Props.C15Rev
