/-
  C13 — fallback cycles (`cycle_result` / `FallbackImmediate`).

  Model: `SalsaVerif.Model.Cycle`.  `Reach P env a b` (Proofs/CycleFb.lean) is "there is a
  non-empty path from `a` to `b` in the call graph determined by the inputs `env`"; a node lies
  on a cycle iff `Reach P env x x`.  The Boolean `onCycle` used by the executable reference
  `fbReference` is sound for it (`c13_onCycle_sound`).

  Proved for every program without `Fixpoint` nodes, every entry node and every history:
    `c13_participants_partial`  a memo is the node's fallback value only with a cycle through the
                                node as evidence, otherwise it is the body over the results
                                (the "⇒" half of `c13_participants`, plus the value dichotomy);
    `c13_outside`               a node on no cycle = its body over those results (FULL);
    `c13_no_iteration`          heads converge on value immediately: no iteration;
    `c13_self_call_partial`, `c13_calls_active_partial`
                                the "⇐" half for nodes that call an active query, in
                                particular self-loops and the closing node of any cycle;
    `c13_entry_independent_partial`.

  NOT YET PROVED (intended full statements):
  * `c13_participants` "⇐": `Reach P env x x → memo of x = fallbackValue P x` for every memoised
    `x` with strategy `fallback`.  What is missing is the completeness half of the DFS/SCC
    argument: *every* active query reachable from `x` through already completed provisional
    memos is in the head set `x` completes with (the head sets are proved sound —
    `InvF.heads` — not complete).  `c13_calls_active_partial` is the base case of that
    induction (a direct call of an active query); the inductive step needs the invariant
    "heads(y) = active queries reachable from `y` through non-active nodes" for cached `y`.
  * `c13_entry_independent` (full) is a corollary of the two halves; the partial version covers
    nodes off every cycle (by `c13_outside`, given equal callee values) and self-calling nodes.
  * `Reach P env a b → reach P env P.n a b = true` for well-formed programs (path shortening),
    i.e. completeness of the Boolean `onCycle` of the executable reference.
-/
import SalsaVerif.Proofs.CycleFb
import SalsaVerif.Props.C12

namespace SalsaVerif.Props.C13
open SalsaVerif.Model.Cycle SalsaVerif.Proofs.Cycle

theorem c13_onCycle_sound (P : Prog) (env : Nat → Nat) (i : Nat)
    (h : onCycle P env i = true) : Reach P env i i :=
  onCycle_sound P env i h

/-- **c13_participants (⇒) + value dichotomy.**  After a successful request (any entry `j`,
    any justified database `final`), every memo `w` of a node `x` is either the node's fallback
    value *and `x` lies on a cycle of the input-determined call graph*, or the node's body over
    the memoised results.  No node off every cycle is ever given its fallback. -/
theorem c13_participants_partial (P : Prog) (env : Nat → Nat) (hNX : NoFixpoint P)
    (final : List (Nat × Nat)) (hdb : DbOkF P env final) (poisoned : List Nat)
    (j v : Nat) (s : St) (h : eval P env final poisoned j = .ok (v, s))
    (x w : Nat) (hx : s.final.lookup x = some w) :
    (Reach P env x x ∧ w = fallbackValue P x) ∨
    (w = evalExpr env (results s) (P.node x).body ∧
      ∀ c ∈ callees env (P.node x).body, (s.final.lookup c).isSome = true) := by
  obtain ⟨_, hok, _⟩ := eval_soundF P env hNX hdb poisoned j v s h
  rcases hok x w hx with h1 | h1
  · exact Or.inl h1
  · right
    refine ⟨EvalRel.exact (ρ := results s) ?_ h1, ?_⟩
    · intro c u hu
      simp [results, hu]
    · intro c hc
      obtain ⟨u, hu⟩ := EvalRel.answered h1 c hc
      rw [hu]; rfl

/-- **c13_outside.**  A node on no cycle = its body over those results. -/
theorem c13_outside (P : Prog) (env : Nat → Nat) (hNX : NoFixpoint P)
    (final : List (Nat × Nat)) (hdb : DbOkF P env final) (poisoned : List Nat)
    (j v : Nat) (s : St) (h : eval P env final poisoned j = .ok (v, s))
    (x w : Nat) (hx : s.final.lookup x = some w) (hnc : ¬ Reach P env x x) :
    w = evalExpr env (results s) (P.node x).body ∧
    ∀ c ∈ callees env (P.node x).body, (s.final.lookup c).isSome = true := by
  rcases c13_participants_partial P env hNX final hdb poisoned j v s h x w hx with h1 | h1
  · exact absurd h1.1 hnc
  · exact h1

/-- the request itself is memoised, nothing provisional survives, and **no iteration** took
    place: fallback heads converge on value immediately. -/
theorem c13_no_iteration (P : Prog) (env : Nat → Nat) (hNX : NoFixpoint P)
    (final : List (Nat × Nat)) (hdb : DbOkF P env final) (poisoned : List Nat)
    (j v : Nat) (s : St) (h : eval P env final poisoned j = .ok (v, s)) :
    s.iters = 0 ∧ s.final.lookup j = some v ∧ s.stack = [] ∧ s.prov = [] ∧ s.cache = [] := by
  obtain ⟨h1, _, h3, h4, h5, h6, _⟩ := eval_soundF P env hNX hdb poisoned j v s h
  exact ⟨h6, h1, h3, h4, h5⟩

/-- **c13_participants (⇐), self-loops.**  A `fallback` node that calls itself gets its
    fallback value, whatever else its body does. -/
theorem c13_self_call_partial (P : Prog) (env : Nat → Nat) (hNX : NoFixpoint P)
    (final : List (Nat × Nat)) (hdb : DbOkF P env final) (poisoned : List Nat)
    (j v : Nat) (s : St) (h : eval P env final poisoned j = .ok (v, s))
    (hnew : final.lookup j = none) (hself : j ∈ callees env (P.node j).body)
    (fv : Nat) (hstr : (P.node j).strat = .fallback fv) : v = fv % 256 :=
  (eval_soundF P env hNX hdb poisoned j v s h).2.2.2.2.2.2.2 hnew hself fv hstr

/-- **c13_participants (⇐), a direct call of an active query** (base case of the DFS argument;
    covers self-loops and the node that closes any cycle): a `fallback` node one of whose
    callees is on the stack while it runs completes with its fallback value. -/
theorem c13_calls_active_partial (P : Prog) (env : Nat → Nat) (hNX : NoFixpoint P)
    {read : Nat → St → Res Fetched} (hR : ReadSpecF P env read) (j : Nat) (s0 : St)
    (hs0 : ¬ HeadOn s0 → s0.cache = [] ∧ s0.prov = [])
    (fuel stamp : Nat) (s : St) (v : Nat) (hs : List Nat) (s' : St)
    (hI : InvF P env s) (hst : s.stack = j :: s0.stack) (hE0 : Ext s0 s)
    (h : executeMaybeIterate P env read j false fuel stamp s = .ok (v, hs, s'))
    (c : Nat) (hc : c ∈ callees env (P.node j).body) (hact : c ∈ s.stack)
    (fv : Nat) (hstr : (P.node j).strat = .fallback fv) : v = fv % 256 :=
  (loop_specF P env hNX hR j s0 hs0 fuel stamp s v hs s' hI hst hE0 h).2.2.2.2.2.2
    ⟨c, hc, hact⟩ fv hstr

/-- **c13_entry_independent (partial).**  Two successful requests with arbitrary entry nodes
    `j₁`, `j₂` after arbitrary histories `js₁`, `js₂`: a node `x` memoised by both that is on no
    cycle has the same value in both as soon as its callees have (so, by induction along the
    acyclic part of the graph, the acyclic part is entry-independent); the right-hand sides of
    `c13_outside` mention neither the entry nor the history. -/
theorem c13_entry_independent_partial (P : Prog) (env : Nat → Nat) (hNX : NoFixpoint P)
    (js₁ js₂ : List Nat) (j₁ j₂ v₁ v₂ : Nat) (s₁ s₂ : St)
    (h₁ : eval P env (gets P env Db.empty js₁).final (gets P env Db.empty js₁).poisoned j₁
      = .ok (v₁, s₁))
    (h₂ : eval P env (gets P env Db.empty js₂).final (gets P env Db.empty js₂).poisoned j₂
      = .ok (v₂, s₂))
    (x w₁ w₂ : Nat) (hx₁ : s₁.final.lookup x = some w₁) (hx₂ : s₂.final.lookup x = some w₂)
    (hnc : ¬ Reach P env x x)
    (hcal : ∀ c ∈ callees env (P.node x).body, results s₁ c = results s₂ c) : w₁ = w₂ := by
  have hd₁ := dbOkF_gets P env hNX js₁ Db.empty (dbOkF_nil P env)
  have hd₂ := dbOkF_gets P env hNX js₂ Db.empty (dbOkF_nil P env)
  rw [(c13_outside P env hNX _ hd₁ _ j₁ v₁ s₁ h₁ x w₁ hx₁ hnc).1,
    (c13_outside P env hNX _ hd₂ _ j₂ v₂ s₂ h₂ x w₂ hx₂ hnc).1]
  exact evalExpr_congr env _ hcal

/-! ## non-vacuity -/

/-- `n0 = {0} ∪ n1`, `n1 = {1} ∪ (if in0 then n0 else ∅)`, `n2 = {2} ∪ n1`, `n3 = n3 ∪ {0}`,
    fallbacks 100, 101, 102, 103. -/
def exF : Prog := ⟨[
  ⟨.fallback 100, .union (.const 1) (.call 1)⟩,
  ⟨.fallback 101, .union (.const 2) (.ite 0 (.call 0) (.const 0))⟩,
  ⟨.fallback 102, .union (.const 4) (.call 1)⟩,
  ⟨.fallback 103, .union (.call 3) (.const 1)⟩]⟩

def envCyc : Nat → Nat := fun _ => 1
def envNo : Nat → Nat := fun _ => 0

example : NoFixpoint exF := by
  intro j b
  unfold Prog.node
  match j with
  | 0 => simp [exF]
  | 1 => simp [exF]
  | 2 => simp [exF]
  | 3 => simp [exF]
  | n + 4 => simp [exF]

/-- with the edge 1 → 0 enabled, 0 and 1 are on a cycle and take their fallbacks from every
    entry; 2 is outside and is its body over those results (4 ∪ 101 = 101). -/
example : okOf (fun r => (r.1, r.2.final.lookup 0, r.2.final.lookup 1, r.2.iters))
    (eval exF envCyc [] [] 2) = some (101, some 100, some 101, 0) := by decide
example : okOf (fun r => (r.1, r.2.final.lookup 0, r.2.final.lookup 1))
    (eval exF envCyc [] [] 1) = some (101, some 100, some 101) := by decide
example : okOf (fun r => (r.1, r.2.final.lookup 0, r.2.final.lookup 1))
    (eval exF envCyc [] [] 0) = some (100, some 100, some 101) := by decide
/-- without it nothing is cyclic and every node is its body: 1 = 2, 0 = 3, 2 = 6. -/
example : okOf (fun r => (r.1, r.2.final.lookup 0, r.2.final.lookup 1))
    (eval exF envNo [] [] 2) = some (6, none, some 2) := by decide
/-- the self-loop. -/
example : okOf (·.1) (eval exF envNo [] [] 3) = some 103 := by decide
example : 3 ∈ callees envNo (exF.node 3).body := by decide
example : onCycle exF envCyc 0 = true ∧ onCycle exF envCyc 2 = false := by decide
example : fbReferenceL exF envCyc = [100, 101, 101, 103] := by decide

end SalsaVerif.Props.C13
