/-
  C13 — fallback cycles (`cycle_result` / `FallbackImmediate`).

  Model: `SalsaVerif.Model.Cycle`.  `Reach P env a b` (Proofs/CycleFb.lean) is "there is a
  non-empty path from `a` to `b` in the call graph determined by the inputs `env`"; a node lies
  on a cycle iff `Reach P env x x`.  The Boolean `onCycle` used by the executable reference
  `fbReference` is sound for it (`c13_onCycle_sound`) and, for well-formed programs, complete
  (`c13_reach_complete`, `c13_onCycle_iff`).

  PROVED for every program without `Fixpoint` nodes, every entry node and every history of
  requests of one revision (`gets P env Db.empty js`: any number of earlier requests from any
  entry nodes, successful or panicking):
    `c13_participants`          FULL, both directions: a memoised `fallback` node holds its
                                fallback value if it lies on a cycle, and its body over the
                                memoised results if it does not (`c13_participants_db`: the same
                                for any justified and complete database);
    `c13_participants_decided`  the same with the Boolean `onCycle` (well-formed programs);
    `c13_participants_partial`  (kept) the "⇒" half + value dichotomy, for every strategy;
    `c13_outside`               a node on no cycle = its body over those results (FULL);
    `c13_no_iteration`          heads converge on value immediately: no iteration;
    `c13_self_call_partial`, `c13_calls_active_partial`  (kept) special cases of "⇐";
    `c13_entry_independent`     FULL for programs whose cycle nodes are all `fallback` (`CycFb`;
                                implied by the decidable `allFb P = true`): the memoised value of
                                a node is the same whichever nodes were requested before, in
                                whatever order;
    `c13_reference`             ... and it is the value of the executable reference
                                `fbReference` (well-formed programs): fallback for nodes on a
                                cycle, body over the reference for nodes on no cycle;
    `c13_entry_independent_partial` (kept);
    `c13_reach_complete`, `c13_onCycle_iff`  completeness of the Boolean reachability
                                (path shortening by pigeonhole).
  The proof of "⇐" is the completeness half of the DFS/SCC argument: the invariant `InvC`
  (Proofs/CycleFbCompleteInv.lean) says that the head set of every cached provisional memo `y`
  contains every ACTIVE query reachable from `y` through non-active nodes, and that the memoised
  sets are closed under callees; so a node on a cycle completes either as a head or with a
  non-empty head set, and takes its fallback in both cases.

  HISTORY DEPENDENCE (known finding C13/kf1, fb-participant-after-revalidated-head).  The real
  implementation is history dependent ACROSS REVISIONS (a participant re-executed in a later
  revision after the head was merely re-validated returns its body value).  The Cycle model does
  NOT reproduce this and cannot: a write drops every memo (`Db.newRevision _ = Db.empty`,
  incremental reuse is outside the model), so in the model a later revision is a fresh database
  and the statements above — which quantify over every history of one revision — are the full
  truth about the model.  There is therefore no `c13_history_dependence_witness` (its statement
  is false in the model): `c13_model_not_history_dependent` replays the kf1 scenario
  (corpus/C13/fallback_differs_after_new_revision.prog: get 1; write; get 2; get 0) in the model
  and shows the model answers the fallback of node 0 (the implementation answers 111).  The
  finding stays an implementation-vs-oracle finding of the differential tie, not a theorem.

  GATES.  Every theorem about the engine below carries `P.NoGate` (decidable): the fallback
  theorems are proved for programs without the value-controlled `gate` of `Model/Cycle.lean`;
  `Reach P env` is the call graph of such a program (`callees env ρ0`, the assignment being
  irrelevant: `callees_noGate`, `reach_noGate`).  The statements themselves are phrased with the
  callees under the memoised results (`callees env (results s)`), which is what they should say
  with gates: an edge behind a gate exists iff the gate is open under the FINAL results (in a
  program without `Fixpoint` nodes every value a body reads — final memo, provisional value of a
  fallback head = its fallback, provisional memo of this iteration — is already its final value,
  and heads converge at once).  In that value-aware reading `c13_participants` (both
  directions), `c13_entry_independent` and `c13_reference` (with `fbRef` deciding the gates of
  round `k + 1` by the values of round `k`) held on 1 500 random GATED all-`fallback` programs
  (2–5 nodes), every pair of entry nodes as history: 0 violations.  They are NOT PROVED: the
  invariants `InvF` / `InvC` speak about the graph under the final results, so every step of the
  forward proofs needs "the values read so far agree with the final table", which the proofs get
  only after the fact (a structural, graph-free invariant giving `Ext` to the end of the request
  would have to be split off first).  No differential evidence exists either: the generators
  emit gates only in `fixpoint` programs (flavour 6).

  NOT PROVED / restrictions:
  * the gated forms of all statements (see GATES above).
  * `c13_entry_independent` and `c13_reference` assume that no `panic`-strategy node lies on a
    cycle (`CycFb`).  (With `panic` nodes on cycles the request may still succeed when the
    `panic` node is never re-entered while active; its memo is then its body over the results.
    Entry independence should still hold but needs a temporal argument — no memoised cycle
    consists of `panic` nodes only — that is not done.)  `c13_participants` has no such
    restriction.
-/
import SalsaVerif.Proofs.CycleFb
import SalsaVerif.Proofs.CycleFbCompleteRef
import SalsaVerif.Props.C12

namespace SalsaVerif.Props.C13
open SalsaVerif.Model.Cycle SalsaVerif.Proofs.Cycle

theorem c13_onCycle_sound (P : Prog) (env : Nat → Nat) (i : Nat)
    (h : onCycle P env ρ0 i = true) : Reach P env i i :=
  onCycle_sound P env i h

/-- **c13_participants (⇒) + value dichotomy.**  After a successful request (any entry `j`,
    any justified database `final`), every memo `w` of a node `x` is either the node's fallback
    value *and `x` lies on a cycle of the input-determined call graph*, or the node's body over
    the memoised results.  No node off every cycle is ever given its fallback. -/
theorem c13_participants_partial (P : Prog) (env : Nat → Nat) (hNX : NoFixpoint P) (hG : P.NoGate)
    (final : List (Nat × Nat)) (hdb : DbOkF P env final) (poisoned : List Nat)
    (j v : Nat) (s : St) (h : eval P env final poisoned j = .ok (v, s))
    (x w : Nat) (hx : s.final.lookup x = some w) :
    (Reach P env x x ∧ w = fallbackValue P x) ∨
    (w = evalExpr env (results s) (P.node x).body ∧
      ∀ c ∈ callees env (results s) (P.node x).body, (s.final.lookup c).isSome = true) := by
  obtain ⟨_, hok, _⟩ := eval_soundF P env hNX hG hdb poisoned j v s h
  rcases hok x w hx with h1 | h1
  · exact Or.inl h1
  · right
    have hex : ∀ c u, s.final.lookup c = some u → u = results s c := by
      intro c u hu
      simp [results, hu]
    refine ⟨EvalRel.exact (ρ := results s) hex h1, ?_⟩
    intro c hc
    obtain ⟨u, hu⟩ := EvalRel.answered_exact (ρ := results s) hex h1 c hc
    rw [hu]; rfl

/-- **c13_outside.**  A node on no cycle = its body over those results. -/
theorem c13_outside (P : Prog) (env : Nat → Nat) (hNX : NoFixpoint P) (hG : P.NoGate)
    (final : List (Nat × Nat)) (hdb : DbOkF P env final) (poisoned : List Nat)
    (j v : Nat) (s : St) (h : eval P env final poisoned j = .ok (v, s))
    (x w : Nat) (hx : s.final.lookup x = some w) (hnc : ¬ Reach P env x x) :
    w = evalExpr env (results s) (P.node x).body ∧
    ∀ c ∈ callees env (results s) (P.node x).body, (s.final.lookup c).isSome = true := by
  rcases c13_participants_partial P env hNX hG final hdb poisoned j v s h x w hx with h1 | h1
  · exact absurd h1.1 hnc
  · exact h1

/-- the request itself is memoised, nothing provisional survives, and **no iteration** took
    place: fallback heads converge on value immediately. -/
theorem c13_no_iteration (P : Prog) (env : Nat → Nat) (hNX : NoFixpoint P) (hG : P.NoGate)
    (final : List (Nat × Nat)) (hdb : DbOkF P env final) (poisoned : List Nat)
    (j v : Nat) (s : St) (h : eval P env final poisoned j = .ok (v, s)) :
    s.iters = 0 ∧ s.final.lookup j = some v ∧ s.stack = [] ∧ s.prov = [] ∧ s.cache = [] := by
  obtain ⟨h1, _, h3, h4, h5, h6, _⟩ := eval_soundF P env hNX hG hdb poisoned j v s h
  exact ⟨h6, h1, h3, h4, h5⟩

/-- **c13_participants (⇐), self-loops.**  A `fallback` node that calls itself gets its
    fallback value, whatever else its body does. -/
theorem c13_self_call_partial (P : Prog) (env : Nat → Nat) (hNX : NoFixpoint P) (hG : P.NoGate)
    (final : List (Nat × Nat)) (hdb : DbOkF P env final) (poisoned : List Nat)
    (j v : Nat) (s : St) (h : eval P env final poisoned j = .ok (v, s))
    (hnew : final.lookup j = none) (ρ : Nat → Nat) (hself : j ∈ callees env ρ (P.node j).body)
    (fv : Nat) (hstr : (P.node j).strat = .fallback fv) : v = fv % 256 :=
  (eval_soundF P env hNX hG hdb poisoned j v s h).2.2.2.2.2.2.2 hnew
    (by rw [callees_noGate env ρ0 ρ _ (noGate_node hG j)]; exact hself) fv hstr

/-- **c13_participants (⇐), a direct call of an active query** (base case of the DFS argument;
    covers self-loops and the node that closes any cycle): a `fallback` node one of whose
    callees is on the stack while it runs completes with its fallback value. -/
theorem c13_calls_active_partial (P : Prog) (env : Nat → Nat) (hNX : NoFixpoint P) (hG : P.NoGate)
    {read : Nat → St → Res Fetched} (hR : ReadSpecF P env read) (j : Nat) (s0 : St)
    (hs0 : ¬ HeadOn s0 → s0.cache = [] ∧ s0.prov = [])
    (fuel stamp : Nat) (s : St) (v : Nat) (hs : List Nat) (s' : St)
    (hI : InvF P env s) (hst : s.stack = j :: s0.stack) (hE0 : Ext s0 s)
    (h : executeMaybeIterate P env read j fuel stamp s = .ok (v, hs, s'))
    (c : Nat) (ρ : Nat → Nat) (hc : c ∈ callees env ρ (P.node j).body) (hact : c ∈ s.stack)
    (fv : Nat) (hstr : (P.node j).strat = .fallback fv) : v = fv % 256 :=
  (loop_specF P env hNX hG hR j s0 hs0 fuel stamp s v hs s' hI hst hE0 h).2.2.2.2.2.2
    ⟨c, by rw [callees_noGate env ρ0 ρ _ (noGate_node hG j)]; exact hc, hact⟩ fv hstr

/-- **c13_entry_independent (partial).**  Two successful requests with arbitrary entry nodes
    `j₁`, `j₂` after arbitrary histories `js₁`, `js₂`: a node `x` memoised by both that is on no
    cycle has the same value in both as soon as its callees have (so, by induction along the
    acyclic part of the graph, the acyclic part is entry-independent); the right-hand sides of
    `c13_outside` mention neither the entry nor the history. -/
theorem c13_entry_independent_partial (P : Prog) (env : Nat → Nat) (hNX : NoFixpoint P) (hG : P.NoGate)
    (js₁ js₂ : List Nat) (j₁ j₂ v₁ v₂ : Nat) (s₁ s₂ : St)
    (h₁ : eval P env (gets P env Db.empty js₁).final (gets P env Db.empty js₁).poisoned j₁
      = .ok (v₁, s₁))
    (h₂ : eval P env (gets P env Db.empty js₂).final (gets P env Db.empty js₂).poisoned j₂
      = .ok (v₂, s₂))
    (x w₁ w₂ : Nat) (hx₁ : s₁.final.lookup x = some w₁) (hx₂ : s₂.final.lookup x = some w₂)
    (hnc : ¬ Reach P env x x)
    (hcal : ∀ c ∈ callees env (results s₁) (P.node x).body, results s₁ c = results s₂ c) :
    w₁ = w₂ := by
  have hd₁ := dbOkF_gets P env hNX hG js₁ Db.empty (dbOkF_nil P env)
  have hd₂ := dbOkF_gets P env hNX hG js₂ Db.empty (dbOkF_nil P env)
  rw [(c13_outside P env hNX hG _ hd₁ _ j₁ v₁ s₁ h₁ x w₁ hx₁ hnc).1,
    (c13_outside P env hNX hG _ hd₂ _ j₂ v₂ s₂ h₂ x w₂ hx₂ hnc).1]
  exact evalExpr_congr env _ hcal

/-! ## the full statements -/

/-- **completeness of the Boolean reachability** (path shortening): in a well-formed program
    every path of the input-determined call graph is found with fuel `P.n`. -/
theorem c13_reach_complete (P : Prog) (env : Nat → Nat) (hW : P.Wf) (a b : Nat)
    (h : Reach P env a b) : reach P env ρ0 P.n a b = true :=
  reach_complete hW h

/-- the Boolean `onCycle` of the executable reference decides "lies on a cycle". -/
theorem c13_onCycle_iff (P : Prog) (env : Nat → Nat) (hW : P.Wf) (i : Nat) :
    onCycle P env ρ0 i = true ↔ Reach P env i i :=
  onCycle_iff hW i

/-- **c13_participants, any database.**  After a successful request from any entry `j` on any
    justified (`DbOkF`) and complete (`DbOkC`) database, a memoised `fallback` node holds its
    fallback value IF (and, up to coincidence of values, only if) it lies on a cycle; a node on
    no cycle holds its body over the memoised results.  The resulting database is again
    justified and complete. -/
theorem c13_participants_db (P : Prog) (env : Nat → Nat) (hNX : NoFixpoint P) (hG : P.NoGate)
    (final : List (Nat × Nat)) (hdb : DbOkF P env final) (hdbC : DbOkC P env final)
    (poisoned : List Nat) (j v : Nat) (s : St)
    (h : eval P env final poisoned j = .ok (v, s))
    (x w fv : Nat) (hx : s.final.lookup x = some w) (hstr : (P.node x).strat = .fallback fv) :
    (Reach P env x x → w = fv % 256) ∧
    (¬ Reach P env x x → w = evalExpr env (results s) (P.node x).body) ∧
    DbOkF P env s.final ∧ DbOkC P env s.final := by
  have hF := (eval_soundF P env hNX hG hdb poisoned j v s h).2.1
  have hC := eval_soundC P env hNX hG hdb hdbC poisoned j v s h
  have hv := dbOk_value hF hC hx
  refine ⟨?_, fun hn => (hv.2 hn).1, hF, hC⟩
  intro hr
  rw [hv.1 hr ⟨fv, hstr⟩]
  simp [fallbackValue, hstr]

/-- **c13_participants (FULL).**  After any history `js` of requests of one revision and a
    successful request from any entry node `j`: a memoised `fallback` node on a cycle of the
    input-determined call graph holds its fallback value (the "⇐" half, completeness of the
    head sets), a memoised node on no cycle holds its body over the memoised results. -/
theorem c13_participants (P : Prog) (env : Nat → Nat) (hNX : NoFixpoint P) (hG : P.NoGate)
    (js : List Nat) (j v : Nat) (s : St)
    (h : eval P env (gets P env Db.empty js).final (gets P env Db.empty js).poisoned j
      = .ok (v, s))
    (x w fv : Nat) (hx : s.final.lookup x = some w) (hstr : (P.node x).strat = .fallback fv) :
    (Reach P env x x → w = fv % 256) ∧
    (¬ Reach P env x x → w = evalExpr env (results s) (P.node x).body) := by
  obtain ⟨hd, hdC⟩ :=
    dbOkFC_gets P env hNX hG js Db.empty (dbOkF_nil P env) (dbOkC_nil P env)
  obtain ⟨h1, h2, _⟩ := c13_participants_db P env hNX hG _ hd hdC _ j v s h x w fv hx hstr
  exact ⟨h1, h2⟩

/-- the same with the executable `onCycle` (well-formed programs). -/
theorem c13_participants_decided (P : Prog) (env : Nat → Nat) (hNX : NoFixpoint P) (hG : P.NoGate) (hW : P.Wf)
    (js : List Nat) (j v : Nat) (s : St)
    (h : eval P env (gets P env Db.empty js).final (gets P env Db.empty js).poisoned j
      = .ok (v, s))
    (x w fv : Nat) (hx : s.final.lookup x = some w) (hstr : (P.node x).strat = .fallback fv) :
    w = if onCycle P env ρ0 x then fv % 256 else evalExpr env (results s) (P.node x).body := by
  obtain ⟨h1, h2⟩ := c13_participants P env hNX hG js j v s h x w fv hx hstr
  split
  · rename_i hon; exact h1 ((onCycle_iff hW x).mp hon)
  · rename_i hon; exact h2 (fun hr => hon ((onCycle_iff hW x).mpr hr))

/-- **c13_entry_independent (FULL).**  Programs whose cycle nodes all recover with
    `cycle_result` (`CycFb`, implied by `allFb P = true`): two successful requests from arbitrary
    entry nodes `j₁`, `j₂` after arbitrary histories `js₁`, `js₂` give every node memoised by
    both the same value. -/
theorem c13_entry_independent (P : Prog) (env : Nat → Nat) (hNX : NoFixpoint P) (hG : P.NoGate)
    (hcf : CycFb P env) (js₁ js₂ : List Nat) (j₁ j₂ v₁ v₂ : Nat) (s₁ s₂ : St)
    (h₁ : eval P env (gets P env Db.empty js₁).final (gets P env Db.empty js₁).poisoned j₁
      = .ok (v₁, s₁))
    (h₂ : eval P env (gets P env Db.empty js₂).final (gets P env Db.empty js₂).poisoned j₂
      = .ok (v₂, s₂))
    (x w₁ w₂ : Nat) (hx₁ : s₁.final.lookup x = some w₁) (hx₂ : s₂.final.lookup x = some w₂) :
    w₁ = w₂ := by
  obtain ⟨hd₁, hc₁⟩ :=
    dbOkFC_gets P env hNX hG js₁ Db.empty (dbOkF_nil P env) (dbOkC_nil P env)
  obtain ⟨hd₂, hc₂⟩ :=
    dbOkFC_gets P env hNX hG js₂ Db.empty (dbOkF_nil P env) (dbOkC_nil P env)
  exact dbOk_unique hG hcf
    (eval_soundF P env hNX hG hd₁ _ j₁ v₁ s₁ h₁).2.1 (eval_soundC P env hNX hG hd₁ hc₁ _ j₁ v₁ s₁ h₁)
    (eval_soundF P env hNX hG hd₂ _ j₂ v₂ s₂ h₂).2.1 (eval_soundC P env hNX hG hd₂ hc₂ _ j₂ v₂ s₂ h₂)
    hx₁ hx₂

/-- **c13_reference.**  ... and that value is the one of the executable reference: the fallback
    for nodes on a cycle, the body over the reference for nodes on no cycle — for every memo
    and in particular for the answer `v` of the request itself. -/
theorem c13_reference (P : Prog) (env : Nat → Nat) (hNX : NoFixpoint P) (hG : P.NoGate) (hW : P.Wf)
    (hcf : CycFb P env) (js : List Nat) (j v : Nat) (s : St)
    (h : eval P env (gets P env Db.empty js).final (gets P env Db.empty js).poisoned j
      = .ok (v, s)) :
    v = fbReference P env j ∧
    ∀ x w, s.final.lookup x = some w → w = fbReference P env x := by
  obtain ⟨hd, hc⟩ :=
    dbOkFC_gets P env hNX hG js Db.empty (dbOkF_nil P env) (dbOkC_nil P env)
  have hS := eval_soundF P env hNX hG hd _ j v s h
  have hC := eval_soundC P env hNX hG hd hc _ j v s h
  exact ⟨(dbOk_fbReference hW hG hcf hS.2.1 hC hS.1).symm,
    fun x w hx => (dbOk_fbReference hW hG hcf hS.2.1 hC hx).symm⟩

/-! ## the model is not history dependent (known finding C13/kf1 is outside the model) -/

/-- corpus/C13/fallback_differs_after_new_revision.prog with the fallbacks observed there. -/
def exH : Prog := ⟨[
  ⟨.fallback 1, .union (.call 1) (.call 2)⟩,
  ⟨.fallback 37, .union (.call 2) (.const 16)⟩,
  ⟨.fallback 75, .union (.call 0) (.const 8)⟩]⟩

/-- the kf1 scenario `get 1; write; get 2; get 0` in the model: a write drops every memo, the
    second revision is a fresh database and node 0 gets its fallback `1` (the implementation
    answers `111 = 37 ||| 75`, the body over the finalised results).  The model does not
    reproduce the history dependence of the implementation. -/
theorem c13_model_not_history_dependent :
    (∀ db : Db, db.newRevision = Db.empty) ∧
    (gets exH (fun _ => 0) Db.empty [1]).final.lookup 0 = some 1 ∧
    (gets exH (fun _ => 0) (gets exH (fun _ => 0) Db.empty [1]).newRevision [2, 0]).final.lookup 0
      = some 1 ∧
    (37 ||| 75 : Nat) = 111 :=
  ⟨fun _ => rfl, by decide, by decide, by decide⟩

/-! ## non-vacuity -/

/-- `n0 = {0} ∪ n1`, `n1 = {1} ∪ (if in0 then n0 else ∅)`, `n2 = {2} ∪ n1`, `n3 = n3 ∪ {0}`,
    fallbacks 100, 101, 102, 103. -/
def exF : Prog := ⟨[
  ⟨.fallback 100, .union (.const 1) (.call 1)⟩,
  ⟨.fallback 101, .union (.const 2) (.ite 0 (.call 0) (.const 0))⟩,
  ⟨.fallback 102, .union (.const 4) (.call 1)⟩,
  ⟨.fallback 103, .union (.call 3) (.const 1)⟩]⟩

def envCyc : Nat → Nat := fun _ => 1
def envNo : Nat → Nat := fun _ => 0

example : NoFixpoint exF := by
  intro j b
  unfold Prog.node
  match j with
  | 0 => simp [exF]
  | 1 => simp [exF]
  | 2 => simp [exF]
  | 3 => simp [exF]
  | n + 4 => simp [exF]

/-- with the edge 1 → 0 enabled, 0 and 1 are on a cycle and take their fallbacks from every
    entry; 2 is outside and is its body over those results (4 ∪ 101 = 101). -/
example : okOf (fun r => (r.1, r.2.final.lookup 0, r.2.final.lookup 1, r.2.iters))
    (eval exF envCyc [] [] 2) = some (101, some 100, some 101, 0) := by decide
example : okOf (fun r => (r.1, r.2.final.lookup 0, r.2.final.lookup 1))
    (eval exF envCyc [] [] 1) = some (101, some 100, some 101) := by decide
example : okOf (fun r => (r.1, r.2.final.lookup 0, r.2.final.lookup 1))
    (eval exF envCyc [] [] 0) = some (100, some 100, some 101) := by decide
/-- without it nothing is cyclic and every node is its body: 1 = 2, 0 = 3, 2 = 6. -/
example : okOf (fun r => (r.1, r.2.final.lookup 0, r.2.final.lookup 1))
    (eval exF envNo [] [] 2) = some (6, none, some 2) := by decide
/-- the self-loop. -/
example : okOf (·.1) (eval exF envNo [] [] 3) = some 103 := by decide
example : 3 ∈ callees envNo ρ0 (exF.node 3).body := by decide
example : onCycle exF envCyc ρ0 0 = true ∧ onCycle exF envCyc ρ0 2 = false := by decide
example : fbReferenceL exF envCyc = [100, 101, 101, 103] := by decide

/-! ### non-vacuity of the full statements -/

example : allFb exF = true ∧ exF.Wf := by decide
example : CycFb exF envCyc := allFb_cycFb (by decide) envCyc
/-- after the history `get 2; get 3`, a request of `0` succeeds; `0`, `1` (on the cycle) hold
    their fallbacks, `2` (outside) its body, whatever was requested first. -/
example : okOf (fun r => (r.1, r.2.final.lookup 0, r.2.final.lookup 1, r.2.final.lookup 2))
    (eval exF envCyc (gets exF envCyc Db.empty [2, 3]).final
      (gets exF envCyc Db.empty [2, 3]).poisoned 0) = some (100, some 100, some 101, some 101) := by
  decide
example : okOf (fun r => (r.1, r.2.final.lookup 0, r.2.final.lookup 1, r.2.final.lookup 2))
    (eval exF envCyc (gets exF envCyc Db.empty [1]).final
      (gets exF envCyc Db.empty [1]).poisoned 2) = some (101, some 100, some 101, some 101) := by
  decide
example : Reach exF envCyc 0 0 := c13_onCycle_sound exF envCyc 0 (by decide)
example : ¬ Reach exF envCyc 2 2 := fun h => by
  have := (c13_onCycle_iff exF envCyc (by decide) 2).mpr h
  revert this; decide
example : (exF.node 0).strat = .fallback 100 := by decide
example : reach exF envCyc ρ0 exF.n 2 0 = true := by decide
example : allFb exH = true ∧ exH.Wf := by decide

end SalsaVerif.Props.C13
