/-
  GenLogicCycle (part of GenLogic) — the conditions under which `fetch_cold_cycle`
  (src/function/fetch.rs) re-throws a poisoned memo, re-uses the last provisional memo, or keeps
  its iteration stamp, regenerated from /repo on every run (`Gen/LogicCycle.lean`).

  `Model/Cycle.lean` is too abstract to contain these conditions literally (one revision, no
  cancellation): the theorems give (a) the closed form of every generated condition — the facts
  the C12 / C15 arguments rely on: only a value of the CURRENT revision and the CURRENT
  cancellation epoch whose cycle heads contain the query itself is re-used; only a poisoned memo of
  the current revision and epoch re-throws — and (b) the model's `fetchColdCycle` re-assembled
  from the generated conditions under the representation of `Proofs/GenLogicCycle.lean`.

  PROVED: every theorem in this file.
-/
import SalsaVerif.Proofs.GenLogicCycle

namespace SalsaVerif.Props.GenLogic
open SalsaVerif.Gen.LogicCycle SalsaVerif.Proofs.GenLogic.Cycle
open SalsaVerif.Model.Cycle

/-! ## 4. `fetch_cold_cycle` (src/function/fetch.rs) -/

theorem genlogic_cycle_reuse_iff (c : CycleIn) :
    reuses_provisional c = true ↔
      c.verifiedAt = c.currentRevision ∧ c.hasValue = true ∧
      c.memoCancellationCount = c.runtimeCancellationCount ∧ c.headsContainSelf = true := by
  unfold reuses_provisional cancellation_count
  simp [and_assoc]

theorem genlogic_cycle_rethrow_iff (c : CycleIn) :
    rethrows_poisoned c = true ↔
      c.hasValue = false ∧ c.mayBeProvisional = true ∧ c.verifiedAt = c.currentRevision ∧
      c.memoCancellationCount = c.runtimeCancellationCount := by
  unfold rethrows_poisoned cancellation_count
  simp [and_assoc]

theorem genlogic_cycle_keep_iff (c : CycleIn) :
    keeps_iteration c = true ↔
      c.verifiedAt = c.currentRevision ∧ c.hasValue = true ∧
      c.memoCancellationCount = c.runtimeCancellationCount := by
  unfold keeps_iteration cancellation_count
  simp [and_assoc]

/-- a memo verified in an earlier revision is never re-used as a provisional value and never
    re-throws (poison is per revision) -/
theorem genlogic_cycle_stale (c : CycleIn) (h : c.verifiedAt ≠ c.currentRevision) :
    reuses_provisional c = false ∧ rethrows_poisoned c = false ∧ keeps_iteration c = false := by
  simp [reuses_provisional, rethrows_poisoned, keeps_iteration, h]

/-- nor is one of an abandoned (cancelled) fixpoint iteration -/
theorem genlogic_cycle_cancelled (c : CycleIn)
    (h : c.memoCancellationCount ≠ c.runtimeCancellationCount) :
    reuses_provisional c = false ∧ rethrows_poisoned c = false ∧ keeps_iteration c = false := by
  simp [reuses_provisional, rethrows_poisoned, keeps_iteration, cancellation_count, h]

theorem genlogic_cycle_exclusive (c : CycleIn) :
    ¬ (rethrows_poisoned c = true ∧ reuses_provisional c = true) := by
  rw [genlogic_cycle_reuse_iff, genlogic_cycle_rethrow_iff]
  rintro ⟨⟨h1, _⟩, _, h2, _⟩
  simp [h1] at h2

/-- a re-used memo keeps its iteration stamp; a fresh initial value is stamped with the current
    revision and cancellation epoch -/
theorem genlogic_cycle_reuse_keeps (c : CycleIn) (h : reuses_provisional c = true) :
    keeps_iteration c = true := by
  rw [genlogic_cycle_reuse_iff] at h
  rw [genlogic_cycle_keep_iff]
  exact ⟨h.1, h.2.1, h.2.2.1⟩

theorem genlogic_cycle_initial (c : CycleIn) :
    initial_verified_at c = c.currentRevision ∧ initial_stamp_count c = c.runtimeCancellationCount := by
  simp [initial_verified_at, initial_stamp_count, cancellation_count]

/-- the model's `fetchColdCycle` is the re-assembly from the generated conditions for every head
    that is not poisoned … -/
theorem genlogic_cycle_model (P : Prog) (c : Nat) (s : St) (h : s.poisoned.contains c = false) :
    fetchColdCycle P c s = fetchColdCycleG P c s := by
  unfold fetchColdCycle fetchColdCycleG memoOf
  cases hs : (P.node c).strat <;> simp only [h] <;>
    cases hp : s.prov.lookup c <;>
    simp [provisionalIn, rethrows_poisoned, reuses_provisional, cancellation_count]

/-- … and for a poisoned head the re-assembly re-throws, as the model's `fetch` does before it
    gets there (`PanicClass.propagated`) -/
theorem genlogic_cycle_model_poisoned (P : Prog) (c : Nat) (s : St)
    (h : s.poisoned.contains c = true) (hs : (P.node c).strat ≠ .panic) :
    fetchColdCycleG P c s = .error ⟨.propagated, s.stack⟩ := by
  unfold fetchColdCycleG memoOf
  cases hs' : (P.node c).strat <;> simp_all [poisonedIn, provisionalIn, rethrows_poisoned, cancellation_count]

/-- non-vacuity: the three kinds of memo -/
example : reuses_provisional provisionalIn = true ∧ rethrows_poisoned provisionalIn = false ∧
    rethrows_poisoned poisonedIn = true ∧ reuses_provisional poisonedIn = false ∧
    reuses_provisional { provisionalIn with verifiedAt := 0 } = false ∧
    reuses_provisional { provisionalIn with headsContainSelf := false } = false ∧
    keeps_iteration { provisionalIn with headsContainSelf := false } = true := by decide

end SalsaVerif.Props.GenLogic
