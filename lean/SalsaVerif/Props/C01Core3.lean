/-
  C01 — incremental = from-scratch, stage S3 (the engine model `Core3`).

  `Props/C01.lean` proves the property for the S2 fragment (plain memoised functions).  This file
  states it for the S3 engine `SalsaVerif/Model/Core3.lean`, which adds the other function kinds
  of the sequential engine: `no_eq` functions (never backdated), untracked reads of cells (memo
  re-executed in every revision), `lru` functions whose VALUES are evicted at revision bumps /
  `evict` / capacity changes while their dependency information is kept, on top of dynamic
  dependencies, durabilities, backdating and the durability shortcut.

  PROVED (by `Proofs/Core3Evict*.lean`, invariant `InvE`): for every well-formed program, every
  initial input / cell assignment, every capacity and EVERY history of requests, input writes
  (any durability), synthetic writes, cell changes, `lruCap`, `evict`: the answer of a request
  equals the from-scratch semantics `sem` of the current inputs and cells.

  Still outside any engine theorem (covered by the staged models CoreSpec / CoreAcc / Cycle /
  Persist and by the reference interpreter on the `full` profile): tracked structs + `specify`
  across revisions (C10: one revision proved), interning inside the engine, multi-argument keys.
-/
import SalsaVerif.Model.Core3
import SalsaVerif.Proofs.Core3Top
import SalsaVerif.Proofs.Core3EvictSound

namespace SalsaVerif.Props.C01Core3
open SalsaVerif.Model.Core3 SalsaVerif.Proofs.Core3

/-- **Incremental = from-scratch (stage S3).**  After any history, a request returns `sem` of the
    current inputs and cells — whatever was memoised, validated, backdated or evicted before. -/
theorem c01_core3_sound {P : Prog} (hP : Wf P) (inp : Nat → Inp) (cells : Nat → Nat) (cap : Nat)
    (ops : List Op) (q : Nat) :
    (fetch P (run P inp cells cap ops) q).2.val =
      sem P (run P inp cells cap ops).inp (run P inp cells cap ops).cells q :=
  Proofs.Core3E.c01_s3 hP inp cells cap ops q

/-- for line-protocol programs the hypothesis is the decidable check `wfList 0 es = true` -/
theorem c01_core3_sound_prog (es : List (Kind × Expr)) (h : wfList 0 es = true) (inp : Nat → Inp)
    (cells : Nat → Nat) (cap : Nat) (ops : List Op) (q : Nat) :
    (fetch (progOf es) (run (progOf es) inp cells cap ops) q).2.val =
      sem (progOf es) (run (progOf es) inp cells cap ops).inp (run (progOf es) inp cells cap ops).cells q :=
  c01_core3_sound (wf_progOf es h) inp cells cap ops q

/-- order independence as a corollary: the answer is a function of the current inputs and cells
    alone, so two histories that end in the same inputs and cells give the same answer -/
theorem c01_core3_history_independent {P : Prog} (hP : Wf P) (inp inp' : Nat → Inp)
    (cells cells' : Nat → Nat) (cap cap' : Nat) (ops ops' : List Op) (q : Nat)
    (hi : (run P inp cells cap ops).inp = (run P inp' cells' cap' ops').inp)
    (hc : (run P inp cells cap ops).cells = (run P inp' cells' cap' ops').cells) :
    (fetch P (run P inp cells cap ops) q).2.val = (fetch P (run P inp' cells' cap' ops') q).2.val := by
  rw [c01_core3_sound hP, c01_core3_sound hP, hi, hc]

end SalsaVerif.Props.C01Core3
