/-
  C24 — concurrently created structs get distinct identities.
  Model: SalsaVerif/Model/Alloc.lean (pages, `non_full_pages`, per-handle `most_recent_pages`,
  three-step `PageView::allocate`), ids via the generated `make_id` / `split_id` (Gen/Ids.lean).

  Assumptions of the model (DESIGN §C24): the `non_full_pages` mutex and the boxcar push are
  atomic; `PageIndex::new`'s `debug_assert!(idx < MAX_PAGES)` is a precondition of `push`
  (release builds do not check it; beyond 2^25 pages `make_id` would wrap).  The tracked-struct
  free list (concurrent queue) and interned-slot reuse under the shard lock are not part of this
  model.
-/
import SalsaVerif.Proofs.AllocLemmas

namespace SalsaVerif.Props.C24
open SalsaVerif.Gen.Ids SalsaVerif.Model.Alloc SalsaVerif.Proofs.AllocLemmas

/-- In every reachable state every page is named at most once among `non_full_pages` and all
    handles' `most_recent_pages`: a page in `nonFull` is in no handle's cache, two different
    handles never cache the same page, and — since a handle inside `allocate` (between its load
    and its store) works on a page of its own cache — the three steps of two writers never
    interleave on one page.  `singleWriterOk` is the Bool form checked by the driver. -/
theorem c24_single_writer (s : State) (hr : Reachable s) :
    (∀ q, occ s q ≤ 1) ∧
    singleWriterOk s = true ∧
    (∀ q, q ∈ s.nonFull.map (·.2) → ∀ (i : Nat) (hd : Handle), s.handles[i]? = some hd →
      q ∉ hd.mostRecent.map (·.2)) ∧
    (∀ (i j : Nat) (a b : Handle) q, i ≠ j → s.handles[i]? = some a → s.handles[j]? = some b →
      q ∈ a.mostRecent.map (·.2) → q ∉ b.mostRecent.map (·.2)) ∧
    (∀ (i j : Nat) (a b : Handle) q, i ≠ j → s.handles[i]? = some a → s.handles[j]? = some b →
      pcPage a.pc = some q → q ∈ a.mostRecent.map (·.2) ∧ pcPage b.pc ≠ some q) := by
  obtain ⟨hown, _⟩ := ainv_reachable s hr
  refine ⟨hown.single, (singleWriterOk_iff s).2 hown.single, ?_, ?_, ?_⟩
  · intro q hq i hd hi hmem
    have h1 := (cnt_pos_iff_mem q _).2 hq
    have h2 := (cnt_pos_iff_mem q _).2 hmem
    have h3 := occH_ge q s.handles i hd hi
    have h4 := hown.single q
    unfold occ at h4
    omega
  · intro i j a b q hij ha hb hqa hqb
    have h1 := (cnt_pos_iff_mem q _).2 hqa
    have h2 := (cnt_pos_iff_mem q _).2 hqb
    have h3 := occH_two q s.handles i j a b hij ha hb
    have h4 := hown.single q
    unfold occ at h4
    omega
  · intro i j a b q hij ha hb hpa
    have hc := (pcOk_cnt s.pages a (hown.pcOk i a ha) q hpa).1
    refine ⟨(cnt_pos_iff_mem q _).1 hc, ?_⟩
    intro hpb
    exact other_page_ne s hown i j a b hij ha hb q hc q hpb rfl

-- two handles, both in the middle of `allocate` (after the load), on different pages; handle 2
-- took the page that handle 1 (dropped) returned to `non_full_pages`.
example : ∃ s, Reachable s ∧ s.handles.length = 3 ∧
    (getH s 0).pc = .loaded 0 1 ∧ (getH s 2).pc = .loaded 1 0 ∧ s.nonFull = [] ∧ occ s 0 = 1 ∧ occ s 1 = 1 :=
  ⟨_, ⟨[.push 0 7 0, .load 0 0 0, .write 0 0 0 41, .store 0 0 1, .cloneHandle 0, .cloneHandle 0,
        .push 1 7 1, .dropHandle 1 [7], .take 2 7 1, .load 2 1 0, .load 0 0 1], rfl⟩,
   rfl, rfl, rfl, rfl, rfl, rfl⟩

/-- the ids handed out by `allocate` (on any handles, in any interleaving, across clone / drop /
    page reuse) are pairwise distinct; each is `make_id page slot` of an in-range page and slot,
    decodes back to them with `split_id`, and satisfies `Id::from_index`'s bound. -/
theorem c24_distinct (s : State) (hr : Reachable s) :
    (s.handed.map (·.1)).Nodup ∧
    (∀ id v, (id, v) ∈ s.handed → ∃ page slot, id = make_id page slot ∧ page < MAX_PAGES ∧
      slot < PAGE_LEN ∧ split_id id = (page, slot) ∧ Id.index0 id < Id.MAX_U32) ∧
    (∀ p s' p' s'', p < MAX_PAGES → s' < PAGE_LEN → p' < MAX_PAGES → s'' < PAGE_LEN →
      make_id p s' = make_id p' s'' → p = p' ∧ s' = s'') := by
  obtain ⟨_, hdata⟩ := ainv_reachable s hr
  refine ⟨hdata.distinct, ?_, fun p s' p' s'' h1 h2 h3 h4 h =>
    SalsaVerif.Proofs.IdsRoundtrip.make_id_injective p s' p' s'' h1 h2 h3 h4 h⟩
  intro id v hmem
  obtain ⟨q, idx, p, hid, hq, hlt, _⟩ := hdata.handedOk id v hmem
  obtain ⟨hb1, hb2⟩ := hdata.bounds q p hq
  have hidx : idx < PAGE_LEN := by omega
  subst hid
  exact ⟨q, idx, rfl, hb2, hidx, SalsaVerif.Proofs.IdsRoundtrip.split_id_make_id q idx hb2 hidx,
    SalsaVerif.Proofs.IdsRoundtrip.make_id_lt q idx hb2 hidx⟩

-- three ids from two handles and two pages
example : ∃ s, Reachable s ∧ s.handed.map (fun x => (Id.index0 x.1, x.2)) = [(1, 43), (0, 41), (128, 42)] :=
  ⟨_, ⟨[.push 0 7 0, .load 0 0 0, .write 0 0 0 41, .cloneHandle 0, .push 1 7 1, .load 1 1 0,
        .write 1 1 0 42, .store 1 1 1, .store 0 0 1, .load 0 0 1, .write 0 0 1 43, .store 0 0 2], rfl⟩, by decide⟩

/-- a reader that sees `idx < allocated` (the Acquire load of `Page::get`) sees an initialised
    slot, holding exactly the value that was written for the id `make_id page idx` when it was
    handed out; and that never changes afterwards. -/
theorem c24_readback (s : State) (hr : Reachable s) :
    (∀ page p idx, s.pages page = some p → idx < p.allocated →
      ∃ v, readSlot s page idx = some v ∧ (make_id page idx, v) ∈ s.handed) ∧
    (∀ page idx v, page < MAX_PAGES → idx < PAGE_LEN → (make_id page idx, v) ∈ s.handed →
      ∀ ls s', run s ls = some s' → readSlot s' page idx = some v) := by
  have hinv := ainv_reachable s hr
  refine ⟨?_, ?_⟩
  · intro page p idx hp hlt
    obtain ⟨v, hv, hmem⟩ := hinv.2.pub page p idx hp hlt
    exact ⟨v, by simp only [readSlot, hp, hlt, if_true, hv], hmem⟩
  · intro page idx v hp hi hmem ls s' hrun
    exact readSlot_of_handed s' (ainv_run ls s s' hinv hrun) page idx v hp hi
      (handed_mono_run ls s s' hrun _ hmem)

example : ∃ s s', Reachable s ∧ readSlot s 0 0 = some 41 ∧ readSlot s 0 1 = none ∧
    run s [.load 0 0 1, .write 0 0 1 43] = some s' ∧ readSlot s' 0 1 = none ∧ readSlot s' 0 0 = some 41 :=
  ⟨_, _, ⟨[.push 0 7 0, .load 0 0 0, .write 0 0 0 41, .store 0 0 1], rfl⟩, rfl, rfl, rfl, rfl, rfl⟩

end SalsaVerif.Props.C24
