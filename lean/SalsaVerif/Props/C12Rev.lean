/-
  C12 (revision-aware) — fixpoint cycles across revisions.

  Model: `SalsaVerif.Model.CycleRev` — THE CODE THAT EXISTS: memos survive writes, with
  `verified_at` / `changed_at` / durability, the flattened dependency lists of cycle members as
  `complete_cycle_query` stores them, lazy finalisation, `maybe_changed_after` on former cycle
  members (header of the model).  Tied to salsa by `svdriver cyclerev` on the UNCHANGED op files
  of `vh seq --profile cycle`: byte-identical answers (value / panic class AND event sequence of
  every request of every revision) on > 1.6 M requests per flavour.
  References: `lfp` of `Model/Cycle.lean` through the translation `toCycle` / `envOfVals`
  (`Proofs/CycleRevRef.lean`).

  PROVED
  * `c12rev_history_dependence_witness` (+ `_recorded`): the model-level twin of known finding
    kf2.  On a 3-node fixpoint program the history  get 1; get 0; write input 0; get 0  returns
    2 for node 0, while the least fixpoint at the new inputs — and the model itself on a fresh
    database — give 6 (by kernel evaluation).  The full property "answers do not depend on
    the history" is FALSE of this model exactly as it is false of salsa.
  * `c12rev_stale_final_memo_repaired_witness`: the history of a second defect, found with this
    model and repaired in salsa (`fix: treat a provisional memo as changed in
    maybe_changed_after`, mirrored in `mcaStep`): after a write closes a cycle through a final
    memo, that memo was validated against a provisional dependency (a plain function inside the
    new cycle) and the cycle converged to a NON-LEAST fixpoint (95 instead of 0) whose table
    passed the closedness certificate; the repaired model answers the least fixpoint 0.
  * `c12rev_flatten_lag`: the mechanism, for all states: flattening an edge to a recovering
    query whose memo is still provisional copies the edges stored in that memo (its previous
    completion; nothing for the fixpoint-initial memo), not what it has read since.
  * `c12rev_le_post`: soundness in one direction for EVERY history (writes included): if `B`
    is a post-fixpoint of the equations at the inputs of every request of the history, every
    answer is a subset of `B` (programs without `FallbackImmediate` and in the body language of
    `Model/Cycle.lean`: `NoAdd` excludes the non-monotone `add` only — the value-controlled
    `gate` is part of that language, `toCycleExpr` maps gates to gates, so this and the next
    three statements cover the gated programs of flavour 6).  No
    stale value can exceed such a bound; kf2's stale value is a too SMALL one.
  * `c12rev_le_lfp`: one revision on a fresh database, any sequence of requests: every answer
    is a subset of `lfp`.
  * `c12rev_ge_lfp_if_closed`: for ANY state (any history): if the (effectively) finalised memos
    of a set `R` of nodes are closed under callees and solve the equations at the current inputs
    (`closedOn`, a decidable predicate on the state), their values contain `lfp`.
  * `c12rev_exact_if_closed` = the two together: refinement of `Model/Cycle.lean` per certified
    run — in one revision on a fresh database an answer `v` whose reachable part of the table
    is closed is `lfp`, hence (`c12rev_agrees_with_cycle_if_closed`) equal to what the engine of
    `Model/Cycle.lean` answers (`c12_full_gated_history`) whenever that answers with a value.
    (`closedOn` / `reachFrom` take the callees under the finalised values: an edge behind a gate
    counts iff the gate is open in the final table.)
    `svdriver cyclerev-cert` prints the certificate (`certB`: `R` = the nodes reachable from the
    request) for every answer; it held for ALL 399 056 value answers of the first revisions of
    300 000 generated cases (flavours 0, 4, 2), so each of those answers is `lfp` by theorem.

  NOT PROVED (open)
  * unconditional refinement "one revision, fresh database ⇒ same answers as `Model/Cycle`'s
    `gets`": the closedness of the final table (that `validate_same_iteration`, the iteration
    stamps and nested heads make every participant's last completion read the heads' final
    values) is not proved; it is a hypothesis checked on the run (`closedOn`).  The two models
    agree on all generated cases (differential runs), and they cannot be related step by step:
    salsa iterates until (value, durability, changed_at) converge and reuses participants.
  * any cross-revision LOWER bound: false in general (the kf2 witness above; kf2 is a recorded,
    unrepaired finding — a validated candidate repair, "also verify the dependency lists of a
    finalised participant's cycle heads", exists but is not applied).
-/
import SalsaVerif.Proofs.CycleRevLe5
import SalsaVerif.Proofs.CycleRevMech
import SalsaVerif.Props.C12

namespace SalsaVerif.Props.C12Rev
open SalsaVerif.Model
open SalsaVerif.Model.CycleRev
open SalsaVerif.Proofs.CycleRev
open SalsaVerif.Proofs.Cycle (le)

/-- **kf2 at model level** (minimised; corpus/CYCLEREV/kf2-min.ops, same answers from salsa):
    `q0 = {2} ∪ q2`, `q1 = i0 ∪ q2`, `q2 = (q1 ∪ q0) ∩ i1`, inputs 3, 6.
    get 1; get 0; write i0 := 4; get 0  answers 3, 2, 2 — but the least fixpoint at the new inputs
    is 6 at node 0, and that is also what the model answers on a fresh database. -/
theorem c12rev_history_dependence_witness :
    outputs kf2P (St.init 3 [(3, 0), (6, 0)]) kf2Ops = [.value 3, .value 2, .value 2] ∧
    Cycle.lfp (toCycle kf2P) (envOfVals [4, 6]) 0 = 6 ∧
    outputs kf2P (St.init 3 [(4, 0), (6, 0)]) [.get 0] = [.value 6] := by
  refine ⟨by decide, ?_, by decide⟩
  rw [← SalsaVerif.Proofs.Cycle.lfpL_getD]
  decide

set_option maxRecDepth 100000 in
/-- the recorded history (corpus/C12/kf2-stale-participant.ops): the last request answers 40,
    the least fixpoint at the inputs (239, 209) is 169 at node 5. -/
theorem c12rev_history_dependence_recorded :
    outputs kf2RecP (St.init 6 [(239, 0), (96, 0)]) kf2RecOps
      = [.value 104, .value 40, .value 169, .value 40] ∧
    Cycle.lfp (toCycle kf2RecP) (envOfVals [239, 209]) 5 = 169 := by
  refine ⟨by decide, ?_⟩
  rw [← SalsaVerif.Proofs.Cycle.lfpL_getD]
  decide

/-- **stale final memo, repaired.**  `q0 = if i0 odd then q1 ∪ q2 else i1` (fix), `q1 = q0` (plain),
    `q2 = q1` (fix); inputs 2, 95.  get 2 answers 95; the write i0 := 3 closes the cycles
    `q0 → q1 → q0`, `q0 → q2 → q1`; get 0 answers the least fixpoint 0, which is also what the
    model answers on a fresh database, and the table passes the certificate `certB`.
    Before `fix: treat a provisional memo as changed in maybe_changed_after` the final memo of
    `q2` was VALIDATED: its only edge is `q1`, whose memo of this iteration is provisional,
    accepted by `validate_same_iteration`, and carries the `changed_at` of the fixpoint-initial
    memo of `q0`, so `maybe_changed_after` answered "unchanged"; the cycle converged to the
    non-least fixpoint 95 — with a table that is closed: closedness gives `lfp ≤ v` only, it
    cannot give `v ≤ lfp` across revisions.  (work/cyclerev/stale-final-memo-validated-through-
    provisional-dep.ops, corpus/CYCLEREV/stale-final-memo-min.ops.) -/
theorem c12rev_stale_final_memo_repaired_witness :
    outputs staleFinalP (St.init 3 [(2, 0), (95, 0)]) staleFinalOps = [.value 95, .value 0] ∧
    Cycle.lfp (toCycle staleFinalP) (envOfVals [3, 95]) 0 = 0 ∧
    outputs staleFinalP (St.init 3 [(3, 0), (95, 0)]) [.get 0] = [.value 0] ∧
    certB staleFinalP (run staleFinalP (St.init 3 [(2, 0), (95, 0)]) staleFinalOps) 0 0 = true := by
  refine ⟨by decide, ?_, by decide, by decide⟩
  rw [← SalsaVerif.Proofs.Cycle.lfpL_getD]
  decide

/-- **the lag** behind kf2 (`flatten_cycle_head_dependencies`, all states). -/
theorem c12rev_flatten_lag (P : Prog) (s : St) (q : Nat) (m : Memo)
    (hm : memoOf s q = some m) (hf : m.final = false) (hs : P.strat q ≠ .panic) :
    flattenCycleDependencies P s [.qry q] = m.edges.foldl edgeInsert [] :=
  flatten_provisional_recovering P s q m hm hf hs

/-- **upper bound for every history.** -/
theorem c12rev_le_post (P : Prog) (hNF : NoFb P) (hNA : NoAdd P) (B : Nat → Nat) (s : St)
    (ops : List Op) (hs : Inv B s) (hB : PostHist P B s ops) :
    ∀ q o, (q, o) ∈ answers P s ops → ∀ v, o = .value v → le v (B q) :=
  answers_le P hNF hNA ops s hs hB

/-- **upper bound in one revision**: fresh database, requests `qs`, then `q`. -/
theorem c12rev_le_lfp (P : Prog) (hNF : NoFb P) (hNA : NoAdd P) (inputs : List (Nat × Nat))
    (qs : List Nat) (q v : Nat)
    (hv : (CycleRev.get P (run P (St.init P.n inputs) (qs.map .get)) q).1 = .value v) :
    le v (Cycle.lfp (toCycle P) (envOfVals (inputs.map (·.1))) q) :=
  fresh_le_lfp P hNF hNA inputs qs q v hv

/-- **lower bound from the closed-table certificate**, any state. -/
theorem c12rev_ge_lfp_if_closed (P : Prog) (s : St) (R : List Nat) (hc : closedOn P s R = true)
    (c v : Nat) (hcR : c ∈ R) (hv : finalVal s c = some v) :
    le (Cycle.lfp (toCycle P) (envI s.inp) c) v :=
  closed_ge_lfp P s R hc c v hcR hv

/-- **refinement per certified run** (one revision, fresh database). -/
theorem c12rev_exact_if_closed (P : Prog) (hNF : NoFb P) (hNA : NoAdd P)
    (inputs : List (Nat × Nat)) (qs : List Nat) (q v : Nat)
    (hv : (CycleRev.get P (run P (St.init P.n inputs) (qs.map .get)) q).1 = .value v)
    (R : List Nat) (hqR : q ∈ R)
    (hc : closedOn P (CycleRev.get P (run P (St.init P.n inputs) (qs.map .get)) q).2 R = true)
    (hf : finalVal (CycleRev.get P (run P (St.init P.n inputs) (qs.map .get)) q).2 q = some v) :
    v = Cycle.lfp (toCycle P) (envOfVals (inputs.map (·.1))) q :=
  fresh_exact_of_closed P hNF hNA inputs qs q v hv R hqR hc hf

/-- … hence the answer of the engine of `Model/Cycle.lean` after the same requests, whenever
    that engine answers with a value (`c12_full_gated_history`: it answers `lfp` or panics; the
    former hypothesis `8 * P.n < 200` is no longer needed). -/
theorem c12rev_agrees_with_cycle_if_closed (P : Prog) (hNF : NoFb P) (hNA : NoAdd P)
    (hW : (toCycle P).Wf) (inputs : List (Nat × Nat)) (qs : List Nat)
    (q v : Nat) (hq : q < P.n)
    (hv : (CycleRev.get P (run P (St.init P.n inputs) (qs.map .get)) q).1 = .value v)
    (R : List Nat) (hqR : q ∈ R)
    (hc : closedOn P (CycleRev.get P (run P (St.init P.n inputs) (qs.map .get)) q).2 R = true)
    (hf : finalVal (CycleRev.get P (run P (St.init P.n inputs) (qs.map .get)) q).2 q = some v)
    (w k : Nat)
    (hw : ((SalsaVerif.Proofs.Cycle.gets (toCycle P) (envOfVals (inputs.map (·.1))) Cycle.Db.empty qs).get
            (toCycle P) (envOfVals (inputs.map (·.1))) q).1 = .value w k) :
    v = w := by
  have h1 := fresh_exact_of_closed P hNF hNA inputs qs q v hv R hqR hc hf
  have h2 := SalsaVerif.Props.C12.c12_full_gated_history (toCycle P)
    (envOfVals (inputs.map (·.1))) hW (noFallback_toCycle hNF) qs q (by rw [toCycle_n]; exact hq)
  rw [hw] at h2
  rcases h2 with ⟨k', h2⟩ | h2 | h2 | h2
  · injection h2 with h2 _; rw [h1, h2]
  · cases h2
  · cases h2
  · cases h2

/-! ## non-vacuity -/

/-- a 3-node fixpoint program with a nested cycle; requests 2, 0, then 1 on a fresh database. -/
example : NoFb kf2P ∧ NoAdd kf2P ∧ (toCycle kf2P).Wf ∧ 8 * kf2P.n < 200 := by decide

/-- a single request for node 1 (the other two members stay lazily finalised): the certificate
    of the driver holds … -/
example :
    (CycleRev.get kf2P (run kf2P (St.init kf2P.n [(3, 0), (6, 0)]) ([].map .get)) 1).1 = .value 3 ∧
    certB kf2P (CycleRev.get kf2P (run kf2P (St.init kf2P.n [(3, 0), (6, 0)]) ([].map .get)) 1).2 1 3 = true ∧
    reachFrom kf2P (St.init 3 [(3, 0), (6, 0)]) 3 [1] = [1, 2, 0] := by
  decide

/-- … so the answer is the least fixpoint … -/
example : (3 : Nat) = Cycle.lfp (toCycle kf2P) (envOfVals [3, 6]) 1 :=
  c12rev_exact_if_closed kf2P (by decide) (by decide) [(3, 0), (6, 0)] [] 1 3
    (by decide) [1, 2, 0] (by decide) (by decide) (by decide)

/-- … and the certificate FAILS for the stale answer of the witness (it detects the finding). -/
example : certB kf2P (run kf2P (St.init 3 [(3, 0), (6, 0)]) kf2Ops) 0 2 = false := by decide

/-- value-controlled gates (inside `NoAdd`; model = salsa byte for byte on 500 000 generated gated
    cases): on `gatedP` with inputs 4, 8, 32 the model answers the least fixpoint
    `q1 = 8 ∪ 1 ∪ 32 = 41`, `q0 = 4 ∪ 41 = 45` from either entry (three resp. two iterations). -/
example :
    outputs gatedP (St.init 2 [(4, 0), (8, 0), (32, 0)]) [.get 0, .get 1] = [.value 45, .value 41] ∧
    outputs gatedP (St.init 2 [(4, 0), (8, 0), (32, 0)]) [.get 1, .get 0] = [.value 41, .value 45] := by
  decide

/-- … the certificate holds for both answers, so (`c12rev_exact_if_closed`, now covering gates)
    they are the least fixpoint of the gated equations. -/
example : NoFb gatedP ∧ NoAdd gatedP ∧ (toCycle gatedP).Wf ∧ ¬ (toCycle gatedP).NoGate := by decide

example : (45 : Nat) = Cycle.lfp (toCycle gatedP) (envOfVals [4, 8, 32]) 0 :=
  c12rev_exact_if_closed gatedP (by decide) (by decide) [(4, 0), (8, 0), (32, 0)] [] 0 45
    (by decide) [0, 1] (by decide) (by decide) (by decide)

example : (41 : Nat) = Cycle.lfp (toCycle gatedP) (envOfVals [4, 8, 32]) 1 :=
  c12rev_exact_if_closed gatedP (by decide) (by decide) [(4, 0), (8, 0), (32, 0)] [0] 1 41
    (by decide) [1, 0] (by decide) (by decide) (by decide)

/-- `c12rev_le_post` with writes: `B` = everything (255) is a post-fixpoint at all inputs. -/
example : PostHist kf2P (fun _ => 255) (St.init 3 [(3, 0), (6, 0)]) kf2Ops :=
  postHist_top kf2P kf2Ops _

/-- the lag on a concrete state: while node 1 of the witness program iterates (its memo is the
    fixpoint-initial one), a participant that read it stores no dependency for that read. -/
example :
    flattenCycleDependencies kf2P
      (setMemo (St.init 3 [(3, 0), (6, 0)]) 1 ⟨some 0, 1, 1, 3, [], [⟨1, 0, false⟩], 0, false, false⟩)
      [.qry 1] = [] := by decide

end SalsaVerif.Props.C12Rev
