/-
  C14 — cycles without recovery panic, and the database stays usable (single-threaded part).

  Model: `SalsaVerif.Model.Cycle`.  All model functions are total (structural recursion), so a
  request never hangs in the model; `PanicClass.outOfFuel` is the model's only artificial
  outcome and `c14_total` shows it is unreachable for well-formed programs.

  PROVED (all for the full body language, value-controlled gates included; `callees env ρ` is
  relative to an assignment `ρ` of the values that decide the gates, any `ρ` will do in
  `c14_propagates_evalM` / `c14_self_call_partial`): `c14_panics`, `c14_cycle_origin`,
  `c14_propagates_*`, `c14_self_call_partial`, `c14_total`, `c14_state_ok`, `c14_recovers`,
  `c14_panic_nodes_not_poisoned`.

  NOT YET PROVED (intended full statements):
  * `c14_panics` (global, forward form): "if during a request a `panic`-strategy node is fetched
    while it is on the stack, the request's outcome is `panic cycle`".  Proved here in the local
    form `c14_panics` (the fetch itself yields `panic cycle` with the current stack, never a
    value), together with strict propagation of every panic to the top
    (`c14_propagates_evalM`, `c14_propagates_loop`, `c14_propagates_execute`), the converse
    `c14_cycle_origin` (a reported `panic cycle` always names a `panic`-strategy node that is on
    the reported stack) and the end-to-end special case `c14_self_call_partial`.  A trace
    semantics ("during a request") would be needed to state the global form.
-/
import SalsaVerif.Props.C15
import SalsaVerif.Props.C12
import SalsaVerif.Proofs.CycleFuel

namespace SalsaVerif.Props.C14
open SalsaVerif.Model.Cycle SalsaVerif.Proofs.Cycle SalsaVerif.Gen.Stamp

/-- **c14_panics.**  Fetching a node without cycle recovery while it is an active query (and not
    already memoised / poisoned) panics with class `cycle`, reporting the current stack — it is
    never answered with a value, whatever the rest of the state is. -/
theorem c14_panics (P : Prog) (exec : Nat → St → Res Fetched) (c : Nat) (s : St)
    (hstrat : (P.node c).strat = .panic) (hstack : c ∈ s.stack)
    (hpois : c ∉ s.poisoned) (hfinal : s.final.lookup c = none) :
    fetch P exec c s = .error ⟨.cycle, s.stack⟩ := by
  unfold fetch
  simp [hpois, hfinal, hstack, fetchColdCycle, hstrat]

/-- an active query is never memoised, so `hfinal` above holds in every reachable state. -/
theorem c14_active_not_final (P : Prog) (env : Nat → Nat) (s : St) (hI : Inv P env s)
    (c : Nat) (hc : c ∈ s.stack) : s.final.lookup c = none :=
  (hI.stackFresh c hc).2

/-- a reported `panic cycle` names a node without recovery that is on the reported stack. -/
def CycleOrigin (P : Prog) (e : Panic) : Prop :=
  e.cls = .cycle → ∃ c ∈ e.stack, (P.node c).strat = .panic

theorem c14_origin_fetch (P : Prog) (exec : Nat → St → Res Fetched)
    (hX : ∀ c s e, exec c s = .error e → CycleOrigin P e) (c : Nat) (s : St) (e : Panic)
    (h : fetch P exec c s = .error e) : CycleOrigin P e := by
  unfold fetch at h
  split at h
  · injection h with h; subst h; intro hc; cases hc
  · cases hf : s.final.lookup c with
    | some w => rw [hf] at h; cases h
    | none =>
      rw [hf] at h
      simp only at h
      split at h
      · rename_i hst
        unfold fetchColdCycle at h
        cases hs : (P.node c).strat with
        | panic =>
          rw [hs] at h
          injection h with h; subst h
          intro _
          exact ⟨c, by simpa using hst, hs⟩
        | fixpoint b =>
          rw [hs] at h
          simp only at h
          cases hl : s.prov.lookup c <;> rw [hl] at h <;> cases h
        | fallback fv =>
          rw [hs] at h
          simp only at h
          cases hl : s.prov.lookup c <;> rw [hl] at h <;> cases h
      · cases hcache : s.cache.lookup c with
        | some en => rw [hcache] at h; cases h
        | none => rw [hcache] at h; exact hX c s e h

/-- every panic of `execute` that is classified `cycle` has a genuine origin. -/
theorem c14_origin_execute (P : Prog) (env : Nat → Nat) :
    ∀ d c s e, execute P env d c s = .error e → CycleOrigin P e := by
  intro d
  induction d with
  | zero =>
    intro c s e h
    simp only [execute] at h
    injection h with h; subst h; intro hc; cases hc
  | succ d ih =>
    intro c s e h
    unfold execute at h
    rcases C15.c15_bounded_execute P env _ c _ e h with h1 | ⟨c', s0, h2⟩
    · intro hc; rw [h1] at hc; cases hc
    · exact c14_origin_fetch P _ ih c' s0 e h2

/-- **c14_cycle_origin.**  If a request ends in `panic cycle`, some node with strategy `panic`
    is on the stack reported with the panic (it was re-entered): the panic is never spurious. -/
theorem c14_cycle_origin (P : Prog) (env : Nat → Nat) (final : List (Nat × Nat))
    (poisoned : List Nat) (j : Nat) (e : Panic)
    (h : eval P env final poisoned j = .error e) (hc : e.cls = .cycle) :
    ∃ c ∈ e.stack, (P.node c).strat = .panic := by
  unfold eval at h
  cases hf : fetch P (execute P env (P.n + 1)) j (St.init final poisoned) with
  | ok r => obtain ⟨v, hs, s⟩ := r; rw [hf] at h; cases h
  | error e' =>
    rw [hf] at h
    injection h with h; subst h
    exact c14_origin_fetch P _ (c14_origin_execute P env (P.n + 1)) j _ e' hf hc

/-! ### panics propagate unchanged (strictness of every model function) -/

/-- a body without callees (under `ρ`) evaluates without fetching anything. -/
theorem c14_pure_evalM (env ρ : Nat → Nat) (read : Nat → St → Res Fetched) :
    ∀ (e : Expr) (s : St), callees env ρ e = [] →
      evalM env read e s = .ok (evalExpr env ρ e, [], s) := by
  intro e
  induction e with
  | const c => intro s _; rfl
  | input i => intro s _; rfl
  | call j => intro s h; simp [callees] at h
  | union a b iha ihb =>
    intro s h
    simp only [callees, List.append_eq_nil_iff] at h
    simp [evalM, evalExpr, iha s h.1, ihb s h.2]
  | inter a b iha ihb =>
    intro s h
    simp only [callees, List.append_eq_nil_iff] at h
    simp [evalM, evalExpr, iha s h.1, ihb s h.2]
  | ite i a b iha ihb =>
    intro s h
    simp only [callees] at h
    simp only [evalM, evalExpr]
    split
    · rename_i hc; rw [if_pos hc] at h; exact iha s h
    · rename_i hc; rw [if_neg hc] at h; exact ihb s h
  | gate g a ihg iha =>
    intro s h
    simp only [callees, List.append_eq_nil_iff] at h
    simp only [evalM, evalExpr, ihg s h.1]
    by_cases ho : evalExpr env ρ g % 2 = 1
    · rw [if_pos ho] at h
      simp [ho, iha s h.2]
    · simp [ho]

/-- a body whose callees (under any `ρ`) start with `c`: a panic of the fetch of `c` is the
    body's outcome. -/
theorem c14_propagates_evalM (env ρ : Nat → Nat) (read : Nat → St → Res Fetched) (err : Panic) :
    ∀ (e : Expr) (s : St) (c : Nat) (rest : List Nat), callees env ρ e = c :: rest →
      read c s = .error err → evalM env read e s = .error err := by
  have pure := c14_pure_evalM env ρ read
  intro e
  induction e with
  | const c => intro s c' rest h; simp [callees] at h
  | input i => intro s c' rest h; simp [callees] at h
  | call j =>
    intro s c rest h hr
    simp only [callees, List.cons.injEq] at h
    obtain ⟨rfl, _⟩ := h
    simp [evalM, hr]
  | union a b iha ihb =>
    intro s c rest h hr
    simp only [callees] at h
    cases hca : callees env ρ a with
    | nil =>
      rw [hca] at h
      simp [evalM, pure a s hca, ihb s c rest h hr]
    | cons c' r' =>
      rw [hca] at h
      simp only [List.cons_append, List.cons.injEq] at h
      obtain ⟨rfl, _⟩ := h
      simp [evalM, iha s c' r' hca hr]
  | inter a b iha ihb =>
    intro s c rest h hr
    simp only [callees] at h
    cases hca : callees env ρ a with
    | nil =>
      rw [hca] at h
      simp [evalM, pure a s hca, ihb s c rest h hr]
    | cons c' r' =>
      rw [hca] at h
      simp only [List.cons_append, List.cons.injEq] at h
      obtain ⟨rfl, _⟩ := h
      simp [evalM, iha s c' r' hca hr]
  | ite i a b iha ihb =>
    intro s c rest h hr
    simp only [callees] at h
    simp only [evalM]
    split
    · rename_i hc; rw [if_pos hc] at h; exact iha s c rest h hr
    · rename_i hc; rw [if_neg hc] at h; exact ihb s c rest h hr
  | gate g a ihg iha =>
    intro s c rest h hr
    simp only [callees] at h
    cases hcg : callees env ρ g with
    | nil =>
      rw [hcg] at h
      simp only [List.nil_append] at h
      by_cases ho : evalExpr env ρ g % 2 = 1
      · rw [if_pos ho] at h
        simp [evalM, pure g s hcg, ho, iha s c rest h hr]
      · rw [if_neg ho] at h; cases h
    | cons c' r' =>
      rw [hcg] at h
      simp only [List.cons_append, List.cons.injEq] at h
      obtain ⟨rfl, _⟩ := h
      simp [evalM, ihg s c' r' hcg hr]

/-- a panic of the body is the outcome of the head loop (no value, no retry). -/
theorem c14_propagates_loop (P : Prog) (env : Nat → Nat) (read : Nat → St → Res Fetched)
    (j fuel stamp : Nat) (s : St) (err : Panic)
    (h : evalM env read (P.node j).body s = .error err) :
    executeMaybeIterate P env read j (fuel + 1) stamp s = .error err := by
  rw [executeMaybeIterate, h]

/-- … and of `execute`. -/
theorem c14_propagates_execute (P : Prog) (env : Nat → Nat) (d j : Nat) (s : St) (err : Panic)
    (h : evalM env (fetch P (execute P env d)) (P.node j).body { s with stack := j :: s.stack }
      = .error err) :
    execute P env (d + 1) j s = .error err := by
  unfold execute loopFuel
  exact c14_propagates_loop P env _ j _ _ _ err h

/-- **c14_self_call (end to end, partial).**  A node without recovery whose first call (under any
    assignment `ρ` of the gates before it) is to itself: a request for it (not memoised, not poisoned) ends in `panic cycle` with stack `[j]`
    — never a value, never a hang. -/
theorem c14_self_call_partial (P : Prog) (env ρ : Nat → Nat) (j : Nat) (rest : List Nat)
    (final : List (Nat × Nat)) (poisoned : List Nat)
    (hstrat : (P.node j).strat = .panic) (hcall : callees env ρ (P.node j).body = j :: rest)
    (hpois : j ∉ poisoned) (hfinal : final.lookup j = none) :
    eval P env final poisoned j = .error ⟨.cycle, [j]⟩ := by
  have hinner : fetch P (execute P env P.n) j
      { (St.init final poisoned) with stack := j :: (St.init final poisoned).stack }
      = .error ⟨.cycle, [j]⟩ :=
    c14_panics P _ j _ hstrat List.mem_cons_self hpois hfinal
  have hbody := c14_propagates_evalM env ρ (fetch P (execute P env P.n)) ⟨.cycle, [j]⟩
    (P.node j).body _ j rest hcall hinner
  have hexec := c14_propagates_execute P env P.n j (St.init final poisoned) _ hbody
  unfold eval fetch
  have h1 : (St.init final poisoned).poisoned.contains j = false := by
    simpa [St.init] using hpois
  have h2 : (St.init final poisoned).stack.contains j = false := by simp [St.init]
  have h3 : (St.init final poisoned).final.lookup j = none := hfinal
  have h4 : (St.init final poisoned).cache.lookup j = none := rfl
  simp only [h1, h2, h3, h4, hexec]
  rfl

/-- **totality.**  The model functions are total by construction (structural recursion), and
    for a well-formed program the fuel they recurse on is never exhausted: a request for an
    existing node ends in a value or in one of salsa's own panic classes — never in the model's
    artificial `outOfFuel`, and never in a hang. -/
theorem c14_total (P : Prog) (env : Nat → Nat) (hW : P.Wf) (final : List (Nat × Nat))
    (poisoned : List Nat) (j : Nat) (hj : j < P.n) :
    (∃ v s, eval P env final poisoned j = .ok (v, s)) ∨
    (∃ e, eval P env final poisoned j = .error e ∧
      (e.cls = .cycle ∨ e.cls = .tooManyIterations ∨ e.cls = .propagated)) := by
  cases h : eval P env final poisoned j with
  | ok r => obtain ⟨v, s⟩ := r; exact Or.inl ⟨v, s, rfl⟩
  | error e =>
    right
    refine ⟨e, rfl, ?_⟩
    have := eval_fuel P env hW final poisoned j hj e h
    cases hc : e.cls with
    | cycle => exact Or.inl rfl
    | tooManyIterations => exact Or.inr (Or.inl rfl)
    | propagated => exact Or.inr (Or.inr rfl)
    | outOfFuel => exact absurd hc this

/-! ### the database after a panic -/

/-- **c14_state_ok.**  A request that panics leaves no trace of its provisional state: the
    database keeps exactly the finalised memos it had, the next request starts with an empty
    stack, no provisional values and no provisional memos, and only the recovering frames that
    were unwound are poisoned (for this revision). -/
theorem c14_state_ok (P : Prog) (env : Nat → Nat) (db db' : Db) (j : Nat) (c : PanicClass)
    (h : db.get P env j = (.panic c, db')) :
    db'.final = db.final ∧
    (∃ e, eval P env db.final db.poisoned j = .error e ∧ e.cls = c ∧
      db'.poisoned = poisonedBy P e.stack ++ db.poisoned) ∧
    (St.init db'.final db'.poisoned).stack = [] ∧
    (St.init db'.final db'.poisoned).prov = [] ∧
    (St.init db'.final db'.poisoned).cache = [] ∧
    db'.newRevision = Db.empty := by
  unfold Db.get at h
  cases he : eval P env db.final db.poisoned j with
  | ok r => obtain ⟨v, s⟩ := r; rw [he] at h; cases h
  | error e =>
    rw [he] at h
    injection h with h1 h2
    injection h1 with h1
    subst h2
    exact ⟨rfl, ⟨e, rfl, h1, rfl⟩, rfl, rfl, rfl, rfl⟩

/-- **c14_recovers.**  After any history of requests — panicking ones included — every request
    that returns a value returns the reference value (`lfp`), exactly as from scratch
    (for programs without `FallbackImmediate` nodes; = `c12_lfp_history`). -/
theorem c14_recovers (P : Prog) (env : Nat → Nat) (hNF : NoFallback P) (js : List Nat)
    (j v k : Nat) (h : ((gets P env Db.empty js).get P env j).1 = .value v k) :
    v = lfp P env j :=
  C12.c12_lfp_history P env hNF js j v k h

/-- nodes with strategy `panic` are never poisoned, so a request for the node that reported the
    cycle is evaluated again (and panics again with `cycle`, not with `propagated`). -/
theorem c14_panic_nodes_not_poisoned (P : Prog) (stack : List Nat) (c : Nat)
    (h : (P.node c).strat = .panic) : c ∉ poisonedBy P stack := by
  unfold poisonedBy
  intro hm
  rw [List.mem_filter] at hm
  simp [h] at hm

/-! ## non-vacuity -/

/-- `n0 = {0} ∪ n1` (fixpoint), `n1 = {1} ∪ (if in0 then n2 else ∅)` (no recovery),
    `n2 = {2} ∪ (if in1 then n1 else n0)` (fixpoint). -/
def ex1 : Prog := ⟨[
  ⟨.fixpoint false, .union (.const 1) (.call 1)⟩,
  ⟨.panic, .union (.const 2) (.ite 0 (.call 2) (.const 0))⟩,
  ⟨.fixpoint false, .union (.const 4) (.ite 1 (.call 1) (.call 0))⟩]⟩

def envA : Nat → Nat := fun _ => 1          -- cycle 1 → 2 → 1 through the `panic` node
def envB : Nat → Nat := fun i => if i = 0 then 1 else 0   -- cycle 0 → 1 → 2 → 0 only

/-- re-entering node 1 panics … -/
example : (Db.empty.get ex1 envA 0).1 = .panic .cycle := by decide
/-- … the unwound recovering frames 2 and 0 are poisoned, node 1 is not … -/
example : (Db.empty.get ex1 envA 0).2 = ⟨[], [2, 0]⟩ := by decide
example : ((Db.empty.get ex1 envA 0).2.get ex1 envA 2).1 = .panic .propagated := by decide
example : ((Db.empty.get ex1 envA 0).2.get ex1 envA 1).1 = .panic .propagated := by decide
/-- … and after a write that removes the cycle through node 1 everything evaluates. -/
example : ((Db.empty.get ex1 envA 0).2.newRevision.get ex1 envB 0).1 = .value 7 1 := by decide
/-- (in that request the `panic` node 1 takes part in the cycle 0 → 1 → 2 → 0, whose re-entered
    node 0 recovers; entering the same cycle at node 1 re-enters node 1 and panics.) -/
example : (Db.empty.get ex1 envB 1).1 = .panic .cycle := by decide
/-- self call -/
example : ex1.Wf := by decide
/-- … also behind an open gate whose condition fetches nothing. -/
example : eval ⟨[⟨.panic, .gate (.input 0) (.call 0)⟩]⟩ envA [] [] 0 = .error ⟨.cycle, [0]⟩ :=
  c14_self_call_partial _ envA (fun _ => 0) 0 [] [] [] rfl rfl (by simp) rfl
example : eval ⟨[⟨.panic, .union (.call 0) (.const 1)⟩]⟩ envA [] [] 0 = .error ⟨.cycle, [0]⟩ :=
  c14_self_call_partial _ envA (fun _ => 0) 0 [] [] [] rfl rfl (by simp) rfl

end SalsaVerif.Props.C14
