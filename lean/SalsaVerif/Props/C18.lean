/-
  C18 — cross-thread cycles: the lock-ownership-transfer machinery (`ClaimGuard::transfer`,
  `DependencyGraph::transfer_lock`, `try_claim_transferred`, `block_transferred`,
  `unblock_…_transferred_queries_owned_by`).  Model: Model/SyncDG.lean; the theorems are the
  transfer-related results of Props/C19.lean restated as C18 obligations plus `c18_owner_resolves` and
  `c18_progress_partial`.  All by induction over ARBITRARY finite op sequences from `init`
  (any number of threads and keys); `run`/`runC` = atomic protocol steps, `grun`/`grunC` = graph
  operations at lock-hold granularity (covers every interleaving of non-atomic releases).

  CLIENT PRECONDITION.  `c18_forest` and `c18_owner_resolves` are about `runC`/`grunC`: runs in which
  every `transfer k → n` satisfies the decidable predicate `transferClientOk` (`n ≠ k`, and if `k` has
  no `transferred` entry — the `Entry::Vacant` arm, which has no re-pointing loop — then `n`'s lock
  is not already transitively owned by `k`).  The Rust code does NOT assert this; the engine provides
  it (a lock is only transferred to a cycle head still active further up some stack), and without it
  the forest invariant is false (example in Props/C19.lean).  The correspondence run (`svdriver dg`
  replaying `vh conc` hook traces) evaluates exactly this predicate on every logged `transfer_lock`
  and reports violations as `client-precondition-violated` (counted separately, expected 0).

  KNOWN FINDING (repaired).  Exploration found a real deadlock in salsa in exactly the gap left by the
  unproved full W3: a thread blocks on a re-claimed transferred key (`claimed_twice`), `release_self`
  handed the key back to its transfer target without touching that waiter, the stale edge hid the true
  dependency from `depends_on`, and two threads ended up waiting for each other through transferred
  keys (corpus/C18/kf-deadlock-stale-edge-after-reclaim.replay).  salsa commit 451fce7 wakes the
  waiters at hand-back; e06010e restricts that to the case where the releasing thread does NOT own the
  key's transfer target (waking a waiter whose edge is accurate takes it out of the wait-for graph for a
  moment, which let a cycle head iterate on its own: "Can't merge cycle heads … with different
  iterations").  The model follows the repaired code (`releaseSelf`): `c18_handback_wakes_waiters` proves
  that in the not-own-target case the step leaves no dependents behind,
  `c18_handback_own_target_keeps_edges_accurate` that in the own-target case nobody is woken and every
  waiter's edge points at the resolved owner of the handed-back key, and the trace driver's decidable W3
  (`checkW3`) flags the old behaviour on the recorded trace (corpus/DG/kf-stale-edge-prefix.ops).

  SECOND FINDING IN THE SAME GAP (repaired; patch corpus/C18/kf-noop-retransfer-stale-edge.patch).  The
  other way a re-claimed key goes back to its transfer target is `transfer` (the re-execution ends in the
  same cycle again).  `transfer_lock` returned early when the `transferred` entry was unchanged — also
  when the transferring thread is NOT the owner's thread, i.e. it had re-claimed the key.  A thread that
  blocked on the key meanwhile kept its edge to the re-claiming thread.  A later transfer of the owner
  then asked `depends_on` through that stale edge, woke the wrong thread, and re-pointing the right one
  at itself tripped "Circular reference between blocked edges" (release builds: it waits for itself
  forever).  The code path is original (pinned commit ca4df55) but was not observed there (0 of 44 000
  real-thread attempts, 0 of 120 000 shuttle schedules); 451fce7 made it frequent (woken waiters retry
  at once and block on the key while it is re-claimed again): 5 of 46 attempts on the seed-1115 program
  of corpus/C18/kf-noop-retransfer-repro.rs.  The model had the same early return (`transferLockCore`,
  `.noop`); `Props/C19.noopHandbackOps` is the history (inside the client precondition), the old model
  fails `checkW3` after its ninth step and refuses the last one.  The model follows the repaired code:
  `c18_retransfer_repoints` proves that the same-owner transfer by another thread re-points every
  remaining dependent at the owner's thread.  The generated 3-thread cases of `conc c18/c19` never reach
  the arm (0 of 137 760 unchanged-entry transfers in 40 000 cases had another thread); real salsa needed
  4 threads.

  NOT YET PROVED / NOT CLAIMED
    * liveness: livelock-freedom and termination under every schedule (bounded retries of
      `provisional_retry`-style loops) are explicitly NOT claimed; `c18_progress_partial` is only the
      graph-level fact that some thread is always unblocked.  That the unblocked thread at the end of
      a wait chain actually holds a claim / has an enabled engine step with transfers needs the full W3
      (see NOT YET PROVED in Props/C19.lean).
    * `c18_values` (every finalised memo = least fixpoint / fallback): belongs to the cycle model
      (C12/C13), not to this layer.
    * enabledness of `transfer`/`release` with transfers (no assert fires): see Props/C19.lean.
-/
import SalsaVerif.Props.C19
import SalsaVerif.Proofs.SyncDGKeys

namespace SalsaVerif.Props.C18
open SalsaVerif.Model.SyncDG SalsaVerif.Proofs.SyncDG

/-- `transferred` is a forest and `transferred_dependents` its exact inverse in every state reached by
    a run whose transfers satisfy the client precondition (see header). -/
theorem c18_forest (ops : List Op) (s : State) (h : runC init ops = some s) : Forest s :=
  C19.w4_forest ops s h

/-- The same at lock-hold granularity. -/
theorem c18_forest_graph (ops : List GOp) (s : State) (h : grunC init ops = some s) : Forest s :=
  C19.w4_forest_graph ops s h

/-- W2 survives transfers: no thread transitively waits for itself, for every op sequence including
    `transfer`, re-entrant claims of transferred keys and the edge re-pointing of
    `update_transferred_edges` (no client precondition needed). -/
theorem c18_no_wait_cycle (ops : List Op) (s : State) (h : run init ops = some s) :
    ∀ t, ¬ Path s.edges t t :=
  C19.w2_acyclic ops s h

theorem c18_no_wait_cycle_graph (ops : List GOp) (s : State) (h : grun init ops = some s) :
    ∀ t, ¬ Path s.edges t t :=
  C19.w2_acyclic_graph ops s h

/-- `transfer_lock` wakes at most one thread, with `Completed`, and it is the thread `nt` that becomes
    the owner or a thread that `nt` transitively waits for (holds in every state). -/
theorem c18_transfer_wakes_owner (s s' : State) (q c n nt : Nat) (o : SyncOwner) (kind : TransferKind)
    (h : transferLockCore s q c n o = some (s', kind, nt)) :
    (∀ x, status s x = .blocked → status s' x = .ready →
      s'.results x = some .completed ∧ (x = nt ∨ Path s.edges nt x)) ∧
    (∀ x y, status s x = .blocked → status s' x = .ready →
      status s y = .blocked → status s' y = .ready → x = y) :=
  C19.w6_transfer_wakes_owner s s' q c n nt o kind h

/-- Resolving the owner of a transferred key (`thread_id_of_transferred_query`, used by
    `block_transferred` and `transfer_lock`) always terminates in a reachable state: for a key without
    entry it answers `None` ("released"), for a transferred key it answers a thread and the chain of
    `transferred` entries it followed ends at a key that is not transferred. -/
theorem c18_owner_resolves (ops : List Op) (s : State) (h : runC init ops = some s) (k : Nat)
    (skip : Option Nat) :
    (s.transferred k = none → threadIdOfTransferredQuery s k skip = some none) ∧
    ((s.transferred k).isSome → ∃ t root, threadIdOfTransferredQuery s k skip = some (some t) ∧
      TPath s.transferred k root ∧ s.transferred root = none) := by
  have hr := runC_run ops init s h
  have hk : KInv s := run_kinv ops init s GInv_init KInv_init hr
  exact threadIdOfTransferredQuery_resolves (C19.w4_forest ops s h) hk k skip

/-- With transfers: a key with dependents always has a sync entry with `anyone_waiting` set; a key
    without sync entry, and a key left `Transferred` after its owner released it, has no dependents
    (no waiter can be forgotten on a key nobody owns any more). -/
theorem c18_no_dependents_without_owner (ops : List Op) (s : State) (h : runC init ops = some s) :
    (∀ k, s.qdeps k ≠ [] → ∃ st, s.sync k = some st ∧ st.anyoneWaiting = true) ∧
    (∀ k, s.sync k = none → s.qdeps k = []) ∧
    (∀ k st, s.sync k = some st → st.owner = .transferred → s.transferred k = none → s.qdeps k = []) :=
  C19.w6_no_dependents_without_owner ops s h

/-- The repaired `release_self` (salsa 451fce7, condition since e06010e): handing back a re-claimed
    transferred key whose transfer chain does NOT resolve to the releasing thread leaves it `Transferred`
    with NO dependents — all former waiters have `Completed` and no edge, in particular none keeps an edge
    to the releasing thread.  (Restated for e06010e: the hypothesis `hno` is new; without it the statement
    is false for the current code, see the own-target theorem below.) -/
theorem c18_handback_wakes_waiters (ops : List Op) (s : State) (h : runC init ops = some s)
    (t k : Nat) (st : SyncState) (hk : s.sync k = some st) (hct : st.claimedTwice = true)
    (hno : resolvedOwner s k ≠ some t) (s' : State)
    (hs : step s (.releaseSelf t k) = some s') :
    s'.qdeps k = [] ∧
    (∃ st', s'.sync k = some st' ∧ st'.owner = .transferred ∧ st'.anyoneWaiting = false) ∧
    (∀ u, u ∈ s.qdeps k → s'.results u = some .completed ∧ s'.edges u = none) ∧
    (∀ k' u, u ∈ s'.qdeps k' → s'.edges u = some t → k' ≠ k) :=
  C19.w3_handback_wakes_waiters ops s h t k st hk hct hno s' hs

/-- The repaired same-owner arm of `transfer_lock` (second finding, see header): in every reachable state,
    transferring key `q`, whose `transferred` entry already is `(nt, n)`, to `n` again from a thread
    `c ≠ nt` reports `changed`, keeps `transferred` / `transferred_dependents`, and every remaining
    dependent of `q` points at `nt` afterwards. -/
theorem c18_retransfer_repoints (ops : List Op) (s s' : State) (hr : run init ops = some s)
    (q c n nt nt' : Nat) (o : SyncOwner) (kind : TransferKind)
    (hres : newOwnerThread s q n o = some nt) (hentry : s.transferred q = some (nt, n)) (hcn : c ≠ nt)
    (h : transferLockCore s q c n o = some (s', kind, nt')) :
    nt' = nt ∧ kind = .changed ∧ s'.transferred = s.transferred ∧ s'.tdeps = s.tdeps ∧
    ∀ t, t ∈ s'.qdeps q → s'.edges t = some nt :=
  C19.w3_retransfer_repoints ops s s' hr q c n nt nt' o kind hres hentry hcn h

/-- Why e06010e's condition is right (holds in EVERY state): when the transfer chain of the re-claimed
    key `k` resolves to the releasing thread `t` (it owns the transfer target), `release_self` wakes
    nobody and changes only the sync entry of `k` (`Transferred`, `claimed_twice` cleared,
    `anyone_waiting` kept); `k` keeps its `transferred` entry and still resolves to `t`, so every waiter
    whose edge satisfied the `claimed_twice` clause of W3 (edge to the owner `t` or to the resolved owner)
    satisfies the `Transferred` clause afterwards (edge to the resolved owner): edge accuracy is preserved
    without any waiter leaving the wait-for graph. -/
theorem c18_handback_own_target_keeps_edges_accurate (s : State) (t k : Nat) (st : SyncState)
    (hk : s.sync k = some st) (hct : st.claimedTwice = true) (hown : resolvedOwner s k = some t)
    (s' : State) (hs : step s (.releaseSelf t k) = some s') :
    s'.edges = s.edges ∧ s'.qdeps = s.qdeps ∧ s'.results = s.results ∧
    s'.transferred = s.transferred ∧ s'.tdeps = s.tdeps ∧
    s'.sync k = some { st with claimedTwice := false, owner := .transferred } ∧
    (∀ k', k' ≠ k → s'.sync k' = s.sync k') ∧
    (s'.transferred k).isSome ∧ resolvedOwner s' k = some t ∧
    (∀ u, u ∈ s'.qdeps k → (s.edges u = some t ∨ s.edges u = resolvedOwner s k) →
      s'.edges u = resolvedOwner s' k) :=
  C19.w3_handback_own_target_accurate s t k st hk hct hown s' hs

/-- Progress, graph level only: in every reachable state (all ops, including transfers) every blocked
    thread transitively waits for a thread that is NOT blocked — so never are all threads blocked.
    `_partial`: nothing is said about that thread having an enabled step (see header). -/
theorem c18_progress_partial (ops : List Op) (s : State) (h : run init ops = some s) (t : Nat)
    (ht : (s.edges t).isSome) : ∃ u, Path s.edges t u ∧ s.edges u = none := by
  obtain ⟨hg, hb⟩ := reach_binv h
  exact blocked_reaches_unblocked hg hb t ht

/-! ### non-vacuity -/

example : (runC init C19.transferOps).isSome = true := by decide
-- after t2 blocked on the transferred key k1: forest holds, k1 resolves through k2 to thread t1
example : ((runC init (C19.transferOps.take 9)).map fun s =>
    (checkW4 s, threadIdOfTransferredQuery s 1 none, s.transferred 2, threadIdOfTransferredQuery s 2 none)) =
    some (true, some (some 1), none, some none) := by decide
-- t2 and t0 are blocked, both wait for t1 which is not blocked
example : ((run init (C19.transferOps.take 9)).map fun s => (s.edges 2, s.edges 0, s.edges 1)) =
    some (some 1, some 1, none) := by decide
-- the transfer itself wakes exactly t1
example : ((run init (C19.transferOps.take 4)).bind fun s =>
    (transferLockCore s 1 0 2 (.thread 1)).map fun r => (r.2.2, status s 1, status r.1 1, r.1.results 1)) =
    some (1, .blocked, .ready, some .completed) := by decide
-- a chain of three transfers at graph level: 3 → 1 → 2 → 4 resolves from 3 to the root 4
example : ((grunC init [.transferLock 2 0 4 (.thread 0), .transferLock 1 0 2 (.thread 0),
    .transferLock 3 0 1 (.thread 0)]).map fun s => (checkW4 s, threadIdOfTransferredQuery s 3 none,
    s.transferred 4)) = some (true, some (some 0), none) := by decide

-- hand-back, own target: t2 waits on the re-claimed k1 (edge t2 → t1); t1 owns the transfer target k2, so
-- `release_self` by t1 leaves t2 blocked on the resolved owner t1, W3 holds
example : ((runC init (C19.transferOps.take 7 ++ [.claim 2 1 true true, .releaseSelf 1 1])).map fun s =>
    (s.edges 2, s.results 2, s.qdeps 1, (s.sync 1).map (·.owner), checkW3 s [])) =
    some (some 1, none, [2], some .transferred, true) := by decide
example : ((runC init (C19.transferOps.take 7 ++ [.claim 2 1 true true])).map fun s =>
    ((s.sync 1).map (·.claimedTwice), resolvedOwner s 1)) = some (some true, some 1) := by decide
-- hand-back, other thread's target: t2 waits on k1 re-claimed by t0 (edge t2 → t0) while k1's chain resolves
-- to t1; `release_self` by t0 wakes t2, W3 holds
example : ((runC init (C19.handbackOps.take 7)).map fun s =>
    (s.edges 2, (s.sync 1).map (·.claimedTwice), resolvedOwner s 1)) = some (some 0, some true, some 1) := by
  decide
example : ((runC init C19.handbackOps).map fun s =>
    (s.edges 2, s.results 2, s.qdeps 1, (s.sync 1).map (·.owner), checkW3 s [])) =
    some (none, some .completed, [], some .transferred, true) := by decide

end SalsaVerif.Props.C18
