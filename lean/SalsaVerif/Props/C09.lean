/-
  C09 — interned values are reclaimed only when stale and reclaimable.

  Model: SalsaVerif/Model/Intern.lean (src/interned.rs): `RevisionQueue`, one shard of the
  interner, `intern_id`, `maybe_changed_after`.  Histories are lists of
  `Op = newRev | intern dur inQuery fields | mca id gen | addMemo id` run by `runSys` from
  `Sys.init revisions` (`revisions = none` is `usize::MAX`, i.e. garbage collection disabled);
  `Reachable rev s` says that `s` is the state after some such history.  `runSys` returns `none`
  if a step panics; Props/C08 (`c08_total`) shows that `intern` never does.

  Specification vocabulary (SalsaVerif/Proofs/InternQueue.lean, InternLog.lean):
    `recordAll q rs`   record the revisions `rs` one after the other;
    `ups m rs`         the revisions of `rs` that were strictly newer than everything before them
                       (and than `m`), chronological; for a non-decreasing `rs` — and revisions
                       only grow — these are exactly the distinct elements `> m`
                       (`c09_queue_distinct`);
    `recorded log`     the revisions of the `intern`/`mca` events of a log (the uses of the
                       ingredient);
    `callDurs i log`   the durabilities of the `intern` calls that returned id `i` since the last
                       (re)creation of `i`;
    `touchRevs i log`, `pinnedMax i log`   the revisions in which `i` was interned or validated
                       since its (re)creation / whether `i` was created outside a query and not
                       validated by a dependent since.

  NOT YET PROVED: nothing of the C09 list is missing.  (`c09_last_is_touch` needs the hypothesis
  `cur ≤ Revision::max()`, which holds for every real revision.)
-/
import SalsaVerif.Model.Intern
import SalsaVerif.Proofs.InternQueue
import SalsaVerif.Proofs.InternHist
import SalsaVerif.Proofs.InternLog

namespace SalsaVerif.Props.C09
open SalsaVerif.Model.Intern SalsaVerif.Proofs.InternQueue SalsaVerif.Proofs.Intern

/-- The queue holds the `n` most recent distinct recorded revisions `> R1`, newest first, padded
    with `R1`: for every sequence of `record` calls on a fresh queue of `n ≥ 1` slots. -/
theorem c09_queue_spec (n : Nat) (hn : n ≠ 0) (rs : List Nat) :
    recordAll (RevisionQueue.new (some n)) rs =
      some ⟨((ups R1 rs).reverse ++ List.replicate n R1).take n⟩ := by
  rw [new_eq_queueOf, recordAll_queueOf n hn rs []]
  simp [queueOf]

/-- `ups` really is "the distinct revisions `> R1`, oldest first": always strictly increasing and
    drawn from `rs`; for a non-decreasing `rs` it contains every element `> R1`. -/
theorem c09_queue_distinct (rs : List Nat) :
    (ups R1 rs).Pairwise (· < ·) ∧ (∀ r ∈ ups R1 rs, r ∈ rs ∧ R1 < r) ∧
    (rs.Pairwise (· ≤ ·) → ∀ r, r ∈ ups R1 rs ↔ r ∈ rs ∧ R1 < r) :=
  ⟨ups_pairwise R1 rs, fun r hr => ⟨ups_sub R1 rs r hr, ups_gt R1 rs r hr⟩,
    fun hs => ups_mem_of_sorted R1 rs hs⟩

example : recordAll (RevisionQueue.new (some 2)) [1, 2, 2, 3, 3, 5, 4] = some ⟨[5, 3]⟩ ∧
    ups R1 [1, 2, 2, 3, 3, 5, 4] = [2, 3, 5] := by decide

/-- The same for the queue inside the interner: after any history it holds the `n` most recent
    distinct revisions `> R1` in which the ingredient was used (interned into or validated),
    and those uses are non-decreasing in time. -/
theorem c09_queue_spec_interner (n : Nat) (hn : n ≠ 0) (ops : List Op) (s : Sys) (log : List Ev)
    (h : runSys (Sys.init (some n)) ops = some (s, log)) :
    s.it.queue.revisions = ((ups R1 (recorded log)).reverse ++ List.replicate n R1).take n ∧
    (recorded log).Pairwise (· ≤ ·) := by
  have hq := (run_queue (s := Sys.init (some n)) rfl h).2
  have : (Sys.init (some n)).it.queue = RevisionQueue.new (some n) := rfl
  rw [this, c09_queue_spec n hn] at hq
  injection hq with hq
  exact ⟨by rw [← hq], recorded_sorted h⟩

example :
    (runSys (Sys.init (some 2))
      [.intern 0 true 7, .newRev, .newRev, .intern 0 true 8, .newRev, .mca 0 0]).map
        (fun r => (r.1.it.queue.revisions, recorded r.2)) = some ([4, 3], [1, 3, 4]) := by decide

/-- The queue is primed iff at least `n` distinct revisions `> R1` were recorded; a revision is
    stale iff the queue is primed and the revision is older than the `n`-th most recent one.
    An IMMORTAL queue is never primed and nothing is stale. -/
theorem c09_primed (n : Nat) (hn : n ≠ 0) (rs : List Nat) (q : RevisionQueue)
    (h : recordAll (RevisionQueue.new (some n)) rs = some q) :
    (q.isPrimed = true ↔ n ≤ (ups R1 rs).length) ∧
    (∀ x, q.isStale x = true ↔
      ∃ hlt : n - 1 < (ups R1 rs).reverse.length, x < (ups R1 rs).reverse[n - 1]) ∧
    (RevisionQueue.new none).isPrimed = false ∧ (∀ x, (RevisionQueue.new none).isStale x = false) := by
  rw [new_eq_queueOf, recordAll_queueOf n hn rs []] at h
  injection h with h
  subst h
  have hu : ∀ r ∈ (ups (([] : List Nat).head?.getD R1) rs).reverse ++ [], r > R1 := by
    intro r hr
    simp only [List.append_nil, List.mem_reverse] at hr
    exact ups_gt _ rs r hr
  refine ⟨?_, ?_, rfl, fun _ => rfl⟩
  · rw [isPrimed_queueOf n _ hn hu]
    simp
  · intro x
    rw [isStale_queueOf n _ hn hu]
    simp

example : (recordAll (RevisionQueue.new (some 2)) [2]).map (·.isPrimed) = some false ∧
    (recordAll (RevisionQueue.new (some 2)) [2, 3]).map (·.isPrimed) = some true ∧
    (recordAll (RevisionQueue.new (some 2)) [2, 3]).map (·.isStale 1) = some true ∧
    (recordAll (RevisionQueue.new (some 2)) [2, 3]).map (·.isStale 2) = some false := by decide

/-- A reuse step of slot `v`: garbage collection is enabled, `v` has durability LOW, the queue
    (after recording the current revision) is primed, `v` was last interned/validated before
    the oldest queue entry and before the current revision, and its generation can still grow.
    The returned id is the old slot at the next generation. -/
theorem c09_reuse_sound (rev : Option Nat) (hrev : rev ≠ some 0) (s s' : Sys)
    (hr : Reachable rev s) (d : Nat) (inq : Bool) (x : Nat) (o : Outcome)
    (h : stepSys s (.intern d inq x) = some (s', .interned o)) (hk : o.kind = .reuse) :
    ∃ v, s.it.shard.slot? o.id = some v ∧
      s.it.revisions ≠ none ∧ v.durability = LOW ∧ s'.it.queue.isPrimed = true ∧
      (∃ oldest, s'.it.queue.revisions.getLast? = some oldest ∧ v.lastInternedAt < oldest) ∧
      v.lastInternedAt < s.cur ∧ v.generation < GEN_MAX ∧ o.generation = v.generation + 1 ∧
      v.fields ≠ x := by
  have inv := inv_of_reachable hrev hr
  obtain ⟨q', sh', o', ho, _, rfl, hs, hle⟩ := stepSys_intern inv h
  injection ho with ho
  subst ho
  rcases hs.cases with ⟨hk', _⟩ | ⟨hk', _⟩ | ⟨_, v, hv, hmem, hp, hst, hg, hgen, hnone, _⟩
  · rw [hk] at hk'; cases hk'
  · rw [hk] at hk'; cases hk'
  · obtain ⟨u, hu, hru⟩ := inv.shard.lru_reusable _ hmem
    rw [hv] at hu; injection hu with hu; subst hu
    have hr' := (isReusable_iff _ _).mp hru
    obtain ⟨hlt, oldest, hl, hlo, _⟩ := stale_lt hst hle
    refine ⟨v, hv, ?_, hr'.2, hp, ⟨oldest, hl, hlo⟩, hlt, hg, hgen, ?_⟩
    · intro hn; rw [hn] at hr'; cases hr'.1
    · intro hf
      exact lookup_none_not_mem hnone o.id ((inv.shard.key_iff x o.id).mpr ⟨v, hv, hf⟩)

/-- revisions = 2: the value interned in revision 1 is reused in revision 3. -/
example :
    (runSys (Sys.init (some 2))
      [.intern 0 true 100, .newRev, .intern 0 true 101, .newRev, .intern 0 true 102]).map
        (fun r => r.2.map (·.ret)) =
      some [.interned ⟨.new, 0, 0⟩, .unit, .interned ⟨.new, 1, 0⟩, .unit,
            .interned ⟨.reuse, 0, 1⟩] := by decide

/-- `revisions = usize::MAX`, or a durability above LOW: the slot is never reused — along every
    later history it keeps its value and generation, stays unreclaimable, and every `intern`
    returning its id is a hit. -/
theorem c09_immortal (rev : Option Nat) (hrev : rev ≠ some 0) (s s' : Sys) (hr : Reachable rev s)
    (i : Nat) (v : Slot) (hv : s.it.shard.slot? i = some v)
    (himm : s.it.revisions = none ∨ v.durability ≠ LOW)
    (ops : List Op) (log : List Ev) (h : runSys s ops = some (s', log)) :
    (∃ v', s'.it.shard.slot? i = some v' ∧ v'.fields = v.fields ∧
      v'.generation = v.generation ∧ (s'.it.revisions = none ∨ v'.durability ≠ LOW)) ∧
    (∀ e ∈ log, ∀ o, e.ret = .interned o → o.id = i → o.kind = .hit) := by
  have inv := inv_of_reachable hrev hr
  have hnr : isReusable s.it.revisions v.durability = false := by
    cases hb : isReusable s.it.revisions v.durability with
    | false => rfl
    | true =>
      have := (isReusable_iff _ _).mp hb
      rcases himm with h1 | h1
      · rw [h1] at this; cases this.1
      · exact absurd this.2 h1
  obtain ⟨⟨v', hv', hf, hg, hnr'⟩, hlog⟩ := pinned_run inv hv hnr h
  refine ⟨⟨v', hv', hf, hg, ?_⟩, hlog⟩
  cases hrv : s'.it.revisions with
  | none => exact Or.inl rfl
  | some n =>
    right
    intro hd
    have : isReusable s'.it.revisions v'.durability = true :=
      (isReusable_iff _ _).mpr ⟨by rw [hrv]; rfl, hd⟩
    rw [hnr'] at this; cases this

/-- revisions = 1, value 7 interned by a MEDIUM-durability query: not reused although stale. -/
example :
    (runSys (Sys.init (some 1))
      [.intern 1 true 7, .newRev, .intern 0 true 8, .newRev, .intern 0 true 9]).map
        (fun r => r.2.map (·.ret)) =
      some [.interned ⟨.new, 0, 0⟩, .unit, .interned ⟨.new, 1, 0⟩, .unit,
            .interned ⟨.reuse, 1, 1⟩] := by decide

/-- The durability of a live value is the maximum of the durabilities of the `intern` calls that
    returned it since its last (re)creation (`callDurs`; a creating call outside a query counts as
    NEVER_CHANGE, a finding call outside a query does not count); in particular a LOW — i.e.
    reclaimable — value was interned only by LOW-durability queries. -/
theorem c09_dur_is_max (rev : Option Nat) (hrev : rev ≠ some 0) (ops : List Op) (s : Sys)
    (log : List Ev) (h : runSys (Sys.init rev) ops = some (s, log)) (i : Nat) (v : Slot)
    (hv : s.it.shard.slot? i = some v) :
    v.durability = (callDurs i log).foldl max 0 ∧ callDurs i log ≠ [] ∧
    (∀ d ∈ callDurs i log, d ≤ v.durability) ∧
    (v.durability = LOW → ∀ d ∈ callDurs i log, d = LOW) := by
  have hinit : ∀ v, (Sys.init rev).it.shard.slot? i = some v →
      v.durability = maxL [] ∧ ([] : List Nat) ≠ [] := by
    intro v hv
    simp [Sys.init, Interner.new, Shard.empty, Shard.slot?] at hv
  obtain ⟨h1, h2⟩ := dur_run (inv_init rev hrev) hinit h v hv
  have hle : ∀ d ∈ callDurs i log, d ≤ v.durability := by
    intro d hd
    rw [h1]; exact le_maxL _ d hd
  refine ⟨h1, h2, hle, ?_⟩
  intro hlow d hd
  have := hle d hd
  simp only [LOW] at hlow ⊢
  omega

example :
    (runSys (Sys.init (some 3))
      [.intern 0 true 7, .intern 2 true 7, .intern 3 false 7, .intern 1 true 7]).map
        (fun r => ((r.1.it.shard.slot? 0).map (·.durability), callDurs 0 r.2)) =
      some (some 2, [0, 2, 1]) := by decide

/-- `last_interned_at` of a live value is the revision of its last touch — the last `intern`
    that returned it or the last dependency validation (`maybe_changed_after` = unchanged) of it
    since its (re)creation — except that a value (re)created outside any query carries
    `Revision::max()` until a dependent validates it. -/
theorem c09_last_is_touch (rev : Option Nat) (hrev : rev ≠ some 0) (ops : List Op) (s : Sys)
    (log : List Ev) (h : runSys (Sys.init rev) ops = some (s, log)) (hcur : s.cur ≤ REV_MAX)
    (i : Nat) (v : Slot) (hv : s.it.shard.slot? i = some v) :
    (pinnedMax i log = true → v.lastInternedAt = REV_MAX) ∧
    (pinnedMax i log = false →
      (touchRevs i log).getLast? = some v.lastInternedAt ∧ v.lastInternedAt ≤ s.cur) := by
  have hinit : ∀ v, (Sys.init rev).it.shard.slot? i = some v →
      LastOk (Sys.init rev).cur v [] false := by
    intro v hv
    simp [Sys.init, Interner.new, Shard.empty, Shard.slot?] at hv
  exact last_run (inv_init rev hrev) hcur hinit h v hv

example :
    (runSys (Sys.init (some 3))
      [.intern 0 true 7, .intern 0 false 8, .newRev, .intern 0 true 7, .newRev, .mca 0 0,
       .intern 0 true 8]).map
        (fun r => (r.1.it.shard.slots.map (·.lastInternedAt), touchRevs 0 r.2, pinnedMax 0 r.2,
                   touchRevs 1 r.2, pinnedMax 1 r.2)) =
      some ([3, REV_MAX], [1, 2, 3], false, [1, 3], true) := by decide

end SalsaVerif.Props.C09
