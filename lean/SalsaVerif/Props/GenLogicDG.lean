/-
  GenLogicDG (part of GenLogic) — the wait-for graph model `Model/SyncDG.lean` decides as the
  current src/runtime/dependency_graph.rs and src/runtime.rs do.

  `Gen/LogicDG.lean` is regenerated from /repo on every run: `Edges::depends_on` as a
  fuel-recursive function whose loop skeleton is pinned verbatim (the source loop must be
  unbounded: any counter, bound, `for`, `take`, `break` or extra condition makes the translator
  fail), the cycle-vs-block decisions of `Runtime::block`, `BlockOnTransferredOwner::block`,
  `block_transferred`, the assertions of `add_edge`, the skip test of
  `thread_id_of_transferred_query`, every decision of `transfer_lock` (`(thread_changed,
  new_mapping)` of the vacant, same-mapping and general occupied arms, the no-op return, the re-pointing loop, what runs under
  `thread_changed`, when the caller blocks), and the statement order of `block_on` /
  `unblock_runtime`.

  PROVED: every theorem in this file.  `genlogic_dg_depends_on` is an equality for EVERY fuel (the
  model's `dependsOnLoop` is fuel-recursive too), so it needs no acyclicity hypothesis; whatever
  the proofs about the model show for acyclic wait-for graphs transfers verbatim.
-/
import SalsaVerif.Proofs.GenLogicDG

namespace SalsaVerif.Props.GenLogic
open SalsaVerif.Gen.LogicDG SalsaVerif.Proofs.GenLogic.DG
open SalsaVerif.Model.SyncDG

/-! ## 6. the wait-for graph (src/runtime/dependency_graph.rs, src/runtime.rs) -/

/-- the generated walk is the model's walk, for every edge map, fuel and start -/
theorem genlogic_dg_depends_on_loop (edges : Nat → Option Nat) (to fuel p : Nat) :
    dependsOnLoop edges to fuel p = depends_on_loop edges to fuel p := by
  induction fuel generalizing p with
  | zero => rfl
  | succ n ih =>
    simp only [dependsOnLoop, depends_on_loop]
    cases h : edges p with
    | none => rfl
    | some q => by_cases hq : q = to <;> simp [hq, ih]

/-- `dependsOn` of the model is the generated `Edges::depends_on` with the model's fuel -/
theorem genlogic_dg_depends_on (s : State) (fromId toId : Nat) :
    dependsOn s fromId toId = depends_on s.edges (s.bound + 1) fromId toId := by
  simp [dependsOn, depends_on, genlogic_dg_depends_on_loop]

/-- the walk is unbounded: an answer found within some fuel is the answer for every larger fuel
    (no hop limit can turn a cycle that is found after many hops into "no cycle") -/
theorem genlogic_dg_depends_on_fuel_mono (edges : Nat → Option Nat) (to : Nat) (n m p : Nat) (b : Bool)
    (h : depends_on_loop edges to n p = some b) (hm : n ≤ m) :
    depends_on_loop edges to m p = some b := by
  induction n generalizing m p with
  | zero => simp [depends_on_loop] at h
  | succ n ih =>
    cases m with
    | zero => omega
    | succ m =>
      simp only [depends_on_loop] at h ⊢
      cases he : edges p with
      | none => simpa [he] using h
      | some q =>
        simp only [he] at h ⊢
        by_cases hq : q = to
        · simpa [hq] using h
        · simp only [hq, decide_false, Bool.false_eq_true, ↓reduceIte] at h ⊢
          exact ih m q h (by omega)

/-- a ring of any length is detected: on the chain `0 → 1 → … → k` the generated walk started at
    `0` reaches `k` (given enough fuel) — here a chain of 12 threads, longer than any hop limit a
    "defensive" bound would plausibly use -/
example : depends_on (fun p => if p < 12 then some (p + 1) else none) 13 0 12 = some true := by decide

theorem genlogic_dg_block (s : State) (me other : Nat) : block s me other = blockG s me other := by
  unfold block blockG evalDep
  by_cases h : me = other
  · simp [block_same_thread, h]
  · cases hd : dependsOn s other me with
    | none => simp [block_same_thread, block_cycle, h]
    | some b => cases b <;> simp [block_same_thread, block_cycle, h]

/-- `BlockOnTransferredOwner::block` decides exactly as `Runtime::block` (the model has one
    function for both) -/
theorem genlogic_dg_owner_block (s : State) (me other : Nat) : block s me other = ownerBlockG s me other := by
  unfold block ownerBlockG evalDep
  by_cases h : me = other
  · simp [owner_block_same_thread, h]
  · cases hd : dependsOn s other me with
    | none => simp [owner_block_same_thread, owner_block_cycle, h]
    | some b => cases b <;> simp [owner_block_same_thread, owner_block_cycle, h]

theorem genlogic_dg_block_transferred (s : State) (query cur : Nat) :
    blockTransferred s query cur = blockTransferredG s query cur := by
  unfold blockTransferred blockTransferredG evalDep
  cases ht : threadIdOfTransferredQuery s query none with
  | none => rfl
  | some o =>
    cases o with
    | none => rfl
    | some owner =>
      by_cases h : owner = cur
      · simp [block_transferred_is_owner, h]
      · cases hd : dependsOn s owner cur with
        | none => simp [block_transferred_is_owner, h, hd]
        | some b => cases b <;> simp [block_transferred_is_owner, h, hd]

theorem genlogic_dg_add_edge (s : State) (fromId key toId : Nat) :
    addEdge s fromId key toId = addEdgeG s fromId key toId := by
  unfold addEdge addEdgeG
  by_cases h : fromId = toId
  · simp [h]
  · cases he : s.edges fromId with
    | some e => simp [h, add_edge_requires_unblocked]
    | none =>
      cases hd : dependsOn s toId fromId with
      | none => simp [h, add_edge_requires_unblocked]
      | some b => cases b <;> simp [h, add_edge_requires_unblocked, add_edge_requires_acyclic]

theorem genlogic_dg_resolve (tr : Nat → Option (Nat × Nat)) (skip : Option Nat) (fuel cur resolved : Nat) :
    resolveLoop tr skip fuel cur resolved = resolveLoopG tr skip fuel cur resolved := by
  induction fuel generalizing cur resolved with
  | zero => rfl
  | succ n ih =>
    simp only [resolveLoop, resolveLoopG]
    cases h : tr cur with
    | none => rfl
    | some x => obtain ⟨nt, nk⟩ := x; simp [ih, resolve_skips]

theorem genlogic_dg_transfer_pre (s : State) (nt cur : Nat) :
    transferPre s nt cur = evalDep (transfer_pre nt cur) (dependsOn s nt cur) := by
  unfold transferPre evalDep
  by_cases h : nt = cur
  · simp [transfer_pre, h]
  · cases hd : dependsOn s nt cur with
    | none => simp [transfer_pre, h]
    | some b => cases b <;> simp [transfer_pre, h]

theorem genlogic_dg_repoint (s : State) (query oldThread oldOwner newOwner fuel seg : Nat) :
    repointLoop s query oldThread oldOwner newOwner fuel seg =
      repointLoopG s query oldThread oldOwner newOwner fuel seg := by
  induction fuel generalizing seg with
  | zero => rfl
  | succ n ih =>
    simp only [repointLoop, repointLoopG]
    cases h : s.transferred seg with
    | none => rfl
    | some x =>
      obtain ⟨t, nextTarget⟩ := x
      by_cases h1 : nextTarget = query
      · by_cases h2 : oldOwner = newOwner <;>
          simp [repoint_hits, repoint_removes, h1, h2] <;> (try rfl)
      · simp [repoint_hits, h1, ih]

/-- the `match dg.transferred.entry(query)` block as the model sees it (`some none` = the entry
    already holds `(new_owner_thread, new_owner)`; the model's `transferLockCore` then looks at
    the thread): the model's `transferEntry` is the generated block with the same-mapping arm
    collapsed and `new_mapping` dropped -/
theorem genlogic_dg_transfer_entry (s : State) (query cur newOwner nt : Nat) :
    transferEntry s query cur newOwner nt =
      if sameMappingG s query newOwner nt then some none
      else (transferEntryG s query cur newOwner nt).map (Option.map fun r => (r.1, r.2.1)) := by
  unfold transferEntry transferEntryG sameMappingG
  cases h : s.transferred query with
  | none => simp [transfer_vacant]
  | some x =>
    obtain ⟨oldThread, oldOwner⟩ := x
    by_cases hs : oldThread = nt ∧ oldOwner = newOwner
    · simp [transfer_same_mapping, hs.1, hs.2]
    · have hs' : transfer_same_mapping oldThread oldOwner nt newOwner = false := by
        simpa [transfer_same_mapping] using hs
      simp only [hs, hs', Bool.false_eq_true, ↓reduceIte, genlogic_dg_repoint, transfer_occupied]
      cases tdepsRemove s oldOwner query with
      | none => rfl
      | some s1 =>
        simp only [Option.map]
        split <;> simp_all

/-- `(thread_changed, new_mapping)` of the three arms: vacant `(current ≠ new owner's thread,
    true)`; same mapping: early return exactly when the owner runs on the current thread, else
    `(true, false)` — the waiters of a re-claimed query are handed over, the dependent is not
    registered again; general occupied arm `(true, true)`; the dependent is registered iff
    `new_mapping` -/
theorem genlogic_dg_thread_changed (cur nt : Nat) (b : Bool) :
    transfer_vacant cur nt = (decide (cur ≠ nt), true) ∧
    transfer_noop cur nt = decide (cur = nt) ∧
    transfer_retransfer_same_owner cur nt = (true, false) ∧
    transfer_occupied cur nt = (true, true) ∧
    transfer_registers_dependent b = b ∧ transfer_runs_after b = b := by
  simp [transfer_vacant, transfer_noop, transfer_retransfer_same_owner, transfer_occupied,
    transfer_registers_dependent, transfer_runs_after]

theorem genlogic_dg_transfer_core (s : State) (query cur newOwner : Nat) (ownerId : SyncOwner) :
    transferLockCore s query cur newOwner ownerId = transferLockCoreG s query cur newOwner ownerId := by
  unfold transferLockCore transferLockCoreG
  cases hn : newOwnerThread s query newOwner ownerId with
  | none => rfl
  | some nt =>
    simp only [genlogic_dg_transfer_pre]
    cases hp : evalDep (transfer_pre nt cur) (dependsOn s nt cur) with
    | none => rfl
    | some b =>
      cases b with
      | false => rfl
      | true =>
        simp only [genlogic_dg_transfer_entry]
        unfold sameMappingG transferEntryG
        cases h : s.transferred query with
        | none =>
          simp [transfer_vacant, transfer_registers_dependent, transfer_runs_after]
          cases registerDependent _ query newOwner <;> rfl
        | some x =>
          obtain ⟨oldThread, oldOwner⟩ := x
          by_cases hs : transfer_same_mapping oldThread oldOwner nt newOwner = true
          · by_cases hc : cur = nt <;>
              simp [hs, hc, transfer_noop, transfer_retransfer_same_owner,
                transfer_registers_dependent, transfer_runs_after] <;> rfl
          · simp only [hs, Bool.false_eq_true, ↓reduceIte]
            cases tdepsRemove s oldOwner query with
            | none => rfl
            | some s1 =>
              simp only [Option.map]
              cases repointLoopG _ query oldThread oldOwner newOwner (s.bound + 1) newOwner with
              | none => rfl
              | some s3 =>
                simp [transfer_occupied, transfer_registers_dependent, transfer_runs_after]
                cases registerDependent s3 query newOwner <;> rfl

/-- `transfer_lock`: `unblock_transfer_target` and `update_transferred_edges` run exactly when
    `thread_changed`; afterwards the caller blocks on the new owner iff it is another thread that
    does not (transitively) wait for the caller -/
theorem genlogic_dg_transfer_lock (s : State) (query cur newOwner : Nat) (ownerId : SyncOwner) :
    transferLock s query cur newOwner ownerId = transferLockG s query cur newOwner ownerId := by
  unfold transferLock transferLockG evalDep
  rw [genlogic_dg_transfer_core]
  cases hc : transferLockCoreG s query cur newOwner ownerId with
  | none => rfl
  | some r =>
    obtain ⟨s1, kind, nt⟩ := r
    cases kind with
    | noop => rfl
    | same => rfl
    | changed =>
      by_cases h : cur = nt
      · simp [transfer_blocks, h]
      · cases hd : dependsOn s1 nt cur with
        | none => simp [transfer_blocks, h, hd]
        | some b => cases b <;> simp [transfer_blocks, h, hd] <;> rfl

/-- `unblock_runtime` stores the wait result BEFORE it notifies the waiter (a woken thread finds
    its result), and removes the edge first -/
theorem genlogic_dg_unblock_order :
    unblock_runtime_steps = [.removeEdge, .storeResult, .notify] := by decide

/-- `block_on` adds the edge BEFORE it releases the query mutex, then waits -/
theorem genlogic_dg_block_on_order :
    block_on_steps = [.addEdge, .releaseQueryMutex, .waitLoop] := by decide

end SalsaVerif.Props.GenLogic
