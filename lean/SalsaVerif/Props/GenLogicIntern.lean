/-
  GenLogicIntern (part of GenLogic) — the decisions of `Model/Intern.lean` are the decisions of
  the current src/interned.rs.

  `Gen/LogicIntern.lean` is regenerated from /repo on every run: `is_reusable`,
  `RevisionQueue::is_stale / is_primed / record`, the conditions and stamps of the hit / cold /
  reuse paths of `intern_id`, WHICH hash each key-map operation uses, the stale-scan stop
  condition, and `maybe_changed_after`.  Each theorem states that a model function equals its
  re-assembly from generated decisions (`Proofs/GenLogicIntern.lean`).

  PROVED: every theorem in this file.
-/
import SalsaVerif.Proofs.GenLogicIntern

namespace SalsaVerif.Props.GenLogic
open SalsaVerif.Gen.LogicIntern SalsaVerif.Proofs.GenLogic.Intern
open SalsaVerif.Model.Intern

/-! ## 3. interned values (src/interned.rs) -/

/-- a slot may be reclaimed only if garbage collection is on and its durability is LOW -/
theorem genlogic_intern_isReusable (revisions : Option Nat) (d : Nat) :
    isReusable revisions d = is_reusable (immortal revisions) d := by
  cases revisions <;> by_cases h : d = 0 <;> simp [isReusable, is_reusable, immortal, LOW, Durability.LOW, h]

theorem genlogic_intern_isStale (q : RevisionQueue) (r : Nat) :
    q.isStale r = RevisionQueue.is_stale q.revisions.getLast? r := by
  unfold RevisionQueue.isStale RevisionQueue.is_stale
  cases q.revisions.getLast? with
  | none => rfl
  | some o => by_cases h : o = 1 <;> simp [R1, Revision.start, Revision.START, h]

theorem genlogic_intern_isPrimed (q : RevisionQueue) :
    q.isPrimed = RevisionQueue.is_primed q.revisions.getLast? := by
  unfold RevisionQueue.isPrimed RevisionQueue.is_primed
  cases q.revisions.getLast? <;> simp [R1, Revision.start, Revision.START]

/-- closed form: stale = strictly older than the oldest recorded revision, once the queue is full -/
theorem genlogic_intern_stale_iff (oldest : Option Nat) (r : Nat) :
    RevisionQueue.is_stale oldest r = true ↔ ∃ o, oldest = some o ∧ o ≠ 1 ∧ r < o := by
  cases oldest with
  | none => simp [RevisionQueue.is_stale]
  | some o => by_cases h : o = 1 <;> simp [RevisionQueue.is_stale, Revision.start, Revision.START, h]

theorem genlogic_intern_record (revisions : Option Nat) (q : RevisionQueue) (cur : Nat) :
    recordIfMortal revisions q cur = recordG (intern_records (immortal revisions)) q cur := by
  cases revisions <;>
    simp [recordIfMortal, recordG, intern_records, immortal, RevisionQueue.record,
      RevisionQueue.already_recorded] <;>
    rfl

theorem genlogic_intern_stamps (callerDur cur : Nat) (inQuery : Bool) :
    (newDurability callerDur inQuery, newLastInternedAt cur inQuery) =
        stampG inQuery (reuse_stamp_in_query callerDur cur) reuse_stamp_no_query ∧
    (newDurability callerDur inQuery, newLastInternedAt cur inQuery) =
        stampG inQuery (cold_stamp_in_query callerDur cur) cold_stamp_no_query := by
  cases inQuery <;>
    simp [newDurability, newLastInternedAt, stampG, reuse_stamp_in_query, reuse_stamp_no_query,
      cold_stamp_in_query, cold_stamp_no_query, NEVER_CHANGE, REV_MAX, Durability.MAX,
      Durability.NEVER_CHANGE, Revision.max]

theorem genlogic_intern_hit (revisions : Option Nat) (cur callerDur : Nat) (inQuery : Bool)
    (sh : Shard) (v : Slot) :
    internHit revisions cur callerDur inQuery sh v = internHitG revisions cur callerDur inQuery sh v := by
  simp only [internHit, internHitG, genlogic_intern_isReusable, hit_refreshes, hit_moves_to_front,
    hit_was_reusable, hit_new_durability, hit_unlinks, Bool.and_assoc]
  rfl

theorem genlogic_intern_cold (revisions : Option Nat) (cur callerDur : Nat) (inQuery : Bool)
    (key fresh : Nat) (sh : Shard) :
    internCold revisions cur callerDur inQuery key fresh sh =
      internColdG revisions cur callerDur inQuery key fresh sh := by
  have h := (genlogic_intern_stamps callerDur cur inQuery).2
  simp only [internCold, internColdG, genlogic_intern_isReusable, insert_links, cold_insert_hash, ← h]

/-- the reused slot leaves the key map under the hash of its OLD fields and re-enters it under
    the hash of the NEW key -/
theorem genlogic_intern_reuse (revisions : Option Nat) (cur callerDur : Nat) (inQuery : Bool)
    (key : Nat) (sh : Shard) (v : Slot) :
    internReuse revisions cur callerDur inQuery key sh v =
      internReuseG revisions cur callerDur inQuery key sh v := by
  have h := (genlogic_intern_stamps callerDur cur inQuery).1
  simp only [internReuse, internReuseG, genlogic_intern_isReusable, reuse_relinks, reuse_remove_hash,
    reuse_insert_hash, old_hash, lookup_hash, hashIn, ← h]

theorem genlogic_intern_hashes (h : HashIn) :
    find_hash h = h.ofKey ∧ reuse_insert_hash h = h.ofKey ∧ reuse_remove_hash h = h.ofOldFields := by
  simp [find_hash, reuse_insert_hash, reuse_remove_hash, lookup_hash, old_hash]

/-- the stale scan stops at the first LRU entry that is not stale -/
theorem genlogic_intern_scan (q : RevisionQueue) (sh : Shard) (id : Nat) (rest : List Nat) :
    scanLru q sh (id :: rest) =
      match sh.slot? id with
      | none => none
      | some v =>
        if scan_stops q.revisions.getLast? v.lastInternedAt then some (id :: rest, none)
        else if v.generation < GEN_MAX then some (id :: rest, some v)
        else scanLru q sh rest := by
  simp only [scanLru, scan_stops, genlogic_intern_isStale]
  rfl

theorem genlogic_intern_shard (revisions : Option Nat) (q : RevisionQueue) (cur callerDur : Nat)
    (inQuery : Bool) (key fresh : Nat) (sh : Shard) :
    internShard revisions q cur callerDur inQuery key fresh sh =
      internShardG revisions q cur callerDur inQuery key fresh sh := by
  simp only [internShard, internShardG, genlogic_intern_hit, genlogic_intern_cold,
    genlogic_intern_reuse, genlogic_intern_isPrimed, skips_reuse, find_hash, lookup_hash]
  rfl

theorem genlogic_intern_mca (s : Interner) (id edgeGeneration cur : Nat) :
    s.maybeChangedAfter id edgeGeneration cur = maybeChangedAfterG s id edgeGeneration cur := by
  simp only [Interner.maybeChangedAfter, maybeChangedAfterG, genlogic_intern_record, intern_records,
    mca_records, mca_current_revision, mca_changed, mca_validated_at, decide_eq_true_eq]
  rfl

/-- non-vacuity: with the queue `[9, 7, 5]` revision 4 is stale and 5 is not; a LOW slot of a
    mortal interner is reusable, a MEDIUM one or any slot of an immortal interner is not -/
example : RevisionQueue.is_stale (some 5) 4 = true ∧ RevisionQueue.is_stale (some 5) 5 = false ∧
    RevisionQueue.is_stale (some 1) 0 = false ∧
    is_reusable false 0 = true ∧ is_reusable false 1 = false ∧ is_reusable true 0 = false := by decide

end SalsaVerif.Props.GenLogic
