/-
  C03 — re-execution only when justified.

  Model: SalsaVerif/Model/Core.lean (stage S2) with the event trace: `exec q` = `WillExecute`
  (emitted at the start of `execute`), `valid q` = `DidValidateMemoizedValue` (emitted by
  `mark_as_verified`).  Proofs: SalsaVerif/Proofs/CoreTrace.lean.

  Statements are about one `fetch P s k` from a state `s` satisfying the engine invariant `Inv P s`
  (every reachable state does: `_reachable` variants quantify over histories instead).

  FULL STATEMENT (DESIGN.md §C03): `Justified` is the property's list — no memo ∨ value evicted ∨
  previous execution untracked ∨ ∃ recorded edge: input field written since `verified_at` ∨ tracked
  field recreated ∨ callee re-executed with (value differs ∨ no_eq ∨ less durable) ∨ interned slot
  reclaimed ∨ assigned memo stale.  For the S2 fragment (plain functions over inputs) only "no memo"
  and "recorded edge changed" exist, and that is what is proved here.

  PROVED ELSEWHERE: the disjuncts for eviction / untracked / no_eq (stage S3 engine `Core3`, all
  well-formed programs, invariant `InvE`) and `c03_strict_false` (the LRU boundary witness):
  Props/C03Core3.lean (`c03_core3_exec_justified`, …).

  NOT YET PROVED: tracked structs, interning, specify (stage S4).
-/
import SalsaVerif.Model.Core
import SalsaVerif.Proofs.CoreTrace

namespace SalsaVerif.Props.C03
open SalsaVerif.Model.Core SalsaVerif.Proofs.Core

/-- The recorded edge `d` answers "changed since `rev`" (`maybe_changed_after(rev)`), read off the
    state `s'` after the fetch: an input field written after `rev`; or a query whose memo, after
    its own refresh in the current revision, has `changed_at > rev`. -/
def EdgeChanged (s' : State) (rev : Nat) : Dep → Prop
  | .inp i => rev < (s'.inp i).ca
  | .qry q' => ∃ m', s'.memos q' = some m' ∧ m'.va = s'.cur ∧ rev < m'.ca

/-- `exec q` during a fetch that leads from `s` to `s'` is justified: there was no memo for `q`, or
    its memo was stale (`verified_at < cur`), failed the shallow test
    (`verified_at < last_changed(durability)`) and has a recorded edge that answered "changed" at
    the memo's `verified_at`. -/
def Justified (s s' : State) (q : Nat) : Prop :=
  s.memos q = none ∨
  ∃ m, s.memos q = some m ∧ m.va < s.cur ∧ m.va < lc s m.dur ∧
    ∃ o, o ∈ m.obs ∧ o.recd = true ∧ EdgeChanged s' m.va o.dep

theorem edgeChanged_iff (s' rev d) : EdgeChanged s' rev d ↔ edgeChanged s' rev d := by
  cases d <;> exact Iff.rfl

/-- **Every execution is justified.** -/
theorem c03_exec_justified {P : Nat → Body} (hP : Wf P) (s : State) (hI : Inv P s) (k : Nat) :
    ∃ new, (fetch P s k).1.trace = s.trace ++ new ∧
      ∀ q, .exec q ∈ new → Justified s (fetch P s k).1 q := by
  obtain ⟨new, e, ok⟩ := fetch_tr hP s k hI
  refine ⟨new, e, ?_⟩
  intro q hq
  rcases ok.just q hq with hn | ⟨m, hm, hv, hl, o, ho, hr, hc⟩
  · exact Or.inl hn
  · have mok := hI.memo q m hm
    exact Or.inr ⟨m, hm, Nat.lt_of_le_of_ne mok.va_cur hv, Nat.lt_of_not_le hl, o, ho, hr,
      (edgeChanged_iff _ _ _).mpr hc⟩

/-- the same over histories: any fetch after any history -/
theorem c03_exec_justified_reachable {P : Nat → Body} (hP : Wf P) (inp : Nat → Inp) (ops : List Op)
    (k : Nat) :
    ∃ new, (fetch P (run P inp ops) k).1.trace = (run P inp ops).trace ++ new ∧
      ∀ q, .exec q ∈ new → Justified (run P inp ops) (fetch P (run P inp ops) k).1 q :=
  c03_exec_justified hP _ (run_inv hP inp ops) k

/-- Conversely nothing changes silently: a memo whose value, `changed_at`, durability or recorded
    reads differ after the fetch was executed; a memo that is new was executed; a stale memo that
    is verified afterwards was validated or executed. -/
theorem c03_change_means_exec {P : Nat → Body} (hP : Wf P) (s : State) (hI : Inv P s) (k : Nat) :
    ∃ new, (fetch P s k).1.trace = s.trace ++ new ∧
      (∀ q m m', s.memos q = some m → (fetch P s k).1.memos q = some m' → .exec q ∉ new →
        m'.value = m.value ∧ m'.ca = m.ca ∧ m'.dur = m.dur ∧ m'.obs = m.obs) ∧
      (∀ q m', s.memos q = none → (fetch P s k).1.memos q = some m' → .exec q ∈ new) ∧
      (∀ q m m', s.memos q = some m → m.va ≠ s.cur → (fetch P s k).1.memos q = some m' →
        m'.va = s.cur → .valid q ∈ new ∨ .exec q ∈ new) := by
  obtain ⟨new, e, ok⟩ := fetch_tr hP s k hI
  exact ⟨new, e, ok.nochg, ok.fresh, ok.ver⟩

/-! ### Backdating shields readers -/

/-- **Backdating.**  Whatever a fetch does to the memo of `q` (nothing, validation, re-execution):
    if afterwards the value is equal and the durability is not lower, `changed_at` is unchanged. -/
theorem c03_backdate_keeps_stamp {P : Nat → Body} (hP : Wf P) (s : State) (hI : Inv P s) (k q : Nat)
    (m m' : Memo) (hm : s.memos q = some m) (hm' : (fetch P s k).1.memos q = some m')
    (hv : m'.value = m.value) (hd : m.dur ≤ m'.dur) : m'.ca = m.ca :=
  (fetch_ext hP s k hI).bd q m m' hm hm' hv hd

/-- A recorded edge of a reader with `verified_at = rva` is shielded: an input not written since
    `rva`; or a query whose memo the reader has seen (`changed_at ≤ rva`) and whose memo after the
    fetch — re-executed or not — has an equal value and a durability that is not lower. -/
def Shielded (s s' : State) (rva : Nat) : Dep → Prop
  | .inp i => (s.inp i).ca ≤ rva
  | .qry q' => ∃ mq, s.memos q' = some mq ∧ mq.ca ≤ rva ∧
      ∀ mq', s'.memos q' = some mq' → mq'.value = mq.value ∧ mq.dur ≤ mq'.dur

/-- **Backdating shields a reader.**  If every recorded edge of `r`'s memo is shielded, the fetch
    does not execute `r`; and when `r` itself is requested and stale it gets `valid r`. -/
theorem c03_backdate_shields {P : Nat → Body} (hP : Wf P) (s : State) (hI : Inv P s) (k r : Nat)
    (mr : Memo) (hmr : s.memos r = some mr)
    (hsh : ∀ o, o ∈ mr.obs → o.recd = true → Shielded s (fetch P s k).1 mr.va o.dep) :
    ∃ new, (fetch P s k).1.trace = s.trace ++ new ∧ .exec r ∉ new ∧
      (k = r → mr.va ≠ s.cur → .valid r ∈ new) := by
  obtain ⟨new, e, ok⟩ := fetch_tr hP s k hI
  have hext := fetch_ext hP s k hI
  have hno : .exec r ∉ new := by
    intro hx
    rcases ok.just r hx with hn | ⟨m, hm, _, _, o, ho, hr, hc⟩
    · rw [hmr] at hn; cases hn
    · rw [hmr] at hm; cases hm
      have sh := hsh o ho hr
      cases hd : o.dep with
      | inp i =>
        rw [hd] at sh hc
        have h1 : mr.va < ((fetch P s k).1.inp i).ca := hc
        rw [hext.inp] at h1
        exact absurd sh (Nat.not_le.mpr h1)
      | qry q' =>
        rw [hd] at sh hc
        obtain ⟨m', hm', _, hlt⟩ := hc
        obtain ⟨mq, hmq, hle, hsame⟩ := sh
        obtain ⟨hv, hdur⟩ := hsame m' hm'
        have := hext.bd q' mq m' hmq hm' hv hdur
        omega
  refine ⟨new, e, hno, ?_⟩
  intro hk hst
  subst hk
  obtain ⟨_, _, _, m, h4, h5, _⟩ := (eng_ok hP (k + 1)).1.ok s k (Nat.lt_succ_self k) hI
  rcases ok.ver k mr m hmr hst h4 h5 with h | h
  · exact h
  · exact absurd h hno

/-! ### Writes outside the footprint -/

/- `Reach s q p` (Proofs/CoreTrace.lean): `p` is reachable from `q` through the reads of the stored
   memos — all reads of the last executions, including unrecorded NEVER_CHANGE reads.
   `InFootprint s q i`: input `i` is read by the memo of `q` or, transitively, by the memo of one of
   its dependencies. -/

/-- **Unread writes never cause an execution.**  Let `q` have a memo that passes the shallow test
    in `s` (e.g. it was requested in the current revision).  Let `s1` be any state with the same
    memos satisfying the invariant, whose inputs agree with those of `s` on the footprint of `q`
    — e.g. `s1 = write s i v nd` for an input `i` outside the footprint, or `s1 = synth s d`.
    Then no fetch from `s1` executes `q`, nor anything reachable from `q`: low-durability readers
    are validated by deep verification, higher ones by the durability shortcut. -/
theorem c03_unread_write {P : Nat → Body} (hP : Wf P) (s : State) (hI : Inv P s) (q : Nat) (mq : Memo)
    (hmq : s.memos q = some mq) (hfresh : mq.va = s.cur ∨ lc s mq.dur ≤ mq.va)
    (s1 : State) (hI1 : Inv P s1) (hmem : s1.memos = s.memos)
    (hinp : ∀ j, InFootprint s q j → s1.inp j = s.inp j) (k : Nat) :
    ∃ new, (fetch P s1 k).1.trace = s1.trace ++ new ∧ ∀ p, Reach s q p → .exec p ∉ new := by
  obtain ⟨new, e, ok⟩ := fetch_tr hP s1 k hI1
  have hext := fetch_ext hP s1 k hI1
  refine ⟨new, e, ?_⟩
  -- everything reachable has a memo that passes the shallow test in `s`
  have hsok : ∀ p, Reach s q p → ∃ m, s.memos p = some m ∧ SOK s m := by
    intro p hr
    induction hr with
    | refl => exact ⟨mq, hmq, hfresh⟩
    | step _ hm ho hd ih =>
      obtain ⟨m0, hm0, hs0⟩ := ih
      rw [hm] at hm0; cases hm0
      have := ((hI.memo _ _ hm).i3 hs0 _ ho).2
      rw [hd] at this
      exact this
  intro p
  induction p using Nat.strongRecOn with
  | _ p ih =>
    intro hr hx
    obtain ⟨mp, hmp, hsp⟩ := hsok p hr
    have mok := hI.memo p mp hmp
    rcases ok.just p hx with hn | ⟨m, hm, _, _, o, ho, hrec, hc⟩
    · rw [hmem, hmp] at hn; cases hn
    · rw [hmem, hmp] at hm; cases hm
      obtain ⟨hstamp, _⟩ := mok.i3 hsp o ho
      cases hd : o.dep with
      | inp j =>
        rw [hd] at hc
        have h1 : mp.va < ((fetch P s1 k).1.inp j).ca := hc
        rw [hext.inp, hinp j ⟨p, mp, o, hr, hmp, ho, hd⟩] at h1
        have := hstamp ⟨(s.inp j).val, (s.inp j).ca, (s.inp j).dur⟩ (by rw [hd]; rfl)
        exact absurd this (Nat.not_le.mpr h1)
      | qry p' =>
        rw [hd] at hc
        obtain ⟨m', hm', _, hlt⟩ := hc
        obtain ⟨hlt', m0, hm0, _⟩ := mok.i5 o p' ho hd
        have hle := hstamp ⟨m0.value, m0.ca, m0.dur⟩ (by rw [hd]; simp [depInfo, hm0])
        have hr' : Reach s q p' := Reach.step hr hmp ho hd
        have hnx : .exec p' ∉ new := ih p' hlt' hr'
        have := (ok.nochg p' m0 m' (by rw [hmem]; exact hm0) hm' hnx).2.1
        simp only at hle
        omega

/-- instance: a write to an input outside the footprint, after any history -/
theorem c03_unread_write_reachable {P : Nat → Body} (hP : Wf P) (inp : Nat → Inp) (ops : List Op)
    (q : Nat) (mq : Memo) (hmq : (run P inp ops).memos q = some mq)
    (hfresh : mq.va = (run P inp ops).cur ∨ lc (run P inp ops) mq.dur ≤ mq.va)
    (i v : Nat) (nd : Option Nat) (hi : ¬ InFootprint (run P inp ops) q i) (k : Nat) :
    ∃ new, (fetch P (write (run P inp ops) i v nd) k).1.trace =
        (write (run P inp ops) i v nd).trace ++ new ∧ .exec q ∉ new := by
  have hI := run_inv hP inp ops
  have hI1 : Inv P (write (run P inp ops) i v nd) := step_inv hP _ (.set i v nd) hI
  have hmem : (write (run P inp ops) i v nd).memos = (run P inp ops).memos := by
    by_cases hd : ((run P inp ops).inp i).dur ≥ 3 <;> simp [write, hd]
  have hinp : ∀ j, InFootprint (run P inp ops) q j →
      (write (run P inp ops) i v nd).inp j = (run P inp ops).inp j := by
    intro j hj
    have hne : j ≠ i := fun e => hi (e ▸ hj)
    by_cases hd : ((run P inp ops).inp i).dur ≥ 3 <;> simp [write, hd, hne]
  obtain ⟨new, e, h⟩ := c03_unread_write hP _ hI q mq hmq hfresh _ hI1 hmem hinp k
  exact ⟨new, e, h q Reach.refl⟩

/-! ### Non-vacuity (program and history of Props/C01: q0 = min i0 1, q1 = q0 + 1, q2 = i1 (HIGH),
    q3 = q2 + 1, q4 = if q1 odd then i2 else q3) -/

def exProg : List Expr :=
  [.min (.inp 0) (.const 1), .add (.qry 0) (.const 1), .inp 1, .add (.qry 2) (.const 1),
   .ite (.qry 1) (.inp 2) (.qry 3)]

def exInp : Nat → Inp := fun i => if i = 0 then ⟨2, 1, 0⟩ else if i = 1 then ⟨1, 1, 2⟩ else ⟨5, 1, 0⟩

example : wfList 0 exProg = true := by decide

/-- after `get 4; set 0 3`: requesting q4 executes q0 (its input edge changed) — q0 is backdated —
    and q1, q3, q4 are validated: `exec 0` is justified, q1 is shielded -/
example : ((fetch (progOf exProg) (run (progOf exProg) exInp [.get 4, .set 0 3 none]) 4).1.trace).drop 5
    = [.exec 0, .valid 1, .valid 3, .valid 4] := by decide

-- the hypotheses of `c03_backdate_shields` hold there for the reader r = 1 (one recorded edge, q0)
example : ∃ mr, (run (progOf exProg) exInp [.get 4, .set 0 3 none]).memos 1 = some mr ∧
    ∀ o, o ∈ mr.obs → o.recd = true →
      Shielded (run (progOf exProg) exInp [.get 4, .set 0 3 none])
        (fetch (progOf exProg) (run (progOf exProg) exInp [.get 4, .set 0 3 none]) 4).1 mr.va o.dep := by
  refine ⟨_, rfl, ?_⟩
  intro o ho _
  have : o = ⟨.qry 0, 1, true⟩ := by
    have h : o ∈ [(⟨.qry 0, 1, true⟩ : Obs)] := ho
    simpa using h
  subst this
  refine ⟨_, rfl, by decide, ?_⟩
  intro mq' h
  have : mq' = ⟨1, 2, 1, 0, 2, [⟨.inp 0, 3, true⟩]⟩ := by
    have h' : some (⟨1, 2, 1, 0, 2, [⟨.inp 0, 3, true⟩]⟩ : Memo) = some mq' := h
    exact (Option.some.inj h').symm
  subst this
  exact ⟨rfl, Nat.le_refl _⟩

-- the hypotheses of `c03_unread_write_reachable`: after `get 4`, q4 is fresh and i2 is outside its
-- footprint (q1 is even, so q4 read q3, not i2) — checked by the decidable closure test
example : ∃ mq, (run (progOf exProg) exInp [.get 4]).memos 4 = some mq ∧
    mq.va = (run (progOf exProg) exInp [.get 4]).cur ∧
    ¬ InFootprint (run (progOf exProg) exInp [.get 4]) 4 2 :=
  ⟨_, rfl, rfl, not_inFootprint_of_check _ 4 2 [4, 3, 2, 1, 0] (by decide) (by decide) (by decide)⟩

-- a write to the unread input i2: no execution at all
example : ((fetch (progOf exProg) (run (progOf exProg) exInp [.get 4, .set 2 6 none]) 4).1.trace).drop 5
    = [.valid 0, .valid 1, .valid 3, .valid 4] := by decide

end SalsaVerif.Props.C03
