/-
  C02 — durabilities never cause stale results; NEVER_CHANGE inputs are frozen.

  Model: SalsaVerif/Model/Core.lean (stage S2 of DESIGN.md §3: src/function/{fetch,
  maybe_changed_after,execute,backdate,memo}.rs, src/runtime.rs, src/input.rs,
  src/active_query.rs).  Programs `P : Nat → Body` are arbitrary well-formed (`Wf`: query `q` calls
  only queries `< q`) resumption programs with dynamic dependencies; histories `ops : List Op`
  are arbitrary lists of `get q`, `set i v (some d | none)` (input write that installs
  durability `d` / keeps it) and `synth d` (synthetic write), with arbitrary durabilities — no
  hypothesis relates the durabilities to what is written: this is the point of the property.
  `run P inp ops` is the state after the history from a fresh database with inputs `inp`.

  `Wf P` is a `Prop` over functions; for the line-protocol programs (`progOf es`) it follows from
  the decidable check `wfList 0 es = true` (`c02_sound_prog`).

  All statements of DESIGN.md §C02 are proved for stage S2.  NOT YET PROVED: nothing of C02 for
  this stage; the lift to the full engine (tracked structs, interning: stage S4) is not done.
-/
import SalsaVerif.Model.Core
import SalsaVerif.Proofs.CoreRef

namespace SalsaVerif.Props.C02
open SalsaVerif.Model.Core SalsaVerif.Proofs.Core

/-- **Soundness with arbitrary durabilities.**  After any history, every request returns the
    from-scratch value over the current inputs. -/
theorem c02_sound {P : Nat → Body} (hP : Wf P) (inp : Nat → Inp) (ops : List Op) (q : Nat) :
    (fetch P (run P inp ops) q).2.val = sem P (run P inp ops).inp q :=
  c02_s2 hP inp ops q

/-- The same for every `get` inside the history: the list of answers equals the answers of the
    from-scratch oracle `refOutputs`, which has no revisions and no memos (it keeps value and
    durability per input; the durability only decides whether a write is rejected). -/
theorem c02_sound_history {P : Nat → Body} (hP : Wf P) (inp : Nat → Inp) (ops : List Op) :
    outputs P (init inp) ops = refOutputs P (envOf inp) ops := by
  rw [outputs_ref hP ops (init inp) (init_inv P inp)]
  rfl

/-- Line-protocol programs: the hypothesis is the decidable check `wfList 0 es`. -/
theorem c02_sound_prog (es : List Expr) (h : wfList 0 es = true) (inp : Nat → Inp) (ops : List Op) :
    outputs (progOf es) (init inp) ops = refOutputs (progOf es) (envOf inp) ops :=
  c02_sound_history (wf_progOf es h) inp ops

/-- example program: q0 = i0 (HIGH input), q1 = q0 + i1, q2 = if q1 odd then i2 else q0 -/
def exProg : List Expr := [.inp 0, .add (.qry 0) (.inp 1), .ite (.qry 1) (.inp 2) (.qry 0)]
def exInp : Nat → Inp := fun i => if i = 0 then ⟨1, 1, 2⟩ else if i = 3 then ⟨7, 1, 3⟩ else ⟨2, 1, 0⟩

example : wfList 0 exProg = true := by decide
example : outputs (progOf exProg) (init exInp) [.get 2, .set 1 3 none, .get 2, .synth 2, .get 2, .set 0 2 (some 0), .get 2]
    = [2, 1, 1, 2] := by decide

/-- **The durability shortcut is sound.**  In every reachable state, a memo that passes the
    shallow test `last_changed(durability) ≤ verified_at` holds the from-scratch value. -/
theorem c02_shortcut_sound {P : Nat → Body} (hP : Wf P) (inp : Nat → Inp) (ops : List Op)
    (q : Nat) (m : Memo) (hm : (run P inp ops).memos q = some m)
    (hs : lc (run P inp ops) m.dur ≤ m.va) : m.value = sem P (run P inp ops).inp q :=
  fresh_of_sok hP (run_inv hP inp ops) q m hm (Or.inr hs)

-- the hypotheses are satisfiable: after `get 1; set 1 …` (a LOW write) the HIGH memo of q0 passes
example : ∃ m, (run (progOf exProg) exInp [.get 1, .set 1 3 none]).memos 0 = some m ∧
    lc (run (progOf exProg) exInp [.get 1, .set 1 3 none]) m.dur ≤ m.va ∧ m.va ≠ 2 :=
  ⟨_, rfl, by decide, by decide⟩

/-- **A write marks exactly the durabilities up to the one it reports** (the *previous*
    durability of the field): `last_changed d' = cur` for `d' ≤ d`, untouched above. -/
theorem c02_write_marks (s : State) (i v : Nat) (nd : Option Nat) (h : (s.inp i).dur < 3) (d' : Nat) :
    (d' ≤ (s.inp i).dur → lc (write s i v nd) d' = (write s i v nd).cur) ∧
    ((s.inp i).dur < d' → lc (write s i v nd) d' = lc s d') := by
  have hd : ¬ (s.inp i).dur ≥ 3 := by omega
  constructor
  · intro hle
    by_cases h0 : d' = 0 <;> simp [write, lc, hd, h0, hle]
  · intro hlt
    have h0 : d' ≠ 0 := by omega
    have : ¬ d' ≤ (s.inp i).dur := by omega
    simp [write, lc, hd, h0, this]

/-- the same for synthetic writes -/
theorem c02_synth_marks (s : State) (d : Nat) (h : d < 3) (d' : Nat) :
    (d' ≤ d → lc (synth s d) d' = (synth s d).cur) ∧ (d < d' → lc (synth s d) d' = lc s d') := by
  have hd : ¬ d ≥ 3 := by omega
  constructor
  · intro hle
    by_cases h0 : d' = 0 <;> simp [synth, lc, hd, h0, hle]
  · intro hlt
    have h0 : d' ≠ 0 := by omega
    have : ¬ d' ≤ d := by omega
    simp [synth, lc, hd, h0, this]

example : ((init exInp).inp 0).dur < 3 := by decide

/-- **`last_changed` is antitone in the durability** and stays within `[R1, cur]`, with
    `last_changed NEVER_CHANGE = R1`, in every reachable state. -/
theorem c02_revs_antitone {P : Nat → Body} (hP : Wf P) (inp : Nat → Inp) (ops : List Op) :
    (∀ d d', d ≤ d' → lc (run P inp ops) d' ≤ lc (run P inp ops) d) ∧
    (∀ d, 1 ≤ lc (run P inp ops) d ∧ lc (run P inp ops) d ≤ (run P inp ops).cur) ∧
    (∀ d, 3 ≤ d → lc (run P inp ops) d = 1) :=
  have hI := run_inv hP inp ops
  ⟨lc_mono hI, fun d => ⟨hI.lc_ge1 d, hI.lc_le d⟩, hI.lc_never⟩

/-- **A write to a NEVER_CHANGE input is rejected**: it panics (after the revision bump) and
    changes no input, no memo, no `last_changed` entry and emits no event; only `cur` advances. -/
theorem c02_never_write_frozen (s : State) (i v : Nat) (nd : Option Nat) (h : (s.inp i).dur ≥ 3) :
    writePanics s i = true ∧ (write s i v nd).cur = s.cur + 1 ∧ (write s i v nd).inp = s.inp ∧
    (write s i v nd).memos = s.memos ∧ (write s i v nd).lch = s.lch ∧
    (write s i v nd).trace = s.trace := by
  simp [write, writePanics, h]

/-- the same for `synthetic_write(NEVER_CHANGE)` -/
theorem c02_never_synth_frozen (s : State) (d : Nat) (h : d ≥ 3) :
    synthPanics d = true ∧ (synth s d).cur = s.cur + 1 ∧ (synth s d).inp = s.inp ∧
    (synth s d).memos = s.memos ∧ (synth s d).lch = s.lch ∧ (synth s d).trace = s.trace := by
  simp [synth, synthPanics, h]

/-- and an accepted write never panics -/
theorem c02_write_accepted (s : State) (i : Nat) (h : (s.inp i).dur < 3) : writePanics s i = false := by
  simp [writePanics]; omega

/-- **Corollary: nothing observable changes.**  After any history, a rejected write (or a
    rejected synthetic write) leaves the answers of every continuation `rest` as they would have
    been without it. -/
theorem c02_never_write_results {P : Nat → Body} (hP : Wf P) (inp : Nat → Inp) (ops : List Op)
    (i v : Nat) (nd : Option Nat) (h : ((run P inp ops).inp i).dur ≥ 3) (rest : List Op) :
    outputs P (write (run P inp ops) i v nd) rest = outputs P (run P inp ops) rest := by
  have hI := run_inv hP inp ops
  have hI' : Inv P (write (run P inp ops) i v nd) := step_inv hP _ (.set i v nd) hI
  rw [outputs_ref hP rest _ hI', outputs_ref hP rest _ hI, (c02_never_write_frozen _ i v nd h).2.2.1]

theorem c02_never_synth_results {P : Nat → Body} (hP : Wf P) (inp : Nat → Inp) (ops : List Op)
    (d : Nat) (h : d ≥ 3) (rest : List Op) :
    outputs P (synth (run P inp ops) d) rest = outputs P (run P inp ops) rest := by
  have hI := run_inv hP inp ops
  have hI' : Inv P (synth (run P inp ops) d) := step_inv hP _ (.synth d) hI
  rw [outputs_ref hP rest _ hI', outputs_ref hP rest _ hI, (c02_never_synth_frozen _ d h).2.2.1]

-- input 3 of the example is NEVER_CHANGE, also after a history
example : ((run (progOf exProg) exInp [.get 2, .set 3 9 none, .synth 3]).inp 3).dur ≥ 3 := by decide

end SalsaVerif.Props.C02
