/-
  C15 — non-convergence ends in a bounded panic.  Part 1: the iteration stamp
  (`src/cycle.rs: IterationStamp`, translated in `Gen/Stamp.lean`).
-/
import SalsaVerif.Gen.Stamp

namespace SalsaVerif.Props.C15
open SalsaVerif.Gen.Stamp

private theorem iter_eq (s : Nat) : IterationStamp.iteration s = s % 256 := by
  simp [IterationStamp.iteration]

private theorem cc_eq (s : Nat) : IterationStamp.cancellation_count s = s / 256 % 256 := by
  simp [IterationStamp.cancellation_count, Nat.shiftRight_eq_div_pow]

theorem stamp_increment (s s' : Nat) (hs : s < 2^16)
    (hit : IterationStamp.iteration s ≤ 200)
    (h : IterationStamp.increment_iteration s = some s') :
    IterationStamp.iteration s' = IterationStamp.iteration s + 1
    ∧ IterationStamp.iteration s' ≤ MAX_ITERATIONS
    ∧ IterationStamp.iteration s' ≤ 200
    ∧ IterationStamp.cancellation_count s' = IterationStamp.cancellation_count s
    ∧ s' < 2^16 := by
  rw [iter_eq] at hit
  have hs1 : (s + 1) % 2^16 = s + 1 := by
    apply Nat.mod_eq_of_lt
    omega
  simp only [IterationStamp.increment_iteration, hs1, iter_eq, MAX_ITERATIONS] at h
  split at h
  · rename_i hle
    have hle := of_decide_eq_true hle
    injection h with h
    subst h
    simp only [iter_eq, cc_eq, MAX_ITERATIONS]
    omega
  · cases h

example : IterationStamp.increment_iteration (3 * 256 + 199) = some (3 * 256 + 200) := by decide

/-- `iteration s ≥ MAX → increment s = none`.  The extra hypothesis `iteration s < 255`
    is necessary: for `iteration s = 255` the low byte wraps to `0 ≤ MAX` and the code
    answers `Some` (see `stamp_wrap_255`).  Such a stamp is unreachable
    (`stamp_reachable_le`): stamps are only built by `initial` and `increment_iteration`. -/
theorem stamp_none (s : Nat) (hs : s < 2^16)
    (hge : IterationStamp.iteration s ≥ MAX_ITERATIONS)
    (h255 : IterationStamp.iteration s < 255) :
    IterationStamp.increment_iteration s = none := by
  rw [iter_eq] at hge h255
  simp only [MAX_ITERATIONS] at hge
  have hs1 : (s + 1) % 2^16 = s + 1 := by
    apply Nat.mod_eq_of_lt
    omega
  simp only [IterationStamp.increment_iteration, hs1, iter_eq, MAX_ITERATIONS]
  have : ¬ ((s + 1) % 256 ≤ 200) := by omega
  simp [this]

example : IterationStamp.increment_iteration (7 * 256 + 200) = none := by decide

/-- the excluded corner of `stamp_none`: the low byte wraps. -/
theorem stamp_wrap_255 : IterationStamp.increment_iteration 255 = some 256 := by decide

theorem stamp_initial (c : Nat) (hc : c < 256) :
    IterationStamp.iteration (IterationStamp.initial c) = 0
    ∧ IterationStamp.cancellation_count (IterationStamp.initial c) = c
    ∧ IterationStamp.initial c < 2^16 := by
  simp only [iter_eq, cc_eq, IterationStamp.initial, IterationStamp.new]
  omega

example : IterationStamp.initial 5 = 1280 := by decide

/-- stamps reachable from `initial c` by `k` successful increments. -/
def incrN : Nat → Nat → Option Nat
  | 0, s => some s
  | k + 1, s => (IterationStamp.increment_iteration s).bind (incrN k)

/-- every stamp reachable from `initial c` has iteration = number of increments ≤ 200 and
    the cancellation byte of `c`: `increment_iteration` never carries. -/
theorem stamp_reachable_le (c : Nat) (hc : c < 256) (k s : Nat)
    (h : incrN k (IterationStamp.initial c) = some s) :
    IterationStamp.iteration s = k ∧ k ≤ 200 ∧ IterationStamp.cancellation_count s = c
    ∧ s < 2^16 := by
  suffices H : ∀ k s0 s, s0 < 2^16 → IterationStamp.iteration s0 ≤ 200 →
      incrN k s0 = some s →
      IterationStamp.iteration s = IterationStamp.iteration s0 + k ∧
      IterationStamp.iteration s ≤ 200 ∧
      IterationStamp.cancellation_count s = IterationStamp.cancellation_count s0 ∧ s < 2^16 by
    have hi := stamp_initial c hc
    have := H k _ s hi.2.2 (by omega) h
    omega
  intro k
  induction k with
  | zero =>
    intro s0 s h0 h1 h
    simp only [incrN] at h
    injection h with h
    subst h
    exact ⟨rfl, h1, rfl, h0⟩
  | succ k ih =>
    intro s0 s h0 h1 h
    simp only [incrN] at h
    cases hinc : IterationStamp.increment_iteration s0 with
    | none => simp [hinc] at h
    | some s1 =>
      simp only [hinc, Option.bind] at h
      have h2 := stamp_increment s0 s1 h0 h1 hinc
      have h3 := ih s1 s h2.2.2.2.2 h2.2.2.1 h
      omega

example : incrN 200 (IterationStamp.initial 3) = some (3 * 256 + 200) := by decide
example : incrN 201 (IterationStamp.initial 3) = none := by decide

end SalsaVerif.Props.C15
