/-
  C15 — non-convergence ends in a bounded panic.
  Part 1: the iteration stamp (`src/cycle.rs: IterationStamp`, translated in `Gen/Stamp.lean`,
  regenerated from the source on every run): `stamp_increment`, `stamp_none`, `stamp_initial`,
  `stamp_reachable_le`.
  Part 2: the head loop of `Model/Cycle.lean` (`executeMaybeIterate`): `c15_bounded`,
  `c15_poison_then_ok`.

  Note on `stamp_none`: as literally stated in the design (`iteration s ≥ MAX → increment s =
  none`) it is FALSE for `iteration s = 255` (the low byte wraps to 0, `stamp_wrap_255`); the
  theorem carries the hypothesis `iteration s < 255`, and `stamp_reachable_le` shows that no
  stamp built by `initial`/`increment_iteration` has an iteration above 200.

  The body language of the model is monotone, so no gate-free *program* of the model diverges
  (`c12_terminates`; with the value-controlled `gate` termination is open, see `Props/C12.lean`,
  and `c15_bounded` — which quantifies over every body, gates included, and every fetch
  function — is what bounds the loop there); the non-vacuity example for
  `panic tooManyIterations` drives the loop with an oscillating fetch function (`flipRead`).
-/
import SalsaVerif.Gen.Stamp
import SalsaVerif.Model.Cycle
import SalsaVerif.Proofs.Cycle

namespace SalsaVerif.Props.C15
open SalsaVerif.Gen.Stamp SalsaVerif.Model.Cycle SalsaVerif.Proofs.Cycle

private theorem iter_eq (s : Nat) : IterationStamp.iteration s = s % 256 := by
  simp [IterationStamp.iteration]

private theorem cc_eq (s : Nat) : IterationStamp.cancellation_count s = s / 256 % 256 := by
  simp [IterationStamp.cancellation_count, Nat.shiftRight_eq_div_pow]

theorem stamp_increment (s s' : Nat) (hs : s < 2^16)
    (hit : IterationStamp.iteration s ≤ 200)
    (h : IterationStamp.increment_iteration s = some s') :
    IterationStamp.iteration s' = IterationStamp.iteration s + 1
    ∧ IterationStamp.iteration s' ≤ MAX_ITERATIONS
    ∧ IterationStamp.iteration s' ≤ 200
    ∧ IterationStamp.cancellation_count s' = IterationStamp.cancellation_count s
    ∧ s' < 2^16 := by
  rw [iter_eq] at hit
  have hs1 : (s + 1) % 2^16 = s + 1 := by
    apply Nat.mod_eq_of_lt
    omega
  simp only [IterationStamp.increment_iteration, hs1, iter_eq, MAX_ITERATIONS] at h
  split at h
  · rename_i hle
    have hle := of_decide_eq_true hle
    injection h with h
    subst h
    simp only [iter_eq, cc_eq, MAX_ITERATIONS]
    omega
  · cases h

example : IterationStamp.increment_iteration (3 * 256 + 199) = some (3 * 256 + 200) := by decide

/-- `iteration s ≥ MAX → increment s = none`.  The extra hypothesis `iteration s < 255`
    is necessary: for `iteration s = 255` the low byte wraps to `0 ≤ MAX` and the code
    answers `Some` (see `stamp_wrap_255`).  Such a stamp is unreachable
    (`stamp_reachable_le`): stamps are only built by `initial` and `increment_iteration`. -/
theorem stamp_none (s : Nat) (hs : s < 2^16)
    (hge : IterationStamp.iteration s ≥ MAX_ITERATIONS)
    (h255 : IterationStamp.iteration s < 255) :
    IterationStamp.increment_iteration s = none := by
  rw [iter_eq] at hge h255
  simp only [MAX_ITERATIONS] at hge
  have hs1 : (s + 1) % 2^16 = s + 1 := by
    apply Nat.mod_eq_of_lt
    omega
  simp only [IterationStamp.increment_iteration, hs1, iter_eq, MAX_ITERATIONS]
  have : ¬ ((s + 1) % 256 ≤ 200) := by omega
  simp [this]

example : IterationStamp.increment_iteration (7 * 256 + 200) = none := by decide

/-- the excluded corner of `stamp_none`: the low byte wraps. -/
theorem stamp_wrap_255 : IterationStamp.increment_iteration 255 = some 256 := by decide

theorem stamp_initial (c : Nat) (hc : c < 256) :
    IterationStamp.iteration (IterationStamp.initial c) = 0
    ∧ IterationStamp.cancellation_count (IterationStamp.initial c) = c
    ∧ IterationStamp.initial c < 2^16 := by
  simp only [iter_eq, cc_eq, IterationStamp.initial, IterationStamp.new]
  omega

example : IterationStamp.initial 5 = 1280 := by decide

/-- every stamp reachable from `initial c` has iteration = number of increments ≤ 200 and
    the cancellation byte of `c`: `increment_iteration` never carries. -/
theorem stamp_reachable_le (c : Nat) (hc : c < 256) (k s : Nat)
    (h : incrN k (IterationStamp.initial c) = some s) :
    IterationStamp.iteration s = k ∧ k ≤ 200 ∧ IterationStamp.cancellation_count s = c
    ∧ s < 2^16 := by
  suffices H : ∀ k s0 s, s0 < 2^16 → IterationStamp.iteration s0 ≤ 200 →
      incrN k s0 = some s →
      IterationStamp.iteration s = IterationStamp.iteration s0 + k ∧
      IterationStamp.iteration s ≤ 200 ∧
      IterationStamp.cancellation_count s = IterationStamp.cancellation_count s0 ∧ s < 2^16 by
    have hi := stamp_initial c hc
    have := H k _ s hi.2.2 (by omega) h
    omega
  intro k
  induction k with
  | zero =>
    intro s0 s h0 h1 h
    simp only [incrN] at h
    injection h with h
    subst h
    exact ⟨rfl, h1, rfl, h0⟩
  | succ k ih =>
    intro s0 s h0 h1 h
    simp only [incrN] at h
    cases hinc : IterationStamp.increment_iteration s0 with
    | none => simp [hinc] at h
    | some s1 =>
      simp only [hinc, Option.bind] at h
      have h2 := stamp_increment s0 s1 h0 h1 hinc
      have h3 := ih s1 s h2.2.2.2.2 h2.2.2.1 h
      omega

example : incrN 200 (IterationStamp.initial 3) = some (3 * 256 + 200) := by decide
example : incrN 201 (IterationStamp.initial 3) = none := by decide

/-! ## the head loop (`Model.Cycle.executeMaybeIterate`) -/

/-- **c15_bounded.**  A run of the head loop that starts at iteration stamp `stamp` needs at
    most `MAX_ITERATIONS + 1 − iteration stamp` evaluations of the body (so at most
    `MAX_ITERATIONS` increments of the stamp from `initial c`): more fuel changes nothing, and
    the loop itself never runs out of fuel — it ends in a value (completed, participant, or
    converged head), in `panic tooManyIterations`, or in a panic that came out of a fetch.
    Structural recursion on `fuel = 201 − iteration`; stated with the literal `201 = 200 + 1`
    so that an edit of `MAX_ITERATIONS` breaks the proof. -/
theorem c15_bounded (P : Prog) (env : Nat → Nat) (read : Nat → St → Res Fetched) (j : Nat) :
    ∀ (fuel stamp : Nat) (s : St), stamp < 2^16 →
      IterationStamp.iteration stamp ≤ 200 →
      fuel + IterationStamp.iteration stamp = 201 →
      (∀ extra, executeMaybeIterate P env read j (fuel + extra) stamp s
                = executeMaybeIterate P env read j fuel stamp s) ∧
      (∀ err, executeMaybeIterate P env read j fuel stamp s = .error err →
        err.cls = .tooManyIterations ∨ ∃ c s0, read c s0 = .error err) := by
  intro fuel
  induction fuel with
  | zero => intro stamp s _ h1 h2; omega
  | succ fuel ih =>
    intro stamp s hs hit hsum
    have hrec : ∀ stamp', IterationStamp.increment_iteration stamp = some stamp' →
        stamp' < 2^16 ∧ IterationStamp.iteration stamp' ≤ 200 ∧
        fuel + IterationStamp.iteration stamp' = 201 := by
      intro stamp' hinc
      have := stamp_increment stamp stamp' hs hit hinc
      omega
    constructor
    · intro extra
      have e : fuel + 1 + extra = (fuel + extra) + 1 := by omega
      rw [e]
      rw [executeMaybeIterate, executeMaybeIterate]
      cases hev : evalM env read (P.node j).body s with
      | error e' => rfl
      | ok r =>
        obtain ⟨v1, hs1, s1⟩ := r
        simp only
        cases hl : s1.prov.lookup j with
        | none => rfl
        | some last =>
          simp only
          split
          · rfl
          · split
            · rfl
            · cases hinc : IterationStamp.increment_iteration stamp with
              | none => rfl
              | some stamp' =>
                obtain ⟨a, b, c⟩ := hrec stamp' hinc
                exact (ih stamp' _ a b c).1 extra
    · intro err h
      rw [executeMaybeIterate] at h
      cases hev : evalM env read (P.node j).body s with
      | error e' =>
        rw [hev] at h
        injection h with h; subst h
        exact Or.inr (evalM_error env read _ s _ hev)
      | ok r =>
        obtain ⟨v1, hs1, s1⟩ := r
        rw [hev] at h
        simp only at h
        cases hl : s1.prov.lookup j with
        | none =>
          rw [hl] at h
          simp only at h
          split at h <;> cases h
        | some last =>
          rw [hl] at h
          simp only at h
          split at h
          · cases h
          · split at h
            · cases h
            · cases hinc : IterationStamp.increment_iteration stamp with
              | none =>
                rw [hinc] at h
                injection h with h; subst h
                exact Or.inl rfl
              | some stamp' =>
                rw [hinc] at h
                obtain ⟨a, b, c⟩ := hrec stamp' hinc
                exact (ih stamp' _ a b c).2 err h

/-- the loop as `execute` starts it: fuel `loopFuel = MAX_ITERATIONS + 1 = 201`, stamp
    `initial 0`.  It never reports `outOfFuel` by itself. -/
theorem c15_bounded_execute (P : Prog) (env : Nat → Nat) (read : Nat → St → Res Fetched)
    (j : Nat) (s : St) (err : Panic)
    (h : executeMaybeIterate P env read j loopFuel (IterationStamp.initial 0) s
      = .error err) :
    err.cls = .tooManyIterations ∨ ∃ c s0, read c s0 = .error err :=
  (c15_bounded P env read j 201 (IterationStamp.initial 0) s (by decide) (by decide)
    (by decide)).2 err h

example : loopFuel = 201 := by decide

/-- non-vacuity of the `tooManyIterations` branch: a fetch whose answer flips with the iteration
    count never converges; the loop stops after exactly 200 increments of the stamp. -/
def flipRead : Nat → St → Res Fetched := fun c s =>
  .ok ((s.iters + 1) % 2, [c],
    { s with prov := if (s.prov.lookup c).isSome then s.prov else (c, 0) :: s.prov })

def selfP : Prog := ⟨[⟨.fixpoint false, .call 0⟩]⟩

set_option maxRecDepth 20000 in
example : errOf (executeMaybeIterate selfP (fun _ => 0) flipRead 0 loopFuel
    (IterationStamp.initial 0) ⟨[0], [], [], [], [], 0⟩) = some ⟨.tooManyIterations, [0]⟩ := by
  decide

/- … while with one unit of fuel less the loop would have stopped for lack of fuel: the
    bound `201` is tight. -/
set_option maxRecDepth 20000 in
example : errOf (executeMaybeIterate selfP (fun _ => 0) flipRead 0 200
    (IterationStamp.initial 0) ⟨[0], [], [], [], [], 0⟩) = some ⟨.outOfFuel, [0]⟩ := by
  decide

/-- **c15_poison_then_ok** (model level).  After a request that panicked (`tooManyIterations`
    or any other class): the finalised memos are unchanged; every recovering frame that was
    unwound is poisoned, and a request for a poisoned node in the same revision is answered
    `panic propagated` without evaluating anything; poison does not outlive the revision — after
    a write the database is the empty one, so the same functions evaluate as from scratch. -/
theorem c15_poison_then_ok (P : Prog) (env : Nat → Nat) (db db' : Db) (j : Nat) (c : PanicClass)
    (h : db.get P env j = (.panic c, db')) :
    db'.final = db.final ∧
    (∃ e, eval P env db.final db.poisoned j = .error e ∧
      db'.poisoned = poisonedBy P e.stack ++ db.poisoned) ∧
    (∀ k ∈ db'.poisoned, db'.get P env k = (.panic .propagated, db')) ∧
    db'.newRevision = Db.empty := by
  unfold Db.get at h
  cases he : eval P env db.final db.poisoned j with
  | ok r => obtain ⟨v, s⟩ := r; rw [he] at h; cases h
  | error e =>
    rw [he] at h
    injection h with h1 h2
    subst h2
    refine ⟨rfl, ⟨e, rfl, rfl⟩, ?_, rfl⟩
    intro k hk
    have hc : (poisonedBy P e.stack ++ db.poisoned).contains k = true := by simpa using hk
    have hf : ∀ exec, fetch P exec k
        (St.init db.final (poisonedBy P e.stack ++ db.poisoned)) = .error ⟨.propagated, []⟩ := by
      intro exec
      unfold fetch
      have : (St.init db.final (poisonedBy P e.stack ++ db.poisoned)).poisoned.contains k = true := hc
      rw [if_pos this]
      rfl
    show Db.get P env ⟨db.final, poisonedBy P e.stack ++ db.poisoned⟩ k = _
    unfold Db.get eval
    simp only [hf]
    have hnil : poisonedBy P [] = [] := rfl
    rw [hnil]; rfl

/-- a poisoned database in which the poisoned node is asked again, and the next revision. -/
example : (Db.get selfP (fun _ => 0) ⟨[], [0]⟩ 0).1 = .panic .propagated := by decide
example : ((⟨[], [0]⟩ : Db).newRevision.get selfP (fun _ => 0) 0).1 = .value 0 0 := by decide

end SalsaVerif.Props.C15
