/-
  C13 (revision-aware) — fallback (`cycle_result`) cycles across revisions.

  Model: `SalsaVerif.Model.CycleRev` (see `Props/C12Rev.lean` and the header of the model);
  reference: `fbReference` of `Model/Cycle.lean` (fallback value iff on a cycle of the
  input-determined call graph) through `toCycle` / `envOfVals`.

  PROVED
  * `c13rev_history_dependence_witness` (+ `_recorded`): the model-level twin of known finding
    kf1.  Two `cycle_result` functions calling each other (values 200 / 201): the history
    get 0; unrelated write; get 0; get 1  answers 200 for node 1, while the reference — and the
    model itself on a fresh database — give 201 (kernel evaluation).  "Fallback results do not
    depend on the history" is FALSE of this model exactly as of salsa.
  * `c13rev_lazy_finalisation`: the mechanism, for all states: a provisional participant memo
    from an earlier revision, one of whose heads is final but verified in ANOTHER revision
    (`validate_provisional` compares `verified_at`), does not verify — `verify_memo` answers
    false without touching the state, so `fetch_cold` re-executes the participant, now outside
    its cycle (its body over finalised results instead of its fallback value).

  * `c13rev_reference_if_closed`: for ANY state — any history, writes included — of a
    well-formed program all of whose nodes are `cycle_result` functions: if the (effectively)
    finalised memos of a set `R` of nodes are closed under callees, every node of `R` on a cycle
    of the call graph holds its fallback value and every other node its body over the finalised
    values (`fbClosedOn`, a decidable predicate on the state), then every value is the reference
    `fbReference` at the current inputs (through `dbOk_fbReference`: such tables are unique).
    `svdriver cyclerev-cert` prints this certificate for every answer (`R` = the nodes reachable
    from the request): refinement of `c13_reference` per certified run, in EVERY revision.

  NOT PROVED (open): that the certificate holds after every request of a history free of the
  kf1 pattern (it fails exactly on the stale answers in the generated cases), and the
  unconditional one-revision refinement of `Model/Cycle.lean`; both rest on the differential
  runs (byte-identical answers and event sequences on > 1.6 M requests of generated
  `cycle_result` programs × histories).
-/
import SalsaVerif.Proofs.CycleRevRef
import SalsaVerif.Proofs.CycleRevMech
import SalsaVerif.Proofs.CycleRevFb

namespace SalsaVerif.Props.C13Rev
open SalsaVerif.Model
open SalsaVerif.Model.CycleRev
open SalsaVerif.Proofs.CycleRev

/-- **kf1 at model level** (minimised; corpus/CYCLEREV/kf1-min.ops, same answers from salsa). -/
theorem c13rev_history_dependence_witness :
    outputs kf1P (St.init 2 [(0, 0)]) kf1Ops = [.value 200, .value 200, .value 200] ∧
    Cycle.fbReference (toCycle kf1P) (envOfVals [0]) 1 = 201 ∧
    outputs kf1P (St.init 2 [(0, 0)]) [.get 1] = [.value 201] := by
  decide

/-- the recorded history (corpus/C13/kf1-fallback-history.ops): the last request answers 204,
    the reference at the inputs (75, 111, 7) is 203 at node 3. -/
theorem c13rev_history_dependence_recorded :
    outputs kf1RecP (St.init 5 [(75, 0), (111, 0), (210, 1)]) kf1RecOps
      = [.value 204, .value 204, .value 204] ∧
    Cycle.fbReference (toCycle kf1RecP) (envOfVals [75, 111, 7]) 3 = 203 := by
  decide

/-- **lazy finalisation fails after the head was re-validated** (`validate_provisional`,
    `validate_same_iteration`, `deep_verify_memo`; all states, all engines). -/
theorem c13rev_lazy_finalisation (P : Prog) (sub : Eng) (s : St) (c : Nat) (m : Memo) (h : Head)
    (hprov : m.final = false) (hh : h ∈ live m.heads) (hva : m.va ≠ s.cur) (it va : Nat)
    (hst : provisionalStatus s h.key = some (.final it va)) (hne : va ≠ m.va) :
    verifyMemo P sub c m s = .ok (false, s) :=
  verifyMemo_stale_participant P sub s c m h hprov hh hva it va hst hne

/-- **refinement per certified state**, every revision of every history (gate-free `cycle_result`
    programs: the fallback theorems of `Model/Cycle.lean` need `NoGate`; the generators emit gates
    only in fixpoint programs). -/
theorem c13rev_reference_if_closed (P : Prog) (s : St) (R : List Nat) (hW : (toCycle P).Wf)
    (hG : (toCycle P).NoGate)
    (hA : SalsaVerif.Proofs.Cycle.allFb (toCycle P) = true) (hc : fbClosedOn P s R = true)
    (x w : Nat) (hx : x ∈ R) (hv : finalVal s x = some w) :
    w = Cycle.fbReference (toCycle P) (envI s.inp) x :=
  fbClosed_reference P s R hW hG hA hc x w hx hv

/-! ## non-vacuity -/

/-- the recorded program after  get 4; write input 1 := 110; get 3 : the certificate of the driver
    holds for the answer 203 of node 3 in the SECOND revision (the cycle was re-executed) … -/
example :
    (toCycle kf1RecP).Wf ∧ SalsaVerif.Proofs.Cycle.allFb (toCycle kf1RecP) = true ∧
    outputs kf1RecP (St.init 5 [(75, 0), (111, 0), (210, 1)]) [.get 4, .set 1 110 none, .get 3]
      = [.value 204, .value 203] ∧
    certB kf1RecP (List.foldl (step kf1RecP) (St.init 5 [(75, 0), (111, 0), (210, 1)])
      [.get 4, .set 1 110 none, .get 3]) 3 203 = true := by decide

/-- … and fails for the history-dependent answer 204 of node 3 that follows. -/
example :
    certB kf1RecP (List.foldl (step kf1RecP) (St.init 5 [(75, 0), (111, 0), (210, 1)]) kf1RecOps) 3 204
      = false := by decide

/-- the state of the witness after  get 0; write; get 0 : node 1 holds a provisional memo of
    revision 1 with head 0, and head 0 is final, verified in revision 2. -/
example :
    let s := List.foldl (step kf1P) (St.init 2 [(0, 0)]) [.get 0, .synth 0, .get 0]
    s.cur = 2 ∧
    memoOf s 1 = some ⟨some 201, 1, 1, 3, [], [⟨0, 0, false⟩], 1, false, false⟩ ∧
    provisionalStatus s 0 = some (.final 0 2) := by
  decide

example :
    let s := List.foldl (step kf1P) (St.init 2 [(0, 0)]) [.get 0, .synth 0, .get 0]
    verifyMemo kf1P (eng kf1P 3) 1 ⟨some 201, 1, 1, 3, [], [⟨0, 0, false⟩], 1, false, false⟩ s
      = .ok (false, s) :=
  c13rev_lazy_finalisation kf1P _ _ 1 _ ⟨0, 0, false⟩ rfl (by decide) (by decide) 0 2 (by decide)
    (by decide)

end SalsaVerif.Props.C13Rev
