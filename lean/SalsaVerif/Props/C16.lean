/-
  C16 — concurrent readers observe sequential results without deadlock (acyclic programs).
  Model: Model/SyncClient.lean — reader threads evaluating a static, ranked program
  (`Program.wf`: a body of rank r only requests keys of rank < r) on top of the sync table /
  wait-for graph of Model/SyncDG.lean and the execution ghosts of Model/SyncExec.lean.  Steps:
  request, hot (memo hit), tryClaim (Claimed | Block; a `Cycle` answer has no continuation in this
  layer, so the step would not be enabled — `c16_no_cycle_answer` shows it never occurs), recheckHit,
  execBegin, requestSub, publish, release, wake.  No writes, no panics, no cancellation, no eviction,
  one revision (the hypotheses of the property).
  All theorems are by induction over ARBITRARY finite sequences of client steps from `cinit`
  (any number of threads, keys and top-level requests; any `Program` with `wf`).

  NOT YET PROVED
    * `c16_terminates` (a well-founded measure decreasing along every schedule).  `c16_no_deadlock`
      shows that a step is always enabled while a thread is unfinished and `c16_once` that no key is
      executed twice, but the bound on the number of steps (each thread performs finitely many retries
      after wake-ups) is not formalised; fairness-free termination is in fact false for the open
      system because new top-level `request`s can always be added.
    * the refinement link from the Rust `fetch`/`execute` code to these client steps is by trace
      acceptance in the `vh conc` correspondence run, not by proof.
-/
import SalsaVerif.Proofs.SyncClientLive

namespace SalsaVerif.Props.C16
open SalsaVerif.Model.SyncDG SalsaVerif.Model.SyncExec SalsaVerif.Model.SyncClient
open SalsaVerif.Proofs.SyncDG SalsaVerif.Proofs.SyncExec SalsaVerif.Proofs.SyncClient

/-- A blocked thread `t` (edge `t → u`) waits for exactly the key `k` it wants; `u` holds the claim on
    `k`; `k` has strictly smaller rank than every key `t` holds (in particular than the key `t` is
    executing); and the key `u` is working on (top of its stack) has rank ≤ rank `k`.  Hence the
    thread waited for is always executing a strictly lower rank than the waiter. -/
theorem c16_waits_descend (p : Program) (hwf : p.wf) (ops : List COp) (c : CState)
    (h : crun p cinit ops = some c) (t u : Nat) (he : c.x.base.edges t = some u) :
    ∃ k, c.want t = some k ∧ t ∈ c.x.base.qdeps k ∧ k ∈ held c u ∧
      (∀ k', k' ∈ held c t → p.rank k < p.rank k') ∧
      (∀ fr rest, c.stack u = fr :: rest → p.rank fr.key ≤ p.rank k) := by
  have hi := crun_cinv hwf ops cinit c (CInv_init p) h
  obtain ⟨k, hw, hq, hh⟩ := blocked_on_holder hi he
  refine ⟨k, hw, hq, hh, (hi.loc t).desc k hw, ?_⟩
  intro fr rest hst
  have hs := (hi.loc u).sorted
  rw [held_cons hst] at hs hh
  simp only [List.mem_cons] at hh
  rcases hh with rfl | hh
  · exact Nat.le_refl _
  · exact Nat.le_of_lt ((List.pairwise_cons.mp hs).1 k hh)

/-- No thread transitively waits for itself. -/
theorem c16_no_wait_cycle (p : Program) (hwf : p.wf) (ops : List COp) (c : CState)
    (h : crun p cinit ops = some c) : ∀ t, ¬ Path c.x.base.edges t t :=
  (crun_cinv hwf ops cinit c (CInv_init p) h).x.base.g.acyclic

/-- For ranked programs `try_claim` of the key a thread wants never answers `Cycle`
    (neither same-thread nor through waiting threads). -/
theorem c16_no_cycle_answer (p : Program) (hwf : p.wf) (ops : List COp) (c : CState)
    (h : crun p cinit ops = some c) (t k : Nat) (re : Bool) (hw : c.want t = some k)
    (b : State) (ans : Answer) (hs : stepA c.x.base (.claim t k re true) = some (b, ans)) :
    ∀ i bb, ans ≠ .claim (.cycle i) bb :=
  claim_not_cycle (crun_cinv hwf ops cinit c (CInv_init p) h) hw hs

/-- No deadlock, no lost wake-up: in every reachable state in which some thread is unfinished
    (it wants a key or still holds a claim) (a) some unfinished thread is not blocked — never are all
    unfinished threads asleep — and (b) a client step is enabled.  No Rust assert/unwrap can fire on
    the way (the base steps are the `Option`-valued model functions). -/
theorem c16_no_deadlock (p : Program) (hwf : p.wf) (ops : List COp) (c : CState)
    (h : crun p cinit ops = some c) (u0 : Nat) (ha : active c u0) :
    (∃ u, active c u ∧ c.x.base.edges u = none) ∧ (∃ op, (cstep p c op).isSome = true) := by
  have hi := crun_cinv hwf ops cinit c (CInv_init p) h
  obtain ⟨u, hu, he⟩ := exists_unblocked hi ha
  exact ⟨⟨u, hu, he⟩, unblocked_enabled hi hu he⟩

/-- Every observable value is the sequential one: (a) every memo in the table equals `eval`,
    (b) every sub-value a running body has read is `eval` of the sub-key it requested, in order, and
    (c) the value returned for a finished top-level request of key `k` is `eval k`. -/
theorem c16_values (p : Program) (hwf : p.wf) (ops : List COp) (c : CState)
    (h : crun p cinit ops = some c) :
    (∀ k, c.x.memo k = true → c.val k = eval p k) ∧
    (∀ t fr, fr ∈ c.stack t → fr.vals = ((p.deps fr.key).take fr.pc).map (eval p)) ∧
    (∀ t v, c.result t = some v → ∃ k, c.asked t = some k ∧ v = eval p k) := by
  have hi := crun_cinv hwf ops cinit c (CInv_init p) h
  exact ⟨hi.memo, fun t => (hi.loc t).vals, fun t => (hi.loc t).res⟩

/-- `eval` is the single-threaded evaluation: it satisfies the program's defining equation. -/
theorem c16_eval_spec (p : Program) (hwf : p.wf) (k : Nat) :
    eval p k = p.f k ((p.deps k).map (eval p)) :=
  eval_eq p hwf k

/-- C17 inside this layer: no key is executed twice, by any thread, under any interleaving. -/
theorem c16_once (p : Program) (hwf : p.wf) (ops : List COp) (c : CState)
    (h : crun p cinit ops = some c) (k : Nat) : c.x.execCount k ≤ 1 := by
  have hi := (crun_cinv hwf ops cinit c (CInv_init p) h).x
  rw [hi.count k]
  split <;> omega

/-! ### non-vacuity: k3 reads k1 and k2, k2 reads k1; t0 asks for k3, t1 for k2; t1 blocks on k1
    (held by t0), later t0 blocks on k2 (held by t1); both finish with the sequential values. -/

def prog : Program :=
  { deps := fun k => if k = 2 then [1] else if k = 3 then [1, 2] else [],
    rank := fun k => k,
    f := fun k vs => k + vs.foldl (· + ·) 0 }

/-- the hypothesis `wf` is satisfiable by this program -/
example : prog.wf := by
  intro k d hd
  simp only [prog] at hd ⊢
  split at hd
  · simp at hd; omega
  · split at hd
    · simp at hd; omega
    · simp at hd

def demo : List COp :=
  [.request 0 3, .request 1 2, .tryClaim 0, .tryClaim 1, .execBegin 0, .execBegin 1, .requestSub 0,
   .requestSub 1, .tryClaim 0, .tryClaim 1, .execBegin 0, .publish 0, .release 0, .wake 1, .hot 1,
   .publish 1, .requestSub 0, .tryClaim 0, .release 1, .wake 0, .hot 0, .publish 0, .release 0]

example : ((crun prog cinit demo).map fun c => (c.result 0, c.result 1, c.x.execCount 1, c.x.execCount 2)) =
    some (some 7, some 3, 1, 1) ∧ eval prog 3 = 7 ∧ eval prog 2 = 3 := by decide
-- after 10 steps t1 (executing k2, rank 2) is blocked on k1 (rank 1) held by t0
example : ((crun prog cinit (demo.take 10)).map fun c =>
    (c.x.base.edges 1, c.want 1, held c 1, held c 0)) = some (some 0, some 1, [2], [1, 3]) := by decide
-- after 18 steps t0 (executing k3) is blocked on k2 held by t1, which is not blocked and can release
example : ((crun prog cinit (demo.take 18)).map fun c =>
    (c.x.base.edges 0, c.x.base.edges 1, held c 0, held c 1, (cstep prog c (.release 1)).isSome)) =
    some (some 1, none, [3], [2], true) := by decide
-- the claim of the wanted key answers Running, not Cycle
example : ((crun prog cinit (demo.take 9)).map fun c =>
    (c.want 1, (stepA c.x.base (.claim 1 1 true true)).map (·.2))) =
    some (some 1, some (.claim (.running 0) true)) := by decide

end SalsaVerif.Props.C16
