/-
  GenLogicStructs (part of GenLogic) — the re-stamping decisions of `update` (and the lock tests
  of `delete_entity` / `acquire_read_lock`) in src/tracked_struct.rs, regenerated from /repo on
  every run (`Gen/LogicStructs.lean`), are those of `Model/Structs.lean` and of the tracked-struct
  part of `Model/CoreSpec.lean`.

  PROVED: every theorem in this file.  (`genlogic_structs_update` needs `id.gen ≤ GEN_MAX`: the
  Rust generation is a `u32` and the source tests `== u32::MAX` where the model tests `GEN_MAX ≤`.)
-/
import SalsaVerif.Proofs.GenLogicStructs

namespace SalsaVerif.Props.GenLogic
open SalsaVerif.Gen.LogicStructs

/-! ## 5. tracked structs (src/tracked_struct.rs) -/
section
open SalsaVerif.Model.Structs SalsaVerif.Proofs.GenLogic.Structs

theorem genlogic_structs_updateField (old new : Nat) : updateField old new = updateFieldG old new := by
  by_cases h : old = new <;> simp [updateField, updateFieldG, update_field_keeps, h]

theorem genlogic_structs_updatedValue (v : Slot) (cur dur changedAt : Nat) (id : Id) (fields : Fields) :
    updatedValue v cur dur changedAt id fields = updatedValueG v cur dur changedAt id fields := by
  simp only [updatedValue, updatedValueG, update_fields_revision, update_new_updated_at,
    update_new_durability, update_restamps, update_restamp_revision, decide_eq_true_eq]
  rfl

/-- `update`: already updated in this revision ⇒ untouched; generation exhausted ⇒ leak the slot;
    else re-stamp: all tracked fields get the new `changed_at` iff the durability DEcreased -/
theorem genlogic_structs_update (s : State) (cur dur changedAt : Nat) (id : Id) (fields : Fields)
    (h : id.gen ≤ GEN_MAX) :
    update s cur dur changedAt id fields = updateG s cur dur changedAt id fields := by
  unfold update updateG
  cases hs : s.slots[id.idx]? with
  | none => rfl
  | some v =>
    cases hu : v.updatedAt with
    | none => simp [update_requires, hu]
    | some last =>
      have hg : (GEN_MAX ≤ id.gen) = (id.gen = 2 ^ 32 - 1) := by
        simp only [GEN_MAX] at h ⊢; exact propext ⟨fun h' => by omega, fun h' => by omega⟩
      by_cases h1 : last = cur <;>
        simp [update_requires, update_already_current, update_leaks, genlogic_structs_updatedValue, h1, hg, hu]

/-- non-vacuity: durability 2 → 1 re-stamps the (unchanged) tracked field; 1 → 2 does not -/
example : updatedValue ⟨0, some 1, 2, [1], ⟨7, [5]⟩, []⟩ 2 1 2 ⟨0, 0⟩ ⟨7, [5]⟩ =
      ⟨0, some 2, 1, [2], ⟨7, [5]⟩, []⟩ ∧
    updatedValue ⟨0, some 1, 1, [1], ⟨7, [5]⟩, []⟩ 2 2 2 ⟨0, 0⟩ ⟨7, [5]⟩ =
      ⟨0, some 2, 2, [1], ⟨7, [5]⟩, []⟩ := by decide

theorem genlogic_structs_delete (s : State) (cur g : Nat) (id : Id) :
    deleteEntity s cur g id = deleteEntityG s cur g id := by
  simp only [deleteEntity, deleteEntityG, delete_read_locked, decide_eq_true_eq]
  rfl

/-- whatever revision held the read lock, after `acquire_read_lock` it is the current one -/
theorem genlogic_structs_readLock (r cur : Nat) : readLockG r cur = some cur := by
  by_cases h : r = cur <;> simp [readLockG, read_lock_held, read_lock_value, h]

end

section
open SalsaVerif.Model.CoreSpec SalsaVerif.Proofs.GenLogic.SpecStructs

/-- the tracked-struct update inside `CoreSpec` (C10): same decisions -/
theorem genlogic_corespec_newStruct (s : State) (self : Nat) (f : Frame) (idk v : Nat) :
    newStruct s self f idk v = newStructG s self f idk v := by
  unfold newStruct newStructG
  cases hseed : f.seed with
  | none => rfl
  | some x =>
    cases hsl : s.slots self with
    | none => rfl
    | some sl =>
      by_cases h1 : sl.upd = s.cur <;> by_cases h2 : sl.v = v <;> by_cases h3 : f.dur < sl.dur <;>
        simp [update_already_current, update_field_keeps, update_restamps, update_fields_revision,
          update_new_durability, h1, h2, h3]

end

end SalsaVerif.Props.GenLogic
