/-
  GenLogic — the DECISION LOGIC of the hand-written engine models is the decision logic of the
  current source.

  `Gen/Logic*.lean` is regenerated from /repo on every run (translate/gen_logic.py, logic.py):
  the boolean / decision skeleton of impure salsa functions, extracted by anchors and translated
  with the expression translator of rs2lean.py.  The theorems state, for all inputs, that each
  decision of a hand-written model equals the generated one, and that whole model steps equal
  their re-assembly from generated decisions.  An edit of such a condition in /repo changes the
  generated definition and breaks a theorem (or the translator fails and the module no longer
  builds).  One module per family, so that a check only depends on the sources it is about:

    Props/GenLogicVerify   Gen/LogicVerify   backdate.rs, maybe_changed_after.rs, fetch.rs
                                             ↔ Model/Core, Core3, CoreAcc, CoreSpec      (C01–C04)
    Props/GenLogicIntern   Gen/LogicIntern   interned.rs ↔ Model/Intern                   (C07, C09)
    Props/GenLogicCycle    Gen/LogicCycle    fetch.rs: fetch_cold_cycle ↔ Model/Cycle     (C12, C15)
    Props/GenLogicStructs  Gen/LogicStructs  tracked_struct.rs ↔ Model/Structs, CoreSpec  (C06)
    Props/GenLogicDG       Gen/LogicDG       runtime/dependency_graph.rs, runtime.rs
                                             ↔ Model/SyncDG                   (C14, C16–C19)
    Props/GenLogicProvisional Gen/LogicCycle  maybe_changed_after.rs: validate_provisional ↔ Model/CycleRev (C12, C14, C20)
    Props/GenLogicRuntime  Gen/LogicRuntime  runtime.rs, revision.rs, input.rs, input_field.rs, database.rs,
                                             setup_input_struct.rs (write-side revision / durability
                                             bookkeeping) ↔ Model/Core, Core3, CoreSpec, CoreAcc (C01, C02)

  This module only collects them (all theorems are in namespace `SalsaVerif.Props.GenLogic`).
-/
import SalsaVerif.Props.GenLogicVerify
import SalsaVerif.Props.GenLogicIntern
import SalsaVerif.Props.GenLogicCycle
import SalsaVerif.Props.GenLogicStructs
import SalsaVerif.Props.GenLogicDG
import SalsaVerif.Props.GenLogicRuntime
import SalsaVerif.Props.GenLogicProvisional
